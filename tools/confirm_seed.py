#!/usr/bin/env python3
"""Confirm a seeded change in a scratch worktree of /repo and, if confirmed, store it under /verif/seeded/<name>/.

usage: tools/confirm_seed.py <outdir(/tmp/mut/C09.out/m1)> <property> <demo_pkg_dir> [--env K=V ...] [--flags "..."] [--nosuite]

Checks: demo passes on the clean tree, fails with the patch; go build ./... has only the known baseline failures;
the BASELINE stable_pass tests still pass with the patch (unless --nosuite).
"""
import json, os, re, shutil, subprocess, sys, time

VERIF = os.path.dirname(os.path.dirname(os.path.abspath(__file__)))
ENV = dict(os.environ, GOFLAGS="-mod=mod", GOPROXY="off", GOSUMDB="off", GOTOOLCHAIN="local"); ENV.pop("GOWORK", None)


def sh(cmd, cwd, env=ENV, timeout=3000):
    p = subprocess.run(cmd, cwd=cwd, env=env, capture_output=True, text=True, timeout=timeout)
    return p.returncode, p.stdout + p.stderr


def main():
    a = sys.argv[1:]
    out, prop, demodir = a[0], a[1], a[2]
    extra_env, flags, nosuite, files_mode = {}, [], False, False
    forced_name = None
    i = 3
    while i < len(a):
        if a[i] == "--env":
            k, v = a[i + 1].split("=", 1); extra_env[k] = v; i += 2
        elif a[i] == "--flags":
            flags = a[i + 1].split(); i += 2
        elif a[i] == "--nosuite":
            nosuite = True; i += 1
        elif a[i] == "--files":
            files_mode = True; i += 1
        elif a[i] == "--name":
            forced_name = a[i + 1]; i += 2
        else:
            i += 1
    name = os.path.basename(os.path.dirname(out.rstrip("/"))).replace(".out", "") + "-" + os.path.basename(out.rstrip("/"))
    if forced_name:
        name = forced_name
    wt = f"/tmp/seedchk/{name}"
    os.makedirs("/tmp/seedchk", exist_ok=True)
    subprocess.run(["git", "-C", "/repo", "worktree", "remove", "--force", wt], capture_output=True)
    rc, o = sh(["git", "-C", "/repo", "worktree", "add", "-q", "--detach", wt, "HEAD"], "/")
    if rc != 0:
        print("worktree failed", o); sys.exit(2)
    env = dict(ENV, **extra_env)
    res = {"name": name, "property": prop, "demo_dir": demodir}
    try:
        demos = [f for f in os.listdir(out) if f.endswith("_test.go")]
        if not demos:
            print("no demo test file in", out); sys.exit(2)
        tests = []
        os.makedirs(os.path.join(wt, demodir), exist_ok=True)
        for d in demos:
            shutil.copy(os.path.join(out, d), os.path.join(wt, demodir, d))
            tests += re.findall(r"^func (Test\w+)\(", open(os.path.join(out, d)).read(), re.M)
        runre = "^(" + "|".join(tests) + ")$"
        cmd = ["go", "test", "-vet=off", "-count=1", "-run", runre] + flags + ["./" + demodir]
        if files_mode:
            # packages whose own TestMain never runs tests: compile the non-test sources plus the demo only
            srcs = sorted(os.path.join(demodir, f) for f in os.listdir(os.path.join(wt, demodir)) if f.endswith(".go") and not f.endswith("_test.go"))
            cmd = ["go", "test", "-vet=off", "-count=1", "-run", runre] + flags + srcs + [os.path.join(demodir, d) for d in demos]
        rc0, o0 = sh(cmd, wt, env)
        res["demo_clean_exit"] = rc0
        rc, o = sh(["git", "apply", "--whitespace=nowarn", os.path.join(out, "patch.diff")], wt)
        if rc != 0:
            print("patch does not apply on current HEAD:", o[-500:]); res["apply"] = "failed"; print(json.dumps(res)); sys.exit(3)
        rc1, o1 = sh(cmd, wt, env)
        res["demo_patched_exit"] = rc1
        res["demo_patched_tail"] = "\n".join([l for l in o1.splitlines() if "FAIL" in l or "Error" in l or "expected" in l][:12])
        for d in demos:
            os.remove(os.path.join(wt, demodir, d))
        rcb, ob = sh(["go", "build", "./..."], wt)
        bad = sorted(set(re.findall(r"^# (\S+)", ob, re.M)))
        res["build_failures"] = bad
        build_ok = set(bad) <= {"github.com/Oneledger/protocol/chains/bitcoin/test", "github.com/Oneledger/protocol/cmd/olfullnode"}
        suite_ok = None
        if not nosuite:
            rcs, os_ = sh([sys.executable, os.path.join(VERIF, "tools", "baseline_check.py"), wt], wt, timeout=4000)
            res["suite"] = os_.strip().splitlines()[:8]
            missing = [l.split("MISSING")[1].strip() for l in os_.splitlines() if "MISSING" in l and "event::TestTransitions" not in l]
            # tests that fail only because several suites run in parallel (fixed TCP port in rpc TestServer): re-run alone
            still = []
            for t in missing:
                pkg, test = t.split("::", 1)
                rel = "./" + pkg.replace("github.com/Oneledger/protocol/", "")
                ok1 = False
                for _ in range(3):
                    rct, _o = sh(["go", "test", "-vet=off", "-count=1", "-run", "^" + test.split("/")[0] + "$", rel], wt)
                    if rct == 0:
                        ok1 = True
                        break
                    time.sleep(3)
                if not ok1:
                    still.append(t)
            res["suite_missing_after_serial_rerun"] = still
            suite_ok = len(still) == 0
        res["confirmed"] = bool(rc0 == 0 and rc1 != 0 and build_ok and (suite_ok is not False))
        print(json.dumps(res, indent=1))
        if res["confirmed"]:
            dst = os.path.join(VERIF, "seeded", name)
            os.makedirs(dst, exist_ok=True)
            shutil.copy(os.path.join(out, "patch.diff"), dst)
            for d in demos:
                shutil.copy(os.path.join(out, d), dst)
            if os.path.exists(os.path.join(out, "notes.md")):
                shutil.copy(os.path.join(out, "notes.md"), dst)
            meta = {"property": prop, "name": name, "demo_package_dir": demodir, "demo_cmd": " ".join(cmd), "env": extra_env,
                    "needs_to_manifest": "see notes.md",
                    "confirmed": {"demo_passes_on_clean_tree": rc0 == 0, "demo_fails_with_patch": rc1 != 0, "build_failures_with_patch": bad,
                                  "baseline_stable_pass_with_patch": res.get("suite", "not run")},
                    "confirmed_at_repo_head": subprocess.run(["git", "-C", "/repo", "rev-parse", "--short", "HEAD"], capture_output=True, text=True).stdout.strip()}
            json.dump(meta, open(os.path.join(dst, "meta.json"), "w"), indent=1)
    finally:
        subprocess.run(["git", "-C", "/repo", "worktree", "remove", "--force", wt], capture_output=True)


if __name__ == "__main__":
    main()
