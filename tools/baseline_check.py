#!/usr/bin/env python3
"""Runs the repository's test suite (guard off: there is no guard) and checks that every test in
BASELINE.json's stable_pass list still passes. usage: tools/baseline_check.py [repo_dir]"""
import json, os, subprocess, sys
repo = sys.argv[1] if len(sys.argv) > 1 else "/repo"
env = dict(os.environ, GOFLAGS="-mod=mod", GOPROXY="off", GOSUMDB="off", GOTOOLCHAIN="local"); env.pop("GOWORK", None)
p = subprocess.run(["go", "test", "-json", "-vet=off", "-count=1", "-timeout", "25m", "./..."], cwd=repo, env=env, capture_output=True, text=True)
passed = set()
for l in p.stdout.splitlines():
    try:
        e = json.loads(l)
    except Exception:
        continue
    if e.get("Action") == "pass" and e.get("Test"):
        passed.add(e["Package"] + "::" + e["Test"])
want = json.load(open("/root/.vp/BASELINE.json"))["stable_pass"]
missing = [t for t in want if t not in passed]
print(f"stable_pass={len(want)} passed_now={len(passed)} missing={len(missing)}")
for t in missing[:50]:
    print("  MISSING", t)
sys.exit(1 if missing else 0)
