#!/usr/bin/env python3
"""Run every registered check against every seeded change and write seeded/RESULTS.md + seeded/results.json.
Each patch is applied to a scratch copy of /repo (never to /repo itself); one checker process per seed.
usage: tools/run_seeds.py [-j N] [extra_dir_with_mN_subdirs ...]"""
import concurrent.futures, json, os, re, shutil, subprocess, sys, tempfile
VERIF = os.path.dirname(os.path.dirname(os.path.abspath(__file__)))
jobs = 4
extra = []
a = sys.argv[1:]
while a:
    if a[0] == "-j":
        jobs = int(a[1]); a = a[2:]
    else:
        extra.append(a[0]); a = a[1:]
seeds = {}
sd = os.path.join(VERIF, "seeded")
for n in sorted(os.listdir(sd)):
    p = os.path.join(sd, n, "patch.diff")
    if os.path.exists(p):
        seeds[n] = p
for e in extra:
    for m in sorted(os.listdir(e)):
        p = os.path.join(e, m, "patch.diff")
        if os.path.exists(p):
            name = os.path.basename(e.rstrip("/")).replace(".out", "") + "-" + m
            seeds.setdefault(name, p)


def run(item):
    name, patch = item
    tmp = tempfile.mkdtemp(prefix="olseed-", dir="/var/tmp")
    try:
        repo = os.path.join(tmp, "repo"); vdir = os.path.join(tmp, "verif")
        shutil.copytree("/repo", repo, ignore=shutil.ignore_patterns(".git", "test_dbpath"))
        os.makedirs(vdir); shutil.copy(os.path.join(VERIF, "known_findings.json"), vdir)
        ap = subprocess.run(["git", "apply", "--whitespace=nowarn", patch], cwd=repo, capture_output=True, text=True)
        if ap.returncode != 0:
            ap = subprocess.run(["patch", "-p1", "-i", patch], cwd=repo, capture_output=True, text=True)
            if ap.returncode != 0:
                return name, {"error": "patch does not apply"}
        p = subprocess.run([os.path.join(VERIF, "bin", "olint"), "check", "-property", "all", "-repo", repo, "-verif", vdir], capture_output=True, text=True)
        out = p.stdout + p.stderr
        failed = re.findall(r"^FAIL (C\d\d)", out, re.M)
        undec = re.findall(r"^UNDECIDED (C\d\d)", out, re.M)
        rules = sorted(set(re.findall(r"^\s+rule=(\S+)", out, re.M)))
        return name, {"caught_by": failed, "undecided": undec, "rules": rules}
    finally:
        shutil.rmtree(tmp, ignore_errors=True)


res = {}
with concurrent.futures.ThreadPoolExecutor(jobs) as ex:
    for name, r in ex.map(run, sorted(seeds.items())):
        res[name] = r
        print(name, r.get("caught_by"), r.get("rules", r.get("error")), flush=True)
json.dump(res, open(os.path.join(sd, "results.json"), "w"), indent=1, sort_keys=True)
with open(os.path.join(sd, "RESULTS.md"), "w") as f:
    f.write("# Seeded changes vs. checks\n\nEach change compiles, keeps the 358 baseline tests green and breaks the property it was written for (see its notes.md).\n"
            "`caught by` = registered checks that exit 1 on the patched tree; `rules` = rule ids that fire.\n\n| seed | written against | caught by | rules |\n|---|---|---|---|\n")
    for n in sorted(res):
        r = res[n]
        f.write(f"| {n} | {n.split('-')[0]} | {', '.join(r.get('caught_by', [])) or ('**MISSED**' if 'error' not in r else r['error'])} | {', '.join(r.get('rules', []))} |\n")
missed = [n for n, r in res.items() if not r.get("caught_by")]
print("seeds:", len(res), "missed:", missed)
