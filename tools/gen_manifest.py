#!/usr/bin/env python3
"""Regenerates /verif/MANIFEST.json from the table below (kept valid at all times)."""
import json, os, sys
HERE = os.path.dirname(os.path.dirname(os.path.abspath(__file__)))

ENV = "GOFLAGS=-mod=vendor GOPROXY=off GOSUMDB=off GOTOOLCHAIN=local GOWORK=off"
SETUP = f"cd checker && env {ENV} go build -o ../bin/olint . && cd .. && ./bin/olint list"

# property -> (claim text, level_note, technique, design_ref)
CLAIMED = json.load(open(os.path.join(HERE, "tools", "claims.json")))
NOT_APPLICABLE = json.load(open(os.path.join(HERE, "tools", "not_applicable.json")))

checks = []
for pid in sorted(CLAIMED):
    c = CLAIMED[pid]
    checks.append({
        "property_id": pid,
        "quick_cmd": f"./bin/olint check -property {pid} -tier quick",
        "thorough_cmd": f"./bin/olint check -property {pid} -tier thorough",
        "evidence_file": f"evidence/{pid}.json",
        "replay_cmd_template": "./bin/olint replay {path}",
        "engine": "olint",
        "level_claimed": {"category": "other", "text": c["text"], "design_ref": c.get("design_ref", "DESIGN.md §3 " + pid)},
        "level_note": c["note"],
        "technique": c["technique"],
    })
m = {
    "version": 1,
    "setup_cmd": SETUP,
    "hooks": {
        "guard": "verif",
        "enable": "none needed: the checks are static and read /repo's working tree as it is (no instrumentation, no build tag in use)",
        "baseline_off_cmd": "cd /repo && GOFLAGS=-mod=mod GOPROXY=off GOSUMDB=off go test -vet=off -count=1 -timeout 25m ./...",
        "source_commits": [],
        "add_only": True,
    },
    "engines": [{
        "name": "olint",
        "path": "checker/",
        "serves_properties": sorted(CLAIMED),
        "kind_free_text": "repository-specific static analyser over go/packages + go/ssa + VTA call graph (golang.org/x/tools v0.29.0, vendored); rules per property in checker/cNN.go",
    }],
    "checks": checks,
    "notes": "Static analysis only. Exit 0 = every rule instance ok or listed in known_findings.json; exit 1 + VIOLATION line = a rule instance violated; exit 2 + UNDECIDED line = the analysis could not be run (load/type error inside the node closure, anchor symbol missing, rule matched fewer instances than its confirmed floor).",
    "not_applicable": [{"property_id": k, "reason": NOT_APPLICABLE[k]} for k in sorted(NOT_APPLICABLE) if k not in CLAIMED],
}
json.dump(m, open(os.path.join(HERE, "MANIFEST.json"), "w"), indent=1)
# validate
try:
    import jsonschema
    jsonschema.validate(m, json.load(open("/root/.vp/MANIFEST.schema.json")))
    print("MANIFEST.json valid;", len(checks), "checks,", len(m["not_applicable"]), "not applicable")
except ImportError:
    print("jsonschema not available; wrote MANIFEST.json")
ids = {json.loads(l)["id"] for l in open(os.path.join(HERE, "properties.jsonl"))}
missing = ids - set(CLAIMED) - set(NOT_APPLICABLE)
if missing:
    print("WARNING: properties neither claimed nor not_applicable:", sorted(missing)); sys.exit(1)
