#!/usr/bin/env python3
"""Apply a seeded patch to a scratch copy of /repo and run the named checks against it.
usage: tools/tryseed.py <patch.diff> <Cxx[,Cyy...]>"""
import os, shutil, subprocess, sys, tempfile
VERIF = os.path.dirname(os.path.dirname(os.path.abspath(__file__)))
patch, props = sys.argv[1], sys.argv[2]
tmp = tempfile.mkdtemp(prefix="olseed-", dir="/var/tmp")
try:
    repo = os.path.join(tmp, "repo"); vdir = os.path.join(tmp, "verif")
    shutil.copytree("/repo", repo, ignore=shutil.ignore_patterns(".git", "test_dbpath"))
    os.makedirs(vdir); shutil.copy(os.path.join(VERIF, "known_findings.json"), vdir)
    a = subprocess.run(["git", "apply", "--whitespace=nowarn", os.path.abspath(patch)], cwd=repo, capture_output=True, text=True)
    if a.returncode != 0:
        a = subprocess.run(["patch", "-p1", "-i", os.path.abspath(patch)], cwd=repo, capture_output=True, text=True)
        if a.returncode != 0:
            print("APPLY FAILED", a.stdout, a.stderr); sys.exit(3)
    p = subprocess.run([os.environ.get("OLINT_BIN", os.path.join(VERIF, "bin", "olint")), "check", "-property", props, "-repo", repo, "-verif", vdir], capture_output=True, text=True)
    for l in (p.stdout + p.stderr).splitlines():
        if not l.startswith("KNOWN-FINDING") and not l.startswith("VIOLATION"):
            print(l[:420])
    print("exit", p.returncode)
    sys.exit(p.returncode)
finally:
    shutil.rmtree(tmp, ignore_errors=True)
