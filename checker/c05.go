package main

// C05 At-most-once.

import (
	"go/token"
	"sort"
	"strings"

	"golang.org/x/tools/go/ssa"
)

func init() {
	register(&propertyDef{
		ID:    "C05",
		Title: "At-most-once: a signed transaction never takes effect twice",
		Explain: "Decides: (gate) in CheckTx and DeliverTx every handler step and the session start are reachable only on the not-found edge of the replay lookup, " +
			"whose key is the hash of the request's transaction bytes; (lookup) the lookup functions answer 'found' from the transaction index query on that hash; " +
			"(samebytes) the bytes the replay key is computed from are the bytes the signature covers, or are compared with the canonical re-serialisation; " +
			"(nonce) the OLVM nonce rule rejects both orderings of (state nonce, message nonce).",
		NotDecided: "behaviour of Tendermint's transaction indexer (may be disabled by configuration: node-local), the unbounded space of encodings",
		Run:        runC05,
	})
}

const tmTxLookup = "github.com/tendermint/tendermint/rpc/core.Tx"

// replayLookups: repo functions in package app that call the Tendermint tx-index query.
func replayLookups(p *Program) map[*ssa.Function]bool {
	res := map[*ssa.Function]bool{}
	for fn := range p.Fns {
		if !inRepo(fn) || fn.Blocks == nil {
			continue
		}
		allInstrs(fn, func(ins ssa.Instruction) {
			if calleeName(ins) == tmTxLookup {
				res[fn] = true
			}
		})
	}
	return res
}

func runC05(r *Run) {
	p := r.P
	p.initTxIface()
	checkPlainHashes(r)
	roots := p.Roots()
	all := replayLookups(p)
	lookups := map[*ssa.Function]bool{}
	for _, role := range []string{"check", "deliver"} {
		allInstrs(roots[role], func(ins ssa.Instruction) {
			if sc := staticCallee(ins); sc != nil && all[sc] {
				lookups[sc] = true
			}
		})
	}
	if len(lookups) == 0 {
		fail("no caller of %s found: replay lookup mechanism missing", tmTxLookup)
	}

	for _, role := range []string{"check", "deliver"} {
		fn := roots[role]
		name := fname(fn)
		reqTx := func(v ssa.Value) bool { // the request's Tx bytes, or a plain hash of exactly those bytes
			return isBytesOrHashOf(v, func(y ssa.Value) bool {
				pa := pathOf(y)
				return pa.Root == ssa.Value(fn.Params[0]) && pa.FieldString() == "Tx"
			})
		}
		// pass edges: lookup result "found" is false
		var lookupCalls []*ssa.Call
		allInstrs(fn, func(ins ssa.Instruction) {
			if c, ok := ins.(*ssa.Call); ok {
				if sc := c.Call.StaticCallee(); sc != nil && lookups[sc] {
					lookupCalls = append(lookupCalls, c)
				}
			}
		})
		var edges []Edge
		for _, lc := range lookupCalls {
			keyOK := false
			for _, a := range lc.Call.Args[1:] {
				if reqTx(a) {
					keyOK = true
				}
			}
			r.Check(keyOK, "C05.gate."+role+".key", name, "replay key from request bytes",
				"the replay lookup is keyed by the hash of exactly the request's transaction bytes (what Tendermint's index is keyed by)",
				"the replay lookup is not keyed by the hash of the raw request bytes: Tendermint indexes executed transactions by their received bytes, so an executed transaction would not be found again", p.ipos(lc))
			if !keyOK {
				continue
			}
			lc := lc
			edges = append(edges, condEdges(fn, func(cond ssa.Value, _ *ssa.If) int {
				return -boolCond(cond, func(v ssa.Value) bool {
					src, idx := tupleSource(v)
					if src != ssa.Value(lc) {
						return false
					}
					sig := lc.Call.Signature()
					if idx < 0 {
						return sig.Results().Len() == 1
					}
					return isBoolType(sig.Results().At(idx).Type())
				})
			})...)
		}
		live := reachWithout(fn, edges)
		n := 0
		allInstrs(fn, func(ins ssa.Instruction) {
			c, ok := ins.(*ssa.Call)
			if !ok {
				return
			}
			what := ""
			for _, m := range []string{"Validate", "ProcessCheck", "ProcessDeliver", "ProcessFee"} {
				if isHandlerMethodCall(c, m) {
					what = m
				}
			}
			if calleeName(c) == fnBeginTx {
				what = "BeginTxSession"
			}
			if what == "" {
				return
			}
			n++
			r.Check(len(edges) > 0 && !live[c.Block()], "C05.gate."+role, name, what+" behind the replay lookup",
				"reachable only on the not-found edge of the replay lookup",
				what+" is reachable without passing the not-found edge of the replay lookup: an already executed transaction runs again", p.ipos(c))
		})
		if n == 0 {
			fail("no handler steps found in %s", name)
		}

		// C05.samebytes
		checkSameBytes(r, fn, role, lookupCalls)
	}

	// ---- C05.lookup: semantics of the lookup functions
	for _, lf := range sortedFns(lookups) {
		checkLookupFn(r, lf)
	}
	r.Floor("C05.gate", 8)

	// ---- C05.nonce
	// the account nonce is the replay guard of OLVM transactions: it has to land in the state that is committed
	checkWithStateInPlace(r, "C05.nonce.persist", "NesterAccountKeeper", "vm.CommitStateDB", "data/balance.Store")
	checkNonce(r, "(*action/olvm.Transaction).validateEthTx")
	checkNonce(r, "(*vm.StateTransition).preCheck")
}

func checkLookupFn(r *Run, fn *ssa.Function) {
	p := r.P
	name := fname(fn)
	var q *ssa.Call
	allInstrs(fn, func(ins ssa.Instruction) {
		if c, ok := ins.(*ssa.Call); ok && calleeName(c) == tmTxLookup {
			q = c
		}
	})
	// the query hash derives from a parameter of the lookup function
	hashOK := isBytesOrHashOf(q.Call.Args[1], func(y ssa.Value) bool {
		prm, ok := y.(*ssa.Parameter)
		return ok && prm.Parent() == fn && prm != fn.Params[0]
	})
	r.Check(hashOK, "C05.lookup.key", name, "index query keyed by the argument",
		"the index query uses the argument itself or its plain hash", "the index query is not keyed by the function's argument (or its plain hash)", p.ipos(q))
	// every return whose bool result is the constant true is guarded by `reply != nil`; and some return yields true
	isReply := func(v ssa.Value) bool {
		src, idx := tupleSource(v)
		return src == ssa.Value(q) && idx == 0
	}
	nonNil := condEdges(fn, func(cond ssa.Value, _ *ssa.If) int {
		return -nilCond(cond, isReply)
	})
	live := reachWithout(fn, nonNil)
	foundTrue := false
	guarded := len(nonNil) > 0
	for _, ret := range returnsOf(fn) {
		for _, v := range ret.Results {
			if !isBoolType(v.Type()) {
				continue
			}
			c, isC := boolConst(v)
			if isC && !c {
				continue
			}
			foundTrue = true
			if isC && live[ret.Block()] {
				guarded = false
			}
			if !isC {
				// a computed boolean: must depend on the reply
				if !derivesFromCond(v, isReply) {
					guarded = false
				}
			}
		}
	}
	r.Check(foundTrue && guarded, "C05.lookup.found", name, "answers found iff the index has the transaction",
		"'found' is answered only when the index query returned a record, and can be answered",
		"the lookup never answers 'found', or answers it independently of the index query: replayed transactions pass", p.pos(fn.Pos()))
}

var plainHashes = map[string]bool{
	"utils.GetTransactionHash": true, "utils.SHA2": true, "crypto/sha256.Sum256": true,
	"github.com/tendermint/tendermint/crypto/tmhash.Sum": true,
}

// isBytesOrHashOf: v is a value satisfying base, or hash(base) for one of the plain hash functions (through
// array-to-slice conversions).
func isBytesOrHashOf(v ssa.Value, base func(ssa.Value) bool) bool {
	for d := 0; d < 6; d++ {
		if base(v) {
			return true
		}
		switch x := v.(type) {
		case *ssa.Call:
			if plainHashes[calleeName(x)] && len(x.Call.Args) == 1 {
				v = x.Call.Args[0]
				continue
			}
			return false
		case *ssa.Slice:
			v = x.X
		case *ssa.ChangeType:
			v = x.X
		case *ssa.Convert:
			v = x.X
		case *ssa.UnOp:
			if a, ok := x.X.(*ssa.Alloc); ok {
				if w := wholeStore(a); w != nil {
					v = w
					continue
				}
			}
			return false
		case *ssa.Alloc:
			if w := wholeStore(x); w != nil {
				v = w
				continue
			}
			return false
		default:
			return false
		}
	}
	return false
}

// derivesFromCond: boolean value (possibly a phi of short-circuit evaluation) depends on a value satisfying pred.
func derivesFromCond(v ssa.Value, pred func(ssa.Value) bool) bool {
	for _, d := range boolDeps(v) {
		if derivesFrom(d, pred) {
			return true
		}
	}
	return false
}

// checkSameBytes: replay key bytes vs signed bytes.
func checkSameBytes(r *Run, fn *ssa.Function, role string, lookupCalls []*ssa.Call) {
	p := r.P
	name := fname(fn)
	// (Tendermint's index is keyed by the hash of the received bytes, so the key itself cannot be changed; the only
	// structural repair is to refuse non-canonical encodings.)
	canonical := func(v ssa.Value) bool {
		return derivesFrom(v, func(y ssa.Value) bool {
			c, ok := y.(*ssa.Call)
			if !ok {
				return false
			}
			n := calleeName(c)
			return n == "(*action.RawTx).RawBytes" || n == "(*action.SignedTx).SignedBytes" || strings.HasSuffix(n, "serialize.Serializer).Serialize")
		})
	}
	altA := false
	// Alternative B: an equality test between the request bytes and a canonical re-serialisation guards the handler steps.
	eqEdges := condEdges(fn, func(cond ssa.Value, _ *ssa.If) int {
		return boolCond(cond, func(v ssa.Value) bool {
			c, ok := v.(*ssa.Call)
			if !ok || calleeName(c) != "bytes.Equal" {
				return false
			}
			a, b := c.Call.Args[0], c.Call.Args[1]
			isReq := func(x ssa.Value) bool {
				pa := pathOf(x)
				return pa.Root == ssa.Value(fn.Params[0]) && pa.FieldString() == "Tx"
			}
			return (isReq(a) && canonical(b)) || (isReq(b) && canonical(a))
		})
	})
	altB := false
	if len(eqEdges) > 0 {
		live := reachWithout(fn, eqEdges)
		altB = true
		allInstrs(fn, func(ins ssa.Instruction) {
			if c, ok := ins.(*ssa.Call); ok && (isHandlerMethodCall(c, "ProcessDeliver") || isHandlerMethodCall(c, "ProcessCheck")) && live[c.Block()] {
				altB = false
			}
		})
	}
	r.Check(altA || altB, "C05.samebytes", name, "replay key bytes == signed bytes",
		"the replay key is computed from the canonical serialisation the signature covers (or the request bytes are compared with it)",
		"the replay key hashes the received bytes while the signature covers the re-serialised RawTx: any re-encoding of an executed transaction "+
			"(whitespace, key order, extra or duplicate JSON fields) has a fresh hash and still verifies", p.pos(fn.Pos()))
}

// checkNonce: one-sided comparison rule on (state nonce, message nonce).
func checkNonce(r *Run, fnName string) {
	p := r.P
	fn := p.MustFn(fnName)
	name := fname(fn)
	isStateNonce := func(v ssa.Value) bool {
		c, ok := v.(*ssa.Call)
		return ok && c.Call.IsInvoke() && c.Call.Method.Name() == "GetNonce" || ok && strings.HasSuffix(calleeName(c), ".GetNonce")
	}
	isMsgNonce := func(v ssa.Value) bool {
		c, ok := v.(*ssa.Call)
		if !ok {
			return false
		}
		n := calleeName(c)
		return strings.HasSuffix(n, ".Nonce") || (c.Call.IsInvoke() && c.Call.Method.Name() == "Nonce")
	}
	// collect rejecting comparisons: If on (st OP msg) whose taken edge leads only to returns with non-nil error
	rejectsLow, rejectsHigh := false, false // state > msg rejected ; state < msg rejected
	found := 0
	var scan func(f *ssa.Function, depth int)
	seen := map[*ssa.Function]bool{}
	scan = func(f *ssa.Function, depth int) {
		if seen[f] || f.Blocks == nil {
			return
		}
		seen[f] = true
		for _, b := range f.Blocks {
			scanNonceBlock(b, isStateNonce, isMsgNonce, &found, &rejectsLow, &rejectsHigh)
		}
		if depth >= 2 {
			return
		}
		// same-package helpers whose error verdict the caller passes on: `return g(..)` or `if err := g(..); err != nil { return err }`
		allInstrs(f, func(ins ssa.Instruction) {
			c, ok := ins.(*ssa.Call)
			if !ok {
				return
			}
			g := c.Call.StaticCallee()
			if g == nil || g.Pkg != f.Pkg || !isErrorType(c.Type()) || !errVerdictPassedOn(f, c) {
				return
			}
			scan(g, depth+1)
		})
	}
	scan(fn, 0)
	if found == 0 {
		r.Viol("C05.nonce", name, "nonce comparison", "no comparison between the state nonce and the message nonce found", p.pos(fn.Pos()), nil)
		return
	}
	r.Check(rejectsLow, "C05.nonce", name, "state nonce > message nonce rejected", "a used nonce is rejected", "a transaction whose nonce is below the account nonce is not rejected", p.pos(fn.Pos()))
	r.Check(rejectsHigh, "C05.nonce", name, "state nonce < message nonce rejected", "a nonce gap is rejected",
		"only nonce-too-low is rejected: a transaction with a nonce gap executes, the account nonce moves to stateNonce+1 <= message nonce, and the same signed transaction is executable again", p.pos(fn.Pos()))
}

func scanNonceBlock(b *ssa.BasicBlock, isStateNonce, isMsgNonce func(ssa.Value) bool, found *int, rejectsLow, rejectsHigh *bool) {
	iff := blockIf(b)
	if iff == nil {
		return
	}
	v, flip := stripNot(iff.Cond)
	bo, ok := v.(*ssa.BinOp)
	if !ok {
		return
	}
	var op token.Token
	switch {
	case isStateNonce(bo.X) && isMsgNonce(bo.Y):
		op = bo.Op
	case isMsgNonce(bo.X) && isStateNonce(bo.Y):
		op = mirror(bo.Op)
	default:
		return
	}
	*found++
	// relation (state OP msg) holds on the true edge (or its negation when flipped)
	trueRejects := edgeRejects(b.Succs[0])
	falseRejects := edgeRejects(b.Succs[1])
	if flip {
		trueRejects, falseRejects = falseRejects, trueRejects
	}
	rel := func(o token.Token, rejects bool) {
		if !rejects {
			return
		}
		switch o {
		case token.GTR:
			*rejectsLow = true
		case token.GEQ:
			*rejectsLow = true
		case token.LSS:
			*rejectsHigh = true
		case token.LEQ:
			*rejectsHigh = true
		case token.NEQ:
			*rejectsLow, *rejectsHigh = true, true
		}
	}
	rel(op, trueRejects)
	rel(negate(op), falseRejects)
}

// errVerdictPassedOn: the error returned by call c is handed to f's caller: returned directly, or every path on which it is
// non-nil ends in a return with a non-nil error.
func errVerdictPassedOn(f *ssa.Function, c *ssa.Call) bool {
	for _, ret := range returnsOf(f) {
		for _, v := range ret.Results {
			if v == ssa.Value(c) {
				return true
			}
		}
	}
	edges := condEdges(f, func(cond ssa.Value, _ *ssa.If) int {
		return -nilCond(cond, func(y ssa.Value) bool { return y == ssa.Value(c) })
	})
	for _, e := range edges {
		if edgeRejects(e.To()) {
			return true
		}
	}
	return false
}

func mirror(op token.Token) token.Token {
	switch op {
	case token.GTR:
		return token.LSS
	case token.LSS:
		return token.GTR
	case token.GEQ:
		return token.LEQ
	case token.LEQ:
		return token.GEQ
	}
	return op
}

func negate(op token.Token) token.Token {
	switch op {
	case token.GTR:
		return token.LEQ
	case token.LSS:
		return token.GEQ
	case token.GEQ:
		return token.LSS
	case token.LEQ:
		return token.GTR
	case token.EQL:
		return token.NEQ
	case token.NEQ:
		return token.EQL
	}
	return op
}

// edgeRejects: every path from block b ends in a return whose error is provably non-nil (without passing another branch
// that could succeed): approximated as "b itself ends in such a return".
func edgeRejects(b *ssa.BasicBlock) bool {
	for steps := 0; steps < 4; steps++ {
		if len(b.Instrs) == 0 {
			return false
		}
		switch t := b.Instrs[len(b.Instrs)-1].(type) {
		case *ssa.Return:
			return !errMayBeNil(t)
		case *ssa.Jump:
			b = b.Succs[0]
		default:
			return false
		}
	}
	return false
}

// checkPlainHashes: the repository functions the key rules treat as "plain hash of the argument" really are: every
// return is a library hash (or another verified plain hash) of exactly the parameter, through conversions only.
func checkPlainHashes(r *Run) {
	p := r.P
	var names []string
	for n := range plainHashes {
		if strings.HasPrefix(n, "utils.") {
			names = append(names, n)
		}
	}
	sort.Strings(names)
	for _, n := range names {
		fn := p.MustFn(n)
		okv := len(fn.Params) == 1
		nRet := 0
		for _, ret := range returnsOf(fn) {
			nRet++
			res := ret.Results[0]
			isParam := func(y ssa.Value) bool { return y == ssa.Value(fn.Params[0]) }
			if isParam(res) || !isBytesOrHashOf(res, isParam) {
				okv = false
			}
		}
		r.Check(okv && nRet > 0, "C05.hashfn", n, "the replay key is the hash of exactly the bytes it is given", "hash(param) through conversions only",
			"the key function no longer hashes exactly its argument (trimmed, re-encoded or partial input): the node's key differs from the key under which Tendermint indexed the transaction, so a byte-identical replay is not found", p.pos(fn.Pos()))
	}
}
