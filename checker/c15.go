package main

// C15 Cross-chain lock/redeem.

import (
	"fmt"
	"go/token"
	"strings"

	"golang.org/x/tools/go/ssa"
)

const (
	fnTrkExists = "(*data/ethereum.TrackerStore).Exists"
	fnTrkSet    = "(*data/ethereum.TrackerStore).Set"
	fnTrkPrefix = "(*data/ethereum.TrackerStore).WithPrefixType"
	fnAddVote   = "(*data/ethereum.Tracker).AddVote"
	fnFinalized = "(*data/ethereum.Tracker).Finalized"
	fnFailed    = "(*data/ethereum.Tracker).Failed"
)

func init() {
	register(&propertyDef{
		ID:    "C15",
		Title: "Cross-chain lock/redeem: threshold-gated, exactly-once mint and refund",
		Explain: "Decides on every path: (dedupe) lock handlers create the ongoing tracker only past the not-exists edges of the ongoing and passed stores for the hash of the submitted Ethereum transaction, redeem handlers likewise and only after both debits succeeded (a failed tracker may be retried, as the lock handler does explicitly); " +
			"(finality) a report adds a vote only when the tracker is neither finalized nor failed, mint/burn run only on the Finalized() edge evaluated after the vote, refund only on the Failed() edge; " +
			"(votes) AddVote writes the slot named by the index only past witness[index]==sender and the not-voted edge, with the index bounded above; Finalized/Failed equal votes >= floor(2n/3)+1 for every n <= 64 (expression evaluated over the SSA of the two functions); " +
			"(mint) amount and beneficiary of mint and refund derive from the tracker (its signed Ethereum transaction and its process owner), never from the finality report, and the supply counter moves by the same coin; " +
			"(selectors) no tracker-store selection is used after another selection on the same store.",
		NotDecided: "that the supply counter equals the circulating amount (arithmetic over histories); Ethereum-side validity of the locked transaction",
		Run:        runC15,
	})
}

func ethConst(p *Program, name string) int64 { return constValue(p, Mod+"/data/ethereum", name) }

// selectedStore: v is ctx.ETHTrackers.WithPrefixType(<const k>) (chained selector call).
func selectedStore(k int64) VPred {
	return func(v ssa.Value) bool {
		c, ok := v.(*ssa.Call)
		if !ok || calleeName(c) != fnTrkPrefix {
			return false
		}
		got, isC := intConst(c.Call.Args[1])
		return isC && got == k
	}
}

func runC15(r *Run) {
	checkAllStores(r, "C15.allstores", "(*data/ethereum.TrackerStore)", "the same Ethereum transaction can back a second tracker while the first one sits in that store")
	p := r.P
	ongoing, passed := ethConst(p, "PrefixOngoing"), ethConst(p, "PrefixPassed")
	nameOfTx := func(field string) VPred {
		f := msgF(p, field)
		return func(v ssa.Value) bool { return derivesFrom(v, func(y ssa.Value) bool { return f(y) }) }
	}
	setOngoing := callsToWith([]string{fnTrkSet}, selectedStore(ongoing))
	notIn := func(label string, k int64, txField string) GuardSpec {
		return boolCallG("no tracker in the "+label+" store for hash(msg."+txField+")", false, []string{fnTrkExists}, selectedStore(k), nameOfTx(txField))
	}
	dup := "the same external transaction can back two trackers (second mint / vote reset)"
	for _, h := range []struct{ key, field string }{{"ETH_LOCK", "ETHTxn"}, {"ERC20_LOCK", "ETHTxn"}} {
		e := p.deliverEntry(h.key)
		r.guardOb("C15.dedupe", e, "ongoing tracker creation", setOngoing, notIn("ongoing", ongoing, h.field), dup)
		r.guardOb("C15.dedupe", e, "ongoing tracker creation", setOngoing, notIn("passed", passed, h.field), dup)
	}
	for _, h := range []struct{ key, field string }{{"ETH_REDEEM", "ETHTxn"}, {"ERC20_REDEEM", "ETHTxn"}} {
		e := p.deliverEntry(h.key)
		for _, s := range []struct {
			l string
			k int64
		}{{"ongoing", ongoing}, {"passed", passed}} {
			r.guardOb("C15.dedupe", e, "ongoing tracker creation", setOngoing, notIn(s.l, s.k, h.field), dup)
		}
		// both debits (user and supply counter) succeeded before the tracker exists
		debits := allCalls(e, fnBalMinus)
		r.Check(len(debits) >= 2, "C15.redeem", fname(e), "user and supply counter are debited", fmt.Sprintf("%d debits", len(debits)),
			"the redeem handler no longer debits both the redeemer and the wrapped-supply counter", p.pos(e.Pos()))
		for i, d := range debits {
			d := d
			g := &CallGuard{Name: fmt.Sprintf("debit#%d succeeded", i), Callees: []string{fnBalMinus}, ErrOnly: true, ArgOK: func(c *ssa.Call) bool { return c == d }}
			r.guardOb("C15.redeem", e, "ongoing tracker creation", setOngoing, g, "a redeem tracker exists (and can be refunded) although the tokens were not debited first")
		}
	}

	// ---- finality report
	cf := p.deliverEntry("ETH_REPORT_FINALITY_MINT")
	votes := allCalls(cf, fnAddVote)
	if len(votes) == 0 {
		r.Viol("C15.finality", fname(cf), "AddVote", "the finality handler no longer records votes through Tracker.AddVote", p.pos(cf.Pos()), nil)
		return
	}
	beforeVote := func(c *ssa.Call) bool {
		for _, v := range votes {
			if !dominatesInstr(c, v) {
				return false
			}
		}
		return true
	}
	afterVote := func(c *ssa.Call) bool {
		// every path to the call passes one of the AddVote calls: remove all AddVote blocks' out-edges
		var rm []Edge
		for _, v := range votes {
			for i := range v.Block().Succs {
				rm = append(rm, Edge{v.Block(), i, nil})
			}
		}
		return !reachWithout(c.Parent(), rm)[c.Block()]
	}
	isVote := callsTo(fnAddVote)
	r.guardOb("C15.finality", cf, "AddVote", isVote, &CallGuard{Name: "not yet finalized (checked before the vote)", Callees: []string{fnFinalized}, Want: false, ArgOK: beforeVote},
		"reports after the threshold keep changing the tracker: a finalized lock can be minted again")
	r.guardOb("C15.finality", cf, "AddVote", isVote, &CallGuard{Name: "not yet failed (checked before the vote)", Callees: []string{fnFailed}, Want: false, ArgOK: beforeVote},
		"reports after failure keep changing the tracker: a failed redeem can be refunded again")
	mintFns := []string{"action/eth.mintTokens", "action/eth.mintERC20tokens", "action/eth.burnTokens", "action/eth.burnERC20Tokens"}
	failFns := []string{"action/eth.refundTokens", "action/eth.failedLock"}
	for _, n := range append(append([]string{}, mintFns...), failFns...) {
		p.MustFn(n)
	}
	r.guardOb("C15.finality", cf, "mint / burn", callsTo(mintFns...), &CallGuard{Name: "Finalized() after the vote", Callees: []string{fnFinalized}, Want: true, ArgOK: afterVote},
		"tokens are minted (or a redeem released) without more than two thirds of the witnesses having reported success")
	r.guardOb("C15.finality", cf, "refund / failed lock", callsTo(failFns...), &CallGuard{Name: "Failed() after the vote", Callees: []string{fnFailed}, Want: true, ArgOK: afterVote},
		"a redeem is refunded without more than two thirds of the witnesses having reported failure")
	// the vote recorded is the message's
	for _, v := range votes {
		r.Check(msgF(p, "ValidatorAddress")(v.Call.Args[1]) && msgF(p, "VoteIndex")(v.Call.Args[2]), "C15.finality", fname(cf), "AddVote(msg.ValidatorAddress, msg.VoteIndex, ...)",
			"the vote is recorded for the reporting (signing) witness", "the vote is not recorded with the message's validator address and index", p.ipos(v))
	}
	// the tracker voted on is the ongoing tracker named in the message
	if g := firstCall(cf, "(*data/ethereum.TrackerStore).Get"); g != nil {
		r.Check(selectedStore(ongoing)(g.Call.Args[0]) && msgF(p, "TrackerName")(g.Call.Args[1]), "C15.finality", fname(cf), "tracker = ongoing[msg.TrackerName]",
			"the report acts on the ongoing tracker it names", "the report does not load the ongoing tracker named by the message", p.ipos(g))
	}

	checkAddVote(r)
	checkThresholds(r)
	checkMint(r)

	// selector discipline for the tracker stores (handlers, transitions, EndBlock driver)
	singles := singletonTypes(p)
	sels := selectorMethods(p, singles)
	scope := map[*ssa.Function]bool{}
	for fn := range p.Fns {
		if !inRepo(fn) || fn.Blocks == nil {
			continue
		}
		switch fnPkg(fn).Path() {
		case Mod + "/action/eth", Mod + "/event", Mod + "/data/ethereum":
			scope[fn] = true
		}
	}
	scope[p.MustFn("app.doEthTransitions")] = true
	checkSelectorDisciplineAs(r, "C15.selector", sels, scope)
	checkRefundParser(r)
	checkVotePersisted(r)
	checkTrackerIdentity(r)
	r.Floor("C15.", 40)
}

func checkAddVote(r *Run) {
	p := r.P
	fn := p.MustFn(fnAddVote)
	name := fname(fn)
	// the slot write
	var slot *ssa.Store
	allInstrs(fn, func(ins ssa.Instruction) {
		if st, ok := ins.(*ssa.Store); ok {
			if ia, ok := st.Addr.(*ssa.IndexAddr); ok && strings.HasSuffix(pathOf(ia.X).FieldString(), "FinalityVotes") {
				slot = st
			}
		}
	})
	if slot == nil {
		r.Viol("C15.votes", name, "slot write", "AddVote no longer writes FinalityVotes[index]", p.pos(fn.Pos()), nil)
		return
	}
	ia := slot.Addr.(*ssa.IndexAddr)
	idxOK := derivesFrom(ia.Index, func(y ssa.Value) bool { return y == ssa.Value(fn.Params[2]) })
	r.Check(idxOK, "C15.votes", name, "written slot is the index parameter", "FinalityVotes[index]", "the written slot is not the checked index", p.ipos(slot))
	wEq := eqG("Witnesses[index] == sender", true, func(v ssa.Value) bool {
		pa := pathOf(v)
		if !strings.Contains(pa.FieldString(), "Witnesses") || len(pa.Indices) != 1 {
			return false
		}
		return derivesFrom(pa.Indices[0], func(y ssa.Value) bool { return y == ssa.Value(fn.Params[2]) })
	}, paramIs(fn, 1))
	e := wEq.Edges(p, fn)
	r.Check(len(e) > 0 && !reachWithout(fn, e)[slot.Block()], "C15.votes", name, "slot write behind Witnesses[index] == sender",
		"only the witness recorded at that position can fill the slot", "a slot can be filled by an address that is not the witness recorded at that index (non-witness votes, or one witness filling several slots)", p.ipos(slot))
	// not voted
	nv := condEdges(fn, func(cond ssa.Value, _ *ssa.If) int {
		return -boolCond(cond, func(v ssa.Value) bool {
			s, i := tupleSource(v)
			c, ok := s.(*ssa.Call)
			return ok && i == 1 && calleeName(c) == "(*data/ethereum.Tracker).CheckIfVoted" && paramIs(fn, 1)(c.Call.Args[1])
		})
	})
	r.Check(len(nv) > 0 && !reachWithout(fn, nv)[slot.Block()], "C15.votes", name, "slot write behind not-voted(sender)",
		"a witness that already voted is refused", "a witness can vote again (repeated votes count)", p.ipos(slot))
	// upper bound
	ub := cmpG("index < len(Witnesses)", func(v ssa.Value) bool {
		return derivesFrom(v, func(y ssa.Value) bool { return y == ssa.Value(fn.Params[2]) })
	}, token.LSS, func(v ssa.Value) bool {
		c, ok := v.(*ssa.Call)
		return ok && calleeName(c) == "builtin:len" && strings.HasSuffix(pathOf(c.Call.Args[0]).FieldString(), "Witnesses")
	})
	eu := ub.Edges(p, fn)
	r.Check(len(eu) > 0 && !reachWithout(fn, eu)[slot.Block()], "C15.votes", name, "index bounded by the witness count",
		"index < len(Witnesses) before the slot is touched", "the vote index is not bounded by the number of witnesses", p.ipos(slot))
	// CheckIfVoted looks at the sender's own position in Witnesses and that position's vote
	cv := p.MustFn("(*data/ethereum.Tracker).CheckIfVoted")
	okCV := false
	allInstrs(cv, func(ins ssa.Instruction) {
		if ia2, ok := ins.(*ssa.IndexAddr); ok && strings.HasSuffix(pathOf(ia2.X).FieldString(), "FinalityVotes") {
			okCV = true
		}
	})
	eqSender := eqG("Witnesses[i] == node", true, func(v ssa.Value) bool {
		return strings.Contains(pathOf(v).FieldString(), "Witnesses") || isRangeElemOf(v, "Witnesses")
	}, paramIs(cv, 1))
	r.Check(okCV && len(eqSender.Edges(p, cv)) > 0, "C15.votes", fname(cv), "voted = FinalityVotes[position of the sender among Witnesses] > 0",
		"the not-voted test looks at the sender's own slot", "CheckIfVoted no longer derives the sender's slot from the witness list", p.pos(cv.Pos()))
}

func isRangeElemOf(v ssa.Value, field string) bool {
	return derivesFrom(v, func(y ssa.Value) bool {
		return strings.HasSuffix(pathOf(y).FieldString(), field) || strings.Contains(pathOf(y).FieldString(), field+".")
	})
}

// checkThresholds: evaluate Finalized/Failed over n witnesses and v votes.
func checkThresholds(r *Run) {
	p := r.P
	for _, spec := range []struct {
		fn  string
		idx int
	}{{fnFinalized, 0}, {fnFailed, 1}} {
		fn := p.MustFn(spec.fn)
		rets := returnsOf(fn)
		if len(rets) != 1 {
			r.Viol("C15.threshold", fname(fn), "votes >= floor(2n/3)+1", "unexpected shape (several returns)", p.pos(fn.Pos()), nil)
			continue
		}
		bad := ""
		tested := 0
		for n := int64(0); n <= 64 && bad == ""; n++ {
			for v := int64(0); v <= n; v++ {
				env := func(x ssa.Value) (int64, bool) {
					switch y := x.(type) {
					case *ssa.Call:
						if calleeName(y) == "builtin:len" && strings.HasSuffix(pathOf(y.Call.Args[0]).FieldString(), "Witnesses") {
							return n, true
						}
					case *ssa.Extract:
						if c, ok := y.Tuple.(*ssa.Call); ok && calleeName(c) == "(*data/ethereum.Tracker).GetVotes" {
							if y.Index == spec.idx {
								return v, true
							}
							return 0, true // the other tally is irrelevant; any value must give the same answer
						}
					}
					return 0, false
				}
				got, ok := evalBool(rets[0].Results[0], env)
				if !ok {
					bad = "expression not evaluable (contains something else than integer arithmetic over len(Witnesses) and GetVotes())"
					break
				}
				tested++
				want := v >= (2*n)/3+1
				if got != want {
					bad = fmt.Sprintf("n=%d votes=%d: returns %v, expected %v", n, v, got, want)
					break
				}
			}
		}
		r.Check(bad == "", "C15.threshold", fname(fn), "votes >= floor(2n/3)+1",
			fmt.Sprintf("holds for all %d (n, votes) pairs with n <= 64", tested),
			"the threshold function differs from 'more than two thirds of the recorded witnesses': "+bad, p.pos(fn.Pos()))
		// it must read the right tally
		uses := false
		allInstrs(fn, func(ins ssa.Instruction) {
			if ex, ok := ins.(*ssa.Extract); ok && ex.Index == spec.idx {
				if c, ok := ex.Tuple.(*ssa.Call); ok && calleeName(c) == "(*data/ethereum.Tracker).GetVotes" && len(*ex.Referrers()) > 0 {
					uses = true
				}
			}
		})
		r.Check(uses, "C15.threshold", fname(fn), "reads its own tally", "uses the matching component of GetVotes()", "the threshold is evaluated on the wrong tally", p.pos(fn.Pos()))
	}
	// GetVotes: yes = entries equal to 1, no = entries equal to 2; AddVote writes 1 for true and 2 for false
	gv := p.MustFn("(*data/ethereum.Tracker).GetVotes")
	consts := map[int64]bool{}
	allInstrs(gv, func(ins ssa.Instruction) {
		if bo, ok := ins.(*ssa.BinOp); ok && bo.Op == token.EQL {
			if k, isC := intConst(bo.Y); isC {
				consts[k] = true
			}
		}
	})
	r.Check(consts[1] && consts[2], "C15.threshold", fname(gv), "tallies entries 1 (yes) and 2 (no)", "counts the two vote codes", "GetVotes no longer counts the codes AddVote writes", p.pos(gv.Pos()))
}

// evalInt / evalBool: constant propagation over a pure integer expression DAG.
func evalInt(v ssa.Value, env func(ssa.Value) (int64, bool)) (int64, bool) {
	if k, ok := env(v); ok {
		return k, true
	}
	switch x := v.(type) {
	case *ssa.Const:
		return intConst(x)
	case *ssa.BinOp:
		a, ok1 := evalInt(x.X, env)
		b, ok2 := evalInt(x.Y, env)
		if !ok1 || !ok2 {
			return 0, false
		}
		switch x.Op {
		case token.ADD:
			return a + b, true
		case token.SUB:
			return a - b, true
		case token.MUL:
			return a * b, true
		case token.QUO:
			if b == 0 {
				return 0, false
			}
			return a / b, true
		case token.REM:
			if b == 0 {
				return 0, false
			}
			return a % b, true
		}
	case *ssa.Convert:
		return evalInt(x.X, env)
	case *ssa.ChangeType:
		return evalInt(x.X, env)
	}
	return 0, false
}

func evalBool(v ssa.Value, env func(ssa.Value) (int64, bool)) (bool, bool) {
	switch x := v.(type) {
	case *ssa.Const:
		return boolConst(x)
	case *ssa.UnOp:
		if x.Op == token.NOT {
			b, ok := evalBool(x.X, env)
			return !b, ok
		}
	case *ssa.BinOp:
		a, ok1 := evalInt(x.X, env)
		b, ok2 := evalInt(x.Y, env)
		if !ok1 || !ok2 {
			return false, false
		}
		switch x.Op {
		case token.GEQ:
			return a >= b, true
		case token.GTR:
			return a > b, true
		case token.LEQ:
			return a <= b, true
		case token.LSS:
			return a < b, true
		case token.EQL:
			return a == b, true
		case token.NEQ:
			return a != b, true
		}
	}
	return false, false
}

func checkMint(r *Run) {
	p := r.P
	for _, spec := range []struct{ fn, parse string }{
		{"action/eth.mintTokens", "chains/ethereum.ParseLock"},
		{"action/eth.mintERC20tokens", ""},
		{"action/eth.refundTokens", "chains/ethereum.ParseRedeem"},
	} {
		fn := p.MustFn(spec.fn)
		name := fname(fn)
		trk, rep := fn.Params[1], fn.Params[2]
		fromReport := func(v ssa.Value) bool {
			return derivesFrom(v, func(y ssa.Value) bool { return y == ssa.Value(rep) || pathOf(y).Root == ssa.Value(rep) })
		}
		fromTracker := func(field string) VPred {
			return func(v ssa.Value) bool {
				return derivesFrom(v, func(y ssa.Value) bool {
					pa := pathOf(y)
					return pa.Root == ssa.Value(trk) && strings.HasSuffix(pa.FieldString(), field)
				})
			}
		}
		credits := []*ssa.Call{}
		allInstrs(fn, func(ins ssa.Instruction) {
			if c, ok := ins.(*ssa.Call); ok && calleeName(c) == fnBalAdd {
				credits = append(credits, c)
			}
		})
		r.Check(len(credits) == 2, "C15.mint", name, "beneficiary and supply counter credited", fmt.Sprintf("%d credits", len(credits)),
			"mint/refund no longer credits exactly the beneficiary and the wrapped-supply counter", p.pos(fn.Pos()))
		if len(credits) != 2 {
			continue
		}
		for i, c := range credits {
			r.Check(!fromReport(c.Call.Args[1]) && !fromReport(c.Call.Args[2]), "C15.mint", name, fmt.Sprintf("credit#%d independent of the finality report", i),
				"recipient and amount do not derive from the witness's report", "recipient or amount of the credit is taken from the finality report: the witness whose report crosses the threshold decides who receives how much", p.ipos(c))
			r.Check(fromTracker("SignedETHTx")(c.Call.Args[2]), "C15.mint", name, fmt.Sprintf("credit#%d amount from tracker.SignedETHTx", i),
				"the amount is parsed from the Ethereum transaction recorded in the tracker", "the credited amount does not derive from the tracker's recorded Ethereum transaction", p.ipos(c))
		}
		// one of the two credits goes to tracker.ProcessOwner, the other to the configured supply address, same coin
		owner, supply := -1, -1
		for i, c := range credits {
			if fromTracker("ProcessOwner")(c.Call.Args[1]) {
				owner = i
			}
			if derivesFrom(c.Call.Args[1], func(y ssa.Value) bool { return strings.HasSuffix(pathOf(y).FieldString(), "TotalSupplyAddr") }) {
				supply = i
			}
		}
		r.Check(owner >= 0, "C15.mint", name, "beneficiary is tracker.ProcessOwner", "credited to the account that submitted the lock/redeem",
			"the beneficiary is not the tracker's process owner", p.ipos(credits[0]))
		r.Check(supply >= 0 && owner >= 0 && owner != supply && samePath(credits[owner].Call.Args[2], credits[supply].Call.Args[2]), "C15.mint", name, "supply counter moves by the same coin",
			"beneficiary and supply counter are credited with one coin datum", "the wrapped-supply counter is not updated with the same coin as the beneficiary", p.ipos(credits[len(credits)-1]))
	}
}
