package main

// C06 Failed transactions are atomic no-ops: session discipline rules.

import (
	"fmt"
	"go/types"
	"strings"

	"golang.org/x/tools/go/ssa"
)

const (
	fnBeginTx   = "(*storage.State).BeginTxSession"
	fnCommitTx  = "(*storage.State).CommitTxSession"
	fnDiscardTx = "(*storage.State).DiscardTxSession"
	fnStateSet  = "(*storage.State).Set"
	fnStateDel  = "(*storage.State).Delete"
	fnStateGet  = "(*storage.State).Get"
	fnStateEx   = "(*storage.State).Exists"
	fnStateWr   = "(storage.State).Write"
	fnStateCmt  = "(*storage.State).Commit"
	fnCSSet     = "(*storage.ChainState).Set"
	fnCSDel     = "(*storage.ChainState).Delete"
	fnCSCommit  = "(*storage.ChainState).Commit"
)

func init() {
	register(&propertyDef{
		ID:    "C06",
		Title: "Failed transactions are atomic no-ops",
		Explain: "Decides the structural necessary conditions of atomicity: (session) in every function that opens a tx session, " +
			"each loop iteration/path closes it with exactly one Commit or Discard, CommitTxSession is reachable only on the edge where the " +
			"handler result AND the fee result are true, ProcessFee runs inside the session, the response code derives from the same conjunction; " +
			"(bypass) only package app and registered ext-app block functions may open/commit/discard sessions, commit state or swap the gas store, " +
			"and nothing but State.Write writes the IAVL tree; (overlay) State.Set/Delete write the session overlay whenever one is open.",
		NotDecided: "equality of application hashes with the failed transaction removed; block gas total behaviour; in-memory caches mutated by handlers (reported under C06.memory where decidable)",
		Run:        runC06,
	})
}

// handlerResultOK: v is component #0 (bool) of an invoke/call of a method with the given name on action.Tx / a handler type.
func isHandlerMethodCall(c *ssa.Call, method string) bool {
	cc := c.Common()
	if cc.IsInvoke() {
		return cc.Method.Name() == method && strings.HasSuffix(calleeName(c), "action.Tx)."+method)
	}
	if sc := cc.StaticCallee(); sc != nil && sc.Name() == method && sc.Signature.Recv() != nil {
		return implementsTx(sc.Signature.Recv().Type())
	}
	return false
}

var txIface *types.Interface

func implementsTx(t types.Type) bool {
	if txIface == nil {
		return false
	}
	return types.Implements(t, txIface) || types.Implements(types.NewPointer(t), txIface)
}

func (p *Program) initTxIface() {
	pk := p.AllPkgs[Mod+"/action"]
	if pk == nil {
		fail("package action not loaded")
	}
	o := pk.Types.Scope().Lookup("Tx")
	if o == nil {
		fail("action.Tx missing")
	}
	txIface, _ = o.Type().Underlying().(*types.Interface)
	if txIface == nil {
		fail("action.Tx is not an interface")
	}
}

func callsIn(fn *ssa.Function, names ...string) []*ssa.Call {
	var res []*ssa.Call
	allInstrs(fn, func(ins ssa.Instruction) {
		c, ok := ins.(*ssa.Call)
		if !ok {
			return
		}
		n := calleeName(c)
		for _, w := range names {
			if n == w {
				res = append(res, c)
			}
		}
	})
	return res
}

func runC06(r *Run) {
	p := r.P
	p.initTxIface()
	p.MustFn(fnBeginTx)
	p.MustFn(fnCommitTx)
	p.MustFn(fnDiscardTx)

	// ---- C06.session: every function that calls BeginTxSession
	var sessFns []*ssa.Function
	for fn := range p.Fns {
		if !inRepo(fn) || fn.Blocks == nil || strings.HasSuffix(fnPkg(fn).Path(), "/storage") {
			continue
		}
		if len(callsIn(fn, fnBeginTx)) > 0 {
			sessFns = append(sessFns, fn)
		}
	}
	m := map[*ssa.Function]bool{}
	for _, f := range sessFns {
		m[f] = true
	}
	for _, fn := range sortedFns(m) {
		if fn == p.Roots()["check"] {
			r.Info("C06.session", fname(fn), "mempool session", "the CheckTx session writes only the check state (isolation is C07); not an obligation of C06")
			continue
		}
		checkSession(r, fn)
	}
	r.Floor("C06.session", 12)

	// ---- C06.bypass: who may call the session / commit / tree-write API
	p.CG()
	extFns := extBlockFuncs(p)
	allowedSessionPkgs := func(caller *ssa.Function, site ssa.CallInstruction) bool {
		pk := fnPkg(caller)
		if pk == nil {
			return false
		}
		if pk.Path() == Mod+"/app" || pk.Path() == Mod+"/storage" {
			return true
		}
		// ext-app block functions registered in the controller router (they run the same session loop)
		for f := caller; f != nil; f = f.Parent() {
			if extFns[f] {
				return true
			}
		}
		return false
	}
	who := func(rule string, target string, allowed func(*ssa.Function, ssa.CallInstruction) bool, note string) {
		t := p.Fn(target)
		if t == nil {
			fail("anchor symbol missing: %s", target)
		}
		n := 0
		for _, caller := range sortedFns(p.Fns) {
			if !inRepo(caller) || caller.Blocks == nil {
				continue
			}
			for _, b := range caller.Blocks {
				for _, ins := range b.Instrs {
					ci, ok := ins.(ssa.CallInstruction)
					if !ok {
						continue
					}
					hit := false
					if sc := ci.Common().StaticCallee(); sc != nil {
						hit = sc == t
					} else if ci.Common().IsInvoke() && ci.Common().Method.Name() == t.Name() {
						for _, c := range p.SiteCallees(ci) {
							if c == t {
								hit = true
							}
						}
					}
					if !hit {
						continue
					}
					n++
					top := caller
					for top.Parent() != nil {
						top = top.Parent()
					}
					if caller.Synthetic != "" && caller.Signature.Recv() != nil && caller.Name() == t.Name() {
						continue // pointer-receiver wrapper of the same method
					}
					_ = top
					r.Check(allowed(caller, ci), rule, fname(caller), "call "+target,
						"caller is in the allowed set ("+note+")",
						"caller outside the allowed set ("+note+"): a handler or store could bypass the transaction session", p.ipos(ins))
				}
			}
		}
		if n == 0 {
			r.Info(rule, "", "call "+target, "no callers in the loaded program")
		}
	}
	for _, t := range []string{fnBeginTx, fnCommitTx, fnDiscardTx, "(*storage.State).WithoutGas", "(*storage.State).WithGasStore"} {
		who("C06.bypass.session-api", t, allowedSessionPkgs, "package app, package storage, ext-app block functions")
	}
	// State.Commit: only the ABCI commit hook, except on the internal-tx queue (a separate in-memory State)
	who("C06.bypass.state-commit", fnStateCmt, func(c *ssa.Function, site ssa.CallInstruction) bool {
		if c == p.Roots()["commit"] {
			return true
		}
		return isQueueState(site.Common().Args[0])
	}, "the ABCI Commit hook; receivers that are the internal-tx queue's own State are exempt")
	inStorage := func(names ...string) func(*ssa.Function, ssa.CallInstruction) bool {
		return func(c *ssa.Function, _ ssa.CallInstruction) bool {
			c = topFn(c)
			for _, n := range names {
				if fname(c) == n {
					return true
				}
			}
			// an unexported function that only the allowed functions use (a named callback or helper of theirs) is part of them
			base := strings.TrimSuffix(strings.TrimSuffix(fname(c), "$bound"), "$thunk")
			if bf := p.Fn(base); bf != nil && bf.Object() != nil && !bf.Object().Exported() {
				users, okAll := 0, true
				for _, h := range sortedFns(p.Fns) {
					if !inRepo(h) || h.Blocks == nil || strings.HasPrefix(fname(h), base) {
						continue
					}
					allInstrs(h, func(ins ssa.Instruction) {
						refs := false
						if sc := staticCallee(ins); sc != nil && strings.HasPrefix(fname(sc), base) {
							refs = true
						}
						for _, op := range ins.Operands(nil) {
							if f, isF := (*op).(*ssa.Function); isF && strings.HasPrefix(fname(f), base) {
								refs = true
							}
						}
						if !refs {
							return
						}
						users++
						in := false
						for _, n := range names {
							if fname(topFn(h)) == n {
								in = true
							}
						}
						if !in {
							okAll = false
						}
					})
				}
				if users > 0 && okAll {
					return true
				}
			}
			return false
		}
	}
	who("C06.bypass.tree-write", fnCSSet, inStorage(fnStateWr), "State.Write only")
	who("C06.bypass.tree-write", fnCSDel, inStorage(fnStateWr), "State.Write only")
	who("C06.bypass.tree-commit", fnCSCommit, inStorage(fnStateCmt), "State.Commit only")
	who("C06.bypass.state-write", fnStateWr, func(c *ssa.Function, _ ssa.CallInstruction) bool {
		n := fname(topFn(c))
		return n == fnStateCmt || (fnPkg(c).Path() == Mod+"/app")
	}, "State.Commit and package app (genesis)")
	r.Floor("C06.bypass", 10)
	checkNoDerivedState(r)
	checkSessionFresh(r, "C06.fresh-session")

	// ---- C06.memory: in-memory state of one-per-node objects mutated while executing a transaction
	checkTxMemory(r)

	// ---- C06.overlay: State.Set/Delete write the session overlay when one is open, never the tree
	for _, name := range []string{fnStateSet, fnStateDel} {
		fn := p.MustFn(name)
		checkOverlayWrite(r, fn)
	}
}

// extBlockFuncs: the functions registered in the ext-app function router, found by role: function values
// passed to an Add method of external_apps/common.ControllerRouter.
func extBlockFuncs(p *Program) map[*ssa.Function]bool {
	res := map[*ssa.Function]bool{}
	for fn := range p.Fns {
		if !inRepo(fn) {
			continue
		}
		allInstrs(fn, func(ins ssa.Instruction) {
			c, ok := ins.(*ssa.Call)
			if !ok {
				return
			}
			n := calleeName(c)
			if n != "invoke:(external_apps/common.ControllerRouter).Add" && n != "(external_apps/common.FunctionRouter).Add" {
				return
			}
			for _, a := range c.Call.Args {
				if f := closureOf(unwrapIface(a)); f != nil {
					res[f] = true
				}
			}
		})
	}
	return res
}

// isQueueState: the value is loaded from the State field of a transactions.TransactionStore.
func isQueueState(v ssa.Value) bool {
	u, ok := v.(*ssa.UnOp)
	if !ok {
		return false
	}
	fa, ok := u.X.(*ssa.FieldAddr)
	if !ok {
		return false
	}
	n := namedOf(fa.X.Type())
	return n != nil && tname(n) == "data/transactions.TransactionStore"
}

// checkSession evaluates the session typestate in one function.
func checkSession(r *Run, fn *ssa.Function) {
	p := r.P
	name := fname(fn)
	begins := callsIn(fn, fnBeginTx)
	commits := callsIn(fn, fnCommitTx)
	discards := callsIn(fn, fnDiscardTx)

	// (1) typestate: from each Begin, every path reaches Commit, Discard or another Begin before function exit.
	for i, b := range begins {
		leak := pathToExitAvoiding(fn, b, func(ins ssa.Instruction) bool {
			n := calleeName(ins)
			return n == fnCommitTx || n == fnDiscardTx || n == fnBeginTx
		})
		if fn != p.Roots()["deliver"] {
			// internal transactions: a leaked overlay is replaced by the next Begin and dropped by State.Commit; recorded, not an obligation
			if leak != nil {
				r.Info("C06.session.closed", name, fmt.Sprintf("BeginTxSession#%d", i), "an early-continue path leaves the overlay open until the next Begin/Commit drops it (internal transaction loop)")
			}
			continue
		}
		r.Check(leak == nil, "C06.session.closed", name, fmt.Sprintf("BeginTxSession#%d", i),
			"every path from BeginTxSession reaches Commit/Discard before DeliverTx returns",
			"a path from BeginTxSession leaves DeliverTx with the session still open: the failed transaction's writes stay visible to EndBlock and EndBlock's own writes are dropped at Commit", p.ipos(b))
	}
	// (2) no double close: after a Commit, no path reaches another Commit/Discard... Commit panics on nil session, Discard is idempotent.
	for i, c := range commits {
		bad := pathReaches(fn, c, func(ins ssa.Instruction) bool { return calleeName(ins) == fnCommitTx },
			func(ins ssa.Instruction) bool { return calleeName(ins) == fnBeginTx })
		r.Check(!bad, "C06.session.single-commit", name, fmt.Sprintf("CommitTxSession#%d", i),
			"no second CommitTxSession reachable without an intervening BeginTxSession",
			"CommitTxSession can be reached twice for one session (panics: no tx session in state)", p.ipos(c))
	}
	// (3) Commit is guarded by the success of every handler step executed in the session.
	//     handler steps = calls of ProcessDeliver/ProcessCheck/ProcessFee (interface or concrete action.Tx implementer)
	//     and, for tracker engines, the error result of transition.Engine.Process.
	type step struct {
		call *ssa.Call
		kind string
	}
	var steps []step
	allInstrs(fn, func(ins ssa.Instruction) {
		c, ok := ins.(*ssa.Call)
		if !ok {
			return
		}
		for _, mname := range []string{"ProcessDeliver", "ProcessCheck", "ProcessFee"} {
			if isHandlerMethodCall(c, mname) {
				steps = append(steps, step{c, mname})
			}
		}
		if calleeName(c) == "invoke:(utils/transition.Engine).Process" {
			steps = append(steps, step{c, "Engine.Process"})
		}
	})
	if len(steps) == 0 {
		r.Viol("C06.session.steps", name, "handler steps", "function opens a tx session but no handler step (ProcessDeliver/ProcessCheck/ProcessFee/Engine.Process) was recognised inside it", p.pos(fn.Pos()), nil)
	}
	hasExec, hasFee := false, false
	for _, s := range steps {
		if s.kind == "ProcessDeliver" || s.kind == "ProcessCheck" {
			hasExec = true
		}
		if s.kind == "ProcessFee" {
			hasFee = true
		}
	}
	for i, c := range commits {
		for _, s := range steps {
			// only steps that can precede this commit
			if !pathReaches(fn, s.call, func(ins ssa.Instruction) bool { return ins == ssa.Instruction(c) }, nil) {
				continue
			}
			var edges []Edge
			if s.kind == "Engine.Process" {
				edges = condEdges(fn, func(cond ssa.Value, _ *ssa.If) int {
					return nilCond(cond, func(v ssa.Value) bool {
						src, idx := tupleSource(v)
						return src == ssa.Value(s.call) && idx == 1
					})
				})
			} else {
				edges = condEdges(fn, func(cond ssa.Value, _ *ssa.If) int {
					return boolCond(cond, func(v ssa.Value) bool {
						src, idx := tupleSource(v)
						return src == ssa.Value(s.call) && idx == 0
					})
				})
			}
			reach := reachFromInstr(s.call, edges, func(ins ssa.Instruction) bool { return calleeName(ins) == fnBeginTx })
			r.Check(len(edges) > 0 && !reach[ssa.Instruction(c)], "C06.session.commit-guard", name,
				fmt.Sprintf("CommitTxSession#%d guarded by %s", i, s.kind),
				"CommitTxSession is unreachable once the success edge of "+s.kind+" is removed",
				"CommitTxSession is reachable on a path where "+s.kind+" did not succeed: a failed transaction's writes would be committed", p.ipos(c))
		}
	}
	// (4) Discard must be reachable on the failure edge (otherwise failures fall through to commit or leak): covered by (1)+(3).
	// (5) in the two ABCI tx functions the fee step must run inside the session and the code derives from ok && feeOk
	roots := p.Roots()
	if fn == roots["deliver"] || fn == roots["check"] {
		r.Check(hasExec && hasFee, "C06.session.fee-inside", name, "ProcessFee in session",
			"handler execution and ProcessFee are both invoked between Begin and Commit",
			"the ABCI tx function does not invoke both the handler and ProcessFee inside the session", p.pos(fn.Pos()))
		for _, s := range steps {
			if s.kind != "ProcessFee" {
				continue
			}
			// fee step after Begin and before Commit on all paths: Begin dominates the fee call, fee call precedes every commit
			okBefore := true
			for _, b := range begins {
				if !dominatesInstr(b, s.call) {
					okBefore = false
				}
			}
			r.Check(okBefore && len(begins) > 0, "C06.session.fee-inside", name, "BeginTxSession dominates ProcessFee",
				"the fee step runs after the session was opened", "ProcessFee can run outside the transaction session: a fee charged for a failed transaction would persist", p.ipos(s.call))
		}
		checkResponseCode(r, fn, steps[0].call, steps)
	}
	_ = discards
}

// checkResponseCode: the Code field of the ABCI response built at the success return derives from ok && feeOk.
func checkResponseCode(r *Run, fn *ssa.Function, _ *ssa.Call, steps interface{}) {
	p := r.P
	name := fname(fn)
	// find calls to getCode (any function whose single bool parameter decides the returned code) and require that
	// its argument is a phi/conjunction of the two step results.
	var execV, feeV ssa.Value
	allInstrs(fn, func(ins ssa.Instruction) {
		c, ok := ins.(*ssa.Call)
		if !ok {
			return
		}
		if isHandlerMethodCall(c, "ProcessDeliver") || isHandlerMethodCall(c, "ProcessCheck") {
			execV = c
		}
		if isHandlerMethodCall(c, "ProcessFee") {
			feeV = c
		}
	})
	found := 0
	allInstrs(fn, func(ins ssa.Instruction) {
		c, ok := ins.(*ssa.Call)
		if !ok || calleeName(c) != "app.getCode" || len(c.Call.Args) != 1 {
			return
		}
		// only the call on the path after both steps
		if execV == nil || feeV == nil || !dominatesInstr(feeV.(*ssa.Call), c) {
			return
		}
		found++
		deps := boolDeps(c.Call.Args[0])
		hasExec, hasFee := false, false
		for _, d := range deps {
			src, idx := tupleSource(d)
			if src == execV && idx == 0 {
				hasExec = true
			}
			if src == feeV && idx == 0 {
				hasFee = true
			}
		}
		conj := isConjunction(c.Call.Args[0], execV, feeV)
		r.Check(hasExec && hasFee && conj, "C06.session.code", name, "response code = getCode(ok && feeOk)",
			"the response code is computed from the conjunction of the handler result and the fee result",
			"the response code does not derive from (handler ok AND fee ok): a transaction can report success while discarded or failure while committed", p.ipos(c))
	})
	if found == 0 {
		r.Viol("C06.session.code", name, "response code = getCode(ok && feeOk)", "no getCode(...) call after the fee step recognised", p.pos(fn.Pos()), nil)
	}
}

// boolDeps collects the leaf values a boolean expression (phi of short-circuit evaluation) depends on.
func boolDeps(v ssa.Value) []ssa.Value {
	seen := map[ssa.Value]bool{}
	var res []ssa.Value
	var walk func(ssa.Value)
	walk = func(x ssa.Value) {
		if seen[x] {
			return
		}
		seen[x] = true
		switch y := x.(type) {
		case *ssa.Phi:
			for _, e := range y.Edges {
				walk(e)
			}
			// the controlling conditions of the predecessors
			for _, pb := range y.Block().Preds {
				if iff := blockIf(pb); iff != nil {
					walk(iff.Cond)
				}
			}
		case *ssa.UnOp:
			walk(y.X)
		case *ssa.BinOp:
			walk(y.X)
			walk(y.Y)
		default:
			res = append(res, x)
		}
	}
	walk(v)
	return res
}

// isConjunction: v is the SSA lowering of `a && b` (phi [false, b] controlled by `if a`), where a and b are
// component 0 of the two calls.
func isConjunction(v ssa.Value, callA, callB ssa.Value) bool {
	phi, ok := v.(*ssa.Phi)
	if !ok || len(phi.Edges) != 2 {
		return false
	}
	is := func(x ssa.Value, call ssa.Value) bool {
		src, idx := tupleSource(x)
		return src == call && idx == 0
	}
	for i, e := range phi.Edges {
		other := phi.Edges[1-i]
		if c, ok := boolConst(e); ok && !c {
			// the false edge comes from the block that tests the first operand
			pb := phi.Block().Preds[i]
			iff := blockIf(pb)
			if iff == nil {
				continue
			}
			if (is(iff.Cond, callA) && is(other, callB)) || (is(iff.Cond, callB) && is(other, callA)) {
				// the false constant must arrive on the false edge of the test
				if pb.Succs[1] == phi.Block() {
					return true
				}
			}
		}
	}
	return false
}

// dominatesInstr: a dominates b (same function).
func dominatesInstr(a, b ssa.Instruction) bool {
	if a.Block() == b.Block() {
		for _, ins := range a.Block().Instrs {
			if ins == a {
				return true
			}
			if ins == b {
				return false
			}
		}
	}
	return a.Block().Dominates(b.Block())
}

// pathToExitAvoiding: is there a path from just after `from` to a function exit (Return, or Panic excluded)
// that does not execute an instruction satisfying stop? Returns a witness block list or nil.
func pathToExitAvoiding(fn *ssa.Function, from ssa.Instruction, stop func(ssa.Instruction) bool) []*ssa.BasicBlock {
	type st struct {
		b   *ssa.BasicBlock
		idx int
	}
	// scan the rest of from's block
	scan := func(b *ssa.BasicBlock, start int) (stopped bool, exit bool) {
		for i := start; i < len(b.Instrs); i++ {
			ins := b.Instrs[i]
			if stop(ins) {
				return true, false
			}
			if _, ok := ins.(*ssa.Return); ok {
				return false, true
			}
		}
		return false, false
	}
	b0 := from.Block()
	start := 0
	for i, ins := range b0.Instrs {
		if ins == from {
			start = i + 1
		}
	}
	stopped, exit := scan(b0, start)
	if exit {
		return []*ssa.BasicBlock{b0}
	}
	if stopped {
		return nil
	}
	seen := map[*ssa.BasicBlock]bool{}
	var stack [][]*ssa.BasicBlock
	for _, s := range b0.Succs {
		stack = append(stack, []*ssa.BasicBlock{b0, s})
	}
	for len(stack) > 0 {
		path := stack[len(stack)-1]
		stack = stack[:len(stack)-1]
		b := path[len(path)-1]
		if seen[b] {
			continue
		}
		seen[b] = true
		stopped, exit := scan(b, 0)
		if exit {
			return path
		}
		if stopped {
			continue
		}
		for _, s := range b.Succs {
			np := append(append([]*ssa.BasicBlock{}, path...), s)
			stack = append(stack, np)
		}
	}
	return nil
}

// reachFromInstr: the set of instructions executable after `from` (exclusive) when the given edges are removed
// and traversal stops at instructions satisfying barrier.
func reachFromInstr(from ssa.Instruction, removed []Edge, barrier func(ssa.Instruction) bool) map[ssa.Instruction]bool {
	res := map[ssa.Instruction]bool{}
	b0 := from.Block()
	start := 0
	for i, ins := range b0.Instrs {
		if ins == from {
			start = i + 1
		}
	}
	reachCore([]rstate{{b: b0}}, start, removed, func(b *ssa.BasicBlock, st int) bool {
		for i := st; i < len(b.Instrs); i++ {
			ins := b.Instrs[i]
			if barrier != nil && barrier(ins) {
				return false
			}
			res[ins] = true
		}
		return true
	})
	return res
}

// pathReaches: from just after `from`, can an instruction satisfying target be reached without first executing
// one satisfying barrier?
func pathReaches(fn *ssa.Function, from ssa.Instruction, target func(ssa.Instruction) bool, barrier func(ssa.Instruction) bool) bool {
	scan := func(b *ssa.BasicBlock, start int) (hit bool, blocked bool) {
		for i := start; i < len(b.Instrs); i++ {
			ins := b.Instrs[i]
			if target(ins) {
				return true, false
			}
			if barrier != nil && barrier(ins) {
				return false, true
			}
		}
		return false, false
	}
	b0 := from.Block()
	start := 0
	for i, ins := range b0.Instrs {
		if ins == from {
			start = i + 1
		}
	}
	hit, blocked := scan(b0, start)
	if hit {
		return true
	}
	if blocked {
		return false
	}
	seen := map[*ssa.BasicBlock]bool{}
	stack := append([]*ssa.BasicBlock{}, b0.Succs...)
	for len(stack) > 0 {
		b := stack[len(stack)-1]
		stack = stack[:len(stack)-1]
		if seen[b] {
			continue
		}
		seen[b] = true
		hit, blocked := scan(b, 0)
		if hit {
			return true
		}
		if blocked {
			continue
		}
		stack = append(stack, b.Succs...)
	}
	return false
}

// checkOverlayWrite: in State.Set/Delete, the write to the block cache is reachable only on the txSession == nil edge,
// the session write only on the != nil edge, and the tree (cs) is never written.
func checkOverlayWrite(r *Run, fn *ssa.Function) {
	p := r.P
	name := fname(fn)
	st := namedOf(fn.Signature.Recv().Type())
	fieldIdx := func(fname string) int {
		s := st.Underlying().(*types.Struct)
		for i := 0; i < s.NumFields(); i++ {
			if s.Field(i).Name() == fname {
				return i
			}
		}
		fail("storage.State has no field %s", fname)
		return -1
	}
	iSess, iCache, iCS := fieldIdx("txSession"), fieldIdx("cache"), fieldIdx("cs")
	loadedField := func(v ssa.Value) int {
		v = unwrapIface(v)
		if u, ok := v.(*ssa.UnOp); ok {
			if fa, ok := u.X.(*ssa.FieldAddr); ok {
				if n := namedOf(fa.X.Type()); n != nil && n.Obj() == st.Obj() {
					return fa.Field
				}
			}
		}
		return -1
	}
	// pass edges: txSession != nil true
	sessNonNil := condEdges(fn, func(cond ssa.Value, _ *ssa.If) int {
		return -nilCond(cond, func(v ssa.Value) bool { return loadedField(v) == iSess })
	})
	sessNil := condEdges(fn, func(cond ssa.Value, _ *ssa.If) int {
		return nilCond(cond, func(v ssa.Value) bool { return loadedField(v) == iSess })
	})
	nSess, nCache := 0, 0
	allInstrs(fn, func(ins ssa.Instruction) {
		c, ok := ins.(*ssa.Call)
		if !ok {
			return
		}
		args := callArgs(c)
		if len(args) == 0 {
			return
		}
		switch loadedField(args[0]) {
		case iSess:
			nSess++
			live := reachWithout(fn, sessNonNil)
			r.Check(len(sessNonNil) > 0 && !live[c.Block()], "C06.overlay.session-write", name, "write through txSession",
				"session write is reachable only on the txSession != nil edge", "session overlay used without the non-nil test", p.ipos(c))
		case iCache:
			nCache++
			live := reachWithout(fn, sessNil)
			r.Check(len(sessNil) > 0 && !live[c.Block()], "C06.overlay.cache-write", name, "write through block cache",
				"the block cache is written only when no tx session is open", "the block cache is written while a tx session is open: the write survives DiscardTxSession", p.ipos(c))
		case iCS:
			r.Viol("C06.overlay.tree-write", name, "call on cs", "State."+fn.Name()+" touches the committed tree directly", p.ipos(c), nil)
		}
	})
	r.Check(nSess > 0 && nCache > 0, "C06.overlay.shape", name, "both overlays written",
		"writes go to the session overlay and to the block cache", "expected one write through txSession and one through cache", p.pos(fn.Pos()))
}

func topFn(f *ssa.Function) *ssa.Function {
	for f.Parent() != nil {
		f = f.Parent()
	}
	return f
}

func unwrapIface(v ssa.Value) ssa.Value {
	for {
		switch x := v.(type) {
		case *ssa.MakeInterface:
			v = x.X
		case *ssa.ChangeInterface:
			v = x.X
		case *ssa.ChangeType:
			v = x.X
		default:
			return v
		}
	}
}

// evmTxFields: fields of the EVM adapter that hold per-transaction state; they are cleared by Finalise's deferred reset
// (rule C06.memory.evm-epilogue checks that reset and that Apply always reaches Finalise).
func evmPerTxField(key string) string {
	for _, pre := range []string{"vm.CommitStateDB.", "vm.stateObject.", "vm.journal.", "vm.accessList."} {
		if strings.HasPrefix(key, pre) {
			return "EVM adapter per-transaction state: reset by CommitStateDB.Finalise's deferred epilogue, which EVMTransaction.Apply reaches on every non-simulation path (C06.memory.evm-epilogue)"
		}
	}
	return ""
}

func checkTxMemory(r *Run) {
	p := r.P
	checkSharedFrom(r, "C06.memory", "DeliverTx", p.Roots()["deliver"], "in-memory field written while executing a transaction, read by later consensus code",
		"DiscardTxSession does not undo it: a failed transaction leaves the node computing with the new value", evmPerTxField)

	// EVM epilogue (1): Apply reaches Finalise on every path after ApplyMessage unless the message is a simulation
	ap := p.MustFn("(*vm.EVMTransaction).Apply")
	var am, fin *ssa.Call
	allInstrs(ap, func(ins ssa.Instruction) {
		if c, ok := ins.(*ssa.Call); ok {
			switch calleeName(c) {
			case "vm.ApplyMessage":
				am = c
			case "(*vm.CommitStateDB).Finalise":
				fin = c
			}
		}
	})
	if am == nil || fin == nil {
		r.Viol("C06.memory.evm-epilogue", fname(ap), "Finalise after ApplyMessage", "ApplyMessage / Finalise call not found in Apply", p.pos(ap.Pos()), nil)
	} else {
		fake := condEdges(ap, func(cond ssa.Value, _ *ssa.If) int {
			return boolCond(cond, func(v ssa.Value) bool {
				c, ok := v.(*ssa.Call)
				return ok && strings.HasSuffix(calleeName(c), ".IsFake")
			})
		})
		reach := reachFromInstr(am, fake, func(ins ssa.Instruction) bool { return ins == ssa.Instruction(fin) })
		leak := false
		for ins := range reach {
			if _, isRet := ins.(*ssa.Return); isRet {
				leak = true
			}
		}
		r.Check(!leak, "C06.memory.evm-epilogue", fname(ap), "Finalise after ApplyMessage on every non-simulation path",
			"every return after ApplyMessage passes CommitStateDB.Finalise unless IsFake()",
			"Apply can return after ApplyMessage without Finalise: the rejected transaction's cached state objects and journal (e.g. the gas purchase) stay in memory and are persisted by the next EVM transaction", p.ipos(am))
	}
	// EVM epilogue (2): Finalise registers, before anything can return, a deferred reset of the object cache and the journal
	fz := p.MustFn("(*vm.CommitStateDB).Finalise")
	var df *ssa.Defer
	allInstrs(fz, func(ins ssa.Instruction) {
		if d, ok := ins.(*ssa.Defer); ok && df == nil {
			df = d
		}
	})
	okReset := false
	missing := ""
	if df != nil {
		cl := closureOf(df.Call.Value)
		if cl != nil {
			reset := map[string]bool{}
			allInstrs(cl, func(ins ssa.Instruction) {
				if st, ok := ins.(*ssa.Store); ok {
					if fa, ok := st.Addr.(*ssa.FieldAddr); ok {
						reset[fieldName(fa.X.Type(), fa.Field)] = true
					}
				}
				if c, ok := ins.(*ssa.Call); ok && calleeName(c) == "(*vm.CommitStateDB).clearJournalAndRefund" {
					reset["journal"] = true
				}
			})
			okReset = true
			for _, f := range []string{"stateObjects", "addressToObjectIndex", "stateObjectsDirty", "journal"} {
				if !reset[f] {
					okReset = false
					missing += f + " "
				}
			}
			for _, ret := range returnsOf(fz) {
				if !dominatesInstr(df, ret) {
					okReset = false
					missing += "(defer does not dominate every return) "
				}
			}
		}
	}
	r.Check(okReset, "C06.memory.evm-epilogue", fname(fz), "deferred reset of object cache and journal",
		"Finalise always ends by dropping the cached state objects, the dirty set and the journal",
		"Finalise's epilogue no longer resets: "+missing+"- state cached by one transaction (even a failed one) is visible to the next", p.pos(fz.Pos()))
}
