package main

// C18 No transaction input can crash or halt the node: structural necessary conditions.

import (
	"go/token"
	"go/types"
	"os"
	"sort"
	"strings"

	"golang.org/x/tools/go/ssa"
)

func init() {
	register(&propertyDef{
		ID:    "C18",
		Title: "No transaction input can crash or halt the node",
		Explain: "Decides structural necessary conditions: (relock) no function reachable from the consensus hooks calls, while it holds a sync.Mutex/RWMutex of an object, a function that acquires the same lock of the same object (non re-entrant: the ABCI call would never return); " +
			"(coin) every amount of the transaction message that is turned into a Coin and reaches a partial coin operation (Plus/Minus/LessThan*: process exit on mismatching currencies, nil dereference on an unknown currency) or a value-storing call has its currency pinned / its validity tested on all paths before, in the run function or on all paths to Validate's success return; the fee price likewise (ValidateFee compares the currency name exactly); " +
			"(split) no element of a strings.Split result of transaction-controlled data is indexed at a constant position >= 1 without a length test; (errfirst) a pointer returned together with an error by a parser / lookup fed directly with a message field is not dereferenced before the error (or the pointer) is tested; " +
			"(fallback) the router's lookup returns a non-nil handler on a miss; (exit) every explicit process-exit / panic site reachable from CheckTx/DeliverTx is listed.",
		NotDecided: "implicit runtime panics outside these classes (nil maps, type assertions, arithmetic), unbounded resource use, panics inside go-ethereum's interpreter",
		Run:        runC18,
	})
}

func runC18(r *Run) {
	if os.Getenv("OLINT_C18_PROBE") != "" {
		c18IndexProbe(r)
	}
	checkRelock(r)
	checkCoin(r)
	checkSplit(r)
	checkFallback(r)
	checkErrFirst(r)
	checkEnumIndex(r)
	checkNilErr(r)
	checkRangePairs(r)
	checkSliceBounds(r, "/chains/ethereum")
	checkExitListing(r)
}

// ---------------------------------------------------------------------------------------------
// C18.relock

type lockKind int

const (
	lkNone lockKind = iota
	lkRead
	lkWrite
)

// mutexOp: ins is a Lock/RLock/Unlock/RUnlock on a mutex reached by a field path from some base object.
func mutexOp(ins ssa.Instruction) (op string, mu ssa.Value) {
	c, ok := ins.(ssa.CallInstruction)
	if !ok {
		return "", nil
	}
	sc := c.Common().StaticCallee()
	if sc == nil || sc.Signature.Recv() == nil {
		return "", nil
	}
	rt := tname(sc.Signature.Recv().Type())
	if rt != "*sync.Mutex" && rt != "*sync.RWMutex" {
		return "", nil
	}
	switch sc.Name() {
	case "Lock", "RLock", "Unlock", "RUnlock":
		return sc.Name(), c.Common().Args[0]
	}
	return "", nil
}

type lockSummaryKey struct {
	fn    *ssa.Function
	param int
	field string
}

var lockMemo = map[lockSummaryKey]lockKind{}

// locksField: does fn (transitively, passing the same object along) acquire the mutex at <param i>.<field>?
func locksField(p *Program, fn *ssa.Function, i int, field string, depth int) lockKind {
	k := lockSummaryKey{fn, i, field}
	if v, ok := lockMemo[k]; ok {
		return v
	}
	lockMemo[k] = lkNone
	if fn.Blocks == nil || i >= len(fn.Params) || depth > 8 {
		return lkNone
	}
	par := fn.Params[i]
	res := lkNone
	allInstrs(fn, func(ins ssa.Instruction) {
		if op, mu := mutexOp(ins); op == "Lock" || op == "RLock" {
			pa := pathOf(mu)
			if pa.Root == ssa.Value(par) && pa.FieldString() == field {
				if op == "Lock" {
					res = lkWrite
				} else if res == lkNone {
					res = lkRead
				}
			}
			return
		}
		c, ok := ins.(ssa.CallInstruction)
		if !ok {
			return
		}
		if _, isGo := ins.(*ssa.Go); isGo {
			return
		}
		for _, callee := range p.calleesOf(ins) {
			if !inRepo(callee) || callee.Blocks == nil {
				continue
			}
			args := c.Common().Args
			if c.Common().IsInvoke() {
				args = append([]ssa.Value{c.Common().Value}, args...)
			}
			for j, a := range args {
				pa := pathOf(a)
				if pa.Root == ssa.Value(par) && len(pa.Fields) == 0 {
					if sub := locksField(p, callee, j, field, depth+1); sub > res {
						res = sub
					}
				}
			}
		}
	})
	lockMemo[k] = res
	return res
}

// calleesOf: resolved callees of a call instruction (static, or through the call graph for dynamic calls).
func (p *Program) calleesOf(ins ssa.Instruction) []*ssa.Function {
	if sc := staticCallee(ins); sc != nil {
		return []*ssa.Function{sc}
	}
	fn := ins.Parent()
	var res []*ssa.Function
	if n := p.CG().Nodes[fn]; n != nil {
		for _, e := range n.Out {
			if e.Site != nil && e.Site == ins.(ssa.CallInstruction) {
				res = append(res, e.Callee.Func)
			}
		}
	}
	return res
}

func checkRelock(r *Run) {
	p := r.P
	roots := p.Roots()
	reach := map[*ssa.Function]bool{}
	for _, rn := range []string{"check", "deliver", "begin", "end", "commit"} {
		if roots[rn] == nil {
			continue
		}
		rs, _ := p.Reach(roots[rn])
		for f := range rs {
			reach[f] = true
		}
	}
	nRegions := 0
	for _, fn := range sortedFns(reach) {
		if fn.Blocks == nil || !inRepo(fn) {
			continue
		}
		fn := fn
		allInstrs(fn, func(ins ssa.Instruction) {
			op, mu := mutexOp(ins)
			if op != "Lock" && op != "RLock" {
				return
			}
			if _, isDefer := ins.(*ssa.Defer); isDefer {
				return
			}
			pa := pathOf(mu)
			par, isPar := pa.Root.(*ssa.Parameter)
			if !isPar {
				return
			}
			pidx := -1
			for i, q := range fn.Params {
				if q == par {
					pidx = i
				}
			}
			if pidx < 0 {
				return
			}
			nRegions++
			field := pa.FieldString()
			held := lkWrite
			if op == "RLock" {
				held = lkRead
			}
			// the region: everything executed after the acquisition until the matching release on the same path
			region := reachFromInstr(ins, nil, func(j ssa.Instruction) bool {
				if _, isDefer := j.(*ssa.Defer); isDefer {
					return false
				}
				o2, m2 := mutexOp(j)
				if o2 == "Unlock" || o2 == "RUnlock" {
					p2 := pathOf(m2)
					return p2.Root == pa.Root && p2.FieldString() == field
				}
				return false
			})
			var insts []ssa.Instruction
			for j := range region {
				insts = append(insts, j)
			}
			sort.Slice(insts, func(a, b int) bool { return insts[a].Pos() < insts[b].Pos() })
			bad := ""
			pos := p.ipos(ins)
			for _, j := range insts {
				c, ok := j.(ssa.CallInstruction)
				if !ok {
					continue
				}
				if _, isGo := j.(*ssa.Go); isGo {
					continue
				}
				if _, isDefer := j.(*ssa.Defer); isDefer {
					continue
				}
				if o2, m2 := mutexOp(j); o2 == "Lock" || o2 == "RLock" {
					p2 := pathOf(m2)
					if p2.Root == pa.Root && p2.FieldString() == field && (held == lkWrite || o2 == "Lock") {
						bad, pos = "acquires it again directly", p.ipos(j)
					}
					continue
				}
				args := c.Common().Args
				if c.Common().IsInvoke() {
					args = append([]ssa.Value{c.Common().Value}, args...)
				}
				for _, callee := range p.calleesOf(j) {
					if !inRepo(callee) || callee.Blocks == nil {
						continue
					}
					for k, a := range args {
						pb := pathOf(a)
						if pb.Root == pa.Root && len(pb.Fields) == 0 {
							if sub := locksField(p, callee, k, field, 0); sub != lkNone && (held == lkWrite || sub == lkWrite) {
								bad, pos = "calls "+fname(callee)+", which acquires it again", p.ipos(j)
							}
						}
					}
				}
			}
			what := "write"
			if held == lkRead {
				what = "read"
			}
			r.Check(bad == "", "C18.relock", fname(fn), "no re-acquisition of "+rootTypeName(par)+"."+field+" while its "+what+" lock is held", "no callee in the locked region locks the same object again",
				"while holding the lock the function "+bad+": sync mutexes are not re-entrant, the consensus call blocks forever and the node stops processing blocks", pos)
		})
	}
	if nRegions < 15 {
		fail("C18.relock: only %d lock regions found in consensus-reachable code (expected >= 20)", nRegions)
	}
}

func rootTypeName(par *ssa.Parameter) string {
	t := par.Type()
	if pt, ok := t.(*types.Pointer); ok {
		t = pt.Elem()
	}
	return strings.TrimPrefix(tname(t), "*")
}

// ---------------------------------------------------------------------------------------------
// C18.coin

var partialCoinOps = map[string]bool{
	"(data/balance.Coin).Plus": true, "(data/balance.Coin).Minus": true,
	"(data/balance.Coin).LessThanCoin": true, "(data/balance.Coin).LessThanEqualCoin": true,
}

var partialMemo = map[string]bool{}

// partialParam: fn applies a partial coin operation (exit on currency mismatch, nil dereference on a nil amount) to its
// Coin parameter i, directly or through repository callees.
func partialParam(fn *ssa.Function, i int, depth int) bool {
	key := fname(fn) + "#" + itoa(int64(i))
	if v, ok := partialMemo[key]; ok {
		return v
	}
	partialMemo[key] = false
	if fn.Blocks == nil || i >= len(fn.Params) || depth > 4 {
		return false
	}
	par := fn.Params[i]
	isP := func(v ssa.Value) bool { return sameQuantity(v, func(y ssa.Value) bool { return y == ssa.Value(par) }) }
	res := false
	allInstrs(fn, func(ins ssa.Instruction) {
		c, ok := ins.(*ssa.Call)
		if !ok || res {
			return
		}
		if partialCoinOps[calleeName(c)] {
			for _, a := range c.Call.Args {
				if isP(a) {
					res = true
				}
			}
			return
		}
		sc := c.Call.StaticCallee()
		if sc == nil || !inRepo(sc) {
			return
		}
		for j, a := range c.Call.Args {
			if tname(a.Type()) == "data/balance.Coin" && isP(a) && partialParam(sc, j, depth+1) {
				res = true
			}
		}
	})
	partialMemo[key] = res
	return res
}

// coinGuard: pass edges of "the message amount's currency is known" (valid) or "... is pinned to a fixed currency" (pin).
type coinGuard struct {
	p      *Program
	src    VPred // the message amount (action.Amount value or anything denoting the same quantity)
	pinned bool  // require a pin (exact currency-name equality)
	free   func(ssa.Value) bool
}

func (g *coinGuard) String() string {
	if g.pinned {
		return "currency pinned"
	}
	return "currency known"
}

func isStringType(t types.Type) bool {
	b, ok := t.Underlying().(*types.Basic)
	return ok && b.Info()&types.IsString != 0
}

func (g *coinGuard) Edges(p *Program, fn *ssa.Function) []Edge {
	isQ := func(v ssa.Value) bool { return sameQuantity(v, g.src) }
	// the currency name of the message amount: <amount>.Currency (string) or <coin>.Currency.Name
	isCurName := func(v ssa.Value) bool {
		if !isStringType(v.Type()) {
			return false
		}
		pa := pathOf(v)
		fs := pa.FieldString()
		if !(strings.HasSuffix(fs, "Currency") || strings.HasSuffix(fs, "Currency.Name")) {
			return false
		}
		// strip the trailing selector(s) and test the base
		x := resolveLoad(v)
		for {
			switch y := x.(type) {
			case *ssa.UnOp:
				x = y.X
				continue
			case *ssa.FieldAddr:
				if isQ(y.X) || isQ(y) {
					return true
				}
				x = y.X
				continue
			case *ssa.Field:
				if isQ(y.X) {
					return true
				}
				x = y.X
				continue
			}
			break
		}
		return isQ(x)
	}
	fixedName := func(v ssa.Value) bool {
		if !isStringType(v.Type()) {
			return false
		}
		if _, ok := v.(*ssa.Const); ok {
			return true
		}
		return g.free(v) && (strings.HasSuffix(pathOf(v).FieldString(), "Name") || strings.HasSuffix(pathOf(v).FieldString(), "Currency"))
	}
	classify := func(cond ssa.Value, _ *ssa.If) int {
		v, flip := stripNot(cond)
		v = resolveLoad(v)
		pol := 0
		switch x := v.(type) {
		case *ssa.BinOp:
			if (x.Op == token.EQL || x.Op == token.NEQ) && ((isCurName(x.X) && fixedName(x.Y)) || (isCurName(x.Y) && fixedName(x.X))) {
				pol = +1
				if x.Op == token.NEQ {
					pol = -1
				}
			}
		case *ssa.Call:
			if g.pinned {
				break
			}
			switch calleeName(x) {
			case "(action.Amount).IsValid", "(data/balance.Coin).IsValid":
				if isQ(x.Call.Args[0]) {
					pol = +1
				}
			case "(data/balance.Coin).LessThanEqualCoin":
				// a nil amount compares as 0: the reject edge of "<= non-negative bound" also rejects unknown currencies
				if isQ(x.Call.Args[0]) && g.free(x.Call.Args[1]) {
					pol = -1
				}
			}
		case *ssa.Extract:
			if g.pinned {
				break
			}
			if c, ok := x.Tuple.(*ssa.Call); ok && x.Index == 1 {
				n := calleeName(c)
				if n == "(*data/balance.CurrencySet).GetCurrencyByName" && isCurName(c.Call.Args[1]) {
					pol = +1
				}
			}
		}
		if flip {
			pol = -pol
		}
		return pol
	}
	return condEdges(fn, classify)
}

func checkCoin(r *Run) {
	p := r.P
	vs := valueStoring(p)
	seenEntry := map[*ssa.Function]bool{}
	n := 0
	for _, h := range p.Handlers() {
		entry := runFnOf(h.Deliver)
		if entry == nil || seenEntry[entry] {
			continue
		}
		seenEntry[entry] = true
		body := handlerBody(entry)
		msgAmount := func(v ssa.Value) string {
			pa := pathOf(v)
			if isMsgRoot(p, pa.Root) && len(pa.Fields) > 0 && tname(v.Type()) == "action.Amount" {
				return pa.Fields[0]
			}
			return ""
		}
		type use struct {
			ins ssa.Instruction
			pin bool
		}
		uses := map[string][]use{}
		for _, fn := range body {
			allInstrs(fn, func(ins ssa.Instruction) {
				c, ok := ins.(*ssa.Call)
				if !ok {
					return
				}
				sc := c.Call.StaticCallee()
				if sc == nil {
					return
				}
				fieldOfArg := func(a ssa.Value) string {
					f := ""
					sameQuantity(a, func(y ssa.Value) bool {
						if s := msgAmount(y); s != "" {
							f = s
							return true
						}
						return false
					})
					return f
				}
				if partialCoinOps[calleeName(c)] {
					fa, fb := fieldOfArg(c.Call.Args[0]), fieldOfArg(c.Call.Args[1])
					for k, f := range []string{fa, fb} {
						if f == "" {
							continue
						}
						other := c.Call.Args[1-k]
						// the other operand is built in the message coin's own currency, or is the message coin itself
						same := fieldOfArg(other) != ""
						if oc, isC := resolveLoad(other).(*ssa.Call); isC {
							switch calleeName(oc) {
							case "(data/balance.Currency).NewCoinFromAmount", "(data/balance.Currency).NewCoinFromInt":
								if derivesFrom(oc.Call.Args[0], func(y ssa.Value) bool { return fieldOfArg(y) != "" || msgAmount(y) != "" }) {
									same = true
								}
							}
						}
						uses[f] = append(uses[f], use{ins, !same})
					}
					return
				}
				_, isVS := vs[sc]
				for j, a := range c.Call.Args {
					if tname(a.Type()) != "data/balance.Coin" || fnPkg(sc) == fnPkg(fn) {
						continue
					}
					if f := fieldOfArg(a); f != "" && (isVS || partialParam(sc, j, 0)) {
						uses[f] = append(uses[f], use{ins, false})
					}
				}
			})
		}
		var fields []string
		for f := range uses {
			fields = append(fields, f)
		}
		sort.Strings(fields)
		for _, f := range fields {
			f := f
			src := func(v ssa.Value) bool {
				pa := pathOf(v)
				return isMsgRoot(p, pa.Root) && len(pa.Fields) > 0 && pa.Fields[0] == f
			}
			free := func(v ssa.Value) bool {
				return !derivesFrom(v, func(y ssa.Value) bool {
					pa := pathOf(y)
					return isMsgRoot(p, pa.Root) && len(pa.Fields) > 0 && pa.Fields[0] == f
				})
			}
			for _, pin := range []bool{false, true} {
				sinks := map[ssa.Instruction]bool{}
				for _, u := range uses[f] {
					if u.pin == pin {
						sinks[u.ins] = true
					}
				}
				if len(sinks) == 0 {
					continue
				}
				n++
				g := &coinGuard{p: p, src: src, pinned: pin, free: free}
				what := "known"
				consequence := "an unknown currency yields a coin without amount: the operation dereferences nil and the panic handler closes the application"
				if pin {
					what = "pinned to the protocol currency"
					consequence = "a registered currency other than the record's reaches a Coin operation that exits the process on mismatching currencies"
				}
				construct := "currency of msg." + f + " is " + what + " before " + itoa(int64(len(sinks))) + " coin operation(s)"
				m := &MustPass{P: p, Scope: samePkgScope(entry), Guard: g, IsSink: func(fn *ssa.Function, ins ssa.Instruction) bool { return sinks[ins] }}
				exposed := m.Exposed(entry)
				if len(exposed) == 0 {
					r.OK("C18.coin", h.Name, construct, "tested on every path in "+fname(entry))
					continue
				}
				okV := false
				if h.Validate != nil && h.Validate.Blocks != nil {
					mv := &MustPass{P: p, Scope: samePkgScope(h.Validate), Guard: g, IsSink: successReturns(h.Validate)}
					okV = len(mv.Exposed(h.Validate)) == 0 && mv.Sinks > 0
				}
				if okV {
					r.OK("C18.coin", h.Name, construct, "tested on every path to Validate's success return (effective behind C04.gate)")
					continue
				}
				s := exposed[0]
				r.Viol("C18.coin", h.Name, "currency of msg."+f+" is "+what+" before its coin operations", "msg."+f+" reaches "+calleeName(s.Instr)+" although its currency was not "+what+" on some path: "+consequence, p.ipos(s.Instr), s.Chain)
			}
		}
	}
	if n < 15 {
		fail("C18.coin: only %d (handler, amount) obligations (expected >= 20)", n)
	}
	// the fee price: ValidateFee returns nil only behind the exact comparison of the currency name with the fee currency
	vf := p.MustFn("action.ValidateFee")
	edges := condEdges(vf, func(cond ssa.Value, _ *ssa.If) int {
		v, flip := stripNot(cond)
		bo, ok := v.(*ssa.BinOp)
		if !ok || (bo.Op != token.EQL && bo.Op != token.NEQ) || !isStringType(bo.X.Type()) {
			return 0
		}
		isPriceCur := func(v ssa.Value) bool { return strings.HasSuffix(pathOf(v).FieldString(), "Price.Currency") }
		isFeeCur := func(v ssa.Value) bool { return strings.HasSuffix(pathOf(v).FieldString(), "FeeCurrency.Name") }
		if !((isPriceCur(bo.X) && isFeeCur(bo.Y)) || (isPriceCur(bo.Y) && isFeeCur(bo.X))) {
			return 0
		}
		pol := +1
		if bo.Op == token.NEQ {
			pol = -1
		}
		if flip {
			pol = -pol
		}
		return pol
	})
	live := reachWithout(vf, edges)
	bad := len(edges) == 0
	for _, ret := range returnsOf(vf) {
		if returnMayBeSuccess(ret) && live[ret.Block()] {
			bad = true
		}
	}
	r.Check(!bad, "C18.coin", fname(vf), "fee currency name equals the configured fee currency exactly", "nil only behind Price.Currency == FeeCurrency.Name",
		"a fee in a currency name that the exact lookup of ToCoin does not resolve (or in another registered currency) reaches the fee pool's Coin.Plus, which exits the process", p.pos(vf.Pos()))
}

// ---------------------------------------------------------------------------------------------
// C18.split

var splitFns = map[string]bool{"strings.Split": true, "strings.SplitN": true, "strings.Fields": true, "bytes.Split": true, "strings.SplitAfter": true}

// lenGuardEdges: pass edges on which len(<same element>) > need is implied. same(v) recognises the measured value.
func lenGuardEdges(fn *ssa.Function, same func(ssa.Value) bool, need int64) []Edge {
	return condEdges(fn, func(cond ssa.Value, _ *ssa.If) int {
		v, flip := stripNot(cond)
		bo, ok := v.(*ssa.BinOp)
		if !ok {
			return 0
		}
		op := bo.Op
		var lenv ssa.Value
		var k int64
		if c, isK := intConst(bo.Y); isK {
			lenv, k = bo.X, c
		} else if c, isK := intConst(bo.X); isK {
			lenv, k, op = bo.Y, c, mirror(bo.Op)
		} else {
			return 0
		}
		lc, ok := lenv.(*ssa.Call)
		if !ok || calleeName(lc) != "builtin:len" || !same(lc.Call.Args[0]) {
			return 0
		}
		holds := func(n int64) bool {
			switch op {
			case token.LSS:
				return n < k
			case token.LEQ:
				return n <= k
			case token.GTR:
				return n > k
			case token.GEQ:
				return n >= k
			case token.EQL:
				return n == k
			case token.NEQ:
				return n != k
			}
			return false
		}
		trueOK, falseOK := true, true
		for n := int64(0); n <= need; n++ {
			if holds(n) {
				trueOK = false
			} else {
				falseOK = false
			}
		}
		pol := 0
		if trueOK {
			pol = +1
		} else if falseOK {
			pol = -1
		}
		if flip {
			pol = -pol
		}
		return pol
	})
}

func checkSplit(r *Run) {
	p := r.P
	roots := p.Roots()
	reach := map[*ssa.Function]bool{}
	for _, rn := range []string{"check", "deliver"} {
		rs, _ := p.Reach(roots[rn])
		for f := range rs {
			reach[f] = true
		}
	}
	n := 0
	for _, fn := range sortedFns(reach) {
		if fn.Blocks == nil || !inRepo(fn) {
			continue
		}
		fn := fn
		allInstrs(fn, func(ins ssa.Instruction) {
			sp, ok := ins.(*ssa.Call)
			if !ok || !splitFns[calleeName(sp)] {
				return
			}
			isParts := func(v ssa.Value) bool { return resolveLoad(v) == ssa.Value(sp) }
			// keys handed to a store-iteration callback are written by the store itself in a fixed layout: not transaction-shaped
			if fn.Parent() != nil && derivesFrom(sp.Call.Args[0], func(y ssa.Value) bool { par, ok := y.(*ssa.Parameter); return ok && par.Parent() == fn }) {
				r.Info("C18.split", fname(fn), "split of an iteration key", "store-generated key layout, not transaction-shaped")
				return
			}
			// element accesses at a constant position
			allInstrs(fn, func(j ssa.Instruction) {
				ia, ok := j.(*ssa.IndexAddr)
				if !ok || !isParts(ia.X) {
					return
				}
				k, isK := intConst(ia.Index)
				if !isK {
					return
				}
				if k >= 1 || calleeName(sp) == "strings.Fields" {
					n++
					live := reachWithout(fn, lenGuardEdges(fn, isParts, k))
					r.Check(!live[ia.Block()], "C18.split", fname(fn), "element "+itoa(k)+" of the "+calleeName(sp)+" result is read only behind a length test", "len(parts) > "+itoa(k)+" on every path",
						"the split result is indexed at "+itoa(k)+" although it may have fewer elements (the separator need not occur in transaction-supplied data): index out of range panics and the panic handler closes the application", p.ipos(ia))
				}
				// constant-bounded slicing of that element
				isElem := func(v ssa.Value) bool {
					u, ok := v.(*ssa.UnOp)
					if !ok {
						return false
					}
					ia2, ok := u.X.(*ssa.IndexAddr)
					if !ok || !isParts(ia2.X) {
						return false
					}
					k2, isK2 := intConst(ia2.Index)
					return isK2 && k2 == k
				}
				for _, ref := range *ia.Referrers() {
					ld, ok := ref.(*ssa.UnOp)
					if !ok {
						continue
					}
					for _, r2 := range *ld.Referrers() {
						sl, ok := r2.(*ssa.Slice)
						if !ok {
							continue
						}
						need := int64(-1)
						if sl.High != nil {
							if h, isK := intConst(sl.High); isK {
								need = h - 1
							}
						} else if sl.Low != nil {
							if l, isK := intConst(sl.Low); isK {
								need = l - 1
							}
						}
						if need < 0 {
							continue
						}
						n++
						live := reachWithout(fn, lenGuardEdges(fn, isElem, need))
						r.Check(!live[sl.Block()], "C18.split", fname(fn), "element "+itoa(k)+" is sliced to "+itoa(need+1)+" only behind a length test", "len(element) >= "+itoa(need+1)+" on every path",
							"the element is sliced beyond what transaction-supplied data guarantees: slice bounds out of range panics and the panic handler closes the application", p.ipos(sl))
					}
				}
			})
		})
	}
	if n < 6 {
		fail("C18.split: only %d constant-position accesses to split results found (expected >= 8)", n)
	}
}

// ---------------------------------------------------------------------------------------------
// C18.fallback / C18.exit

func checkFallback(r *Run) {
	p := r.P
	fn := p.MustFn("(*action.router).Handler")
	bad := ""
	n := 0
	for _, ret := range returnsOf(fn) {
		n++
		v := ret.Results[0]
		switch x := v.(type) {
		case *ssa.MakeInterface:
			if _, isPtr := x.X.Type().Underlying().(*types.Pointer); isPtr {
				bad = "returns a possibly nil pointer wrapped in the interface"
			}
		case *ssa.Extract:
			lk, ok := x.Tuple.(*ssa.Lookup)
			if !ok || !lk.CommaOk || x.Index != 0 {
				bad = "returns a value that is not the found route"
				break
			}
			// reachable only on the found edge
			edges := condEdges(fn, func(cond ssa.Value, _ *ssa.If) int {
				return boolCond(cond, func(y ssa.Value) bool {
					e, ok := y.(*ssa.Extract)
					return ok && e.Tuple == ssa.Value(lk) && e.Index == 1
				})
			})
			if len(edges) == 0 || reachWithout(fn, edges)[ret.Block()] {
				bad = "returns the map element without testing that the route exists (nil handler on a miss)"
			}
		default:
			bad = "returns a value of unknown origin"
		}
	}
	r.Check(bad == "" && n > 0, "C18.fallback", fname(fn), "a handler is returned for every transaction type", "the found route on the found edge, otherwise the non-nil unknownTx value",
		"router.Handler "+bad+": CheckTx/DeliverTx call a method on a nil interface for an unknown transaction type and the panic handler closes the application", p.pos(fn.Pos()))
	// the three methods of the fallback handler return a failure without touching anything
	for _, m := range []string{"Validate", "ProcessCheck", "ProcessDeliver", "ProcessFee"} {
		f := p.Fn("(action.unknownTx)." + m)
		if f == nil || f.Blocks == nil {
			if bad == "" {
				fail("anchor symbol missing: (action.unknownTx).%s", m)
			}
			continue // the fallback value is no longer returned: already reported above
		}
		okv := true
		for _, ret := range returnsOf(f) {
			if returnMayBeSuccess(ret) {
				okv = false
			}
		}
		allInstrs(f, func(ins ssa.Instruction) {
			if _, ok := ins.(*ssa.Panic); ok {
				okv = false
			}
		})
		r.Check(okv, "C18.fallback", fname(f), "the fallback handler only fails", "constant failure result, no panic", "the fallback handler for unknown transaction types can succeed or panic", p.pos(f.Pos()))
	}
}

func checkExitListing(r *Run) {
	p := r.P
	roots := p.Roots()
	reach := map[*ssa.Function]bool{}
	for _, rn := range []string{"check", "deliver"} {
		rs, _ := p.Reach(roots[rn])
		for f := range rs {
			reach[f] = true
		}
	}
	n := 0
	for _, fn := range sortedFns(reach) {
		if fn.Blocks == nil || !inRepo(fn) {
			continue
		}
		allInstrs(fn, func(ins ssa.Instruction) {
			name := calleeName(ins)
			kind := ""
			switch {
			case name == "os.Exit", strings.HasPrefix(name, "(*log.Logger).Fatal"):
				kind = "process exit"
			}
			if _, isPanic := ins.(*ssa.Panic); isPanic {
				kind = "explicit panic"
			}
			if kind == "" {
				return
			}
			n++
			r.Info("C18.exit", fname(fn), kind+" at "+p.ipos(ins), "reachable from CheckTx/DeliverTx in the call graph (listed, not decided)")
		})
	}
	r.Info("C18.exit", "summary", "explicit exit/panic sites reachable from CheckTx/DeliverTx", itoa(int64(n))+" sites listed")
}

// ---------------------------------------------------------------------------------------------
// C18.errfirst: a pointer returned together with an error is not dereferenced before the error (or the pointer) is tested.

// errfirstExempt: one named symbol with the reason (the only instance on the tree for which no failing input exists).
var errfirstExempt = map[string]string{
	"action/eth.refundTokens": "ParseRedeem of tracker.SignedETHTx succeeded when the redeem was accepted with the same ABI, and the ETH options are immutable (ValidateETH requires DeepEqual with the stored options): the error cannot occur here",
}

func checkErrFirst(r *Run) {
	p := r.P
	roots := p.Roots()
	reach := map[*ssa.Function]bool{}
	for _, rn := range []string{"check", "deliver", "begin", "end"} {
		rs, _ := p.Reach(roots[rn])
		for f := range rs {
			reach[f] = true
		}
	}
	nCalls := 0
	for _, fn := range sortedFns(reach) {
		if fn.Blocks == nil || !inRepo(fn) {
			continue
		}
		fn := fn
		allInstrs(fn, func(ins ssa.Instruction) {
			c, ok := ins.(*ssa.Call)
			if !ok {
				return
			}
			tup, ok := c.Type().(*types.Tuple)
			if !ok || tup.Len() < 2 || !isErrorType(tup.At(tup.Len()-1).Type()) {
				return
			}
			sc := c.Call.StaticCallee()
			if sc == nil || !inRepo(sc) || sc.Blocks == nil {
				return
			}
			// the callee can return (nil pointer, non-nil error)
			ptrIdx := -1
			for i := 0; i < tup.Len()-1; i++ {
				if _, isPtr := tup.At(i).Type().Underlying().(*types.Pointer); isPtr {
					ptrIdx = i
				}
			}
			if ptrIdx < 0 {
				return
			}
			nilOnErr := false
			for _, ret := range returnsOf(sc) {
				if len(ret.Results) == tup.Len() && isNilConst(ret.Results[ptrIdx]) && !isNilConst(ret.Results[tup.Len()-1]) {
					nilOnErr = true
				}
			}
			if !nilOnErr {
				return
			}
			// only lookups / parsers fed with transaction-supplied data: the error is then input-triggerable
			// (errors of lookups on protocol-generated records are "cannot happen" beliefs this rule does not judge)
			fed := false
			var direct func(v ssa.Value, d int) bool
			direct = func(v ssa.Value, d int) bool {
				pa := pathOf(v)
				if isMsgRoot(p, pa.Root) && len(pa.Fields) > 0 {
					return true
				}
				if d > 2 {
					return false
				}
				switch x := v.(type) {
				case *ssa.Convert:
					return direct(x.X, d+1)
				case *ssa.ChangeType:
					return direct(x.X, d+1)
				case *ssa.Call:
					// a conversion method on the field: msg.Address.Bytes(), msg.Name.String()
					if len(x.Call.Args) == 1 && !x.Call.IsInvoke() {
						return direct(x.Call.Args[0], d+1)
					}
				}
				return false
			}
			for _, a := range c.Call.Args {
				if direct(a, 0) {
					fed = true
				}
			}
			if !fed {
				return
			}
			var ptr, errv *ssa.Extract
			for _, ref := range *c.Referrers() {
				if e, ok := ref.(*ssa.Extract); ok {
					if e.Index == ptrIdx {
						ptr = e
					}
					if e.Index == tup.Len()-1 {
						errv = e
					}
				}
			}
			if ptr == nil {
				return
			}
			nCalls++
			// dereferences of the pointer
			var derefs []ssa.Instruction
			for _, ref := range *ptr.Referrers() {
				switch x := ref.(type) {
				case *ssa.FieldAddr:
					if x.X == ssa.Value(ptr) {
						derefs = append(derefs, x)
					}
				case *ssa.UnOp:
					if x.Op == token.MUL && x.X == ssa.Value(ptr) {
						derefs = append(derefs, x)
					}
				}
			}
			if len(derefs) == 0 {
				return
			}
			var edges []Edge
			if errv != nil {
				edges = append(edges, condEdges(fn, func(cond ssa.Value, _ *ssa.If) int {
					return nilCond(cond, func(y ssa.Value) bool { return y == ssa.Value(errv) })
				})...)
			}
			edges = append(edges, condEdges(fn, func(cond ssa.Value, _ *ssa.If) int {
				return -nilCond(cond, func(y ssa.Value) bool { return y == ssa.Value(ptr) })
			})...)
			after := reachFromInstr(c, edges, nil)
			bad := ssa.Instruction(nil)
			for _, d := range derefs {
				if after[d] {
					bad = d
				}
			}
			if why, ex := errfirstExempt[fname(fn)]; ex && bad != nil {
				r.Info("C18.errfirst", fname(fn), "result of "+fname(sc)+" used before its error is tested", "exempt: "+why)
				return
			}
			pos := p.ipos(c)
			if bad != nil {
				pos = p.ipos(bad)
			}
			r.Check(bad == nil, "C18.errfirst", fname(fn), "result of "+fname(sc)+" is dereferenced only behind its error (or nil) test", "every dereference lies behind err == nil / ptr != nil",
				fname(sc)+" returns a nil pointer together with an error, and the pointer is dereferenced on a path on which neither was tested: a failing lookup on transaction-supplied data panics and the panic handler closes the application", pos)
		})
	}
	if nCalls < 15 {
		fail("C18.errfirst: only %d (pointer, error) lookups fed with message data found on the transaction paths", nCalls)
	}
}

func c18IndexProbe(r *Run) {
	p := r.P
	roots := p.Roots()
	reach := map[*ssa.Function]bool{}
	for _, rn := range []string{"check", "deliver"} {
		rs, _ := p.Reach(roots[rn])
		for f := range rs {
			reach[f] = true
		}
	}
	for _, fn := range sortedFns(reach) {
		if fn.Blocks == nil || !inRepo(fn) {
			continue
		}
		allInstrs(fn, func(ins ssa.Instruction) {
			var idx ssa.Value
			switch x := ins.(type) {
			case *ssa.IndexAddr:
				idx = x.Index
			case *ssa.Index:
				idx = x.Index
			default:
				return
			}
			if _, isK := idx.(*ssa.Const); isK {
				return
			}
			src := ""
			sameQuantity(idx, func(y ssa.Value) bool {
				pa := pathOf(y)
				if isMsgRoot(p, pa.Root) && len(pa.Fields) > 0 {
					src = "msg." + pa.FieldString()
					return true
				}
				if par, ok := y.(*ssa.Parameter); ok && isIntegral(par.Type()) {
					src = "param:" + par.Name()
					return true
				}
				if len(pa.Fields) > 0 && isIntegral(y.Type()) {
					if _, isPhi := y.(*ssa.Phi); !isPhi {
						src = "field:" + pa.FieldString()
						return true
					}
				}
				return false
			})
			if src != "" {
				println("IDX", fname(fn), src, p.ipos(ins))
			}
		})
	}
}

// ---------------------------------------------------------------------------------------------
// C18.index: an enumerated integer that indexes a fixed-length table is range-checked before it is stored.

func constLenOf(v ssa.Value) (int64, bool) {
	v = resolveLoad(v)
	switch x := v.(type) {
	case *ssa.MakeSlice:
		return intConst(x.Len)
	case *ssa.Slice:
		if a, ok := x.X.(*ssa.Alloc); ok {
			if at, ok := derefT(a.Type()).Underlying().(*types.Array); ok {
				return at.Len(), true
			}
		}
	case *ssa.Alloc:
		if at, ok := derefT(x.Type()).Underlying().(*types.Array); ok {
			return at.Len(), true
		}
	}
	if at, ok := v.Type().Underlying().(*types.Array); ok {
		return at.Len(), true
	}
	return 0, false
}

func repoEnumType(t types.Type) *types.Named {
	n, ok := t.(*types.Named)
	if !ok || n.Obj().Pkg() == nil || !strings.HasPrefix(n.Obj().Pkg().Path(), Mod) {
		return nil
	}
	if b, ok := n.Underlying().(*types.Basic); !ok || b.Info()&types.IsInteger == 0 {
		return nil
	}
	return n
}

func checkEnumIndex(r *Run) {
	p := r.P
	roots := p.Roots()
	reach := map[*ssa.Function]bool{}
	for _, rn := range []string{"check", "deliver", "begin", "end"} {
		rs, _ := p.Reach(roots[rn])
		for f := range rs {
			reach[f] = true
		}
	}
	type use struct {
		t  *types.Named
		l  int64
		at ssa.Instruction
		in *ssa.Function
	}
	var uses []use
	for _, fn := range sortedFns(reach) {
		if fn.Blocks == nil || !inRepo(fn) {
			continue
		}
		allInstrs(fn, func(ins ssa.Instruction) {
			ia, ok := ins.(*ssa.IndexAddr)
			if !ok {
				return
			}
			l, okL := constLenOf(ia.X)
			if !okL {
				return
			}
			var et *types.Named
			sameQuantity(ia.Index, func(y ssa.Value) bool {
				if n := repoEnumType(y.Type()); n != nil {
					if _, isK := y.(*ssa.Const); !isK {
						et = n
						return true
					}
				}
				return false
			})
			if et != nil {
				uses = append(uses, use{et, l, ins, fn})
			}
		})
	}
	if len(uses) == 0 {
		fail("C18.index: no enumerated integer used as an index of a fixed-length table found (expected the vote-opinion tally)")
	}
	done := map[string]bool{}
	for _, u := range uses {
		key := tname(u.t) + "|" + fname(u.in)
		if done[key] {
			continue
		}
		done[key] = true
		// (1) the type's validator accepts exactly values inside the table
		var errFn *ssa.Function
		ms := p.SSA.MethodSets.MethodSet(u.t)
		for i := 0; i < ms.Len(); i++ {
			if ms.At(i).Obj().Name() == "Err" {
				errFn = p.SSA.MethodValue(ms.At(i))
			}
		}
		okErr := errFn != nil && errFn.Blocks != nil
		if okErr {
			// partial evaluation over values just outside the table: none of them may reach a nil return
			par := errFn.Params[0]
			first := errFn.Blocks[0].Instrs[0]
			hasNil := false
			for _, ret := range returnsOf(errFn) {
				if returnMayBeSuccess(ret) {
					hasNil = true
				}
			}
			if !hasNil {
				okErr = false
			}
			for _, k := range []int64{-2, -1, u.l, u.l + 1, 1000} {
				env := func(v ssa.Value) (int64, bool) {
					if v == ssa.Value(par) {
						return k, true
					}
					return 0, false
				}
				for ins := range reachUnderEnv(first, env, nil) {
					if ret, isRet := ins.(*ssa.Return); isRet && returnMayBeSuccess(ret) {
						okErr = false
					}
				}
			}
		}
		r.Check(okErr, "C18.index", tname(u.t)+".Err", "the validator of "+tname(u.t)+" accepts only values inside the table it indexes (length "+itoa(u.l)+", in "+fname(u.in)+")", "for -2, -1, "+itoa(u.l)+", "+itoa(u.l+1)+", 1000 no nil return is reachable (constant partial evaluation of Err)",
			"a value of "+tname(u.t)+" outside [0,"+itoa(u.l)+") passes its Err() validator (or there is none) and is later used as an index of a table of that length: index out of range panics and the panic handler closes the application", p.ipos(u.at))
		if errFn == nil {
			continue
		}
		// (2) every handler stores a message field of that type only behind the validator
		seenEntry := map[*ssa.Function]bool{}
		nH := 0
		for _, h := range p.Handlers() {
			entry := runFnOf(h.Deliver)
			if entry == nil || seenEntry[entry] {
				continue
			}
			seenEntry[entry] = true
			isField := func(v ssa.Value) bool {
				return sameQuantity(v, func(y ssa.Value) bool {
					pa := pathOf(y)
					return isMsgRoot(p, pa.Root) && len(pa.Fields) > 0 && types.Identical(y.Type(), u.t)
				})
			}
			sinks := map[ssa.Instruction]bool{}
			for _, fn := range handlerBody(entry) {
				allInstrs(fn, func(ins ssa.Instruction) {
					c, ok := ins.(*ssa.Call)
					if !ok {
						return
					}
					sc := c.Call.StaticCallee()
					if sc == nil || sc == errFn || fnPkg(sc) == fnPkg(fn) || sc.Signature.Recv() != nil && types.Identical(sc.Signature.Recv().Type(), u.t) {
						return
					}
					for _, a := range c.Call.Args {
						if types.Identical(a.Type(), u.t) && isField(a) {
							sinks[ins] = true
						}
					}
				})
			}
			if len(sinks) == 0 {
				continue
			}
			nH++
			g := &CallGuard{Name: "value validated", Callees: []string{fname(errFn)}, ErrOnly: true, ArgOK: func(c *ssa.Call) bool { return isField(c.Call.Args[0]) }}
			m := &MustPass{P: p, Scope: samePkgScope(entry), Guard: g, IsSink: func(fn *ssa.Function, ins ssa.Instruction) bool { return sinks[ins] }}
			exposed := m.Exposed(entry)
			construct := "a " + tname(u.t) + " taken from the message is validated before it is stored"
			if len(exposed) == 0 {
				r.OK("C18.index", h.Name, construct, "behind "+fname(errFn)+" == nil in "+fname(entry))
				continue
			}
			okV := false
			if h.Validate != nil && h.Validate.Blocks != nil {
				mv := &MustPass{P: p, Scope: samePkgScope(h.Validate), Guard: g, IsSink: successReturns(h.Validate)}
				okV = len(mv.Exposed(h.Validate)) == 0 && mv.Sinks > 0
			}
			if okV {
				r.OK("C18.index", h.Name, construct, "on every path to Validate's success return (effective behind C04.gate)")
				continue
			}
			r.Viol("C18.index", h.Name, construct, "the message's "+tname(u.t)+" reaches "+calleeName(exposed[0].Instr)+" without passing "+fname(errFn)+": an out-of-range value is stored and later indexes a table of length "+itoa(u.l), p.ipos(exposed[0].Instr), exposed[0].Chain)
		}
		if nH == 0 {
			r.Info("C18.index", tname(u.t), "handlers storing a message field of this type", "none")
		}
	}
}

// ---------------------------------------------------------------------------------------------
// C18.nilerr: an error value that may be nil is not handed to a function that dereferences it unconditionally.

type nilReqKey struct {
	fn *ssa.Function
	i  int
}

var nilReqMemo = map[nilReqKey]int{}

// requiresNonNilErr: fn calls a method on its error parameter i (or passes it on to a function that does) on a path that
// has not established parameter != nil.
func requiresNonNilErr(p *Program, fn *ssa.Function, i int, depth int) bool {
	k := nilReqKey{fn, i}
	if v, ok := nilReqMemo[k]; ok {
		return v == 1
	}
	nilReqMemo[k] = 0
	if fn.Blocks == nil || i >= len(fn.Params) || depth > 3 || !isErrorType(fn.Params[i].Type()) {
		return false
	}
	par := fn.Params[i]
	nonNil := condEdges(fn, func(cond ssa.Value, _ *ssa.If) int {
		return -nilCond(cond, func(y ssa.Value) bool { return y == ssa.Value(par) })
	})
	live := reachWithout(fn, nonNil)
	var mayBeNilParam func(v ssa.Value, at *ssa.BasicBlock, d int) bool
	mayBeNilParam = func(v ssa.Value, at *ssa.BasicBlock, d int) bool {
		if d > 4 {
			return false
		}
		if v == ssa.Value(par) {
			return live[at]
		}
		if phi, ok := v.(*ssa.Phi); ok {
			for j, e := range phi.Edges {
				pred := phi.Block().Preds[j]
				// the value arrives over an edge on which the parameter is known to be non-nil
				guarded := false
				for _, ed := range nonNil {
					if ed.From == pred && ed.To() == phi.Block() && len(pred.Succs) == 2 && pred.Succs[0] != pred.Succs[1] {
						guarded = true
					}
				}
				if guarded && e == ssa.Value(par) {
					continue
				}
				if mayBeNilParam(e, pred, d+1) {
					return true
				}
			}
		}
		return false
	}
	res := false
	allInstrs(fn, func(ins ssa.Instruction) {
		c, ok := ins.(ssa.CallInstruction)
		if !ok || res {
			return
		}
		cc := c.Common()
		if cc.IsInvoke() && mayBeNilParam(cc.Value, ins.Block(), 0) {
			res = true
			return
		}
		if sc := cc.StaticCallee(); sc != nil && inRepo(sc) {
			for j, a := range cc.Args {
				if isErrorType(a.Type()) && mayBeNilParam(a, ins.Block(), 0) && requiresNonNilErr(p, sc, j, depth+1) {
					res = true
				}
			}
		}
	})
	if res {
		nilReqMemo[k] = 1
	}
	return res
}

func checkNilErr(r *Run) {
	p := r.P
	roots := p.Roots()
	reach := map[*ssa.Function]bool{}
	for _, rn := range []string{"check", "deliver"} {
		rs, _ := p.Reach(roots[rn])
		for f := range rs {
			reach[f] = true
		}
	}
	nReq, nSites := 0, 0
	seenReq := map[nilReqKey]bool{}
	for _, fn := range sortedFns(reach) {
		if fn.Blocks == nil || !inRepo(fn) {
			continue
		}
		fn := fn
		allInstrs(fn, func(ins ssa.Instruction) {
			c, ok := ins.(ssa.CallInstruction)
			if !ok {
				return
			}
			sc := c.Common().StaticCallee()
			if sc == nil || !inRepo(sc) {
				return
			}
			for j, a := range c.Common().Args {
				if !isErrorType(a.Type()) || !requiresNonNilErr(p, sc, j, 0) {
					continue
				}
				if !seenReq[nilReqKey{sc, j}] {
					seenReq[nilReqKey{sc, j}] = true
					nReq++
				}
				// the function's own parameter handed on: the requirement moves to its callers (requiresNonNilErr is transitive)
				if par, isPar := a.(*ssa.Parameter); isPar && par.Parent() == fn {
					continue
				}
				nSites++
				okv := !errMayBeNilAt(p, a, ins.Block(), 0)
				r.Check(okv, "C18.nilerr", fname(fn), "the error handed to "+fname(sc)+" is known to be non-nil", "constructed, or the call is reachable only on its != nil edge",
					fname(sc)+" calls a method on its error argument without testing it, and this call site can pass a nil error (a refusal that carries no Go error): nil dereference in CheckTx/DeliverTx, the panic handler closes the application", p.ipos(ins))
			}
		})
	}
	r.Info("C18.nilerr", "summary", "functions that dereference an error parameter unconditionally", itoa(int64(nReq))+" functions, "+itoa(int64(nSites))+" call sites on the transaction paths")
}

// okFalseImpliesErr: for a callee returning (bool, error): whenever the bool is false the error is non-nil.
var okImpliesMemo = map[*ssa.Function]int{}

func okFalseImpliesErr(p *Program, fn *ssa.Function, depth int) bool {
	if v, ok := okImpliesMemo[fn]; ok {
		return v == 1
	}
	okImpliesMemo[fn] = 0
	if fn.Blocks == nil || depth > 4 || fn.Signature.Results().Len() != 2 {
		return false
	}
	good := true
	n := 0
	for _, ret := range returnsOf(fn) {
		n++
		b, e := ret.Results[0], ret.Results[1]
		if k, isK := boolConst(b); isK {
			if !k && !errNonNilAt(e, ret.Block()) {
				good = false
			}
			continue
		}
		// (res, err) handed on from one call whose own results satisfy the relation
		eb, ok1 := b.(*ssa.Extract)
		if !ok1 || eb.Index != 0 {
			good = false
			continue
		}
		c, isCall := eb.Tuple.(*ssa.Call)
		if !isCall {
			good = false
			continue
		}
		if ee, ok2 := e.(*ssa.Extract); !ok2 || ee.Tuple != eb.Tuple {
			// the error may have been tested already: `if err != nil { return false, wrap(err) }; return res, err`
			if !isNilConst(e) && !(ok2 && ee.Tuple == eb.Tuple) {
				good = false
				continue
			}
		}
		callees := p.calleesOf(c)
		if len(callees) == 0 {
			good = false
		}
		for _, cal := range callees {
			if !okFalseImpliesErr(p, cal, depth+1) {
				good = false
			}
		}
	}
	if good && n > 0 {
		okImpliesMemo[fn] = 1
	}
	return good && n > 0
}

// errMayBeNilAt: can the error value v be nil when block `at` executes?
func errMayBeNilAt(p *Program, v ssa.Value, at *ssa.BasicBlock, depth int) bool {
	if depth > 4 {
		return true
	}
	if isNilConst(v) {
		return true
	}
	if errNonNilAt(v, at) {
		return false
	}
	fn := at.Parent()
	switch x := v.(type) {
	case *ssa.Phi:
		for j, e := range x.Edges {
			pred := x.Block().Preds[j]
			// over an edge on which e != nil was established, e is not nil
			guards := condEdges(fn, func(cond ssa.Value, _ *ssa.If) int { return -nilCond(cond, func(y ssa.Value) bool { return y == e }) })
			skip := false
			for _, g := range guards {
				if g.From == pred && g.To() == x.Block() && len(pred.Succs) == 2 && pred.Succs[0] != pred.Succs[1] {
					skip = true
				}
			}
			if skip {
				continue
			}
			if errMayBeNilAt(p, e, pred, depth+1) {
				return true
			}
		}
		return false
	case *ssa.Extract:
		// err of (ok, err) := f(...): on the paths where ok is false the error is non-nil when f promises so
		c, isCall := x.Tuple.(*ssa.Call)
		if !isCall || x.Index != 1 {
			return true
		}
		callees := p.calleesOf(c)
		if len(callees) == 0 {
			return true
		}
		for _, cal := range callees {
			if !okFalseImpliesErr(p, cal, 0) {
				return true
			}
		}
		edges := condEdges(fn, func(cond ssa.Value, _ *ssa.If) int { return -nilCond(cond, func(y ssa.Value) bool { return y == v }) })
		edges = append(edges, condEdges(fn, func(cond ssa.Value, _ *ssa.If) int {
			return -boolCond(cond, func(y ssa.Value) bool { e, ok := y.(*ssa.Extract); return ok && e.Tuple == x.Tuple && e.Index == 0 })
		})...)
		return reachWithout(fn, edges)[at]
	}
	return true
}
