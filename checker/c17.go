package main

// C17 OLVM transactions keep one ledger and charge exactly the gas used: structural necessary conditions.

import (
	"fmt"
	"go/token"
	"go/types"
	"strings"

	"golang.org/x/tools/go/ssa"
)

func init() {
	register(&propertyDef{
		ID:    "C17",
		Title: "One ledger, exact gas",
		Explain: "Decides the structural part: (gas) the used gas reported by TransitionDb is read after refundGas; buyGas debits and refundGas credits the message sender with amounts built from the same price field, which only NewStateTransition sets from the message; " +
			"runOLVM hands the signed gas limit and price to the EVM transaction and every response built after Apply carries ExecutionResult.UsedGas (WrongFee on a consensus error); ContractFeeHandling credits price x that gas to the fee pool and nothing on the SkipFee/WrongFee edges; " +
			"DeliverTx passes the handler response's GasUsed to the fee step; (nonce) the non-creation path sets the sender's nonce to its current nonce + 1; (ledger) the account keeper writes the account's coins to the balance store in SetAccount, zeroes them in the stored record, " +
			"overwrites them from the balance store in GetAccount/GetVersionedAccount and clears the balance record in RemoveAccount; (cache) Apply reaches Finalise on every non-simulation path, Finalise's epilogue replaces the live-object tables with fresh empty ones, and EndBlock resets the state adapter.",
		NotDecided: "the numeric identities themselves (gas arithmetic of the interpreter, refund caps), equality of the two balance views under concurrent RPC access",
		Run:        runC17,
	})
}

func runC17(r *Run) {
	p := r.P

	// ---- gas
	td := p.MustFn("(*vm.StateTransition).TransitionDb")
	refund := firstCallIn(td, "(*vm.StateTransition).refundGas")
	var usedStores []*ssa.Store
	allInstrs(td, func(ins ssa.Instruction) {
		if st, ok := ins.(*ssa.Store); ok && strings.HasSuffix(pathOf(st.Addr).FieldString(), "UsedGas") {
			usedStores = append(usedStores, st)
		}
	})
	okGas := refund != nil && len(usedStores) > 0
	pos := p.pos(td.Pos())
	for _, st := range usedStores {
		n := 0
		derivesFrom(st.Val, func(y ssa.Value) bool {
			c, isCall := y.(*ssa.Call)
			if isCall && calleeName(c) == "(*vm.StateTransition).gasUsed" {
				n++
				if refund == nil || !dominatesInstr(refund, c) {
					okGas = false
					pos = p.ipos(st)
				}
			}
			return false
		})
		if n == 0 {
			if _, isK := st.Val.(*ssa.Const); !isK {
				okGas = false
				pos = p.ipos(st)
			}
		}
	}
	r.Check(okGas, "C17.gas", fname(td), "reported UsedGas is read after the refund", "UsedGas = gasUsed() evaluated behind refundGas on every path",
		"the reported gas is taken before the refund is applied: the fee pool is credited for more gas than the sender was debited for (the difference is created)", pos)

	bg := p.MustFn("(*vm.StateTransition).buyGas")
	rg := p.MustFn("(*vm.StateTransition).refundGas")
	isFrom := func(v ssa.Value) bool {
		c, ok := v.(*ssa.Call)
		return ok && c.Call.IsInvoke() && c.Call.Method.Name() == "From" && strings.HasSuffix(pathOf(c.Call.Value).FieldString(), "msg")
	}
	fromField := func(field string) VPred {
		return func(v ssa.Value) bool {
			return derivesFrom(v, func(y ssa.Value) bool {
				pa := pathOf(y)
				_, isPar := pa.Root.(*ssa.Parameter)
				return isPar && pa.FieldString() == field
			})
		}
	}
	invokeArg := func(fn *ssa.Function, method string) *ssa.Call {
		var res *ssa.Call
		allInstrs(fn, func(ins ssa.Instruction) {
			if c, ok := ins.(*ssa.Call); ok && c.Call.IsInvoke() && c.Call.Method.Name() == method && strings.HasSuffix(pathOf(c.Call.Value).FieldString(), "state") {
				res = c
			}
		})
		return res
	}
	sub, add := invokeArg(bg, "SubBalance"), invokeArg(rg, "AddBalance")
	okBuy := sub != nil && isFrom(sub.Call.Args[0]) && fromField("gasPrice")(sub.Call.Args[1]) && derivesFrom(sub.Call.Args[1], func(y ssa.Value) bool {
		c, ok := y.(*ssa.Call)
		return ok && c.Call.IsInvoke() && c.Call.Method.Name() == "Gas" && strings.HasSuffix(pathOf(c.Call.Value).FieldString(), "msg")
	})
	r.Check(okBuy, "C17.gas", fname(bg), "the sender is debited gas limit x signed price", "SubBalance(msg.From(), msg.Gas() * st.gasPrice)", "buyGas debits another account or an amount not built from the message's gas limit and st.gasPrice", p.pos(bg.Pos()))
	okRef := add != nil && isFrom(add.Call.Args[0]) && fromField("gasPrice")(add.Call.Args[1]) && fromField("gas")(add.Call.Args[1])
	r.Check(okRef, "C17.gas", fname(rg), "the sender is refunded remaining gas x the same price", "AddBalance(msg.From(), st.gas * st.gasPrice)", "refundGas credits another account or uses another price than buyGas: the sender pays more or less than gas used x price", p.pos(rg.Pos()))
	// who sets gasPrice
	nWriters := 0
	okW := true
	for _, fn := range sortedFns(p.Fns) {
		if fn.Blocks == nil || fnPkg(fn) == nil || fnPkg(fn).Path() != vmPkg {
			continue
		}
		allInstrs(fn, func(ins ssa.Instruction) {
			st, ok := ins.(*ssa.Store)
			if !ok {
				return
			}
			fa, ok := st.Addr.(*ssa.FieldAddr)
			if !ok || !strings.HasSuffix(tname(fa.X.Type()), "vm.StateTransition") || fieldName(derefT(fa.X.Type()), fa.Field) != "gasPrice" {
				return
			}
			nWriters++
			c, isC := st.Val.(*ssa.Call)
			if fname(fn) != "vm.NewStateTransition" || !isC || calleeName(c) != "(*vm.EVMTransaction).GasPrice" {
				okW = false
			}
		})
	}
	r.Check(okW && nWriters == 1, "C17.gas", "vm.NewStateTransition", "the price of a state transition is the message's price and is set once", "gasPrice = msg.GasPrice() in the constructor only",
		"StateTransition.gasPrice is written elsewhere or from another source: debit and refund no longer use the signed price", p.pos(p.MustFn("vm.NewStateTransition").Pos()))

	ro := p.MustFn("action/olvm.runOLVM")
	net := firstCallIn(ro, "vm.NewEVMTransaction")
	okNet := net != nil
	if okNet {
		args := net.Call.Args
		gasA, priceA := args[len(args)-3], args[len(args)-2]
		okNet = strings.HasSuffix(pathOf(resolveConv(gasA)).FieldString(), "Fee.Gas") && derivesFrom(priceA, func(y ssa.Value) bool { return strings.HasSuffix(pathOf(y).FieldString(), "Fee.Price.Value") })
	}
	r.Check(okNet, "C17.gas", fname(ro), "the EVM runs with the signed gas limit and price", "NewEVMTransaction(..., rawTx.Fee.Gas, rawTx.Fee.Price.Value, ...)", "the EVM transaction is built with another gas limit or price than the signed fee", p.pos(ro.Pos()))
	apply := firstCallIn(ro, "(*vm.EVMTransaction).Apply")
	okResp := apply != nil
	nResp := 0
	if apply != nil {
		errEdges := (&CallGuard{Name: "apply ok", Callees: []string{"(*vm.EVMTransaction).Apply"}, ErrOnly: true}).Edges(p, ro)
		okPath := reachFromInstr(apply, invertEdges(errEdges), nil) // instructions reachable when Apply succeeded
		allInstrs(ro, func(ins ssa.Instruction) {
			c, ok := ins.(*ssa.Call)
			if !ok {
				return
			}
			n := calleeName(c)
			if n != "action/olvm.ResponseSuccess" && n != "action/olvm.ResponseFailed" {
				return
			}
			if !reachFromInstr(apply, nil, nil)[ins] {
				return // before Apply (unmarshal failure)
			}
			nResp++
			gasArg := c.Call.Args[len(c.Call.Args)-1]
			fromUsed := derivesFrom(gasArg, func(y ssa.Value) bool { return strings.HasSuffix(pathOf(y).FieldString(), "UsedGas") })
			k, isK := intConst(gasArg)
			wrongFee := isK && k == constValue(p, Mod+"/action", "WrongFee")
			if okPath[ins] && !reachFromInstr(apply, errEdges, nil)[ins] {
				// only on the success side
				if !fromUsed {
					okResp = false
				}
			} else if !(fromUsed || wrongFee) {
				okResp = false
			}
		})
	}
	r.Check(okResp && nResp >= 3, "C17.gas", fname(ro), "every response after Apply carries the execution's used gas", "GasUsed = execResult.UsedGas; WrongFee when Apply returned a consensus error", "a response after a successful Apply reports another figure than ExecutionResult.UsedGas: the fee step charges a different amount than the EVM debited", p.pos(ro.Pos()))

	cf := p.MustFn("action.ContractFeeHandling")
	pool := firstCallIn(cf, "(*data/fees.Store).AddToPool")
	okCF := pool != nil
	if okCF {
		ch := pool.Call.Args[1]
		okCF = derivesFrom(ch, func(y ssa.Value) bool { return strings.HasSuffix(pathOf(y).FieldString(), "Fee.Price") }) &&
			derivesFrom(ch, func(y ssa.Value) bool { return y == ssa.Value(cf.Params[2]) })
		// not reachable when gasUsed is one of the two sentinels
		env := func(k int64) IntEnv {
			return func(v ssa.Value) (int64, bool) {
				if v == ssa.Value(cf.Params[2]) {
					return k, true
				}
				return 0, false
			}
		}
		for _, k := range []int64{constValue(p, Mod+"/action", "SkipFee"), constValue(p, Mod+"/action", "WrongFee")} {
			first := cf.Blocks[0].Instrs[0]
			if reachUnderEnv(first, env(k), nil)[pool] {
				okCF = false
			}
		}
	}
	r.Check(okCF, "C17.gas", fname(cf), "the fee pool receives signed price x used gas, and nothing for the skip / wrong-fee sentinels", "AddToPool(Fee.Price x gasUsed), unreachable for SkipFee and WrongFee",
		"the fee credited to the pool is not price x the gas the handler reported, or the pool is credited for a transaction that failed its consensus pre-checks", p.pos(cf.Pos()))
	pf := p.MustFn("(action/olvm.olvmTx).ProcessFee")
	cfc := firstCallIn(pf, "action.ContractFeeHandling")
	r.Check(cfc != nil && cfc.Call.Args[2] == ssa.Value(pf.Params[len(pf.Params)-1]), "C17.gas", fname(pf), "the fee step forwards the gas it was given", "ContractFeeHandling(ctx, tx, gasUsed, start)", "ProcessFee passes another figure than its gasUsed parameter", p.pos(pf.Pos()))
	dl := p.Roots()["deliver"]
	okD := false
	allInstrs(dl, func(ins ssa.Instruction) {
		c, ok := ins.(*ssa.Call)
		if !ok || !c.Call.IsInvoke() || c.Call.Method.Name() != "ProcessFee" {
			return
		}
		last := c.Call.Args[len(c.Call.Args)-1]
		okD = derivesFrom(last, func(y ssa.Value) bool {
			if !strings.HasSuffix(pathOf(y).FieldString(), "GasUsed") {
				return false
			}
			return derivesFrom(y, func(z ssa.Value) bool {
				cc, ok := z.(*ssa.Call)
				return ok && cc.Call.IsInvoke() && cc.Call.Method.Name() == "ProcessDeliver"
			})
		})
	})
	r.Check(okD, "C17.gas", fname(dl), "DeliverTx hands the handler's reported gas to the fee step", "ProcessFee(..., response.GasUsed) with response from ProcessDeliver", "the fee step receives another figure than the one the handler reported", p.pos(dl.Pos()))

	// ---- nonce
	okN := false
	allInstrs(td, func(ins ssa.Instruction) {
		c, ok := ins.(*ssa.Call)
		if !ok || !c.Call.IsInvoke() || c.Call.Method.Name() != "SetNonce" {
			return
		}
		bo, isB := c.Call.Args[1].(*ssa.BinOp)
		if !isB || bo.Op != token.ADD {
			return
		}
		k, isK := intConst(bo.Y)
		g, isG := bo.X.(*ssa.Call)
		if isK && k == 1 && isG && g.Call.IsInvoke() && g.Call.Method.Name() == "GetNonce" && isFromCall(g.Call.Args[0]) && isFromCall(c.Call.Args[0]) {
			okN = true
		}
	})
	r.Check(okN, "C17.nonce", fname(td), "a message call raises the sender's nonce by exactly one", "SetNonce(msg.From(), GetNonce(msg.From()) + 1)", "the nonce of a message call is not set to the sender's current nonce + 1", p.pos(td.Pos()))

	// ---- ledger
	sa := p.MustFn("(*data/balance.NesterAccountKeeper).SetAccount")
	sb := firstCallIn(sa, "(*data/balance.Store).SetBalance")
	ser := (*ssa.Call)(nil)
	allInstrs(sa, func(ins ssa.Instruction) {
		if c, ok := ins.(*ssa.Call); ok && c.Call.IsInvoke() && c.Call.Method.Name() == "Serialize" {
			ser = c
		}
	})
	okSA := sb != nil && ser != nil
	if okSA {
		// the coins written are the account's coins read before they were blanked; the address is the account's
		okSA = strings.HasSuffix(pathOf(sb.Call.Args[1]).FieldString(), "Address") &&
			derivesFrom(sb.Call.Args[2], func(y ssa.Value) bool { return strings.HasSuffix(pathOf(y).FieldString(), "Coins") })
		// Coins is blanked before serialisation
		blank := false
		allInstrs(sa, func(ins ssa.Instruction) {
			st, ok := ins.(*ssa.Store)
			if ok && strings.HasSuffix(pathOf(st.Addr).FieldString(), "Coins") && dominatesInstr(st, ser) {
				if k, isK := st.Val.(*ssa.Const); (isK && k.Value == nil) || isZeroInit(st.Val) || isZeroCompositeLoad(st.Val) {
					blank = true
				}
			}
		})
		okSA = okSA && blank
		// every successful return passes SetBalance's nil error
		e := (&CallGuard{Name: "balance written", Callees: []string{"(*data/balance.Store).SetBalance"}, ErrOnly: true}).Edges(p, sa)
		live := reachWithout(sa, e)
		nSucc := 0
		for _, ret := range returnsOf(sa) {
			// results spilled to a local because of the deferred unlock: success is the store of a nil error
			if len(ret.Results) == 1 {
				if ld, isLd := ret.Results[0].(*ssa.UnOp); isLd {
					if _, isLocal := ld.X.(*ssa.Alloc); isLocal {
						for i := len(ret.Block().Instrs) - 1; i >= 0; i-- {
							if st, isSt := ret.Block().Instrs[i].(*ssa.Store); isSt && st.Addr == ld.X {
								if isNilConst(st.Val) {
									nSucc++
									if live[ret.Block()] {
										okSA = false
									}
								}
								break
							}
						}
						continue
					}
				}
			}
			if returnMayBeSuccess(ret) {
				nSucc++
				if live[ret.Block()] {
					okSA = false
				}
			}
		}
		if nSucc == 0 {
			okSA = false
		}
	}
	r.Check(okSA, "C17.ledger", fname(sa), "the account's balance goes to the balance store and nowhere else", "record serialised with blank Coins; SetBalance(account.Address, account's coins) before every successful return",
		"SetAccount keeps a balance inside the keeper record or does not write the account's coins to the balance store: the EVM view and the native view of the balance diverge", p.pos(sa.Pos()))
	for _, name := range []string{"(*data/balance.NesterAccountKeeper).GetAccount", "(*data/balance.NesterAccountKeeper).GetVersionedAccount"} {
		fn := p.MustFn(name)
		okG := false
		allInstrs(fn, func(ins ssa.Instruction) {
			st, ok := ins.(*ssa.Store)
			if ok && strings.HasSuffix(pathOf(st.Addr).FieldString(), "Coins") {
				if derivesFrom(st.Val, func(y ssa.Value) bool {
					c, ok := y.(*ssa.Call)
					return ok && calleeName(c) == "(*data/balance.NesterAccountKeeper).getOrCreateCurrencyBalance"
				}) {
					// unconditional for the record that is returned: the store dominates every return of that record
					root := pathOf(st.Addr).Root
					okG = true
					nRet := 0
					for _, ret := range returnsOf(fn) {
						if len(ret.Results) > 0 && pathOf(ret.Results[0]).Root == root {
							nRet++
							if !dominatesInstr(st, ret) {
								okG = false
							}
						}
					}
					// results spilled to locals (deferred unlock): the record is published by a store into the result slot
					allInstrs(fn, func(j ssa.Instruction) {
						s2, ok := j.(*ssa.Store)
						if !ok {
							return
						}
						if slot, isSlot := s2.Addr.(*ssa.Alloc); isSlot && ssa.Value(slot) != root && s2.Val == root {
							nRet++
							if !dominatesInstr(st, s2) {
								okG = false
							}
						}
					})
					if nRet == 0 {
						okG = false
					}
				}
			}
		})
		r.Check(okG, "C17.ledger", name, "a loaded account takes its balance from the balance store", "ea.Coins = balance store value", "a loaded account keeps whatever balance was serialised instead of the balance store's: native transfers are invisible to the EVM", p.pos(fn.Pos()))
	}
	checkRemoveAccount(r, "C17.ledger")
	checkIntrinsicGas(r, "C17.gas")

	// ---- cache
	ap := p.MustFn("(*vm.EVMTransaction).Apply")
	fin := firstCallIn(ap, "(*vm.CommitStateDB).Finalise")
	okA := fin != nil
	if okA {
		fake := boolEdgesOf(ap, "(*vm.EVMTransaction).IsFake", true) // edges on which the transaction is a simulation
		live := reachWithout(ap, fake)
		// with the simulation edges removed, no return is reachable without passing Finalise
		first := ap.Blocks[0].Instrs[0]
		for ins := range reachFromInstr(first, fake, func(i ssa.Instruction) bool { return i == ssa.Instruction(fin) }) {
			if _, isRet := ins.(*ssa.Return); isRet && live[ins.Block()] {
				okA = false
			}
		}
	}
	r.Check(okA, "C17.cache", fname(ap), "every non-simulated Apply ends with Finalise", "no return without Finalise unless IsFake()", "a path of Apply returns without Finalise: the sender object debited by buyGas stays in the shared adapter and is written by the next transaction's Finalise although this transaction was discarded", p.pos(ap.Pos()))
	fz := p.MustFn("(*vm.CommitStateDB).Finalise")
	var epi *ssa.Function
	for _, a := range fz.AnonFuncs {
		epi = a
	}
	okE := epi != nil
	if okE {
		for _, field := range []string{"stateObjects", "addressToObjectIndex", "stateObjectsDirty"} {
			n, good := 0, true
			allInstrs(epi, func(ins ssa.Instruction) {
				st, ok := ins.(*ssa.Store)
				if !ok || pathOf(st.Addr).FieldString() != field {
					return
				}
				n++
				switch v := st.Val.(type) {
				case *ssa.MakeMap:
				case *ssa.MakeSlice:
					if k, isK := intConst(v.Len); !isK || k != 0 {
						good = false
					}
				case *ssa.Slice:
					// make([]T, 0) with a constant capacity is lowered to a slice of a fresh array
					if _, isAlloc := v.X.(*ssa.Alloc); !isAlloc {
						good = false
					} else if k, isK := intConst(v.High); !isK || k != 0 {
						good = false
					}
				default:
					good = false
				}
				if st.Block() != epi.Blocks[0] {
					good = false
				}
			})
			if n != 1 || !good {
				okE = false
			}
		}
	}
	r.Check(okE, "C17.cache", fname(fz), "no live object survives a transaction", "the deferred epilogue unconditionally replaces stateObjects / addressToObjectIndex / stateObjectsDirty with fresh empty containers",
		"Finalise keeps (some) live objects for the next transaction: their balances are copies of the balance store that native transactions in between do not update", p.pos(fz.Pos()))
	en := p.Roots()["end"]
	reach, _ := p.Reach(en)
	r.Check(reach[p.MustFn("(*vm.CommitStateDB).Reset")], "C17.cache", fname(en), "EndBlock resets the state adapter", "stateDB.Reset reachable from the block ender", "the adapter's per-block state (logs, bloom, counters) survives the block", p.pos(en.Pos()))
	checkRefundOrder(r)
	checkLedgerFullWidth(r)
	r.Floor("C17.", 16)
}

func isFromCall(v ssa.Value) bool {
	c, ok := v.(*ssa.Call)
	return ok && c.Call.IsInvoke() && c.Call.Method.Name() == "From" && strings.HasSuffix(pathOf(c.Call.Value).FieldString(), "msg")
}

func resolveConv(v ssa.Value) ssa.Value {
	for {
		switch x := v.(type) {
		case *ssa.Convert:
			v = x.X
			continue
		case *ssa.ChangeType:
			v = x.X
			continue
		}
		return v
	}
}

func isZeroCompositeLoad(v ssa.Value) bool {
	// Coin{} : load of a fresh zero-initialised local
	u, ok := v.(*ssa.UnOp)
	if !ok || u.Op != token.MUL {
		return false
	}
	a, ok := u.X.(*ssa.Alloc)
	if !ok {
		return false
	}
	for _, ref := range *a.Referrers() {
		if st, isSt := ref.(*ssa.Store); isSt && st.Addr == ssa.Value(a) {
			return false
		}
		if _, isFA := ref.(*ssa.FieldAddr); isFA {
			return false
		}
	}
	return true
}

func derefT(t types.Type) types.Type {
	if pt, ok := t.Underlying().(*types.Pointer); ok {
		return pt.Elem()
	}
	return t
}

// isParamCopy: root is the local copy go/ssa makes of a by-value parameter whose address is taken.
func isParamCopy(root ssa.Value, prm *ssa.Parameter) bool {
	al, ok := root.(*ssa.Alloc)
	if !ok || al.Referrers() == nil {
		return false
	}
	for _, r := range *al.Referrers() {
		if st, isS := r.(*ssa.Store); isS && st.Addr == ssa.Value(al) && st.Val == ssa.Value(prm) {
			return true
		}
	}
	return false
}

// checkRemoveAccount: removing an EVM account clears its record in the balance store (also a clause of C16: after a
// SELFDESTRUCT the dead contract's balance is zero on the native ledger as it is in go-ethereum's state).
func checkRemoveAccount(r *Run, rule string) {
	p := r.P
	ra := p.MustFn("(*data/balance.NesterAccountKeeper).RemoveAccount")
	rsb := firstCallIn(ra, "(*data/balance.Store).SetBalance")
	okRA := rsb != nil && strings.HasSuffix(pathOf(rsb.Call.Args[1]).FieldString(), "Address")
	if okRA {
		okRA = derivesFrom(rsb.Call.Args[2], func(y ssa.Value) bool {
			c, ok := y.(*ssa.Call)
			if !ok || calleeName(c) != "(data/balance.Currency).NewCoinFromInt" {
				return false
			}
			k, isK := intConst(c.Call.Args[1])
			return isK && k == 0
		})
	}
	// ... and it is the account's own (OLT) record only
	allInstrs(ra, func(ins ssa.Instruction) {
		c, ok := ins.(*ssa.Call)
		if !ok || c == rsb {
			return
		}
		if sc := c.Call.StaticCallee(); sc != nil && strings.HasPrefix(fname(sc), "(*data/balance.Store).") {
			for _, a := range c.Call.Args {
				if tname(a.Type()) == "data/balance.Coin" || tname(a.Type()) == "data/balance.Amount" {
					okRA = false // another balance write
				}
			}
		}
	})
	if okRA && rsb != nil {
		okRA = derivesFrom(rsb.Call.Args[2], func(y ssa.Value) bool { return strings.HasSuffix(pathOf(y).FieldString(), "Coins.Currency") })
	}
	r.Check(okRA, rule, fname(ra), "a removed account leaves no balance behind", "exactly one SetBalance(account.Address, zero of the account's own currency)", "RemoveAccount deletes the keeper record only, or zeroes records of other currencies as well (token balances of a touched empty account are wiped): a self-destructed contract keeps its balance on the native ledger although the beneficiary received it (value exists twice)", p.pos(ra.Pos()))

	// ... whatever amount the in-memory copy holds: the copy may have been zeroed by Suicide in the same transaction while
	// the balance record still has the committed amount, so only a pointer (nil) test may stand in front of the write
	if rsb != nil {
		bad := ""
		for _, pol := range []int{+1, -1} {
			pol := pol
			var at string
			edges := condEdges(ra, func(cond ssa.Value, iff *ssa.If) int {
				if nilCond(cond, func(ssa.Value) bool { return true }) != 0 {
					return 0 // pointer test
				}
				if derivesFrom(cond, func(y ssa.Value) bool {
					pa := pathOf(y)
					return len(ra.Params) > 1 && (pa.Root == ssa.Value(ra.Params[1]) || isParamCopy(pa.Root, ra.Params[1])) && strings.Contains(pa.FieldString(), "Coins")
				}) {
					at = p.ipos(iff)
					return pol
				}
				return 0
			})
			if len(edges) > 0 && !reachWithout(ra, edges)[rsb.Block()] {
				bad = at
			}
		}
		r.Check(bad == "", rule, fname(ra), "the balance record is cleared whatever the in-memory amount is", "SetBalance(zero) is reachable on both outcomes of every test of account.Coins' value",
			"the clearing write depends on the amount of the in-memory copy (test at "+bad+"): after Suicide zeroed the copy, the balance record keeps the committed amount and the dead contract's value exists twice", bad)
	}

}

// checkIntrinsicGas: the intrinsic gas is a sum of products count x price; each count is multiplied by its own price
// constant (argument-selection rule, the prices are go-ethereum's protocol parameters): the number of access-list entries
// by TxAccessListAddressGas, the number of storage keys by TxAccessListStorageKeyGas, the zero bytes (len(data) - nz) by
// TxDataZeroGas, the non-zero bytes by TxDataNonZeroGasEIP2028; the base is the creation price exactly on the creation edge.
func checkIntrinsicGas(r *Run, rule string) {
	p := r.P
	fn := p.MustFn("vm.IntrinsicGas")
	const params = "github.com/ethereum/go-ethereum/params"
	price := map[string]int64{}
	for _, n := range []string{"TxAccessListAddressGas", "TxAccessListStorageKeyGas", "TxDataZeroGas", "TxDataNonZeroGasEIP2028"} {
		price[n] = constValue(p, params, n)
	}
	isLenOf := func(i int) func(ssa.Value) bool {
		return func(y ssa.Value) bool {
			c, ok := y.(*ssa.Call)
			if !ok {
				return false
			}
			if b, isB := c.Call.Value.(*ssa.Builtin); !isB || b.Name() != "len" {
				return false
			}
			return i < len(fn.Params) && derivesFrom(c.Call.Args[0], func(z ssa.Value) bool { return z == ssa.Value(fn.Params[i]) })
		}
	}
	isKeys := func(y ssa.Value) bool {
		c, ok := y.(*ssa.Call)
		return ok && strings.HasSuffix(calleeName(c), "AccessList).StorageKeys")
	}
	isSub := func(y ssa.Value) bool { bo, ok := y.(*ssa.BinOp); return ok && bo.Op == token.SUB }
	seen := map[string]bool{}
	allInstrs(fn, func(ins ssa.Instruction) {
		bo, ok := ins.(*ssa.BinOp)
		if !ok || bo.Op != token.MUL {
			return
		}
		x, kv := bo.X, bo.Y
		k, isK := intConst(kv)
		if !isK {
			x, kv = bo.Y, bo.X
			k, isK = intConst(kv)
		}
		if !isK {
			return
		}
		var want string
		switch {
		case derivesFrom(x, isKeys):
			want = "TxAccessListStorageKeyGas"
		case derivesFrom(x, isLenOf(1)):
			want = "TxAccessListAddressGas"
		case derivesFrom(x, isSub):
			want = "TxDataZeroGas"
		default:
			want = "TxDataNonZeroGasEIP2028"
		}
		seen[want] = true
		r.Check(k == price[want], rule, fname(fn), "the count priced with "+want+" is multiplied by that constant", "count x its own price",
			fmt.Sprintf("a count that go-ethereum prices with %s (%d) is multiplied by %d: gas used, and with it the sender's debit and the fee, differ from the reference for transactions where the counts differ", want, price[want], k), p.ipos(bo))
	})
	if len(seen) < 4 {
		r.Viol(rule, fname(fn), "four priced counts", fmt.Sprintf("only %d of the four count x price products were found (access-list addresses, storage keys, zero bytes, non-zero bytes)", len(seen)), p.pos(fn.Pos()), nil)
	}
}
