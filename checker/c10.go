package main

// C10 Validator-set updates.

import (
	"fmt"
	"go/token"
	"strings"

	"golang.org/x/tools/go/ssa"
)

const fnGetEndBlock = "(*identity.ValidatorStore).GetEndBlockUpdate"

func init() {
	register(&propertyDef{
		ID:    "C10",
		Title: "Validator-set updates are well formed and follow the staking rule",
		Explain: "Decides on every path of the block-end election: a positive-power update is appended only past power >= minimum self-delegation, issued-count < top count and the not-in-malicious-set edge, with power and key taken from the record of the previous height; " +
			"the issued counter advances only when an update is issued; a power-0 update is appended only for addresses of the last active set that were popped as non-top, exactly when NOT(purgeHeight > 0 and height <= purgeHeight+2) " +
			"(condition evaluated over a domain of heights, through helpers), and is followed by SetLastPurgeHeight before the next address; stake/unstake are refused exactly when purgeHeight > 0 and purgeHeight+2 > height; " +
			"the result is sorted by public key bytes on every return; the election queue is a max-heap on power (Less evaluated), rebuilt from the previous height's records and heap-initialised; " +
			"the malicious set is filled from every frozen record.",
		NotDecided: "acceptability of the update list to Tendermint as a whole (duplicates across blocks, empty set, total power), convergence within five blocks",
		Run:        runC10,
	})
}

func runC10(r *Run) {
	p := r.P
	fn := p.MustFn(fnGetEndBlock)
	name := fname(fn)

	// the two kinds of appended updates, found by the value stored into ValidatorUpdate.Power
	var posStore, zeroStore *ssa.Store
	allInstrs(fn, func(ins ssa.Instruction) {
		st, ok := ins.(*ssa.Store)
		if !ok {
			return
		}
		fa, ok := st.Addr.(*ssa.FieldAddr)
		if !ok {
			return
		}
		n := namedOf(fa.X.Type())
		if n == nil || !strings.HasSuffix(tname(n), "abci/types.ValidatorUpdate") || fieldName(fa.X.Type(), fa.Field) != "Power" {
			return
		}
		if k, isC := intConst(st.Val); isC && k == 0 {
			zeroStore = st
		} else {
			posStore = st
		}
	})
	if posStore == nil || zeroStore == nil {
		r.Viol("C10.shape", name, "positive and power-0 updates", "the two kinds of validator updates were not found", p.pos(fn.Pos()), nil)
		return
	}
	isPos := func(f *ssa.Function, ins ssa.Instruction) bool { return ins == ssa.Instruction(posStore) }
	validatorRec := func(field string) VPred {
		return func(v ssa.Value) bool {
			pa := pathOf(v)
			al, ok := pa.Root.(*ssa.Alloc)
			return ok && tname(al.Type()) == "*identity.Validator" && (pa.FieldString() == field || strings.HasSuffix(pa.FieldString(), "."+field))
		}
	}
	minSelf := func(v ssa.Value) bool {
		return derivesFrom(v, func(y ssa.Value) bool { return strings.HasSuffix(pathOf(y).FieldString(), "MinSelfDelegationAmount") })
	}
	topCount := func(v ssa.Value) bool { return strings.HasSuffix(pathOf(v).FieldString(), "TopValidatorCount") }
	gPower := cmpG("power >= minimum self-delegation", validatorRec("Power"), token.GEQ, minSelf)
	// the issued counter: an int phi compared with TopValidatorCount
	var cntPhi ssa.Value
	for _, b := range fn.Blocks {
		if iff := blockIf(b); iff != nil {
			if bo, ok := iff.Cond.(*ssa.BinOp); ok && topCount(bo.Y) {
				cntPhi = bo.X
			}
		}
	}
	gCnt := cmpG("issued < TopValidatorCount", func(v ssa.Value) bool { return cntPhi != nil && v == cntPhi }, token.LSS, topCount)
	gMal := &EdgeGuard{Name: "not in the malicious set", Classify: func(_ *Program, _ *ssa.Function, cond ssa.Value, _ *ssa.If) int {
		return -boolCond(cond, func(v ssa.Value) bool {
			s, i := tupleSource(v)
			lk, ok := s.(*ssa.Lookup)
			return ok && i == 1 && strings.HasSuffix(pathOf(lk.X).FieldString(), "maliciousValidators")
		})
	}}
	why := map[string]string{
		gPower.Name: "a validator below the minimum self-delegation gets voting power",
		gCnt.Name:   "more than the configured number of validators are elected in one block",
		gMal.Name:   "a frozen or malicious validator is (re-)elected",
	}
	for _, g := range []*EdgeGuard{gPower, gCnt, gMal} {
		r.guardObIn("C10.elect", fn, "positive-power update", isPos, g, why[g.Name])
	}
	// power and key of the update come from the previous-height record
	r.Check(validatorRec("Power")(posStore.Val), "C10.elect", name, "update power = record power", "ValidatorUpdate.Power = validator.Power",
		"the issued power is not the validator record's stake-derived power", p.ipos(posStore))
	// the counter advances only when an update is issued
	if cntPhi != nil {
		var inc *ssa.BinOp
		allInstrs(fn, func(ins ssa.Instruction) {
			if bo, ok := ins.(*ssa.BinOp); ok && bo.Op == token.ADD && bo.X == cntPhi {
				if k, isC := intConst(bo.Y); isC && k == 1 {
					inc = bo
				}
			}
		})
		if inc != nil {
			isInc := func(f *ssa.Function, ins ssa.Instruction) bool { return ins == ssa.Instruction(inc) }
			r.guardObIn("C10.elect", fn, "issued counter increment", isInc, gMal, "a frozen validator uses up an election seat: fewer than the top count of eligible validators are elected")
			r.guardObIn("C10.elect", fn, "issued counter increment", isInc, gPower, "an under-staked validator uses up an election seat")
		} else {
			r.Viol("C10.elect", name, "issued counter increment", "the issued counter is never incremented", p.pos(fn.Pos()), nil)
		}
	} else {
		r.Viol("C10.elect", name, "issued counter", "no comparison with TopValidatorCount found", p.pos(fn.Pos()), nil)
	}
	// the record is read at height-1
	okPrev := false
	allInstrs(fn, func(ins ssa.Instruction) {
		c, ok := ins.(*ssa.Call)
		if !ok || calleeName(c) != "(*storage.State).GetVersioned" {
			return
		}
		bo, ok := c.Call.Args[1].(*ssa.BinOp)
		if ok && bo.Op == token.SUB {
			if k, isC := intConst(bo.Y); isC && k == 1 && isReqHeight(bo.X, fn) {
				if dominatesInstr(c, posStore) {
					okPrev = true
				}
			}
		}
	})
	r.Check(okPrev, "C10.elect", name, "record of the previous block (GetVersioned(height-1))", "election uses the committed records of height-1",
		"the election no longer reads the validator record at the previous height (same-block stake changes would take effect immediately)", p.ipos(posStore))

	// ---- power-0 updates
	isZero := func(f *ssa.Function, ins ssa.Instruction) bool { return ins == ssa.Instruction(zeroStore) }
	gNonTop := &EdgeGuard{Name: "popped as non-top this block", Classify: func(_ *Program, _ *ssa.Function, cond ssa.Value, _ *ssa.If) int {
		return boolCond(cond, func(v ssa.Value) bool {
			s, i := tupleSource(v)
			lk, ok := s.(*ssa.Lookup)
			if !ok || i != 1 {
				return false
			}
			_, isAlloc := pathOf(lk.X).Root.(*ssa.MakeMap)
			return isAlloc || strings.Contains(lk.X.Name(), "t")
		})
	}}
	r.guardObIn("C10.purge", fn, "power-0 update", isZero, gNonTop, "a validator that was not examined as non-top (or is not in the set) is removed")
	// the address iterated derives from the keys of lastActive
	keyOK := derivesFrom(zeroStore.Addr, func(y ssa.Value) bool { return false })
	_ = keyOK
	la := false
	allInstrs(fn, func(ins ssa.Instruction) {
		if rg, ok := ins.(*ssa.Range); ok && strings.HasSuffix(pathOf(rg.X).FieldString(), "lastActive") {
			la = true
		}
	})
	r.Check(la, "C10.purge", name, "candidates for removal are the last active set", "the purge loop walks the keys of lastActive (validators Tendermint currently has)",
		"removals are no longer drawn from the last active set: a validator that is not in Tendermint's set could be removed", p.pos(fn.Pos()))
	checkQueueDrained(r, fn)
	// purge window: appended iff NOT(purgeHeight > 0 && height <= purgeHeight+2)
	var gph *ssa.Call
	allInstrs(fn, func(ins ssa.Instruction) {
		if c, ok := ins.(*ssa.Call); ok && calleeName(c) == "(*identity.ValidatorStore).GetLastPurgeHeight" && c.Block().Dominates(zeroStore.Block()) {
			gph = c
		}
	})
	if gph == nil {
		r.Viol("C10.purge", name, "purge window", "GetLastPurgeHeight is not consulted before a removal", p.ipos(zeroStore), nil)
	} else {
		bad := ""
		n := 0
		for ph := int64(-1); ph <= 12 && bad == ""; ph++ {
			for h := int64(1); h <= 16; h++ {
				env := func(v ssa.Value) (int64, bool) {
					if s, i := tupleSource(v); s == ssa.Value(gph) && i == 0 {
						return ph, true
					}
					if isReqHeight(v, fn) {
						return h, true
					}
					return 0, false
				}
				reach := reachUnderEnv(gph, env, nil)
				got := reach[ssa.Instruction(zeroStore)]
				want := !(ph > 0 && h <= ph+2)
				n++
				if got != want {
					bad = fmt.Sprintf("purgeHeight=%d height=%d: removal %s, expected %s", ph, h, yn(got), yn(want))
					break
				}
			}
		}
		r.Check(bad == "", "C10.purge", name, "removal iff not (purgeHeight > 0 and height <= purgeHeight+2)",
			fmt.Sprintf("holds for all %d (purgeHeight, height) pairs of the domain", n),
			"the purge window differs: "+bad+" (a validator purged in block H stays in Tendermint's set during H+1 and H+2; removing it again is rejected by Tendermint)", p.ipos(zeroStore))
		// SetLastPurgeHeight before the next address
		reach := reachFromInstr(zeroStore, nil, func(ins ssa.Instruction) bool {
			return calleeName(ins) == "(*identity.ValidatorStore).SetLastPurgeHeight"
		})
		leak := false
		for ins := range reach {
			if ins == ssa.Instruction(gph) {
				leak = true // next iteration reached without recording the purge
			}
			if _, isRet := ins.(*ssa.Return); isRet {
				leak = true
			}
		}
		r.Check(!leak, "C10.purge", name, "SetLastPurgeHeight follows every removal", "the purge height is recorded before the next address is examined",
			"a removal can be issued without recording the purge height (the validator is removed again in the next block)", p.ipos(zeroStore))
		if c := firstCallIn(fn, "(*identity.ValidatorStore).SetLastPurgeHeight"); c != nil {
			r.Check(isReqHeight(c.Call.Args[2], fn), "C10.purge", name, "recorded purge height is the block height", "SetLastPurgeHeight(addr, height)", "the recorded purge height is not the current height", p.ipos(c))
		}
	}

	// ---- sorted result
	var srt *ssa.Call
	allInstrs(fn, func(ins ssa.Instruction) {
		if c, ok := ins.(*ssa.Call); ok && (calleeName(c) == "sort.Slice" || calleeName(c) == "sort.SliceStable") {
			srt = c
		}
	})
	okSort := srt != nil
	if okSort {
		for _, ret := range returnsOf(fn) {
			if !dominatesInstr(srt, ret) {
				okSort = false
			}
		}
		// not inside the loops that append
		if inSameLoop(srt, posStore) || inSameLoop(srt, zeroStore) {
			okSort = false
		}
		less := closureOf(srt.Call.Args[1])
		if less == nil {
			okSort = false
		} else {
			cmp := firstCallIn(less, "bytes.Compare")
			okLess := cmp != nil
			if okLess {
				for _, a := range cmp.Call.Args {
					if !derivesFrom(a, func(y ssa.Value) bool { return strings.HasSuffix(pathOf(y).FieldString(), "PubKey") }) {
						okLess = false
					}
				}
			}
			if !okLess {
				okSort = false
			}
		}
	}
	r.Check(okSort, "C10.sorted", name, "updates sorted by public key bytes on every return", "sort.Slice with bytes.Compare over both elements' PubKey dominates every return",
		"the update list is not (always) sorted by public key: its order would follow heap/map order and differ between nodes", p.pos(fn.Pos()))

	// ---- queue
	less := p.MustFn("(utils.PriorityQueue).Less")
	bad := ""
	for a := int64(-2); a <= 3 && bad == ""; a++ {
		for b := int64(-2); b <= 3; b++ {
			// evaluate the comparison of the two priorities
			rets := returnsOf(less)
			if len(rets) != 1 {
				bad = "unexpected shape"
				break
			}
			bo, ok := rets[0].Results[0].(*ssa.BinOp)
			if !ok {
				bad = "not a direct comparison of the two priorities"
				break
			}
			env := func(v ssa.Value) (int64, bool) {
				pa := pathOf(v)
				if strings.HasSuffix(pa.FieldString(), "priority") && len(pa.Indices) == 1 {
					if pa.Indices[0] == ssa.Value(less.Params[1]) {
						return a, true
					}
					if pa.Indices[0] == ssa.Value(less.Params[2]) {
						return b, true
					}
				}
				return 0, false
			}
			got, ok := pureEval(bo, env, 0)
			if !ok {
				bad = "comparison not evaluable over the two priorities"
				break
			}
			if (got != 0) != (a > b) {
				bad = fmt.Sprintf("Less(%d,%d) = %v", a, b, got != 0)
				break
			}
		}
	}
	r.Check(bad == "", "C10.queue", fname(less), "Less(i,j) == priority[i] > priority[j] (max-heap)", "evaluated on a grid of priorities",
		"the election queue is no longer a max-heap on power ("+bad+"): lower-staked validators are preferred", p.pos(less.Pos()))
	iq := p.MustFn("(*identity.ValidatorStore).InitValidatorQueue")
	it := firstCallIn(iq, "(*identity.ValidatorStore).Iterate")
	hi := firstCallIn(iq, "(*identity.ValidatorQueue).Init")
	if hi == nil {
		hi = firstCallIn(iq, "container/heap.Init")
	}
	r.Check(it != nil && hi != nil && dominatesInstr(it, hi), "C10.queue", fname(iq), "heap initialised after the pushes", "Init after Iterate",
		"the queue is not heap-initialised after being filled: Pop no longer yields the highest stake", p.pos(iq.Pos()))
	okQ := false
	for _, cl := range iq.AnonFuncs {
		allInstrs(cl, func(ins ssa.Instruction) {
			if c, ok := ins.(*ssa.Call); ok && calleeName(c) == "(*storage.State).GetVersioned" {
				// lastHeight - 1, computed at the call or hoisted into a local of the enclosing function (a captured variable)
				arg := resolveLoad(c.Call.Args[1])
				if fv, isFV := arg.(*ssa.FreeVar); isFV {
					if b := freeVarBinding(fv); b != nil {
						arg = resolveLoad(b)
						if al, isAl := b.(*ssa.Alloc); isAl {
							// the captured local: the single value stored into it
							if refs := al.Referrers(); refs != nil {
								for _, rr := range *refs {
									if st, isSt := rr.(*ssa.Store); isSt && st.Addr == ssa.Value(al) {
										arg = st.Val
									}
								}
							}
						}
					}
				}
				if ld, isLd := arg.(*ssa.UnOp); isLd && ld.Op == token.MUL {
					if fv, isFV := ld.X.(*ssa.FreeVar); isFV {
						if al, isAl := freeVarBinding(fv).(*ssa.Alloc); isAl && al.Referrers() != nil {
							for _, rr := range *al.Referrers() {
								if st, isSt := rr.(*ssa.Store); isSt && st.Addr == ssa.Value(al) {
									arg = st.Val
								}
							}
						}
					}
				}
				if bo, ok := arg.(*ssa.BinOp); ok && bo.Op == token.SUB {
					if k, isC := intConst(bo.Y); isC && k == 1 && strings.HasSuffix(pathOf(bo.X).FieldString(), "lastHeight") {
						okQ = true
					}
				}
			}
		})
		r.Check(callbackNeverStops(cl), "C10.queue", fname(cl), "every validator record is queued", "the scan never stops early", "the queue can miss validators sorting after a record that could not be read", p.pos(cl.Pos()))
	}
	r.Check(okQ, "C10.queue", fname(iq), "queue priorities come from the previous height's records", "GetVersioned(lastHeight-1)", "the queue is not built from the previous block's records", p.pos(iq.Pos()))

	// ---- stake / unstake refused inside the purge window
	for _, hn := range []string{fnHandleStake, fnHandleUnst} {
		h := p.MustFn(hn)
		g := firstCallIn(h, "(*identity.ValidatorStore).GetLastPurgeHeight")
		set := firstCallIn(h, "(*identity.ValidatorStore).set")
		if g == nil || set == nil {
			r.Viol("C10.window", fname(h), "stake change refused right after a purge", "GetLastPurgeHeight / set not found", p.pos(h.Pos()), nil)
			continue
		}
		hp := h.Params[len(h.Params)-1]
		bad := ""
		for ph := int64(-1); ph <= 10 && bad == ""; ph++ {
			for ht := int64(1); ht <= 14; ht++ {
				env := func(v ssa.Value) (int64, bool) {
					if s, i := tupleSource(v); s == ssa.Value(g) && i == 0 {
						return ph, true
					}
					if v == ssa.Value(hp) {
						return ht, true
					}
					return 0, false
				}
				got := reachUnderEnv(g, env, nil)[ssa.Instruction(set)]
				want := !(ph > 0 && ph+2 > ht)
				if got != want {
					bad = fmt.Sprintf("purgeHeight=%d height=%d: record written %s, expected %s", ph, ht, yn(got), yn(want))
					break
				}
			}
		}
		r.Check(bad == "", "C10.window", fname(h), "record written iff not (purgeHeight > 0 and purgeHeight+2 > height)", "evaluated over a domain of heights",
			"the stake-change window after a purge differs: "+bad, p.ipos(set))
	}

	// ---- malicious set from every frozen record (shared with C19)
	cm := p.MustFn("(*identity.ValidatorStore).CheckMaliciousValidators")
	if c := firstCallIn(cm, "(*data/evidence.EvidenceStore).IterateSuspiciousValidators"); c != nil {
		cl := closureOf(c.Call.Args[1])
		r.Check(cl != nil && callbackNeverStops(cl), "C10.malicious", fname(cm), "malicious set filled from every frozen record", "collector never stops the scan", "the malicious set can miss frozen validators", p.ipos(c))
	} else {
		r.Viol("C10.malicious", fname(cm), "malicious set filled from every frozen record", "no scan of the frozen validators", p.pos(cm.Pos()), nil)
	}
	isv := p.MustFn("(*data/evidence.EvidenceStore).IterateSuspiciousValidators")
	for _, cl := range isv.AnonFuncs {
		ok := true
		for _, ret := range returnsOf(cl) {
			v := ret.Results[0]
			if c, isC := boolConst(v); isC && !c {
				continue
			}
			if call, isCall := v.(*ssa.Call); isCall && call.Call.StaticCallee() == nil && isCallbackValue(call.Call.Value) {
				continue
			}
			ok = false
		}
		r.Check(ok, "C10.malicious", fname(cl), "released records are skipped without stopping the scan", "false or the caller's verdict",
			"the scan stops at a released record: frozen validators after it are missing from the malicious set and keep receiving positive-power updates", p.pos(cl.Pos()))
	}
	checkLastActive(r)
	checkPerBlockRebuildAs(r, "C10.rebuild", "identity.ValidatorStore")
	checkOptionsValidated(r, "C10.options", "ValidateStaking", 3)
	r.Floor("C10.", 20)
}

func yn(b bool) string {
	if b {
		return "issued"
	}
	return "skipped"
}

// isReqHeight: v is req.GetHeight() / req.Height of the RequestEndBlock parameter (or a local copy).
func isReqHeight(v ssa.Value, fn *ssa.Function) bool {
	if c, ok := v.(*ssa.Call); ok && strings.HasSuffix(calleeName(c), "RequestEndBlock).GetHeight") {
		return true
	}
	pa := pathOf(v)
	if prm, ok := pa.Root.(*ssa.Parameter); ok && prm.Parent() == fn && strings.HasSuffix(pa.FieldString(), "Height") {
		return strings.Contains(tname(prm.Type()), "RequestEndBlock")
	}
	return false
}

// checkQueueDrained (C10.drain): the election loop examines every queued candidate. A candidate that is never popped is
// neither elected nor recorded as non-top, and only validators recorded as non-top are ever removed from the active set: a
// loop that stops once the seats are filled leaves an outbid validator in Tendermint's set for good. Structural form: every
// edge that leaves the loop around queue.Pop() is the "queue is empty" edge of a test of queue.Len().
func checkQueueDrained(r *Run, fn *ssa.Function) {
	p := r.P
	name := fname(fn)
	var pop *ssa.Call
	allInstrs(fn, func(ins ssa.Instruction) {
		if c, ok := ins.(*ssa.Call); ok && calleeName(c) == "(*identity.ValidatorQueue).Pop" && pop == nil {
			pop = c
		}
	})
	if pop == nil {
		fail("C10.drain: no ValidatorQueue.Pop in %s", name)
	}
	hdr := loopHeaderOf(pop.Block())
	if hdr == nil {
		r.Viol("C10.drain", name, "election loop", "queue.Pop() is not inside a loop: at most one candidate is examined", p.ipos(pop), nil)
		return
	}
	inLoop := map[*ssa.BasicBlock]bool{hdr: true}
	for b := range reachFrom(hdr, nil) {
		if reachFrom(b, nil)[hdr] {
			inLoop[b] = true
		}
	}
	isLen := func(v ssa.Value) bool {
		c, ok := v.(*ssa.Call)
		return ok && calleeName(c) == "(*identity.ValidatorQueue).Len"
	}
	bad := ""
	exits := 0
	for b := range inLoop {
		for si, sc := range b.Succs {
			if inLoop[sc] {
				continue
			}
			exits++
			okExit := false
			if iff := blockIf(b); iff != nil {
				v, flip := stripNot(iff.Cond)
				if bo, isB := v.(*ssa.BinOp); isB {
					var rel token.Token
					var k int64
					okc := false
					if isLen(bo.X) {
						if kk, isK := intConst(bo.Y); isK {
							rel, k, okc = bo.Op, kk, true
						}
					} else if isLen(bo.Y) {
						if kk, isK := intConst(bo.X); isK {
							rel, k, okc = mirror(bo.Op), kk, true
						}
					}
					if okc {
						// the exit edge is taken when (Len rel k) is (si == 0) xor flip; it must imply Len == 0, i.e. it must
						// be false for every Len >= 1
						taken := si == 0
						if flip {
							taken = !taken
						}
						holds := func(n int64) bool {
							var t bool
							switch rel {
							case token.GTR:
								t = n > k
							case token.GEQ:
								t = n >= k
							case token.LSS:
								t = n < k
							case token.LEQ:
								t = n <= k
							case token.EQL:
								t = n == k
							case token.NEQ:
								t = n != k
							}
							return t == taken
						}
						okExit = holds(0)
						for n := int64(1); n <= 3; n++ {
							if holds(n) {
								okExit = false
							}
						}
					}
				}
			}
			if !okExit {
				bad = p.ipos(b.Instrs[len(b.Instrs)-1])
			}
		}
	}
	r.Check(bad == "" && exits > 0, "C10.drain", name, "the election loop ends only when the queue is empty", "every exit of the loop around queue.Pop() is the empty-queue edge of a queue.Len() test",
		"the election loop can end while candidates are still queued: they are neither elected nor recorded as non-top, so a validator that was outbid is never removed from the active set (and the set never converges to the election)", bad)
}
