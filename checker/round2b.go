package main

// Rules added after the second round of seeded changes (each is called from its property's run function).

import (
	"go/token"
	"strings"

	"golang.org/x/tools/go/ssa"
)

// C09.begin: BeginTxSession installs a fresh session on every path (a session left open by a path that forgot to close
// it must not leak into the next transaction).
func checkBeginFresh(r *Run) {
	p := r.P
	fn := p.MustFn("(*storage.State).BeginTxSession")
	var st *ssa.Store
	allInstrs(fn, func(ins ssa.Instruction) {
		if s, ok := ins.(*ssa.Store); ok && pathOf(s.Addr).FieldString() == "txSession" {
			if c, isCall := resolveConv(unwrapIface(s.Val)).(*ssa.Call); isCall && strings.Contains(calleeName(c), "BeginSession") {
				st = s
			}
		}
	})
	okv := st != nil
	if okv {
		for _, ret := range returnsOf(fn) {
			if !dominatesInstr(st, ret) {
				okv = false
			}
		}
	}
	r.Check(okv, "C09.begin", fname(fn), "a fresh session is installed on every path", "txSession = cache.BeginSession() dominates every return",
		"BeginTxSession keeps an already open session on some path: the writes of a transaction whose session was never closed (CheckTx returns early when Validate fails) become part of the next transaction", p.pos(fn.Pos()))
}

// C12.iter / generic: the store adapters used by the maturity payers stop the scan only with the consumer's verdict or on
// a decoding error, never on a property of the entry.
func checkIterAdapters(r *Run, rule string, names []string) {
	p := r.P
	n := 0
	for _, name := range names {
		fn := p.MustFn(name)
		for _, cl := range fn.AnonFuncs {
			n++
			errEdges := condEdges(cl, func(cond ssa.Value, _ *ssa.If) int {
				return -nilCond(cond, func(y ssa.Value) bool { return isErrorType(y.Type()) })
			})
			live := reachWithout(cl, errEdges)
			bad := ""
			for _, ret := range returnsOf(cl) {
				v := ret.Results[0]
				if k, isK := boolConst(v); isK {
					if k && live[ret.Block()] {
						bad = "returns true (stop) at " + p.ipos(ret) + " although no decoding error occurred"
					}
					continue
				}
				// the consumer's verdict
				if c, isCall := v.(*ssa.Call); isCall && c.Call.StaticCallee() == nil && !c.Call.IsInvoke() {
					continue
				}
				bad = "returns a value that is neither the consumer's verdict nor a constant at " + p.ipos(ret)
			}
			r.Check(bad == "", rule, fname(cl), "the scan stops only when the consumer says so (or an entry cannot be decoded)", "every return is false, the callback's result, or true behind a decoding error",
				"the adapter "+bad+": the entries behind it in key order are never handed to the payer and are never paid", p.pos(cl.Pos()))
		}
	}
	if n < len(names) {
		fail("%s: only %d adapter closures found for %d functions", rule, n, len(names))
	}
}

// C10.lastactive: the previous set is recorded for every vote of the last commit, whether it signed or not.
func checkLastActive(r *Run) {
	p := r.P
	fn := p.MustFn("(*identity.ValidatorStore).cacheActiveValidators")
	var mu *ssa.MapUpdate
	allInstrs(fn, func(ins ssa.Instruction) {
		if m, ok := ins.(*ssa.MapUpdate); ok && strings.HasSuffix(pathOf(m.Map).FieldString(), "lastActive") {
			mu = m
		}
	})
	okv := mu != nil
	if okv {
		// not control-dependent on the vote's own flags: both outcomes of any test on SignedLastBlock reach the update
		for _, pol := range []int{+1, -1} {
			pol := pol
			edges := condEdges(fn, func(cond ssa.Value, _ *ssa.If) int {
				// any test on the vote itself (a field, or a getter called on the element of the Votes slice)
				if derivesFrom(cond, func(y ssa.Value) bool {
					if strings.HasSuffix(pathOf(y).FieldString(), "SignedLastBlock") {
						return true
					}
					ia, ok := y.(*ssa.IndexAddr)
					return ok && strings.HasSuffix(pathOf(ia.X).FieldString(), "Votes")
				}) {
					return pol
				}
				return 0
			})
			if len(edges) > 0 && !reachWithout(fn, edges)[mu.Block()] {
				okv = false
			}
		}
		okv = okv && strings.HasSuffix(pathOf(mu.Value).FieldString(), "Validator.Power")
	}
	r.Check(okv, "C10.lastactive", fname(fn), "every member of the last commit is recorded, signer or not", "lastActive[addr] = vote.Validator.Power for every vote",
		"validators that did not sign the last block are left out of the recorded previous set: an ineligible validator that is offline is never sent a power-0 update and stays in Tendermint's set", p.pos(fn.Pos()))
}

// C19.suspicious: creating a suspicious-validator record always writes the record built from the arguments.
func checkCreateSuspicious(r *Run) {
	p := r.P
	fn := p.MustFn("(*data/evidence.EvidenceStore).CreateSuspiciousValidator")
	mk := firstCallIn(fn, "data/evidence.NewLastValidatorHistory")
	up := firstCallIn(fn, "(*data/evidence.EvidenceStore).UpdateSuspiciousValidator")
	okv := mk != nil && up != nil
	if okv {
		for i := 0; i < 4 && i < len(mk.Call.Args); i++ {
			if mk.Call.Args[i] != ssa.Value(fn.Params[i+1]) {
				okv = false
			}
		}
		okv = okv && up.Call.Args[1] == ssa.Value(mk)
		for _, ret := range returnsOf(fn) {
			if !dominatesInstr(up, ret) || resolveLoad(ret.Results[0]) != ssa.Value(mk) {
				okv = false
			}
		}
	}
	r.Check(okv, "C19.suspicious", fname(fn), "a freeze always stores the new record", "NewLastValidatorHistory(arguments) is written and returned on every path",
		"an existing record is kept or returned instead of the new one: a released validator is never frozen again, or a guilty verdict does not replace a missed-votes freeze (early release)", p.pos(fn.Pos()))
	// ... and unchanged: no field of the freshly built record is overwritten before it is stored (the freeze time and height
	// are the arguments' - a record that inherits them from an earlier episode is released early)
	if mk != nil {
		touched := ""
		allInstrs(fn, func(ins ssa.Instruction) {
			st, ok := ins.(*ssa.Store)
			if !ok {
				return
			}
			if pa := pathOf(st.Addr); pa.Root == ssa.Value(mk) && len(pa.Fields) > 0 {
				touched = pa.FieldString() + " at " + p.ipos(st)
			}
		})
		r.Check(touched == "", "C19.suspicious", fname(fn), "the stored record is the one built from the arguments, unmodified", "no field of NewLastValidatorHistory(arguments) is written before the store",
			"a field of the new record ("+touched+") is overwritten before it is stored: freeze time / height / status no longer come from this freeze (a record carrying an earlier episode's freeze time satisfies the release delay at once)", touched)
	}
	u := p.MustFn("(*data/evidence.EvidenceStore).UpdateSuspiciousValidator")
	set := firstCallIn(u, "(*data/evidence.EvidenceStore).Set")
	okU := set != nil
	if okU {
		e := (&CallGuard{Name: "serialised", Callees: []string{}, ErrOnly: true}).Edges(p, u)
		_ = e
		for _, ret := range returnsOf(u) {
			if returnMayBeSuccess(ret) && !dominatesInstr(set, ret) {
				okU = false
			}
		}
	}
	r.Check(okU, "C19.suspicious", fname(u), "the record is written before a successful return", "Set dominates every nil return", "UpdateSuspiciousValidator can report success without writing", p.pos(u.Pos()))
}

// C19.clean: the duplicate clean-up enumerates requests through the tracker record (overlay-aware reads), never through
// a range scan of the tree, which does not see requests created in the current block.
func checkCleanTracker(r *Run) {
	p := r.P
	fn := p.MustFn("(*data/evidence.EvidenceStore).CleanTracker")
	scans := false
	body := map[*ssa.Function]bool{}
	for _, f := range handlerBody(fn) {
		body[f] = true
	}
	for f := range body {
		allInstrs(f, func(ins ssa.Instruction) {
			n := calleeName(ins)
			if strings.HasSuffix(n, ").IterateRange") || strings.HasSuffix(n, ").IterateRequests") || strings.HasSuffix(n, ").Iterate") {
				scans = true
			}
		})
	}
	usesTracker := firstCallIn(fn, "(*data/evidence.EvidenceStore).GetAllegationTracker") != nil && firstCallIn(fn, "(*data/evidence.EvidenceStore).GetAllegationRequest") != nil
	r.Check(!scans && usesTracker, "C19.clean", fname(fn), "duplicates are found through the tracker's own id list", "GetAllegationTracker + GetAllegationRequest, no range scan",
		"the clean-up looks for duplicate requests with a range scan of the committed tree: requests created in the current block are invisible to it, two requests against one validator are both settled and the validator is slashed twice", p.pos(fn.Pos()))
}

// C15.refund: the refund of a failed redeem is computed by the same parser over the tracker's raw transaction bytes as the
// debit of the redeem was.
func checkRefundParser(r *Run) {
	p := r.P
	rd := p.deliverEntry("ETH_REDEEM")
	// the parser behind the debit
	var parser *ssa.Function
	for _, c := range allCalls(rd, fnBalMinus) {
		derivesFrom(c.Call.Args[2], func(y ssa.Value) bool {
			if cc, ok := y.(*ssa.Call); ok && parser == nil {
				if sc := cc.Call.StaticCallee(); sc != nil && strings.HasPrefix(fname(sc), "chains/ethereum.") {
					for _, a := range cc.Call.Args {
						if msgF(p, "ETHTxn")(a) {
							parser = sc
						}
					}
				}
			}
			return false
		})
	}
	if parser == nil {
		fail("C15.refund: the parser behind the redeem debit was not found")
	}
	rf := p.MustFn("action/eth.refundTokens")
	okv := false
	for _, c := range allCalls(rf, fnBalAdd) {
		good := false
		derivesFrom(c.Call.Args[2], func(y ssa.Value) bool {
			if cc, ok := y.(*ssa.Call); ok && cc.Call.StaticCallee() == parser {
				if strings.HasSuffix(pathOf(cc.Call.Args[0]).FieldString(), "SignedETHTx") {
					good = true
				}
			}
			return false
		})
		// and from no other parser of the chains/ethereum package
		other := derivesFrom(c.Call.Args[2], func(y ssa.Value) bool {
			cc, ok := y.(*ssa.Call)
			if !ok {
				return false
			}
			sc := cc.Call.StaticCallee()
			return sc != nil && sc != parser && strings.HasPrefix(fname(sc), "chains/ethereum.") && sc.Signature.Results().Len() > 0 && !strings.Contains(fname(sc), "StringTOABI")
		})
		if good && !other {
			okv = true
		} else {
			okv = false
			break
		}
	}
	r.Check(okv, "C15.refund", fname(rf), "the refunded amount is what the redeem debited", "amount = "+fname(parser)+"(tracker.SignedETHTx, ...) - the parser and the bytes of the debit",
		"the refund is computed by another parser (or from other bytes) than the debit of the redeem: a crafted Ethereum transaction is debited one amount and refunded another", p.pos(rf.Pos()))
}

// C20.purchase.live: the asking price is paid to the stored owner only while the name has not expired.
func checkSaleNotExpired(r *Run, pu *ssa.Function, creditSale ssa.Instruction) {
	isVersion := func(v ssa.Value) bool {
		c, ok := v.(*ssa.Call)
		return ok && (calleeName(c) == "(storage.State).Version" || calleeName(c) == "(*storage.State).Version")
	}
	isExpire := func(v ssa.Value) bool { return strings.HasSuffix(pathOf(v).FieldString(), "ExpireHeight") }
	g := &AnyGuard{Name: "not expired", Alts: []GuardSpec{
		cmpG("version <= ExpireHeight", isVersion, token.LEQ, isExpire),
		boolCallG("!IsExpired(version)", false, []string{"(*data/ons.Domain).IsExpired"}, nil, isVersion),
	}}
	r.guardOb("C20.purchase", pu, "sale-price credit to the stored owner", func(fn *ssa.Function, ins ssa.Instruction) bool { return ins == creditSale }, g,
		"an expired name that is still flagged on sale is sold at its old asking price: the lapsed owner is paid and no base price is charged")
}

// C19.nodowngrade: the missed-votes detection never replaces the record of a validator that is already frozen.
func checkNoDowngrade(r *Run) {
	p := r.P
	fn := p.MustFn("(*identity.ValidatorStore).CheckMaliciousValidators")
	sink := callsTo("(*data/evidence.EvidenceStore).CreateSuspiciousValidator")
	notFrozen := &AnyGuard{Name: "not already frozen", Alts: []GuardSpec{
		&EdgeGuard{Name: "no record in the frozen set", Classify: func(_ *Program, _ *ssa.Function, cond ssa.Value, _ *ssa.If) int {
			return -boolCond(cond, func(y ssa.Value) bool {
				e, ok := y.(*ssa.Extract)
				if !ok || e.Index != 1 {
					return false
				}
				lk, isLk := e.Tuple.(*ssa.Lookup)
				return isLk && strings.HasSuffix(pathOf(lk.X).FieldString(), "maliciousValidators")
			})
		}},
		boolCallG("record not frozen", false, []string{"(*data/evidence.LastValidatorHistory).IsFrozen"}),
		boolCallG("validator not frozen", false, []string{"(*data/evidence.EvidenceStore).IsFrozenValidator"}),
	}}
	m := &MustPass{P: p, Scope: func(*ssa.Function) bool { return false }, Guard: notFrozen, IsSink: sink}
	exposed := m.Exposed(fn)
	r.Check(len(exposed) == 0 && m.Sinks > 0, "C19.nodowngrade", fname(fn), "a missed-votes record is created only for a validator that is not frozen yet", "CreateSuspiciousValidator behind 'no frozen record'",
		"the missed-votes detection overwrites the record of a validator that is already frozen: a guilty (BYZANTINE_FAULT) record is replaced by a missed-votes record, which can be released at once instead of after the release time", p.pos(fn.Pos()))
}
