package main

// C01 Replica determinism.

import (
	"fmt"
	"go/token"
	"go/types"
	"sort"
	"strings"

	"golang.org/x/tools/go/ssa"
)

func init() {
	register(&propertyDef{
		ID:    "C01",
		Title: "Replica determinism: same blocks give the same state and results on every node",
		Explain: "Decides, over every repository function reachable from the consensus hooks (InitChain, BeginBlock, DeliverTx, EndBlock, Commit): " +
			"(maprange) every range over a Go map is order-insensitive (pure/commutative body, or keys collected and sorted before any other use; no state write, no first-match exit), and order-tainted producers are consumed only by set builders; " +
			"(ordered-replay) the block cache and the tx session replay writes from the ordered key list, never from the map; " +
			"(serializer) every encoder used for persisted values is the JSON strategy (sorted map keys) or encodes map-free types; " +
			"(nodelocal) values that depend on the node's identity, wall clock or random sources do not reach chain-state writes or consensus responses, fields of internal-transaction payloads that carry the node's address are read only for signer lists, tags and logging, " +
			"and no chain-state effect or failing return is control-dependent on the node's witness/validator role or its job store.",
		NotDecided: "float/big.Float platform determinism, determinism of IAVL and encoding/json themselves, equality of hashes",
		Run:        runC01,
	})
}

// mapRanges lists the ssa.Range instructions over map-typed values in fn.
func mapRanges(fn *ssa.Function) []*ssa.Range {
	var res []*ssa.Range
	allInstrs(fn, func(ins ssa.Instruction) {
		if rg, ok := ins.(*ssa.Range); ok {
			if _, isMap := rg.X.Type().Underlying().(*types.Map); isMap {
				res = append(res, rg)
			}
		}
	})
	return res
}

// frozen exceptions of C01.maprange, one reason each (keyed by function).
var mapRangeExceptions = map[string]string{
	"(*data.StorageRouter).WithState": "each iteration re-aims one distinct ext-store object at the given state; iterations do not interact (pointer re-aim only)",
	"chains/ethereum.mapkey":          "search-by-value with early return over the static ABI signature table, whose values are unique by construction (one match at most)",
}

// accepted consumers of order-tainted producers (functions returning a slice filled in map order).
var taintedConsumers = map[string]map[string]string{
	"(data/balance.CurrencySet).GetCurrencies": {
		"(data/balance.Currencies).GetCurrencySet": "builds a set (name/id maps) from the slice: insertion order is irrelevant",
	},
}

type rangeResult struct {
	Sensitive bool
	Why       string
	Kind      string // "pure", "sorted-collector", "producer", "log-only", ...
	Producer  bool
}

var sortFuncs = map[string]bool{"sort.Strings": true, "sort.Ints": true, "sort.Float64s": true, "sort.Slice": true, "sort.SliceStable": true, "sort.Sort": true, "sort.Stable": true}

func runC01(r *Run) {
	p := r.P
	reach, par := p.Reach(p.ConsensusRoots()...)
	r.Extra["consensus_reachable_repo_functions"] = len(reach)
	if len(reach) < 800 {
		fail("only %d functions reachable from the consensus roots (expected > 1000): call graph or roots broken", len(reach))
	}

	// ---------------- C01.maprange
	producers := map[*ssa.Function]string{}
	for _, fn := range sortedFns(reach) {
		for i, rg := range mapRanges(fn) {
			name := fname(fn)
			construct := fmt.Sprintf("range over map #%d (%s)", i, tname(rg.X.Type()))
			res := classifyMapRange(p, fn, rg)
			if res.Producer {
				producers[fn] = res.Why
			}
			if res.Sensitive {
				if why, ok := mapRangeExceptions[name]; ok {
					r.OK("C01.maprange", name, construct, "frozen exception: "+why+" (classifier said: "+res.Why+")")
					continue
				}
				r.Viol("C01.maprange", name, construct,
					"the loop's effect depends on Go's map iteration order: "+res.Why+" (different nodes/runs apply it in different orders, so first-write order, tree shape and root hash can differ)",
					p.ipos(rg), callPath(par, fn))
				continue
			}
			r.OK("C01.maprange", name, construct, res.Kind+": "+res.Why)
		}
	}
	// consumers of order-tainted producers
	for _, fn := range sortedFns(reach) {
		allInstrs(fn, func(ins ssa.Instruction) {
			c, ok := ins.(*ssa.Call)
			if !ok {
				return
			}
			sc := c.Call.StaticCallee()
			if sc == nil {
				return
			}
			if _, isProd := producers[sc]; !isProd {
				return
			}
			okUse := true
			bad := ""
			for _, u := range *c.Referrers() {
				uc, isCall := u.(*ssa.Call)
				if isCall {
					if _, acc := taintedConsumers[fname(sc)][calleeName(uc)]; acc {
						continue
					}
					if calleeName(uc) == "builtin:len" {
						continue
					}
				}
				okUse = false
				bad = fmt.Sprintf("%T at %s", u, p.ipos(u))
			}
			r.Check(okUse, "C01.maprange.consumer", fname(fn), "use of "+fname(sc)+" (slice in map order)",
				"the order-tainted slice is consumed only by an order-insensitive set builder",
				"a slice filled in map iteration order is used on the consensus path by something else than the accepted set builders ("+bad+")", p.ipos(c))
		})
	}
	r.Floor("C01.maprange", 8)
	// positive fixture: the classifier must fire on a state write inside a map range (checked on a synthetic instance of the
	// decision procedure: a callee summary with WritesState makes any call in a loop body sensitive).
	if !callSensitiveByEffects(&Effects{WritesState: true, WhyState: "fixture"}) {
		fail("C01.maprange self-check failed: a state-writing callee is not classified as order-sensitive")
	}

	// ---------------- C01.ordered-replay (mechanism named in the property; same rule instances as C09.replay.ordered)
	for _, n := range []string{"(*storage.cacheSession).Commit", "(*storage.sessionCache).Iterate", fnStateWr} {
		fn := p.MustFn(n)
		bad := hasMapRange(fn)
		for _, a := range fn.AnonFuncs {
			if hasMapRange(a) != nil {
				bad = hasMapRange(a)
			}
		}
		r.Check(bad == nil, "C01.ordered-replay", n, "no range over the overlay map",
			"writes are replayed from the ordered key list", "writes are replayed in Go map order: the order of first writes into the tree differs between nodes", p.pos(fn.Pos()))
	}

	// ---------------- C01.serializer
	checkSerializers(r, reach)

	// ---------------- C01.nodelocal
	checkNodeLocal(r, reach, par)
}

func callSensitiveByEffects(e *Effects) bool { return e.WritesState || e.WritesMemory }

// classifyMapRange decides order sensitivity of one map range loop.
func classifyMapRange(p *Program, fn *ssa.Function, rg *ssa.Range) rangeResult {
	var next *ssa.Next
	for _, u := range *rg.Referrers() {
		if n, ok := u.(*ssa.Next); ok {
			next = n
		}
	}
	if next == nil {
		return rangeResult{Sensitive: true, Why: "range without Next (unrecognised loop shape)"}
	}
	H := next.Block()
	iff := blockIf(H)
	if iff == nil {
		return rangeResult{Sensitive: true, Why: "unrecognised loop header"}
	}
	body, exit := H.Succs[0], H.Succs[1]
	// region
	R := map[*ssa.BasicBlock]bool{}
	stack := []*ssa.BasicBlock{body}
	for len(stack) > 0 {
		b := stack[len(stack)-1]
		stack = stack[:len(stack)-1]
		if R[b] || b == H || b == exit {
			continue
		}
		R[b] = true
		stack = append(stack, b.Succs...)
	}
	var kv []ssa.Value
	for _, u := range *next.Referrers() {
		if e, ok := u.(*ssa.Extract); ok && e.Index > 0 {
			kv = append(kv, e)
		}
	}
	fromKV := func(v ssa.Value) bool {
		return derivesFrom(v, func(y ssa.Value) bool {
			for _, x := range kv {
				if y == x {
					return true
				}
			}
			return false
		})
	}
	_ = kv

	// collectors
	type collector struct {
		phi  *ssa.Phi
		addr ssa.Value // Alloc-based collector
		desc string
	}
	var collectors []collector
	phiIsCollector := map[*ssa.Phi]bool{}
	for _, ins := range H.Instrs {
		phi, ok := ins.(*ssa.Phi)
		if !ok {
			continue
		}
		// does a back edge value derive from append(phi, ...) ?
		for i, e := range phi.Edges {
			if !R[H.Preds[i]] {
				continue
			}
			if appendsTo(e, phi, 0) {
				phiIsCollector[phi] = true
			}
		}
		if phiIsCollector[phi] {
			collectors = append(collectors, collector{phi: phi, desc: "slice " + phi.Comment})
		}
	}
	var problems []string
	note := func(s string) { problems = append(problems, s) }
	indexCollected := map[ssa.Value]bool{} // slices filled by result[i] = v
	hasReturn := false
	returnsKV := false

	for b := range R {
		for _, ins := range b.Instrs {
			switch x := ins.(type) {
			case *ssa.Return:
				hasReturn = true
				for _, v := range x.Results {
					if fromKV(v) {
						returnsKV = true
					}
				}
			case *ssa.Store:
				if a, ok := x.Addr.(*ssa.Alloc); ok && !R[a.Block()] {
					// loop-external local variable
					if c, isCall := x.Val.(*ssa.Call); isCall && calleeName(c) == "builtin:append" {
						if ld, ok := c.Call.Args[0].(*ssa.UnOp); ok && ld.X == ssa.Value(a) {
							collectors = append(collectors, collector{addr: a, desc: "slice variable " + a.Comment})
							continue
						}
					}
					if _, isConst := x.Val.(*ssa.Const); isConst {
						continue // flag
					}
					isIterVar := false
					for _, e := range kv {
						if x.Val == e {
							isIterVar = true // the range key/value variable itself (address-taken, so it lives in an Alloc)
						}
					}
					if isIterVar && !allocUsedOutside(a, R, H) {
						continue
					}
					if isAccumulation(x.Val, a) {
						continue
					}
					note("assignment to the loop-external variable " + a.Comment + " (last iteration wins) at " + p.ipos(x))
					continue
				}
				if ia, ok := x.Addr.(*ssa.IndexAddr); ok && isLocalAddr(ia.X) {
					// result[i] = v with a counter: the slice is filled in map order
					root := pathOf(ia.X).Root
					if _, isConstIdx := intConst(ia.Index); !isConstIdx && !fromKV(ia.Index) {
						indexCollected[root] = true
						continue
					}
					continue
				}
				if isLocalAddr(x.Addr) {
					continue
				}
				note("store to non-local memory " + pathOf(x.Addr).String() + " at " + p.ipos(x))
			case *ssa.MapUpdate:
				// set semantics; value last-wins only matters when the key does not come from the range key
				if _, isConst := x.Value.(*ssa.Const); isConst || fromKV(x.Key) {
					continue
				}
				note("map update with a key not derived from the range key and a non-constant value (last iteration wins) at " + p.ipos(x))
			case *ssa.Go, *ssa.Send, *ssa.Select:
				note(fmt.Sprintf("%T inside the loop at %s", ins, p.ipos(ins)))
			case *ssa.Defer:
				note("defer inside the loop at " + p.ipos(ins))
			case *ssa.Call:
				if s, why := callOrderSensitive(p, x, func(v ssa.Value) bool {
					if a, ok := pathOf(v).Root.(*ssa.Alloc); ok && R[a.Block()] {
						return true
					}
					if c, ok := pathOf(v).Root.(*ssa.Call); ok && R[c.Block()] {
						return true
					}
					return false
				}); s {
					note(why + " at " + p.ipos(x))
				}
			}
		}
	}
	// loop-carried scalars other than collectors
	for _, ins := range H.Instrs {
		phi, ok := ins.(*ssa.Phi)
		if !ok || phiIsCollector[phi] {
			continue
		}
		for i, e := range phi.Edges {
			if !R[H.Preds[i]] {
				continue
			}
			if e == ssa.Value(phi) {
				continue
			}
			if _, isConst := e.(*ssa.Const); isConst {
				continue
			}
			if isAccumulationOf(e, phi) {
				continue
			}
			if isBoolType(phi.Type()) {
				continue // flags combined with and/or
			}
			// a loop-carried value that is simply replaced: last iteration wins
			if phiUsedAfter(phi, R, H) {
				note("loop-carried value " + phi.Comment + " is overwritten per iteration (last iteration wins)")
			}
		}
	}
	if hasReturn && returnsKV {
		note("early return of a value derived from the range key/value (first match wins)")
	}
	if len(problems) > 0 {
		sort.Strings(problems)
		return rangeResult{Sensitive: true, Why: strings.Join(problems, "; ")}
	}
	// collectors must be sorted before any other use
	kind := "pure/commutative body"
	why := "no order-dependent effect in the loop body"
	for root := range indexCollected {
		// slice filled by index: find post-loop uses
		res := checkTaintedSlice(p, fn, R, H, []ssa.Value{root}, nil)
		if res.Sensitive {
			return res
		}
		if res.Producer {
			return res
		}
		kind, why = res.Kind, res.Why
	}
	for _, c := range collectors {
		var vals []ssa.Value
		var addr ssa.Value
		if c.phi != nil {
			vals = []ssa.Value{c.phi}
		} else {
			addr = c.addr
		}
		res := checkTaintedSlice(p, fn, R, H, vals, addr)
		if res.Sensitive || res.Producer {
			res.Why = c.desc + ": " + res.Why
			return res
		}
		kind, why = res.Kind, c.desc+": "+res.Why
	}
	return rangeResult{Kind: kind, Why: why}
}

// allocUsedOutside: the variable is read outside the loop region.
func allocUsedOutside(a *ssa.Alloc, R map[*ssa.BasicBlock]bool, H *ssa.BasicBlock) bool {
	for _, u := range *a.Referrers() {
		if _, isStore := u.(*ssa.Store); isStore {
			continue
		}
		if !R[u.Block()] && u.Block() != H {
			return true
		}
	}
	return false
}

func appendsTo(v ssa.Value, phi *ssa.Phi, d int) bool {
	if d > 8 {
		return false
	}
	switch x := v.(type) {
	case *ssa.Call:
		if calleeName(x) == "builtin:append" {
			if x.Call.Args[0] == ssa.Value(phi) {
				return true
			}
			return appendsTo(x.Call.Args[0], phi, d+1)
		}
	case *ssa.Phi:
		for _, e := range x.Edges {
			if e != ssa.Value(x) && e != ssa.Value(phi) && appendsTo(e, phi, d+1) {
				return true
			}
		}
	}
	return false
}

// isAccumulation: val = load(a) OP x with a commutative OP (integer/float add, sub, mul, or, and, xor).
func isAccumulation(val ssa.Value, a *ssa.Alloc) bool {
	bo, ok := val.(*ssa.BinOp)
	if !ok || !commutativeAcc(bo) {
		return false
	}
	isLoad := func(v ssa.Value) bool {
		u, ok := v.(*ssa.UnOp)
		return ok && u.Op == token.MUL && u.X == ssa.Value(a)
	}
	return isLoad(bo.X) || isLoad(bo.Y)
}

func isAccumulationOf(val ssa.Value, phi *ssa.Phi) bool {
	switch x := val.(type) {
	case *ssa.BinOp:
		if !commutativeAcc(x) {
			return false
		}
		return x.X == ssa.Value(phi) || x.Y == ssa.Value(phi) || isAccumulationOf(x.X, phi) || isAccumulationOf(x.Y, phi)
	case *ssa.Phi:
		for _, e := range x.Edges {
			if e == ssa.Value(phi) || e == ssa.Value(x) {
				continue
			}
			if !isAccumulationOf(e, phi) {
				return false
			}
		}
		return true
	}
	return false
}

func commutativeAcc(bo *ssa.BinOp) bool {
	b, ok := bo.Type().Underlying().(*types.Basic)
	if !ok || b.Info()&types.IsNumeric == 0 {
		return false // string concatenation is order dependent
	}
	switch bo.Op {
	case token.ADD, token.SUB, token.MUL, token.OR, token.AND, token.XOR:
		return true
	}
	return false
}

func phiUsedAfter(phi *ssa.Phi, R map[*ssa.BasicBlock]bool, H *ssa.BasicBlock) bool {
	for _, u := range *phi.Referrers() {
		if !R[u.Block()] && u.Block() != H {
			return true
		}
	}
	return false
}

// callOrderSensitive: can the call's effect depend on the order in which iterations run?
func callOrderSensitive(p *Program, c *ssa.Call, createdInLoop func(ssa.Value) bool) (bool, string) {
	cn := calleeName(c)
	switch {
	case strings.HasPrefix(cn, "builtin:"):
		return false, ""
	}
	callees := p.SiteCallees(c)
	if len(callees) == 0 {
		// dynamic call without resolved callee: a func value / interface nobody implements in the loaded program
		if c.Call.IsInvoke() {
			return true, "interface call " + cn + " with no resolved callee"
		}
		return true, "call through a function value with no resolved callee"
	}
	for _, callee := range callees {
		pk := fnPkg(callee)
		if isLogPkg(pk) {
			continue
		}
		if inRepo(callee) {
			e := p.Eff(callee)
			if e.WritesState {
				return true, "call to " + fname(callee) + " writes chain state (" + e.WhyState + ")"
			}
			if e.WritesMemory {
				// a method that only mutates an object created inside the loop body is iteration-local
				args := callArgs(c)
				if len(args) > 0 && createdInLoop(args[0]) && callee.Signature.Recv() != nil {
					continue
				}
				return true, "call to " + fname(callee) + " writes long-lived memory (" + e.WhyMemory + ")"
			}
			continue
		}
		// library callee
		if libOrderSensitive(callee, c, createdInLoop) {
			return true, "library call " + fname(callee) + " mutates an object that outlives the iteration"
		}
	}
	return false, ""
}

// libOrderSensitive: library methods with pointer receivers mutate their receiver; that is order dependent
// (bytes.Buffer, strings.Builder, hash.Hash, encoders) unless the receiver lives inside the iteration or the
// operation is a commutative math/big accumulation.
func libOrderSensitive(callee *ssa.Function, c *ssa.Call, createdInLoop func(ssa.Value) bool) bool {
	sig := callee.Signature
	if sig.Recv() == nil {
		return false // package-level library functions used by the repo's loops are pure (strings, bytes, strconv, fmt.Sprint*, sort, hex, math)
	}
	if _, isPtr := sig.Recv().Type().(*types.Pointer); !isPtr {
		if _, isIface := sig.Recv().Type().Underlying().(*types.Interface); !isIface {
			return false
		}
	}
	pk := fnPkg(callee)
	if pk != nil && pk.Path() == "math/big" {
		return false
	}
	args := callArgs(c)
	if len(args) > 0 && createdInLoop(args[0]) {
		return false
	}
	switch callee.Name() {
	case "String", "Bytes", "Len", "Error", "Cmp", "Sign", "Equal", "Get", "Has", "IsZero", "Unix", "UnixNano", "Before", "After", "Format":
		return false
	}
	return true
}

// checkTaintedSlice: the slice (SSA values `vals`, or the variable at `addr`) was filled in map order inside region R.
// Decide what happens to it after the loop.
func checkTaintedSlice(p *Program, fn *ssa.Function, R map[*ssa.BasicBlock]bool, H *ssa.BasicBlock, vals []ssa.Value, addr ssa.Value) rangeResult {
	// post-loop denotations of the slice
	var uses []ssa.Instruction
	denotes := map[ssa.Value]bool{}
	for _, v := range vals {
		denotes[v] = true
	}
	if addr != nil {
		for _, u := range *addr.Referrers() {
			if ld, ok := u.(*ssa.UnOp); ok && ld.Op == token.MUL && !R[ld.Block()] {
				denotes[ld] = true
			}
		}
	}
	// include trivial derivations (ChangeType / MakeInterface / full slices) of the denotations
	changed := true
	for changed {
		changed = false
		for v := range denotes {
			if v.Referrers() == nil {
				continue
			}
			for _, u := range *v.Referrers() {
				switch x := u.(type) {
				case *ssa.ChangeType, *ssa.MakeInterface, *ssa.Convert:
					if !denotes[x.(ssa.Value)] {
						denotes[x.(ssa.Value)] = true
						changed = true
					}
				case *ssa.Slice:
					if x.X == v && !denotes[x] {
						denotes[x] = true
						changed = true
					}
				case *ssa.Phi:
					if !R[x.Block()] && x.Block() != H && !denotes[x] {
						denotes[x] = true
						changed = true
					}
				}
			}
		}
	}
	for v := range denotes {
		if v.Referrers() == nil {
			continue
		}
		for _, u := range *v.Referrers() {
			if R[u.Block()] || u.Block() == H {
				continue
			}
			if uv, ok := u.(ssa.Value); ok && denotes[uv] {
				continue
			}
			uses = append(uses, u)
		}
	}
	// sort calls among the uses
	var sorts []*ssa.Call
	for _, u := range uses {
		if c, ok := u.(*ssa.Call); ok && sortFuncs[calleeName(c)] && len(c.Call.Args) > 0 && denotes[c.Call.Args[0]] {
			if ok, _ := totalSort(p, c); ok {
				sorts = append(sorts, c)
			}
		}
	}
	unsortedUse := func(u ssa.Instruction) bool {
		for _, s := range sorts {
			if s == u {
				return false
			}
			if dominatesInstr(s, u) {
				return false
			}
		}
		return true
	}
	var loose []ssa.Instruction
	for _, u := range uses {
		if c, ok := u.(*ssa.Call); ok {
			n := calleeName(c)
			if n == "builtin:len" || n == "builtin:cap" {
				continue
			}
		}
		if unsortedUse(u) {
			loose = append(loose, u)
		}
	}
	if len(loose) == 0 {
		if len(sorts) > 0 {
			return rangeResult{Kind: "sorted-collector", Why: "collected in map order, then sorted by a total order before any other use"}
		}
		return rangeResult{Kind: "unused-collector", Why: "collected slice has no order-relevant use"}
	}
	// unsorted uses: classify each
	producer := false
	for _, u := range loose {
		switch x := u.(type) {
		case *ssa.Return:
			producer = true
		case *ssa.Call:
			if sortFuncs[calleeName(x)] {
				ok, why := totalSort(p, x)
				if !ok {
					return rangeResult{Sensitive: true, Why: "sorted by a comparator that is not a total order on the elements (" + why + "): ties keep map iteration order, at " + p.ipos(x)}
				}
				continue
			}
			if s, why := callOrderSensitive(p, x, func(ssa.Value) bool { return false }); s {
				return rangeResult{Sensitive: true, Why: "unsorted slice passed on: " + why + " at " + p.ipos(x)}
			}
		case *ssa.IndexAddr, *ssa.Index, *ssa.Range:
			// elements flow on: every dependent effect must be insensitive
			if bad := dependentEffect(p, u.(ssa.Value)); bad != "" {
				return rangeResult{Sensitive: true, Why: "elements of the unsorted slice reach " + bad}
			}
		case *ssa.Store:
			if !isLocalAddr(x.Addr) {
				return rangeResult{Sensitive: true, Why: "unsorted slice stored to long-lived memory at " + p.ipos(x)}
			}
		case *ssa.Phi:
			// merged with a sorted variant (conditional sort): follow
			if bad := dependentEffect(p, x); bad != "" {
				return rangeResult{Sensitive: true, Why: "conditionally sorted slice reaches " + bad}
			}
		default:
			return rangeResult{Sensitive: true, Why: fmt.Sprintf("unsorted slice used by %T at %s", u, p.ipos(u))}
		}
	}
	if producer {
		return rangeResult{Producer: true, Kind: "producer", Why: "returns a slice in map iteration order (callers checked by C01.maprange.consumer)"}
	}
	return rangeResult{Kind: "order-insensitive consumer", Why: "unsorted slice only feeds logging / pure computation"}
}

// totalSort: sort.Strings/Ints/Float64s are total on their elements; sort.Slice is accepted when the elements are
// basic values compared directly with < or >, or byte strings compared with bytes.Compare/strings.Compare over the whole element.
func totalSort(p *Program, c *ssa.Call) (bool, string) {
	switch calleeName(c) {
	case "sort.Strings", "sort.Ints", "sort.Float64s":
		return true, ""
	case "sort.Slice", "sort.SliceStable":
		less := closureOf(c.Call.Args[1])
		if less == nil {
			return false, "comparator not resolved"
		}
		sl := pathOf(c.Call.Args[0])
		elemT := sliceElem(c.Call.Args[0].Type())
		if elemT == nil {
			if mi, ok := c.Call.Args[0].(*ssa.MakeInterface); ok {
				elemT = sliceElem(mi.X.Type())
			}
		}
		_ = sl
		if elemT == nil {
			return false, "element type unknown"
		}
		if _, basic := elemT.Underlying().(*types.Basic); !basic {
			return false, "elements are " + tname(elemT) + ", compared by a projection"
		}
		// comparator returns s[i] < s[j] (or >) on whole elements
		for _, ret := range returnsOf(less) {
			bo, ok := ret.Results[0].(*ssa.BinOp)
			if !ok || (bo.Op != token.LSS && bo.Op != token.GTR) {
				return false, "comparator is not a direct < / > on the elements"
			}
			for _, side := range []ssa.Value{bo.X, bo.Y} {
				pa := pathOf(side)
				if len(pa.Fields) != 1 || !strings.HasPrefix(pa.Fields[0], "[") {
					return false, "comparator does not compare whole elements"
				}
			}
		}
		return true, ""
	}
	return false, "sort.Sort with a custom Less is not analysed"
}

func sliceElem(t types.Type) types.Type {
	if s, ok := t.Underlying().(*types.Slice); ok {
		return s.Elem()
	}
	return nil
}

// dependentEffect: forward def-use closure from v inside its function; returns a description of the first
// order-relevant effect that uses a dependent value, or "".
func dependentEffect(p *Program, v ssa.Value) string {
	seen := map[ssa.Value]bool{}
	var q []ssa.Value
	q = append(q, v)
	for len(q) > 0 {
		x := q[0]
		q = q[1:]
		if seen[x] || x.Referrers() == nil {
			continue
		}
		seen[x] = true
		for _, u := range *x.Referrers() {
			switch y := u.(type) {
			case *ssa.Call:
				if s, why := callOrderSensitive(p, y, func(ssa.Value) bool { return false }); s {
					return why + " at " + p.ipos(y)
				}
				q = append(q, y)
			case *ssa.Store:
				if !isLocalAddr(y.Addr) {
					return "a store to long-lived memory at " + p.ipos(y)
				}
				if a, ok := pathOf(y.Addr).Root.(*ssa.Alloc); ok {
					q = append(q, a)
				}
			case *ssa.Return:
				return "a return value at " + p.ipos(y)
			case *ssa.MapUpdate:
				// set insertion: order-insensitive
			case ssa.Value:
				q = append(q, y)
			}
		}
	}
	return ""
}

// ---------------------------------------------------------------------------------------------
// C01.serializer

func containsMap(t types.Type, seen map[types.Type]bool) bool {
	if seen[t] {
		return false
	}
	seen[t] = true
	switch x := t.Underlying().(type) {
	case *types.Map:
		return true
	case *types.Pointer:
		return containsMap(x.Elem(), seen)
	case *types.Slice:
		return containsMap(x.Elem(), seen)
	case *types.Array:
		return containsMap(x.Elem(), seen)
	case *types.Struct:
		for i := 0; i < x.NumFields(); i++ {
			if containsMap(x.Field(i).Type(), seen) {
				return true
			}
		}
	case *types.Interface:
		return x.NumMethods() == 0 // interface{} could hold a map
	}
	return false
}

var nodeLocalPkgs = map[string]string{
	Mod + "/data/jobs":     "job store: node-local database, never part of the application hash",
	Mod + "/data/accounts": "wallet: node-local database",
}

func checkSerializers(r *Run, reach map[*ssa.Function]bool) {
	p := r.P
	gs := p.MustFn("serialize.GetSerializer")
	n := 0
	for _, fn := range sortedFns(p.Fns) {
		if !inRepo(fn) || fn.Blocks == nil {
			continue
		}
		pk := fnPkg(fn)
		if strings.Contains(pk.Path(), "/cmd/") || strings.Contains(pk.Path(), "/client") {
			continue
		}
		allInstrs(fn, func(ins ssa.Instruction) {
			c, ok := ins.(*ssa.Call)
			if !ok || c.Call.StaticCallee() != gs {
				return
			}
			n++
			k, isConst := intConst(c.Call.Args[0])
			name := fname(fn)
			if !isConst {
				r.Viol("C01.serializer", name, "GetSerializer(non-constant channel)", "the encoder cannot be determined statically", p.ipos(c), nil)
				return
			}
			strat := serializerFor(gs, k)
			construct := fmt.Sprintf("GetSerializer(%d) -> %s", k, strat)
			if strat == "*serialize.jsonStrategy" {
				r.OK("C01.serializer", name, construct, "JSON strategy: encoding/json emits map keys in sorted order")
				return
			}
			if why, ok := nodeLocalPkgs[pk.Path()]; ok {
				r.OK("C01.serializer", name, construct, "non-JSON encoder in a node-local package ("+why+")")
				return
			}
			// non-JSON encoder elsewhere: every value it encodes must be map-free
			bad := ""
			checked := 0
			if st := fieldStoredTo(c); st != nil {
				typ, field := st[0], st[1]
				for _, g := range sortedFns(p.Fns) {
					if !inRepo(g) {
						continue
					}
					allInstrs(g, func(ins2 ssa.Instruction) {
						sc, ok := ins2.(*ssa.Call)
						if !ok || !sc.Call.IsInvoke() || sc.Call.Method.Name() != "Serialize" || !isFieldLoad(sc.Call.Value, typ, field) {
							return
						}
						checked++
						at := sc.Call.Args[0].Type()
						if mi, ok := sc.Call.Args[0].(*ssa.MakeInterface); ok {
							at = mi.X.Type()
						}
						if containsMap(at, map[types.Type]bool{}) {
							bad = tname(at) + " at " + p.ipos(sc)
						}
					})
				}
			} else {
				bad = "encoder not stored in a struct field (uses not enumerable)"
			}
			r.Check(bad == "" && checked > 0, "C01.serializer", name, construct,
				fmt.Sprintf("non-JSON encoder, but all %d values it encodes are map-free (field order is fixed by the struct)", checked),
				"a non-JSON encoder (map entries encoded in iteration order) is used for persisted values containing maps: "+bad, p.ipos(c))
		})
	}
	if n < 20 {
		fail("only %d GetSerializer call sites found", n)
	}
}

// fieldStoredTo: the call result is stored into struct field (type, field); nil otherwise.
func fieldStoredTo(c *ssa.Call) []string {
	for _, u := range *c.Referrers() {
		if st, ok := u.(*ssa.Store); ok {
			if fa, ok := st.Addr.(*ssa.FieldAddr); ok {
				if n := namedOf(fa.X.Type()); n != nil {
					return []string{tname(n), fieldName(fa.X.Type(), fa.Field)}
				}
			}
		}
	}
	return nil
}
