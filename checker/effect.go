package main

// P-EFFECT: per-function effect summaries, transitively over the repo-internal call graph.

import (
	"go/types"
	"sort"
	"strings"

	"golang.org/x/tools/go/ssa"
)

type Effects struct {
	WritesState  bool // reaches (*storage.State).Set/Delete (chain state or any State)
	ReadsState   bool // reaches (*storage.State).Get/Exists/Iterate*/GetVersioned
	WritesMemory bool // stores to memory not allocated locally (fields of params/globals, captured vars), map updates on such maps
	Exits        bool // reaches os.Exit / log Fatal
	Panics       bool // contains an explicit panic
	Unknown      bool // dynamic call without resolved callees
	// witnesses (one example each)
	WhyState, WhyMemory, WhyExit string
}

var effBase map[*ssa.Function]*Effects
var effTrans map[*ssa.Function]*Effects

var stateWriters = map[string]bool{fnStateSet: true, fnStateDel: true}
var stateReaders = map[string]bool{fnStateGet: true, fnStateEx: true, "(*storage.State).Iterate": true, "(*storage.State).IterateRange": true,
	"(*storage.State).GetVersioned": true, "(*storage.State).GetPrevious": true, "(*storage.State).GetAtHeight": true}

// logging / printing packages: their internal memory effects are not consensus relevant
func isLogPkg(pk *types.Package) bool {
	if pk == nil {
		return false
	}
	switch pk.Path() {
	case Mod + "/log", "fmt", "log", "os", "io", "bufio", "github.com/go-kit/kit/log":
		return true
	}
	return false
}

func isExitCall(n string) bool {
	switch n {
	case "os.Exit", "(*log.Logger).Fatal", "(*log.Logger).Fatalf", "log.Fatal", "log.Fatalf", "log.Fatalln",
		"(*" + "log.Logger).Fatalln":
		return true
	}
	return strings.HasPrefix(n, "(*log.Logger).Fatal") || n == "log.Fatal"
}

func (p *Program) baseEffects(fn *ssa.Function) *Effects {
	if effBase == nil {
		effBase = map[*ssa.Function]*Effects{}
	}
	if e, ok := effBase[fn]; ok {
		return e
	}
	e := &Effects{}
	effBase[fn] = e
	if fn.Blocks == nil || isLogPkg(fnPkg(fn)) {
		return e
	}
	n := fname(fn)
	if stateWriters[n] {
		e.WritesState = true
		e.WhyState = n
	}
	if stateReaders[n] {
		e.ReadsState = true
	}
	if pk := fnPkg(fn); pk != nil && pk.Path() == Mod+"/storage" {
		// the storage layer itself is summarised by the entries above
		return e
	}
	allInstrs(fn, func(ins ssa.Instruction) {
		switch x := ins.(type) {
		case *ssa.Store:
			if !isLocalAddr(x.Addr) {
				e.WritesMemory = true
				if e.WhyMemory == "" {
					e.WhyMemory = "store " + pathOf(x.Addr).String() + " in " + n
				}
			}
		case *ssa.MapUpdate:
			if !isLocalAddr(x.Map) {
				e.WritesMemory = true
				if e.WhyMemory == "" {
					e.WhyMemory = "map update " + pathOf(x.Map).String() + " in " + n
				}
			}
		case *ssa.Panic:
			e.Panics = true
		case ssa.CallInstruction:
			cn := calleeName(x)
			if isExitCall(cn) {
				e.Exits = true
				e.WhyExit = cn + " in " + n
			}
			if cn == "builtin:delete" && !isLocalAddr(x.Common().Args[0]) {
				e.WritesMemory = true
				if e.WhyMemory == "" {
					e.WhyMemory = "delete on " + pathOf(x.Common().Args[0]).String() + " in " + n
				}
			}
		}
	})
	return e
}

// isLocalAddr: the address (or map/slice value) is rooted in memory allocated by this function invocation
// (Alloc / MakeMap / MakeSlice / new composite), not reachable from parameters, globals or captured variables.
func isLocalAddr(v ssa.Value) bool {
	for d := 0; d < 40; d++ {
		switch x := v.(type) {
		case *ssa.Alloc:
			// an Alloc holding a copy of a parameter pointer is still local memory; what it points to is not
			return true
		case *ssa.MakeMap, *ssa.MakeSlice, *ssa.MakeChan:
			return true
		case *ssa.FieldAddr:
			v = x.X
		case *ssa.IndexAddr:
			v = x.X
		case *ssa.Slice:
			v = x.X
		case *ssa.ChangeType:
			v = x.X
		case *ssa.Convert:
			v = x.X
		case *ssa.Phi:
			for _, e := range x.Edges {
				if e != ssa.Value(x) && !isLocalAddr(e) {
					return false
				}
			}
			return true
		case *ssa.UnOp:
			// load of a pointer: local only if loaded from a local alloc that was assigned a local allocation
			if a, ok := x.X.(*ssa.Alloc); ok {
				okAll := true
				n := 0
				for _, r := range *a.Referrers() {
					if st, ok := r.(*ssa.Store); ok && st.Addr == ssa.Value(a) {
						n++
						if !isLocalAddr(st.Val) {
							okAll = false
						}
					}
				}
				return okAll && n > 0
			}
			return false
		case *ssa.Call:
			// append(local, ...) stays local; results of functions that return a fresh allocation are local
			if calleeName(x) == "builtin:append" {
				v = x.Call.Args[0]
				continue
			}
			if sc := x.Call.StaticCallee(); sc != nil && returnsFresh(sc, 0) {
				return true
			}
			return false
		case *ssa.Extract:
			if c, ok := x.Tuple.(*ssa.Call); ok {
				if sc := c.Call.StaticCallee(); sc != nil && returnsFresh(sc, x.Index) {
					return true
				}
			}
			return false
		case *ssa.Const:
			return true
		default:
			return false
		}
	}
	return false
}

var freshMemo = map[*ssa.Function]map[int]int{} // 0 unknown(in progress) 1 yes 2 no

// returnsFresh: result #idx of fn is, on every return, nil or memory allocated during the call (new/&T{}/make, or the
// fresh result of another such function): a getter that deserialises into a new object, a constructor.
func returnsFresh(fn *ssa.Function, idx int) bool {
	if fn.Blocks == nil {
		return false
	}
	if m, ok := freshMemo[fn]; ok {
		if v, ok := m[idx]; ok {
			return v == 1
		}
	} else {
		freshMemo[fn] = map[int]int{}
	}
	freshMemo[fn][idx] = 2 // cycle guard: assume no
	ok := true
	n := 0
	for _, ret := range returnsOf(fn) {
		if idx >= len(ret.Results) {
			ok = false
			break
		}
		n++
		if !freshValue(ret.Results[idx], 0) {
			ok = false
		}
	}
	if n == 0 {
		ok = false
	}
	if ok {
		freshMemo[fn][idx] = 1
	}
	return ok
}

func freshValue(v ssa.Value, d int) bool {
	if d > 6 {
		return false
	}
	switch x := v.(type) {
	case *ssa.Const:
		return true
	case *ssa.Alloc:
		return x.Heap || true
	case *ssa.MakeMap, *ssa.MakeSlice:
		return true
	case *ssa.Phi:
		for _, e := range x.Edges {
			if e != ssa.Value(x) && !freshValue(e, d+1) {
				return false
			}
		}
		return true
	case *ssa.Call:
		if sc := x.Call.StaticCallee(); sc != nil {
			return returnsFresh(sc, 0)
		}
	case *ssa.Extract:
		if c, ok := x.Tuple.(*ssa.Call); ok {
			if sc := c.Call.StaticCallee(); sc != nil {
				return returnsFresh(sc, x.Index)
			}
		}
	case *ssa.ChangeType:
		return freshValue(x.X, d+1)
	case *ssa.MakeInterface:
		return freshValue(x.X, d+1)
	}
	return false
}

// Eff returns the transitive effects of fn over repo-internal callees.
func (p *Program) Eff(fn *ssa.Function) *Effects {
	if effTrans == nil {
		effTrans = map[*ssa.Function]*Effects{}
	}
	if e, ok := effTrans[fn]; ok {
		return e
	}
	p.CG()
	// iterative DFS over the reachable set, then union (handles cycles by two-phase: collect set, union base effects)
	seen := map[*ssa.Function]bool{}
	var order []*ssa.Function
	var stack = []*ssa.Function{fn}
	for len(stack) > 0 {
		f := stack[len(stack)-1]
		stack = stack[:len(stack)-1]
		if seen[f] {
			continue
		}
		seen[f] = true
		order = append(order, f)
		if isLogPkg(fnPkg(f)) || isStopNode(f) {
			continue
		}
		for _, c := range p.out[f] {
			if seen[c] || !inRepo(c) {
				continue
			}
			// decoders fill a fresh object handed to them: not an effect on long-lived state (and VTA resolves
			// Serializer/Unmarshal dispatch far too widely)
			if pk := fnPkg(c); (pk != nil && pk.Path() == Mod+"/serialize") || isSerializationBoundary(fname(c)) {
				continue
			}
			stack = append(stack, c)
		}
	}
	res := &Effects{}
	sort.Slice(order, func(i, j int) bool { return fname(order[i]) < fname(order[j]) })
	for _, f := range order {
		b := p.baseEffects(f)
		if b.WritesState && !res.WritesState {
			res.WritesState, res.WhyState = true, b.WhyState+" via "+fname(f)
		}
		res.ReadsState = res.ReadsState || b.ReadsState
		if b.WritesMemory && !res.WritesMemory {
			res.WritesMemory, res.WhyMemory = true, b.WhyMemory
		}
		if b.Exits && !res.Exits {
			res.Exits, res.WhyExit = true, b.WhyExit
		}
		res.Panics = res.Panics || b.Panics
	}
	effTrans[fn] = res
	return res
}
