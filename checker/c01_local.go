package main

// C01.nodelocal: explicit and implicit flows from node-local sources to consensus state / responses.

import (
	"fmt"
	"go/token"
	"go/types"
	"os"
	"sort"
	"strings"

	"golang.org/x/tools/go/ssa"
)

// nodeLocalSource classifies a call whose result depends on the node (not on the block history).
func nodeLocalSource(c *ssa.Call) string {
	n := calleeName(c)
	switch {
	case n == "time.Now" || n == "time.Since" || n == "time.Until":
		return "wall clock (" + n + ")"
	case strings.HasPrefix(n, "math/rand.") || strings.HasPrefix(n, "(*math/rand.Rand).") || strings.HasPrefix(n, "crypto/rand."):
		return "random source (" + n + ")"
	case strings.HasPrefix(n, "github.com/google/uuid.New"):
		return "random source (" + n + ")"
	case n == "os.Getenv" || n == "os.Hostname" || n == "os.Getpid" || n == "os.LookupEnv":
		return "process environment (" + n + ")"
	case strings.HasPrefix(n, "(app/node.Context).") || strings.HasPrefix(n, "(*app/node.Context)."):
		return "node identity (" + n + ")"
	case n == "(*identity.WitnessStore).IsETHWitness":
		return "node role: ETH witness"
	case n == "(*identity.ValidatorStore).IsValidator":
		return "node role: validator"
	case strings.HasPrefix(n, "(*data/jobs.JobStore)."):
		// WithChain only selects the chain and returns the store itself
		if strings.HasSuffix(n, ".WithChain") {
			return ""
		}
		return "node-local job store (" + strings.TrimPrefix(n, "(*data/jobs.JobStore).") + ")"
	case strings.HasPrefix(n, "invoke:(data/accounts.Wallet).") || strings.HasPrefix(n, "(*data/accounts.WalletStore)."):
		return "node-local wallet"
	case strings.HasPrefix(n, "(*data/bitcoin.LockScriptStore)."):
		return "node-local lock-script store"
	case strings.HasPrefix(n, "github.com/tendermint/tendermint/rpc/core."):
		return "node's own transaction index (" + n + ")"
	}
	// the logger's configuration (level, output) is set per node; a logger method that reports something back makes the
	// caller's control flow depend on it
	if sc := c.Call.StaticCallee(); sc != nil && fnPkg(sc) != nil && fnPkg(sc).Path() == Mod+"/log" && sc.Signature.Results().Len() > 0 {
		res := sc.Signature.Results().At(0).Type()
		if b, ok := res.Underlying().(*types.Basic); ok && b.Info()&(types.IsBoolean|types.IsInteger|types.IsString) != 0 {
			return "node log configuration (" + n + ")"
		}
	}
	return ""
}

func sourceKind(origin string) string {
	if i := strings.Index(origin, " at "); i > 0 {
		origin = origin[:i]
	}
	if i := strings.Index(origin, " ("); i > 0 {
		origin = origin[:i]
	}
	return origin
}

var responseFields = map[string]bool{"Code": true, "Data": true, "GasUsed": true, "GasWanted": true, "ValidatorUpdates": true, "Validators": true}

func checkNodeLocal(r *Run, reach map[*ssa.Function]bool, par map[*ssa.Function]*ssa.Function) {
	p := r.P
	t := NewTaint(p, reach)
	t.IsSource = nodeLocalSource
	// event tags are not among the consensus results the property names (hash, validator updates, code, data, gas)
	t.NoReturn = func(fn *ssa.Function) bool {
		return fn.Name() == "Tags" && fn.Signature.Recv() != nil && implementsMsg(p, fn.Signature.Recv().Type())
	}
	t.IsSrcLoad = func(v ssa.Value) string {
		if u, ok := v.(*ssa.UnOp); ok {
			if g, ok := u.X.(*ssa.Global); ok && g.Pkg != nil && g.Pkg.Pkg.Path() == Mod+"/identity" && g.Name() == "isETHWitness" {
				return "node role: ETH witness"
			}
			// a field of the node's logger read outside the log package (e.g. a new level-test helper dissolved into its caller)
			if fa, ok := u.X.(*ssa.FieldAddr); ok && u.Op == token.MUL {
				if n := namedOf(derefT(fa.X.Type())); n != nil && n.Obj().Pkg() != nil && n.Obj().Pkg().Path() == Mod+"/log" && n.Obj().Name() == "Logger" {
					if pk := fnPkg(u.Parent()); pk != nil && pk.Path() != Mod+"/log" {
						return "node log configuration (Logger." + fieldName(fa.X.Type(), fa.Field) + ")"
					}
				}
			}
		}
		return ""
	}
	t.IsSink = func(ci ssa.CallInstruction, i int) string {
		n := calleeName(ci)
		if (n == fnStateSet || n == fnStateDel) && i >= 1 {
			if isQueueState(ci.Common().Args[0]) {
				return ""
			}
			what := "key"
			if i == 2 {
				what = "value"
			}
			return "chain-state " + strings.TrimPrefix(n, "(*storage.State).") + " " + what
		}
		return ""
	}
	t.Run()
	r.Extra["nodelocal_tainted_values"] = len(t.vals)
	var tf []string
	for k, o := range t.fields {
		tf = append(tf, k+" <- "+sourceKind(o))
	}
	sort.Strings(tf)
	r.Extra["nodelocal_tainted_fields"] = tf

	// (1) explicit flows into chain-state writes
	seen := map[string]bool{}
	nflow := 0
	for _, h := range t.Hits {
		key := fname(h.Fn) + "|" + h.Sink + "|" + sourceKind(h.Origin)
		if seen[key] {
			continue
		}
		seen[key] = true
		nflow++
		r.Viol("C01.nodelocal.flow", fname(h.Fn), h.Sink+" <- "+sourceKind(h.Origin),
			"a value that depends on "+h.Origin+" reaches a chain-state write: nodes write different bytes", p.ipos(h.Instr), callPath(par, h.Fn))
	}
	// (2) explicit flows into consensus response fields
	for _, fn := range sortedFns(reach) {
		allInstrs(fn, func(ins ssa.Instruction) {
			st, ok := ins.(*ssa.Store)
			if !ok {
				return
			}
			fa, ok := st.Addr.(*ssa.FieldAddr)
			if !ok {
				return
			}
			n := namedOf(fa.X.Type())
			if n == nil || n.Obj().Pkg() == nil || n.Obj().Pkg().Path() != "github.com/tendermint/tendermint/abci/types" || !strings.HasPrefix(n.Obj().Name(), "Response") {
				return
			}
			f := fieldName(fa.X.Type(), fa.Field)
			if !responseFields[f] {
				return
			}
			o, tainted := t.Tainted(st.Val)
			construct := n.Obj().Name() + "." + f
			if tainted {
				r.Viol("C01.nodelocal.response", fname(fn), construct+" <- "+sourceKind(o),
					"a consensus response field depends on "+o, p.ipos(st), nil)
			} else {
				r.OK("C01.nodelocal.response", fname(fn), construct, "not derived from a node-local source")
			}
		})
	}

	// (3) implicit flows: regions controlled by node-local conditions
	nreg := 0
	for _, fn := range sortedFns(reach) {
		if fn.Blocks == nil || isLogPkg(fnPkg(fn)) {
			continue
		}
		if _, local := nodeLocalPkgs[fnPkg(fn).Path()]; local {
			continue // inside a node-local package every outcome is node-local by definition; its callers are checked
		}
		var pd *pdom
		for _, b := range fn.Blocks {
			iff := blockIf(b)
			if iff == nil {
				continue
			}
			origin := condTaint(t, iff.Cond)
			if origin == "" {
				continue
			}
			if pd == nil {
				pd = postDominators(fn)
			}
			nreg++
			if dbg := os.Getenv("OLINT_TAINT_DEBUG"); dbg != "" && strings.Contains(fname(fn), dbg) {
				v, _ := stripNot(iff.Cond)
				fmt.Println("TAINT-DEBUG", fname(fn), p.ipos(iff))
				for _, l := range t.Chain(v) {
					fmt.Println("    ", l)
				}
				if bo, ok := v.(*ssa.BinOp); ok {
					for _, l := range t.Chain(bo.X) {
						fmt.Println("   X ", l)
					}
				}
			}
			checkLocalRegion(r, fn, b, pd, origin, par)
		}
	}
	r.Extra["nodelocal_conditions"] = nreg
	if nreg < 10 {
		fail("only %d node-local conditions found on the consensus path (expected > 20): source table or taint engine broken", nreg)
	}
	if nflow == 0 {
		r.OK("C01.nodelocal.flow", "", "explicit flows into chain-state writes", fmt.Sprintf("none among %d tainted values", len(t.vals)))
	}
}

// condTaint: the condition (or any leaf of its boolean structure) is node-local.
func condTaint(t *Taint, cond ssa.Value) string {
	if o, ok := t.Tainted(cond); ok {
		return o
	}
	v, _ := stripNot(cond)
	if o, ok := t.Tainted(v); ok {
		return o
	}
	if bo, ok := v.(*ssa.BinOp); ok {
		if o, ok := t.Tainted(bo.X); ok {
			return o
		}
		if o, ok := t.Tainted(bo.Y); ok {
			return o
		}
	}
	return ""
}

type retSig []string

func returnSignature(ret *ssa.Return) retSig {
	var s retSig
	for _, v := range ret.Results {
		switch {
		case isNilConst(v):
			s = append(s, "nil")
		case isErrorType(v.Type()) && errNonNilAt(v, ret.Block()):
			s = append(s, "error")
		default:
			if c, ok := v.(*ssa.Const); ok {
				s = append(s, "const:"+c.Value.String())
			} else {
				s = append(s, "var")
			}
		}
	}
	return s
}

func (a retSig) equalConst(b retSig) bool {
	if len(a) != len(b) {
		return false
	}
	for i := range a {
		if a[i] != b[i] || a[i] == "var" || a[i] == "error" {
			return false
		}
	}
	return true
}

func checkLocalRegion(r *Run, fn *ssa.Function, b *ssa.BasicBlock, pd *pdom, origin string, par map[*ssa.Function]*ssa.Function) {
	p := r.P
	name := fname(fn)
	kind := sourceKind(origin)
	regions := [2]map[*ssa.BasicBlock]bool{pd.regionOf(b, 0), pd.regionOf(b, 1)}
	// control-dependent blocks: reachable from exactly one of the two successors before the join
	all := map[*ssa.BasicBlock]bool{}
	for i, rg := range regions {
		for x := range rg {
			if !regions[1-i][x] {
				all[x] = true
			}
		}
	}
	// (a) chain-state effects inside the region
	var effects []string
	effPos := ""
	for x := range all {
		for _, ins := range x.Instrs {
			c, ok := ins.(ssa.CallInstruction)
			if !ok {
				continue
			}
			for _, callee := range p.SiteCallees(c) {
				if !inRepo(callee) || isLogPkg(fnPkg(callee)) {
					continue
				}
				if e := p.Eff(callee); e.WritesState && !queueOnly(c) {
					effects = append(effects, fname(callee))
					effPos = p.ipos(ins)
				}
			}
		}
	}
	sort.Strings(effects)
	effects = uniq(effects)
	if len(effects) > 0 {
		r.Viol("C01.nodelocal.region", name, "chain-state write under a condition on "+kind,
			"calls that write chain state ("+strings.Join(effects, ", ")+") are control-dependent on "+origin+": only some nodes perform them", effPos, callPath(par, fn))
	}
	// (b) returns inside the region
	var inRets, outRets []*ssa.Return
	for _, ret := range returnsOf(fn) {
		if all[ret.Block()] {
			inRets = append(inRets, ret)
		} else {
			outRets = append(outRets, ret)
		}
	}
	if len(inRets) == 0 {
		if len(effects) == 0 {
			r.OK("C01.nodelocal.region", name, "region under a condition on "+kind, "no chain-state write and no return is control-dependent on it")
		}
		return
	}
	// continuation: code the function would still run if the region fell through (blocks reachable from b that are not in the region)
	cont := map[*ssa.BasicBlock]bool{}
	for x := range reachFrom(b, nil) {
		if !all[x] && x != b {
			cont[x] = true
		}
	}
	contEffect := ""
	for x := range cont {
		for _, ins := range x.Instrs {
			if st, ok := ins.(*ssa.Store); ok && !isLocalAddr(st.Addr) {
				contEffect = "the update of " + pathOf(st.Addr).String()
			}
			c, ok := ins.(ssa.CallInstruction)
			if !ok {
				continue
			}
			for _, callee := range p.SiteCallees(c) {
				if inRepo(callee) && !isLogPkg(fnPkg(callee)) && p.Eff(callee).WritesState && !queueOnly(c) {
					contEffect = fname(callee)
				}
			}
		}
	}
	nbad := 0
	for _, ret := range inRets {
		sig := returnSignature(ret)
		// identical constant results as every return outside the region, and nothing effectful skipped
		same := len(outRets) > 0
		for _, o := range outRets {
			if reachFrom(b, nil)[o.Block()] && !sig.equalConst(returnSignature(o)) {
				same = false
			}
		}
		if len(outRets) == 0 {
			// both branches return: compare across the two regions
			same = true
			for _, o := range inRets {
				if !sig.equalConst(returnSignature(o)) {
					same = false
				}
			}
		}
		if same && contEffect == "" {
			continue
		}
		nbad++
		construct := fmt.Sprintf("node-dependent return %v under a condition on %s", []string(sig), kind)
		why := fmt.Sprintf("a return with results %v is taken only on some nodes (the other paths return something else)", []string(sig))
		if same {
			construct += ", skipping later effects"
			why = "an early return skips " + contEffect + " on some nodes"
		}
		r.Viol("C01.nodelocal.region", name, construct,
			why+"; the condition depends on "+origin+", so the caller's consensus decision (commit/skip, result code) or the persisted record differs between nodes", p.ipos(ret), callPath(par, fn))
	}
	if nbad == 0 && len(effects) == 0 {
		r.OK("C01.nodelocal.region", name, "region under a condition on "+kind, "returns inside the region are identical constants and skip no effect")
	}
}

// queueOnly: the call writes only the internal-transaction queue (its receiver is / derives from a TransactionStore).
func queueOnly(c ssa.CallInstruction) bool {
	args := callArgs(c)
	if len(args) == 0 {
		return false
	}
	t := args[0].Type()
	if n := namedOf(t); n != nil && tname(n) == "data/transactions.TransactionStore" {
		return true
	}
	if ptr, ok := t.(*types.Pointer); ok {
		if n := namedOf(ptr.Elem()); n != nil && tname(n) == "data/transactions.TransactionStore" {
			return true
		}
	}
	return isQueueState(args[0])
}

func uniq(s []string) []string {
	var r []string
	for i, x := range s {
		if i == 0 || x != s[i-1] {
			r = append(r, x)
		}
	}
	return r
}
