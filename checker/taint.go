package main

// P-FLOW: forward, context-insensitive, field-based value-flow (taint) over go/ssa, restricted to a set of
// repository functions. Serialisation boundaries (Marshal/Unmarshal/Serialize/Deserialize) do not propagate.

import (
	"fmt"
	"go/token"
	"go/types"
	"sort"
	"strings"

	"golang.org/x/tools/go/ssa"
)

type SinkHit struct {
	Sink   string
	Instr  ssa.Instruction
	Origin string
	Fn     *ssa.Function
}

type Taint struct {
	p      *Program
	scope  map[*ssa.Function]bool
	vals   map[ssa.Value]string
	fields map[string]string // "T.f" -> origin
	work   []ssa.Value
	// indexes
	fieldReads map[string][]ssa.Value        // "T.f" -> FieldAddr/Field values reading it (in scope)
	callers    map[*ssa.Function][]*ssa.Call // callee -> call sites (in scope)
	Hits       []SinkHit
	IsSource   func(c *ssa.Call) string // non-empty origin if the call's result is a source
	IsSrcLoad  func(v ssa.Value) string // loads of source globals / fields
	IsSink     func(c ssa.CallInstruction, argIdx int) string
	NoProp     func(c ssa.CallInstruction) bool // calls through which taint does not propagate
	NoReturn   func(fn *ssa.Function) bool      // functions whose results are outside the observed set (e.g. event tags)
	hitSeen    map[string]bool
	prev       map[ssa.Value]ssa.Value
	cur        ssa.Value
}

func fieldKey(t types.Type, i int) string {
	n := namedOf(t)
	if n == nil {
		return ""
	}
	return tname(n) + "." + fieldName(t, i)
}

func NewTaint(p *Program, scope map[*ssa.Function]bool) *Taint {
	t := &Taint{p: p, scope: scope, vals: map[ssa.Value]string{}, fields: map[string]string{}, fieldReads: map[string][]ssa.Value{},
		callers: map[*ssa.Function][]*ssa.Call{}, hitSeen: map[string]bool{}}
	p.CG()
	for fn := range scope {
		allInstrs(fn, func(ins ssa.Instruction) {
			switch x := ins.(type) {
			case *ssa.FieldAddr:
				if k := fieldKey(x.X.Type(), x.Field); k != "" {
					t.fieldReads[k] = append(t.fieldReads[k], x)
				}
			case *ssa.Field:
				if k := fieldKey(x.X.Type(), x.Field); k != "" {
					t.fieldReads[k] = append(t.fieldReads[k], x)
				}
			case *ssa.Call:
				for _, c := range p.SiteCallees(x) {
					if scope[c] {
						t.callers[c] = append(t.callers[c], x)
					}
				}
			}
		})
	}
	return t
}

func (t *Taint) mark(v ssa.Value, origin string) {
	if v == nil {
		return
	}
	if _, ok := t.vals[v]; ok {
		return
	}
	if _, isConst := v.(*ssa.Const); isConst {
		return
	}
	t.vals[v] = origin
	if t.prev == nil {
		t.prev = map[ssa.Value]ssa.Value{}
	}
	t.prev[v] = t.cur
	t.work = append(t.work, v)
}

func (t *Taint) markField(k, origin string) {
	if k == "" {
		return
	}
	if _, ok := t.fields[k]; ok {
		return
	}
	t.fields[k] = origin
	for _, rd := range t.fieldReads[k] {
		// a FieldAddr is an address; its loads are the values. Mark the address; loads propagate below.
		t.mark(rd, origin)
	}
}

func (t *Taint) Tainted(v ssa.Value) (string, bool) {
	o, ok := t.vals[v]
	return o, ok
}

// Run seeds the sources and propagates to a fixed point.
func (t *Taint) Run() {
	fns := sortedFns(t.scope)
	for _, fn := range fns {
		allInstrs(fn, func(ins ssa.Instruction) {
			if c, ok := ins.(*ssa.Call); ok && t.IsSource != nil {
				if o := t.IsSource(c); o != "" {
					t.mark(c, o+" at "+t.p.ipos(c))
				}
			}
			if v, ok := ins.(ssa.Value); ok && t.IsSrcLoad != nil {
				if o := t.IsSrcLoad(v); o != "" {
					t.mark(v, o+" at "+t.p.ipos(ins))
				}
			}
		})
	}
	for len(t.work) > 0 {
		v := t.work[len(t.work)-1]
		t.work = t.work[:len(t.work)-1]
		t.step(v)
	}
	sort.Slice(t.Hits, func(i, j int) bool { return t.p.ipos(t.Hits[i].Instr) < t.p.ipos(t.Hits[j].Instr) })
}

// Chain renders how v became tainted (debugging / reports).
func (t *Taint) Chain(v ssa.Value) []string {
	var res []string
	for x := v; x != nil && len(res) < 25; x = t.prev[x] {
		fn := "?"
		if x.Parent() != nil {
			fn = fname(x.Parent())
		}
		res = append(res, fmt.Sprintf("%s %s [%s] %s", x.Name(), strings.ReplaceAll(x.String(), Mod+"/", ""), fn, t.p.pos(x.Pos())))
	}
	return res
}

func (t *Taint) step(v ssa.Value) {
	origin := t.vals[v]
	t.cur = v
	defer func() { t.cur = nil }()
	// parameter of a closure bound at MakeClosure is handled at the MakeClosure use below
	refs := v.Referrers()
	if refs == nil {
		return
	}
	for _, u := range *refs {
		if !t.scope[u.Parent()] {
			continue
		}
		switch x := u.(type) {
		case *ssa.Store:
			if x.Val == v {
				t.storeTo(x.Addr, origin)
			}
			// storing through a tainted address does not taint anything by itself
		case *ssa.MapUpdate:
			if x.Value == v || x.Key == v {
				t.markContainer(x.Map, origin)
			}
		case *ssa.Return:
			fn := x.Parent()
			if t.NoReturn != nil && t.NoReturn(fn) {
				continue
			}
			idx := -1
			for i, r := range x.Results {
				if r == v {
					idx = i
				}
			}
			for _, site := range t.callers[fn] {
				if len(x.Results) == 1 {
					t.mark(site, origin)
				} else {
					for _, e := range *site.Referrers() {
						if ex, ok := e.(*ssa.Extract); ok && ex.Index == idx {
							t.mark(ex, origin)
						}
					}
				}
			}
		case ssa.CallInstruction:
			t.callUse(x, v, origin)
		case *ssa.MakeClosure:
			if fn, ok := x.Fn.(*ssa.Function); ok {
				for i, b := range x.Bindings {
					if b == v && i < len(fn.FreeVars) {
						t.mark(fn.FreeVars[i], origin)
					}
				}
			}
		case *ssa.If, *ssa.Jump, *ssa.Panic, *ssa.RunDefers, *ssa.DebugRef:
			// control use: handled by the region rule
		case *ssa.UnOp:
			if x.Op == token.MUL {
				// load through a tainted address (field read marked via markField, tainted alloc, tainted pointer)
				t.mark(x, origin)
			} else {
				t.mark(x, origin)
			}
		case *ssa.FieldAddr:
			// field of a tainted object
			t.mark(x, origin)
		case ssa.Value:
			// BinOp, Convert, ChangeType, MakeInterface, Field, Index, IndexAddr, Slice, Lookup, Extract, Phi, TypeAssert, Next, Range ...
			if lk, ok := x.(*ssa.Lookup); ok && lk.Index == v && lk.X != v {
				// lookup with a tainted key in an untainted map: the result depends on the key
				t.mark(x, origin)
				continue
			}
			t.mark(x, origin)
		}
	}
}

// storeTo: a tainted value is written to addr.
func (t *Taint) storeTo(addr ssa.Value, origin string) {
	switch a := addr.(type) {
	case *ssa.Alloc:
		t.mark(a, origin)
	case *ssa.FieldAddr:
		if n := namedOf(a.X.Type()); n != nil && inRepoPkg(n.Obj().Pkg()) {
			t.markField(fieldKey(a.X.Type(), a.Field), origin)
		} else if root, ok := pathOf(a.X).Root.(*ssa.Alloc); ok {
			// library struct (kv.Pair, abci types): object-based, not type-based
			t.mark(root, origin)
		}
	case *ssa.IndexAddr:
		t.markContainer(a.X, origin)
	case *ssa.Global:
		t.mark(a, origin)
	case *ssa.FreeVar:
		t.mark(a, origin)
		if b := freeVarBinding(a); b != nil {
			t.storeTo(b, origin)
		}
	default:
		// pointer parameter / loaded pointer: taint what it denotes
		pa := pathOf(addr)
		if al, ok := pa.Root.(*ssa.Alloc); ok {
			t.mark(al, origin)
		}
		if prm, ok := pa.Root.(*ssa.Parameter); ok && len(pa.Fields) == 0 {
			// *p = tainted: the callers' pointees become tainted
			fn := prm.Parent()
			idx := -1
			for i, q := range fn.Params {
				if q == prm {
					idx = i
				}
			}
			for _, site := range t.callers[fn] {
				args := callArgs(site)
				if idx >= 0 && idx < len(args) {
					t.storeTo(args[idx], origin)
				}
			}
		}
	}
}

func (t *Taint) markContainer(c ssa.Value, origin string) {
	pa := pathOf(c)
	switch r := pa.Root.(type) {
	case *ssa.Alloc:
		t.mark(r, origin)
	case *ssa.MakeMap, *ssa.MakeSlice:
		t.mark(r.(ssa.Value), origin)
	default:
		if len(pa.Fields) > 0 {
			// field of an object: field-based
			if fa, ok := c.(*ssa.UnOp); ok {
				if f, ok := fa.X.(*ssa.FieldAddr); ok {
					t.markField(fieldKey(f.X.Type(), f.Field), origin)
					return
				}
			}
		}
		t.mark(c, origin)
	}
}

// opaquePkg: repository utility layers that are summarised (result depends on arguments) instead of analysed inline;
// analysing them inline would merge all their callers' flows (context-insensitive engine).
func opaquePkg(pk *types.Package) bool {
	if pk == nil {
		return false
	}
	switch pk.Path() {
	case Mod + "/storage", Mod + "/data/balance", Mod + "/data/keys", Mod + "/serialize", Mod + "/utils", Mod + "/status_codes",
		Mod + "/version", Mod + "/config", Mod + "/action/helpers", Mod + "/data/chain":
		return true
	}
	return false
}

func isQueueStateArg(ci ssa.CallInstruction) bool {
	args := callArgs(ci)
	return len(args) > 0 && isQueueState(args[0])
}

func isSerializationBoundary(n string) bool {
	for _, s := range []string{".Marshal", ".Unmarshal", ".Serialize", ".Deserialize", ".MarshalJSON", ".UnmarshalJSON", ".MarshalText", ".UnmarshalText"} {
		if strings.HasSuffix(n, s) {
			return true
		}
	}
	switch n {
	case "encoding/json.Marshal", "encoding/json.Unmarshal":
		return true
	}
	return false
}

func (t *Taint) callUse(ci ssa.CallInstruction, v ssa.Value, origin string) {
	cc := ci.Common()
	args := callArgs(ci)
	var idxs []int
	for i, a := range args {
		if a == v {
			idxs = append(idxs, i)
		}
	}
	if cc.Value == v && !cc.IsInvoke() {
		// calling a tainted function value: result tainted
		if val, ok := ci.(ssa.Value); ok {
			t.mark(val, origin)
		}
		return
	}
	n := calleeName(ci)
	// sinks
	if t.IsSink != nil {
		for _, i := range idxs {
			if s := t.IsSink(ci, i); s != "" {
				key := s + "|" + t.p.ipos(ci) + "|" + fmt.Sprint(i)
				if !t.hitSeen[key] {
					t.hitSeen[key] = true
					t.Hits = append(t.Hits, SinkHit{Sink: s, Instr: ci, Origin: origin, Fn: ci.Parent()})
				}
			}
		}
	}
	if isSerializationBoundary(n) || (t.NoProp != nil && t.NoProp(ci)) {
		return
	}
	callees := t.p.SiteCallees(ci)
	if cc.IsInvoke() {
		// ubiquitous interfaces (error, Stringer, ...) and wide dispatch: summarise at the call site instead of merging all implementers
		m := cc.Method.Name()
		if m == "Error" || m == "String" || len(callees) > 6 {
			callees = nil
		}
	}
	propagatedIn := false
	for _, callee := range callees {
		if isLogPkg(fnPkg(callee)) {
			propagatedIn = true
			continue
		}
		if opaquePkg(fnPkg(callee)) {
			// utility layer summarised as "result depends on the arguments"; a state-writing utility is a sink
			if t.IsSink != nil && inRepo(callee) && t.p.Eff(callee).WritesState {
				for _, i := range idxs {
					if i == 0 && callee.Signature.Recv() != nil {
						continue
					}
					key := "opaque|" + t.p.ipos(ci) + "|" + fmt.Sprint(i)
					if !t.hitSeen[key] && !isQueueStateArg(ci) {
						t.hitSeen[key] = true
						t.Hits = append(t.Hits, SinkHit{Sink: "argument of state-writing " + fname(callee), Instr: ci, Origin: origin, Fn: ci.Parent()})
					}
				}
			}
			continue
		}
		if t.scope[callee] && callee.Blocks != nil {
			propagatedIn = true
			for _, i := range idxs {
				if i < len(callee.Params) {
					t.mark(callee.Params[i], origin)
				}
			}
			continue
		}
	}
	if propagatedIn && len(callees) > 0 {
		allIn := true
		for _, callee := range callees {
			if (!(t.scope[callee] && callee.Blocks != nil) && !isLogPkg(fnPkg(callee))) || opaquePkg(fnPkg(callee)) {
				allIn = false
			}
		}
		if allIn {
			return
		}
	}
	// library / out-of-scope callee: result depends on the argument; pointer receivers and pointer args absorb it
	if val, ok := ci.(ssa.Value); ok {
		if val.Type() != nil {
			if tup, isTuple := val.Type().(*types.Tuple); !isTuple || tup.Len() > 0 {
				t.mark(val, origin)
			}
		}
	}
	if len(args) > 0 && len(idxs) > 0 {
		sig := cc.Signature()
		if sig.Recv() != nil && idxs[0] != 0 {
			if _, isPtr := args[0].Type().Underlying().(*types.Pointer); isPtr {
				t.storeTo(args[0], origin) // e.g. buf.Write(tainted), x.Add(x, tainted)
			}
		}
	}
}

// ---------------------------------------------------------------------------------------------
// post-dominators and control dependence

type pdom struct {
	fn    *ssa.Function
	ipdom map[*ssa.BasicBlock]*ssa.BasicBlock // nil = virtual exit
	exits map[*ssa.BasicBlock]bool
}

func postDominators(fn *ssa.Function) *pdom {
	// iterative set-based algorithm (functions are small)
	n := len(fn.Blocks)
	idx := map[*ssa.BasicBlock]int{}
	for i, b := range fn.Blocks {
		idx[b] = i
	}
	exit := n // virtual exit
	succs := make([][]int, n+1)
	isPanic := make([]bool, n)
	for i, b := range fn.Blocks {
		if len(b.Succs) == 0 {
			if len(b.Instrs) > 0 {
				if _, ok := b.Instrs[len(b.Instrs)-1].(*ssa.Panic); ok {
					isPanic[i] = true // crash paths do not count as ways to leave the function
					continue
				}
			}
			succs[i] = []int{exit}
		}
		for _, s := range b.Succs {
			succs[i] = append(succs[i], idx[s])
		}
	}
	full := make([]bool, n+1)
	for i := range full {
		full[i] = true
	}
	pd := make([][]bool, n+1)
	for i := 0; i <= n; i++ {
		pd[i] = append([]bool{}, full...)
	}
	pd[exit] = make([]bool, n+1)
	pd[exit][exit] = true
	changed := true
	for changed {
		changed = false
		for i := n - 1; i >= 0; i-- {
			nw := append([]bool{}, full...)
			if isPanic[i] {
				continue // vacuously post-dominated by everything
			}
			if len(succs[i]) == 0 {
				nw = make([]bool, n+1)
			}
			for _, s := range succs[i] {
				for k := range nw {
					nw[k] = nw[k] && pd[s][k]
				}
			}
			nw[i] = true
			for k := range nw {
				if nw[k] != pd[i][k] {
					changed = true
				}
			}
			pd[i] = nw
		}
	}
	res := &pdom{fn: fn, ipdom: map[*ssa.BasicBlock]*ssa.BasicBlock{}}
	// immediate post-dominator: the strict post-dominator that is post-dominated by all other strict post-dominators
	for i, b := range fn.Blocks {
		var cands []int
		for k := 0; k <= n; k++ {
			if k != i && pd[i][k] {
				cands = append(cands, k)
			}
		}
		best := -1
		for _, c := range cands {
			ok := true
			for _, d := range cands {
				if d != c && !pd[c][d] {
					ok = false
				}
			}
			if ok {
				best = c
			}
		}
		if best >= 0 && best < n {
			res.ipdom[b] = fn.Blocks[best]
		} else {
			res.ipdom[b] = nil
		}
	}
	return res
}

// controlDependents: blocks control dependent on the If at the end of b, per successor index.
func (pd *pdom) controlDependents(b *ssa.BasicBlock) [2]map[*ssa.BasicBlock]bool {
	var res [2]map[*ssa.BasicBlock]bool
	stop := pd.ipdom[b]
	for i := 0; i < 2 && i < len(b.Succs); i++ {
		res[i] = map[*ssa.BasicBlock]bool{}
		for x := b.Succs[i]; x != nil && x != stop; x = pd.ipdom[x] {
			if x == b {
				break
			}
			res[i][x] = true
		}
	}
	return res
}

// regionOf: all blocks whose execution is decided (directly or transitively) by the branch b->succ[i]:
// blocks reachable from succ[i] before the immediate post-dominator of b.
func (pd *pdom) regionOf(b *ssa.BasicBlock, i int) map[*ssa.BasicBlock]bool {
	stop := pd.ipdom[b]
	res := map[*ssa.BasicBlock]bool{}
	stack := []*ssa.BasicBlock{b.Succs[i]}
	for len(stack) > 0 {
		x := stack[len(stack)-1]
		stack = stack[:len(stack)-1]
		if x == stop || x == b || res[x] {
			continue
		}
		res[x] = true
		stack = append(stack, x.Succs...)
	}
	return res
}
