package main

// C02 No value creation: structural necessary conditions.

import (
	"go/token"
	"go/types"
	"sort"
	"strings"

	"golang.org/x/tools/go/ssa"
)

func init() {
	register(&propertyDef{
		ID:    "C02",
		Title: "No value creation",
		Explain: "Decides, for every registered handler and on every path: (signguard) each amount field of the transaction message that flows into a value-storing call of the data layer " +
			"(the calls are discovered: data-layer methods with an amount parameter that reach State.Set) has passed a lower-bound test (IsValid, a comparison against a message-independent amount, a Sign/Cmp test, " +
			"or a helper all of whose success returns lie behind such a test) before the call - in the handler's run function, or on every path to Validate's success return; " +
			"(minus) Coin.Minus / Amount.Minus return a nil error only on the not-negative edge of their result test, every data-layer debit wrapper writes only behind that nil error, and no caller discards it; " +
			"(pairing) in each handler every credit is preceded on all paths by the successful debit of the same datum; (errcheck) no successful return is reachable on the error edge of a value-storing call; (floor) amounts split between parties come from integer division without later increment; (fee) the signed gas price is bounded below by the configured minimum in every charging handler.",
		NotDecided: "that the ledger sums balance (arithmetic over histories); int64 overflow of ToCoinWithBase; values stored inside composite records (offers, domains) are covered only where the record field flows to a discovered sink in the same handler",
		Run:        runC02,
	})
}

func amountish(t types.Type) bool {
	if p, ok := t.(*types.Pointer); ok {
		t = p.Elem()
	}
	switch tname(t) {
	case "action.Amount", "data/balance.Coin", "data/balance.Amount", "math/big.Int":
		return true
	}
	return false
}

// valueStoring: repository functions of the data layer with an amount-typed parameter that reach State.Set
// (through static repository calls): the value-moving API, discovered rather than listed.
func valueStoring(p *Program) map[*ssa.Function][]int {
	set := p.MustFn("(*storage.State).Set")
	reaches := map[*ssa.Function]bool{set: true}
	changed := true
	fns := sortedFns(p.Fns)
	for changed {
		changed = false
		for _, fn := range fns {
			if reaches[fn] || fn.Blocks == nil || !inRepo(fn) {
				continue
			}
			hit := false
			allInstrs(fn, func(ins ssa.Instruction) {
				if sc := staticCallee(ins); sc != nil && reaches[sc] {
					hit = true
				}
			})
			if hit {
				reaches[fn] = true
				changed = true
			}
		}
	}
	res := map[*ssa.Function][]int{}
	for fn := range reaches {
		if fn.Signature.Recv() == nil {
			continue
		}
		pp := fnPkg(fn).Path()
		if !(strings.HasPrefix(pp, Mod+"/data/") || pp == Mod+"/identity" || strings.Contains(pp, "_data")) {
			continue
		}
		var idx []int
		for i, par := range fn.Params {
			if i > 0 && amountish(par.Type()) {
				idx = append(idx, i)
			}
		}
		if len(idx) > 0 {
			res[fn] = idx
		}
	}
	return res
}

// quantity-preserving conversions: the result denotes the same number as the receiver/argument.
var sameQuantityCalls = map[string]bool{
	"(action.Amount).ToCoin": true, "(action.Amount).ToCoinWithBase": true,
	"(data/balance.Currency).NewCoinFromAmount": true, "(data/balance.Currency).NewCoinFromInt": true,
	"(*data/balance.Amount).BigInt": true, "data/balance.NewAmountFromBigInt": true, "data/balance.NewAmountFromInt": true,
	"(*math/big.Int).Int64": true, "(*math/big.Int).Set": true,
}

// sameQuantity: v denotes the same number as a value satisfying src (field selection, loads, copies and the
// repository's amount conversions only; no arithmetic).
func sameQuantity(v ssa.Value, src VPred) bool {
	seen := map[ssa.Value]bool{}
	var walk func(x ssa.Value, d int) bool
	walk = func(x ssa.Value, d int) bool {
		if x == nil || seen[x] || d > 40 {
			return false
		}
		seen[x] = true
		if src(x) {
			return true
		}
		switch y := x.(type) {
		case *ssa.UnOp:
			if y.Op == token.MUL {
				return walk(y.X, d+1)
			}
		case *ssa.FieldAddr:
			return walk(y.X, d+1)
		case *ssa.Field:
			return walk(y.X, d+1)
		case *ssa.ChangeType:
			return walk(y.X, d+1)
		case *ssa.Convert:
			return walk(y.X, d+1)
		case *ssa.MakeInterface:
			return walk(y.X, d+1)
		case *ssa.Extract:
			return walk(y.Tuple, d+1)
		case *ssa.Phi:
			for _, e := range y.Edges {
				if !walk(e, d+1) {
					return false
				}
			}
			return len(y.Edges) > 0
		case *ssa.Alloc:
			// a local holding (only) such a value
			n, all := 0, true
			for _, ref := range *y.Referrers() {
				if st, ok := ref.(*ssa.Store); ok && st.Addr == ssa.Value(y) {
					n++
					if !walk(st.Val, d+1) {
						all = false
					}
				}
			}
			return n > 0 && all
		case *ssa.FreeVar:
			if b := freeVarBinding(y); b != nil {
				return walk(b, d+1)
			}
		case *ssa.Call:
			if sameQuantityCalls[calleeName(y)] {
				for _, a := range y.Call.Args {
					if amountish(a.Type()) || isIntegral(a.Type()) {
						if walk(a, d+1) {
							return true
						}
					}
				}
			}
		}
		return false
	}
	return walk(v, 0)
}

// signGuard recognises the pass edges of "the amount (src) has a message-independent lower bound".
type signGuard struct {
	p    *Program
	src  func(fn *ssa.Function) VPred // the validated quantity inside fn
	free func(v ssa.Value) bool       // message-independent value (the bound)
	memo map[string]int               // helper summaries
}

func (g *signGuard) String() string { return "amount lower bound" }

func (g *signGuard) Edges(p *Program, fn *ssa.Function) []Edge {
	return g.edgesFor(fn, g.src(fn), 0)
}

// classify a call's boolean meaning for the quantity: +1 true => bounded below, -1 true => violates the bound, 0 unrelated.
func (g *signGuard) callMeaning(c *ssa.Call, src VPred, depth int) int {
	isQ := func(v ssa.Value) bool { return sameQuantity(v, src) }
	args := c.Call.Args
	switch calleeName(c) {
	case "(action.Amount).IsValid", "(data/balance.Coin).IsValid":
		if isQ(args[0]) {
			return +1
		}
	case "(data/balance.Coin).LessThanEqualCoin", "(data/balance.Coin).LessThanCoin":
		if isQ(args[0]) && g.free(args[1]) {
			return -1 // amount <(=) bound
		}
		if isQ(args[1]) && g.free(args[0]) {
			return +1 // bound <(=) amount
		}
	}
	return 0
}

// helperVerdict: c calls a repository function with the quantity as argument j and that function returns success
// (true / nil error) only past a lower-bound test of its parameter j. Returns the result kinds it establishes.
func (g *signGuard) helperValidates(c *ssa.Call, src VPred, depth int) bool {
	sc := c.Call.StaticCallee()
	if sc == nil || !inRepo(sc) || sc.Blocks == nil || depth > 2 {
		return false
	}
	for j, a := range c.Call.Args {
		if j >= len(sc.Params) || !(amountish(a.Type()) || isIntegral(a.Type())) || !sameQuantity(a, src) {
			continue
		}
		key := fname(sc) + "#" + itoa(int64(j))
		if v, ok := g.memo[key]; ok {
			if v == 1 {
				return true
			}
			continue
		}
		g.memo[key] = 0
		par := sc.Params[j]
		psrc := func(v ssa.Value) bool { return v == ssa.Value(par) }
		edges := g.edgesFor(sc, psrc, depth+1)
		if len(edges) == 0 {
			continue
		}
		live := reachWithout(sc, edges)
		ok := true
		n := 0
		for _, ret := range returnsOf(sc) {
			if returnMayBeSuccess(ret) {
				n++
				if live[ret.Block()] {
					ok = false
				}
			}
		}
		if ok && n > 0 {
			g.memo[key] = 1
			return true
		}
	}
	return false
}

func (g *signGuard) edgesFor(fn *ssa.Function, src VPred, depth int) []Edge {
	isQ := func(v ssa.Value) bool { return sameQuantity(v, src) }
	classify := func(cond ssa.Value, _ *ssa.If) int {
		v, flip := stripNot(cond)
		v = resolveLoad(v)
		pol := 0
		switch x := v.(type) {
		case *ssa.Call:
			pol = g.callMeaning(x, src, depth)
			if pol == 0 && isBoolType(x.Type()) && g.helperValidates(x, src, depth) {
				pol = +1
			}
		case *ssa.Extract:
			if c, ok := x.Tuple.(*ssa.Call); ok && isBoolType(x.Type()) && g.helperValidates(c, src, depth) {
				pol = +1
			}
		case *ssa.BinOp:
			// q.Cmp(bound) OP 0, q.Sign() OP 0, and err ==/!= nil of a validating helper
			if c, ok := x.X.(*ssa.Call); ok {
				k, isK := intConst(x.Y)
				switch calleeName(c) {
				case "(*math/big.Int).Cmp":
					if isK && isQ(c.Call.Args[0]) && g.free(c.Call.Args[1]) {
						// q ? bound
						pol = cmpLowerBound(x.Op, k)
					} else if isK && isQ(c.Call.Args[1]) && g.free(c.Call.Args[0]) {
						pol = cmpLowerBound(mirror(x.Op), -k)
					}
				case "(*math/big.Int).Sign":
					if isK && isQ(c.Call.Args[0]) {
						pol = cmpLowerBound(x.Op, k)
					}
				}
			}
			if pol == 0 && (x.Op == token.EQL || x.Op == token.NEQ) {
				var e ssa.Value
				if isNilConst(x.Y) {
					e = x.X
				} else if isNilConst(x.X) {
					e = x.Y
				}
				if e != nil && isErrorType(e.Type()) {
					s, _ := tupleSource(e)
					if c, ok := s.(*ssa.Call); ok && g.helperValidates(c, src, depth) {
						pol = +1
						if x.Op == token.NEQ {
							pol = -1
						}
					}
				}
			}
		}
		if flip {
			pol = -pol
		}
		return pol
	}
	return condEdges(fn, classify)
}

// cmpLowerBound: for the test `c OP k` with c = sign(q - bound): +1 if the true edge implies q >= bound, -1 if the false edge does.
func cmpLowerBound(op token.Token, k int64) int {
	holds := func(c int64) bool {
		switch op {
		case token.LSS:
			return c < k
		case token.LEQ:
			return c <= k
		case token.GTR:
			return c > k
		case token.GEQ:
			return c >= k
		case token.EQL:
			return c == k
		case token.NEQ:
			return c != k
		}
		return false
	}
	// c ranges over {-1,0,1}; an edge implies "q >= bound" when it excludes c == -1
	nT := 0
	for _, c := range []int64{-1, 0, 1} {
		if holds(c) {
			nT++
		}
	}
	if !holds(-1) && nT > 0 {
		return +1
	}
	if holds(-1) && nT < 3 {
		return -1
	}
	return 0
}

type c02Flow struct {
	field string
	sinks map[ssa.Instruction]bool
	roles map[ssa.Instruction]amtRole
	first ssa.Instruction
}

func runC02(r *Run) {
	p := r.P
	vs := valueStoring(p)
	if len(vs) < 30 {
		fail("C02: only %d value-storing data-layer methods discovered (expected > 40)", len(vs))
	}
	var names []string
	for fn := range vs {
		names = append(names, fname(fn))
	}
	sort.Strings(names)
	r.Info("C02.sinktable", "data layer", "value-storing methods (amount parameter, reaches State.Set)", itoa(int64(len(names)))+": "+strings.Join(names, ", "))

	handlersWith := 0
	seenEntry := map[*ssa.Function]bool{}
	for _, h := range p.Handlers() {
		entry := runFnOf(h.Deliver)
		if entry == nil || seenEntry[entry] {
			continue
		}
		seenEntry[entry] = true
		body := handlerBody(entry)
		inBody := map[*ssa.Function]bool{}
		for _, f := range body {
			inBody[f] = true
		}
		// message amount fields (top-level field name) and the helper parameters they are passed to
		msgField := func(v ssa.Value) string {
			pa := pathOf(v)
			if isMsgRoot(p, pa.Root) && len(pa.Fields) > 0 && amountish(v.Type()) {
				return pa.Fields[0]
			}
			return ""
		}
		paramField := map[*ssa.Parameter]string{}
		for changed := true; changed; {
			changed = false
			for _, fn := range body {
				allInstrs(fn, func(ins ssa.Instruction) {
					sc := staticCallee(ins)
					if sc == nil || !inBody[sc] {
						return
					}
					for i, a := range ins.(ssa.CallInstruction).Common().Args {
						if i >= len(sc.Params) || paramField[sc.Params[i]] != "" {
							continue
						}
						f := ""
						derivesFrom(a, func(y ssa.Value) bool {
							if s := msgField(y); s != "" {
								f = s
							}
							if par, ok := y.(*ssa.Parameter); ok && paramField[par] != "" {
								f = paramField[par]
							}
							return f != ""
						})
						if f != "" && (amountish(sc.Params[i].Type()) || isIntegral(sc.Params[i].Type())) {
							paramField[sc.Params[i]] = f
							changed = true
						}
					}
				})
			}
		}
		fieldOf := func(v ssa.Value) string {
			if s := msgField(v); s != "" {
				return s
			}
			if par, ok := v.(*ssa.Parameter); ok {
				return paramField[par]
			}
			return ""
		}
		flows := map[string]*c02Flow{}
		for _, fn := range body {
			allInstrs(fn, func(ins ssa.Instruction) {
				sc := staticCallee(ins)
				idx, ok := vs[sc]
				if sc == nil || !ok {
					return
				}
				c := ins.(ssa.CallInstruction).Common()
				for _, i := range idx {
					fields := map[string]bool{}
					derivesFrom(c.Args[i], func(y ssa.Value) bool {
						if f := fieldOf(y); f != "" {
							fields[f] = true
						}
						return false
					})
					for f := range fields {
						fl := flows[f]
						if fl == nil {
							fl = &c02Flow{field: f, sinks: map[ssa.Instruction]bool{}, roles: map[ssa.Instruction]amtRole{}, first: ins}
							flows[f] = fl
						}
						fl.sinks[ins] = true
						ro := roleOf(sc, i, 0)
						old := fl.roles[ins]
						fl.roles[ins] = amtRole{old.debit || ro.debit, old.credit || ro.credit}
					}
				}
			})
		}
		if len(flows) == 0 {
			continue
		}
		handlersWith++
		var fnames []string
		for f := range flows {
			fnames = append(fnames, f)
		}
		sort.Strings(fnames)
		for _, f := range fnames {
			fl := flows[f]
			srcFor := func(fn *ssa.Function) VPred {
				return func(v ssa.Value) bool {
					pa := pathOf(v)
					if isMsgRoot(p, pa.Root) && len(pa.Fields) > 0 && pa.Fields[0] == f {
						return true
					}
					if par, ok := v.(*ssa.Parameter); ok && paramField[par] == f {
						return true
					}
					return false
				}
			}
			var free func(v ssa.Value) bool
			free = func(v ssa.Value) bool {
				// a coin built in the message's currency from a message-independent number is a message-independent bound
				if c, ok := resolveLoad(v).(*ssa.Call); ok {
					switch calleeName(c) {
					case "(data/balance.Currency).NewCoinFromAmount", "(data/balance.Currency).NewCoinFromInt":
						return free(c.Call.Args[1])
					}
				}
				return !derivesFrom(v, func(y ssa.Value) bool {
					if msgField(y) != "" {
						return true
					}
					par, ok := y.(*ssa.Parameter)
					return ok && paramField[par] != ""
				})
			}
			checkPairing(r, h, entry, fl)
			checkNarrowing(r, h, fl)
			g := &signGuard{p: p, src: srcFor, free: free, memo: map[string]int{}}
			m := &MustPass{P: p, Scope: samePkgScope(entry), Guard: g, IsSink: func(fn *ssa.Function, ins ssa.Instruction) bool { return fl.sinks[ins] }}
			exposed := m.Exposed(entry)
			construct := "msg." + f + " bounded below before it is stored (" + itoa(int64(len(fl.sinks))) + " value-storing call(s))"
			if len(exposed) == 0 {
				r.OK("C02.signguard", h.Name, construct, "every value-storing call lies behind a lower-bound test in "+fname(entry))
				continue
			}
			// Validate: every success return behind the test
			okV := false
			if h.Validate != nil && h.Validate.Blocks != nil {
				gv := &signGuard{p: p, src: srcFor, free: free, memo: map[string]int{}}
				mv := &MustPass{P: p, Scope: samePkgScope(h.Validate), Guard: gv, IsSink: successReturns(h.Validate)}
				okV = len(mv.Exposed(h.Validate)) == 0 && mv.Sinks > 0
			}
			if okV {
				r.OK("C02.signguard", h.Name, construct, "tested on every path to Validate's success return (effective because the handler step runs only behind Validate: C04.gate)")
				continue
			}
			s := exposed[0]
			r.Viol("C02.signguard", h.Name, "msg."+f+" bounded below before it is stored",
				"msg."+f+" reaches "+calleeName(s.Instr)+" without any lower-bound test (neither in "+fname(entry)+" nor on all paths of Validate): a negative amount turns the debit into a credit / the credit into a debit and creates value or a negative record",
				p.ipos(s.Instr), s.Chain)
		}
	}
	checkMinus(r)
	checkFloor(r, vs)
	checkFeePrice(r)
	checkValueErrors(r, vs)
	checkBtcDelta(r, "C02.btcdelta")
	checkBtcProcessEnd(r, "C02.btcend")
	checkSuicideZeroes(r, "C02.suicide")
	if handlersWith < 15 {
		fail("C02.signguard: only %d handlers with a message amount reaching the data layer (expected >= 18)", handlersWith)
	}
}

// ---------------------------------------------------------------------------------------------
// C02.minus

const (
	fnCoinMinus   = "(data/balance.Coin).Minus"
	fnAmountMinus = "(*data/balance.Amount).Minus"
	fnCoinPlus    = "(data/balance.Coin).Plus"
	fnAmountPlus  = "(*data/balance.Amount).Plus"
)

// reachesStateSet: repository functions from which (*storage.State).Set is reachable through static calls.
func reachesStateSet(p *Program) map[*ssa.Function]bool {
	set := p.MustFn("(*storage.State).Set")
	reaches := map[*ssa.Function]bool{set: true}
	fns := sortedFns(p.Fns)
	for changed := true; changed; {
		changed = false
		for _, fn := range fns {
			if reaches[fn] || fn.Blocks == nil || !inRepo(fn) {
				continue
			}
			hit := false
			allInstrs(fn, func(ins ssa.Instruction) {
				if sc := staticCallee(ins); sc != nil && reaches[sc] {
					hit = true
				}
			})
			if hit {
				reaches[fn] = true
				changed = true
			}
		}
	}
	return reaches
}

func checkMinus(r *Run) {
	p := r.P
	// (a) the primitives: a nil error only on the edge that excludes a negative result
	for _, name := range []string{fnCoinMinus, fnAmountMinus} {
		fn := p.MustFn(name)
		// the difference, zero, and the two operands of the subtraction (receiver = minuend, argument = subtrahend)
		isSub := func(y ssa.Value) bool { cc, ok := y.(*ssa.Call); return ok && calleeName(cc) == "(*math/big.Int).Sub" }
		isDiff := func(v ssa.Value) bool { return derivesFrom(v, isSub) }
		fromParam := func(v ssa.Value, i int) bool {
			return i < len(fn.Params) && derivesFrom(v, func(y ssa.Value) bool { return y == ssa.Value(fn.Params[i]) })
		}
		isMinuend := func(v ssa.Value) bool { return !isDiff(v) && fromParam(v, 0) && !fromParam(v, 1) }
		isSubtrahend := func(v ssa.Value) bool { return !isDiff(v) && fromParam(v, 1) && !fromParam(v, 0) }
		isZero := func(v ssa.Value) bool {
			if isDiff(v) || fromParam(v, 0) || fromParam(v, 1) {
				return false
			}
			return derivesFrom(v, func(y ssa.Value) bool {
				z, ok := y.(*ssa.Call)
				if !ok || len(z.Call.Args) == 0 {
					return false
				}
				switch calleeName(z) {
				case "math/big.NewInt", "data/balance.NewAmount", "data/balance.NewAmountFromInt":
					kk, isC := intConst(z.Call.Args[0])
					return isC && kk == 0
				}
				return false
			})
		}
		// the subtraction itself is minuend - subtrahend
		subOK := false
		allInstrs(fn, func(ins ssa.Instruction) {
			if c, ok := ins.(*ssa.Call); ok && isSub(c) && len(c.Call.Args) == 3 && isMinuend(c.Call.Args[1]) && isSubtrahend(c.Call.Args[2]) {
				subOK = true
			}
		})
		edges := condEdges(fn, func(cond ssa.Value, _ *ssa.If) int {
			v, flip := stripNot(cond)
			v = resolveLoad(v)
			pol := 0
			switch x := v.(type) {
			case *ssa.BinOp:
				c, ok := x.X.(*ssa.Call)
				k, isK := intConst(x.Y)
				op := x.Op
				if !ok || !isK {
					c, ok = x.Y.(*ssa.Call)
					k, isK = intConst(x.X)
					op = mirror(x.Op)
				}
				if !ok || !isK {
					return 0
				}
				switch calleeName(c) {
				case "(*math/big.Int).Cmp":
					a0, a1 := c.Call.Args[0], c.Call.Args[1]
					switch {
					case isDiff(a0) && isZero(a1), isMinuend(a0) && isSubtrahend(a1):
						pol = cmpLowerBound(op, k)
					case isZero(a0) && isDiff(a1), isSubtrahend(a0) && isMinuend(a1):
						pol = cmpLowerBound(mirror(op), -k)
					}
				case "(*math/big.Int).Sign":
					if isDiff(c.Call.Args[0]) {
						pol = cmpLowerBound(op, k)
					}
				}
			case *ssa.Call:
				if len(x.Call.Args) != 2 {
					return 0
				}
				a0, a1 := x.Call.Args[0], x.Call.Args[1]
				switch calleeName(x) {
				case "(data/balance.Coin).LessThanCoin", "(*data/balance.Amount).LessThan":
					if isMinuend(a0) && isSubtrahend(a1) {
						pol = -1 // minuend < subtrahend: the false edge has minuend >= subtrahend
					}
				case "(data/balance.Coin).LessThanEqualCoin":
					if isSubtrahend(a0) && isMinuend(a1) {
						pol = +1
					}
				}
			}
			if flip {
				pol = -pol
			}
			return pol
		})
		if !subOK {
			edges = nil
		}
		live := reachWithout(fn, edges)
		bad := len(edges) == 0
		pos := p.pos(fn.Pos())
		for _, ret := range returnsOf(fn) {
			if returnMayBeSuccess(ret) && live[ret.Block()] {
				bad = true
				pos = p.ipos(ret)
			}
		}
		r.Check(!bad, "C02.minus", name, "nil error only when the difference is not negative", "every nil-error return lies behind the sign test of the difference",
			"the subtraction can report success with a negative result: every balance check in the repository rests on this error", pos)
	}
	// (b) every function that stores the result of a subtraction does so only behind its nil error
	reaches := reachesStateSet(p)
	n := 0
	for _, fn := range sortedFns(p.Fns) {
		if fn.Blocks == nil || !inRepo(fn) {
			continue
		}
		pp := fnPkg(fn).Path()
		if !(strings.HasPrefix(pp, Mod+"/data/") || strings.HasPrefix(pp, Mod+"/action") || pp == Mod+"/identity" || pp == Mod+"/app" || strings.HasPrefix(pp, Mod+"/external_apps")) {
			continue
		}
		allInstrs(fn, func(ins ssa.Instruction) {
			m, ok := ins.(*ssa.Call)
			if !ok || (calleeName(m) != fnCoinMinus && calleeName(m) != fnAmountMinus) {
				return
			}
			fromM := func(v ssa.Value) bool {
				return derivesFrom(v, func(y ssa.Value) bool { s, i := tupleSource(y); return s == ssa.Value(m) && i == 0 })
			}
			var stores []ssa.Instruction
			allInstrs(fn, func(j ssa.Instruction) {
				sc := staticCallee(j)
				if sc == nil || !reaches[sc] {
					return
				}
				for _, a := range j.(ssa.CallInstruction).Common().Args {
					if fromM(a) {
						stores = append(stores, j)
						return
					}
				}
			})
			if len(stores) == 0 {
				return
			}
			n++
			g := &CallGuard{Name: "subtraction succeeded", Callees: []string{calleeName(m)}, ErrOnly: true, ArgOK: func(c *ssa.Call) bool { return c == m }}
			// once the subtraction has executed, a store of its result is reachable only through its nil-error edge
			after := reachFromInstr(m, g.Edges(p, fn), nil)
			bad := false
			pos := p.ipos(m)
			for _, s := range stores {
				if after[s] {
					bad = true
					pos = p.ipos(s)
				}
			}
			r.Check(!bad, "C02.minus", fname(fn), "difference from "+calleeName(m)+" stored only behind its nil error", itoa(int64(len(stores)))+" store call(s) behind the error check",
				"the result of the subtraction is written to the state although the subtraction may have failed (negative amount stored)", pos)
		})
	}
	if n < 10 {
		fail("C02.minus: only %d functions storing a difference found (expected >= 12)", n)
	}
}

// ---------------------------------------------------------------------------------------------
// C02.pairing

type amtRole struct{ debit, credit bool }

var roleMemo = map[string]amtRole{}

// roleOf: what a value-storing function does with its amount parameter i: subtract it from a stored amount (debit),
// add it (credit), both (move) or neither (plain set).
func roleOf(fn *ssa.Function, i int, depth int) amtRole {
	key := fname(fn) + "#" + itoa(int64(i))
	if v, ok := roleMemo[key]; ok {
		return v
	}
	roleMemo[key] = amtRole{}
	var res amtRole
	if fn.Blocks == nil || i >= len(fn.Params) || depth > 4 {
		return res
	}
	par := fn.Params[i]
	isP := func(v ssa.Value) bool { return sameQuantity(v, func(y ssa.Value) bool { return y == ssa.Value(par) }) }
	allInstrs(fn, func(ins ssa.Instruction) {
		c, ok := ins.(*ssa.Call)
		if !ok {
			return
		}
		switch calleeName(c) {
		case fnCoinMinus, fnAmountMinus:
			if isP(c.Call.Args[1]) {
				res.debit = true
			}
			return
		case fnCoinPlus, fnAmountPlus:
			if isP(c.Call.Args[1]) || isP(c.Call.Args[0]) {
				res.credit = true
			}
			return
		}
		sc := c.Call.StaticCallee()
		if sc == nil || !inRepo(sc) {
			return
		}
		for j, a := range c.Call.Args {
			if (amountish(a.Type())) && isP(a) {
				sub := roleOf(sc, j, depth+1)
				res.debit = res.debit || sub.debit
				res.credit = res.credit || sub.credit
			}
		}
	})
	roleMemo[key] = res
	return res
}

// checkPairing: every pure credit of the message amount is reachable only after a successful debit of the same amount.
func checkPairing(r *Run, h *Handler, entry *ssa.Function, fl *c02Flow) {
	p := r.P
	var debits, credits []ssa.Instruction
	names := map[string]bool{}
	for ins, ro := range fl.roles {
		switch {
		case ro.debit:
			debits = append(debits, ins)
			names[calleeName(ins)] = true
		case ro.credit:
			credits = append(credits, ins)
		}
	}
	if len(credits) == 0 {
		return
	}
	construct := "every credit of msg." + fl.field + " follows the successful debit of the same amount"
	sort.Slice(credits, func(i, j int) bool { return credits[i].Pos() < credits[j].Pos() })
	if len(debits) == 0 {
		r.Viol("C02.pairing", h.Name, construct, "msg."+fl.field+" is credited by "+calleeName(credits[0])+" but nothing is debited by that amount in this handler: value is created", p.ipos(credits[0]), nil)
		return
	}
	var callees []string
	for n := range names {
		callees = append(callees, n)
	}
	sort.Strings(callees)
	isDebit := map[ssa.Instruction]bool{}
	for _, d := range debits {
		isDebit[d] = true
	}
	isCredit := map[ssa.Instruction]bool{}
	for _, c := range credits {
		isCredit[c] = true
	}
	g := &CallGuard{Name: "debit succeeded", Callees: callees, ErrOnly: true, ArgOK: func(c *ssa.Call) bool { return isDebit[c] }}
	m := &MustPass{P: p, Scope: samePkgScope(entry), Guard: g, IsSink: func(fn *ssa.Function, ins ssa.Instruction) bool { return isCredit[ins] }}
	exposed := m.Exposed(entry)
	if len(exposed) == 0 {
		r.OK("C02.pairing", h.Name, construct, itoa(int64(len(credits)))+" credit(s) behind the nil error of "+strings.Join(callees, " / "))
		return
	}
	s := exposed[0]
	r.Viol("C02.pairing", h.Name, construct, calleeName(s.Instr)+" is reachable without a successful debit of msg."+fl.field+" ("+strings.Join(callees, " / ")+"): the credit is not backed", p.ipos(s.Instr), s.Chain)
}

// ---------------------------------------------------------------------------------------------
// C02.floor

type floorFlags struct {
	div bool   // passes through an integer (floor) division
	up  string // passes through an operation that can round up / add a constant
}

func nonzeroConstAmount(v ssa.Value) bool {
	c, ok := resolveLoad(v).(*ssa.Call)
	if !ok {
		return false
	}
	switch calleeName(c) {
	case "math/big.NewInt", "data/balance.NewAmount":
		k, isK := intConst(c.Call.Args[0])
		return isK && k != 0
	}
	return false
}

func floorScan(v ssa.Value, fl *floorFlags, depth int, seen map[*ssa.Function]bool) {
	derivesFrom(v, func(y ssa.Value) bool {
		switch x := y.(type) {
		case *ssa.Call:
			n := calleeName(x)
			switch {
			case n == "(*math/big.Int).Div" || n == "(*math/big.Int).Quo" || n == "(*math/big.Int).QuoRem" || n == "(*math/big.Int).DivMod":
				fl.div = true
			case n == "math.Ceil" || n == "math.Round" || strings.HasPrefix(n, "(*math/big.Float).") || n == "math/big.NewFloat" || strings.HasPrefix(n, "(*math/big.Rat)."):
				fl.up = n
			case n == "(*math/big.Int).Add" || n == fnAmountPlus || n == fnCoinPlus:
				for _, a := range x.Call.Args {
					if nonzeroConstAmount(a) {
						fl.up = n + " of a non-zero constant"
					}
				}
			}
			if sc := x.Call.StaticCallee(); sc != nil && inRepo(sc) && sc.Blocks != nil && depth < 3 && !seen[sc] {
				seen[sc] = true
				for _, ret := range returnsOf(sc) {
					for _, res := range ret.Results {
						floorScan(res, fl, depth+1, seen)
					}
				}
			}
		}
		return false
	})
}

func checkFloor(r *Run, vs map[*ssa.Function][]int) {
	checkFloorIn(r, vs, "C02.floor", []string{"app.handleBlockRewards", "app.handleDelegationRewards", "action/governance.distributeFunds", "(*identity.ValidatorStore).GetEndBlockUpdate"}, 7)
}

func checkFloorIn(r *Run, vs map[*ssa.Function][]int, rule string, roots []string, min int) {
	p := r.P
	n := 0
	for _, name := range roots {
		root := p.MustFn(name)
		for _, fn := range append([]*ssa.Function{root}, root.AnonFuncs...) {
			allInstrs(fn, func(ins ssa.Instruction) {
				sc := staticCallee(ins)
				idx, ok := vs[sc]
				if sc == nil || !ok {
					return
				}
				c := ins.(ssa.CallInstruction).Common()
				for _, i := range idx {
					ro := roleOf(sc, i, 0)
					if !ro.credit || ro.debit {
						continue
					}
					var fl floorFlags
					floorScan(c.Args[i], &fl, 0, map[*ssa.Function]bool{})
					if !fl.div {
						// not a share (a matured record, the remainder of the distribution): not this rule's subject
						r.Info(rule, fname(fn), "credit by "+fname(sc), "amount is not a quotient (whole record / remainder)")
						continue
					}
					n++
					// a share obtained by dividing by the size of a collection is paid once per element of that same collection
					if a, at := lenDivisorOf(c.Args[i]); a != nil {
						ranges := loopRangesOf(ins)
						same := false
						for _, b := range ranges {
							if resolveLoad(a) == resolveLoad(b) || samePath(a, b) {
								same = true
							}
						}
						if len(ranges) > 0 {
							r.Check(same, rule, fname(fn), "share credited by "+fname(sc)+": the divisor is the size of the collection the pay-out loop ranges over", "x / len(L) credited for each element of L",
								"the share is computed by dividing by the size of one collection ("+p.ipos(at)+") but credited once per element of another: the shares add up to more (or less) than the amount being split", p.ipos(ins))
						}
					}
					r.Check(fl.up == "", rule, fname(fn), "share credited by "+fname(sc)+" is rounded down", "quotient of an integer division, nothing added afterwards",
						"the credited share passes through "+fl.up+": the shares can add up to more than the amount being split", p.ipos(ins))
				}
			})
		}
	}
	if n < min {
		fail("%s: only %d credited shares found (expected >= %d)", rule, n, min)
	}
}

// ---------------------------------------------------------------------------------------------
// C02.fee: the signed gas price is bounded below (ValidateFee) on every path to Validate's success return of every
// handler whose fee step charges price x gas.
func checkFeePrice(r *Run) {
	p := r.P
	vf := p.MustFn("action.ValidateFee")
	// ValidateFee itself: nil only behind minFee <= price
	edges := condEdges(vf, func(cond ssa.Value, _ *ssa.If) int {
		v, flip := stripNot(cond)
		bo, ok := v.(*ssa.BinOp)
		if !ok {
			return 0
		}
		c, ok := bo.X.(*ssa.Call)
		k, isK := intConst(bo.Y)
		if !ok || !isK || calleeName(c) != "(*math/big.Int).Cmp" {
			return 0
		}
		isPrice := func(v ssa.Value) bool {
			return sameQuantity(v, func(y ssa.Value) bool {
				return strings.HasSuffix(pathOf(y).FieldString(), "Price.Value") || strings.HasSuffix(pathOf(y).FieldString(), "Price")
			})
		}
		isMin := func(v ssa.Value) bool {
			return derivesFrom(v, func(y ssa.Value) bool {
				cc, ok := y.(*ssa.Call)
				return ok && calleeName(cc) == "(*data/fees.FeeOption).MinFee"
			})
		}
		pol := 0
		if isPrice(c.Call.Args[0]) && isMin(c.Call.Args[1]) {
			pol = cmpLowerBound(bo.Op, k)
		} else if isPrice(c.Call.Args[1]) && isMin(c.Call.Args[0]) {
			pol = cmpLowerBound(mirror(bo.Op), -k)
		}
		if flip {
			pol = -pol
		}
		return pol
	})
	live := reachWithout(vf, edges)
	bad := len(edges) == 0
	for _, ret := range returnsOf(vf) {
		if returnMayBeSuccess(ret) && live[ret.Block()] {
			bad = true
		}
	}
	r.Check(!bad, "C02.fee", fname(vf), "nil only when price >= configured minimum", "every nil return lies behind the comparison with MinFee()", "ValidateFee accepts a price below the minimum (a negative price turns the fee into a payment to the sender)", p.pos(vf.Pos()))
	charging := map[string]bool{"action.BasicFeeHandling": true, "action.StakingPayerFeeHandling": true, "action.ContractFeeHandling": true}
	n := 0
	seen := map[*ssa.Function]bool{}
	for _, h := range p.Handlers() {
		if h.Fee == nil || h.Validate == nil || seen[h.Validate] {
			continue
		}
		seen[h.Validate] = true
		charges := false
		for _, f := range handlerBody(h.Fee) {
			allInstrs(f, func(ins ssa.Instruction) {
				if charging[calleeName(ins)] {
					charges = true
				}
			})
		}
		if !charges {
			r.Info("C02.fee", h.Name, "fee step", "does not charge price x gas")
			continue
		}
		n++
		r.guardOb("C02.fee", h.Validate, "Validate's success return", successReturns(h.Validate), errCallG("fee price validated", []string{"action.ValidateFee"}, nil, fieldSuffix("Fee")),
			"a transaction with a gas price below the minimum (or negative) is accepted: the fee step then pays the sender")
	}
	if n < 30 {
		fail("C02.fee: only %d charging handlers (expected about 39)", n)
	}
}

// ---------------------------------------------------------------------------------------------
// C02.errcheck: in a handler, the error of every value-storing call decides the outcome: a successful return is not
// reachable from the call on its error edge (a failed debit or credit must abort - and thereby roll back - the transaction).
func checkValueErrors(r *Run, vs map[*ssa.Function][]int) {
	p := r.P
	seenEntry := map[*ssa.Function]bool{}
	n := 0
	for _, h := range p.Handlers() {
		entry := runFnOf(h.Deliver)
		if entry == nil || seenEntry[entry] {
			continue
		}
		seenEntry[entry] = true
		for _, fn := range handlerBody(entry) {
			if fn != entry {
				continue // helpers return the error to the run function; checked where it is consumed
			}
			allInstrs(fn, func(ins ssa.Instruction) {
				c, ok := ins.(*ssa.Call)
				if !ok {
					return
				}
				sc := c.Call.StaticCallee()
				if _, isVS := vs[sc]; sc == nil || !isVS {
					return
				}
				if resultIndex(sc.Signature, isErrorType) < 0 {
					return
				}
				n++
				// the error edge of this very call
				g := &CallGuard{Name: "call succeeded", Callees: []string{calleeName(c)}, ErrOnly: true, ArgOK: func(cc *ssa.Call) bool { return cc == c }}
				pass := g.Edges(p, fn)
				bad := len(pass) == 0
				if !bad {
					for i2 := range reachFromInstr(c, pass, nil) {
						if ret, isRet := i2.(*ssa.Return); isRet && returnMayBeSuccess(ret) {
							bad = true
						}
					}
				}
				r.Check(!bad, "C02.errcheck", h.Name, "a failing "+fname(sc)+" aborts the transaction", "no successful return reachable on the call's error edge",
					"the handler can report success although "+fname(sc)+" failed (error dropped or only logged): the paired movement is committed without it", p.ipos(c))
			})
		}
	}
	if n < 40 {
		fail("C02.errcheck: only %d value-storing calls with an error result in run functions (expected >= 50)", n)
	}
}

// lenDivisorOf: if the amount passes through a division whose divisor is len(A) (possibly converted), A and the division.
func lenDivisorOf(v ssa.Value) (ssa.Value, ssa.Instruction) {
	var res ssa.Value
	var at ssa.Instruction
	derivesFrom(v, func(y ssa.Value) bool {
		c, ok := y.(*ssa.Call)
		if !ok || res != nil {
			return false
		}
		n := calleeName(c)
		var div ssa.Value
		switch {
		case n == "(data/balance.Coin).Divide" || n == "(data/balance.Coin).DivideInt64":
			div = c.Call.Args[1]
		case n == "(*math/big.Int).Div" || n == "(*math/big.Int).Quo":
			div = c.Call.Args[2]
		default:
			return false
		}
		derivesFrom(div, func(z ssa.Value) bool {
			if lc, ok := z.(*ssa.Call); ok && calleeName(lc) == "builtin:len" && res == nil {
				res, at = lc.Call.Args[0], c
				return true
			}
			return false
		})
		return false
	})
	return res, at
}

// loopRangesOf: the collections whose length bounds the loops that contain ins (for ... range L / for i < len(L)).
func loopRangesOf(ins ssa.Instruction) []ssa.Value {
	b := ins.Block()
	var res []ssa.Value
	// blocks of the loops containing b: those that reach b and are reached from b
	fwd := reachFrom(b, nil)
	inLoop := map[*ssa.BasicBlock]bool{}
	for x := range fwd {
		if reachFrom(x, nil)[b] {
			inLoop[x] = true
		}
	}
	for x := range inLoop {
		iff := blockIf(x)
		if iff == nil {
			continue
		}
		bo, ok := iff.Cond.(*ssa.BinOp)
		if !ok || bo.Op != token.LSS {
			continue
		}
		if lc, ok := bo.Y.(*ssa.Call); ok && calleeName(lc) == "builtin:len" {
			res = append(res, lc.Call.Args[0])
		}
	}
	return res
}

// checkNarrowing: on its way from the message to a value-storing call an amount is never squeezed through a 64-bit integer
// (big.Int.Int64 / Uint64): the truncated value would be moved while the full value is recorded elsewhere.
func checkNarrowing(r *Run, h *Handler, fl *c02Flow) {
	p := r.P
	var sinks []ssa.Instruction
	for ins := range fl.sinks {
		sinks = append(sinks, ins)
	}
	sort.Slice(sinks, func(i, j int) bool { return sinks[i].Pos() < sinks[j].Pos() })
	bad := ""
	var at ssa.Instruction
	var scan func(v ssa.Value, depth int, seen map[*ssa.Function]bool)
	scan = func(v ssa.Value, depth int, seen map[*ssa.Function]bool) {
		derivesFrom(v, func(y ssa.Value) bool {
			c, ok := y.(*ssa.Call)
			if !ok {
				return false
			}
			switch calleeName(c) {
			case "(*math/big.Int).Int64", "(*math/big.Int).Uint64":
				if bad == "" {
					bad = calleeName(c) + " at " + p.ipos(c)
				}
			}
			if sc := c.Call.StaticCallee(); sc != nil && inRepo(sc) && sc.Blocks != nil && depth < 3 && !seen[sc] {
				seen[sc] = true
				for _, ret := range returnsOf(sc) {
					for _, res := range ret.Results {
						if amountish(res.Type()) {
							scan(res, depth+1, seen)
						}
					}
				}
			}
			return false
		})
	}
	for _, ins := range sinks {
		c := ins.(ssa.CallInstruction).Common()
		for _, a := range c.Args {
			if amountish(a.Type()) && bad == "" {
				scan(a, 0, map[*ssa.Function]bool{})
				if bad != "" {
					at = ins
				}
			}
		}
	}
	pos := ""
	if at != nil {
		pos = p.ipos(at)
	}
	r.Check(bad == "", "C02.narrow", h.Name, "msg."+fl.field+" keeps arbitrary precision on its way to the data layer", "no big.Int.Int64 / Uint64 between the message amount and a value-storing call",
		"the amount moved is msg."+fl.field+" truncated to 64 bits ("+bad+") while other records of the same transaction take the full value: a value of 2^64+1 moves 1 and records 2^64+1", pos)
}
