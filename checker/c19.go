package main

// C19 Allegations.

import (
	"go/token"
	"strings"

	"golang.org/x/tools/go/ssa"
)

const (
	fnIsActive    = "(*data/evidence.EvidenceStore).IsActiveValidator"
	fnPerformAll  = "(*data/evidence.EvidenceStore).PerformAllegation"
	fnEvVote      = "(*data/evidence.EvidenceStore).Vote"
	fnHandleRel   = "(*data/evidence.EvidenceStore).HandleRelease"
	fnSetAllegReq = "(*data/evidence.EvidenceStore).SetAllegationRequest"
	fnCreateSusp  = "(*data/evidence.EvidenceStore).CreateSuspiciousValidator"
	fnUpdSusp     = "(*data/evidence.EvidenceStore).UpdateSuspiciousValidator"
	fnDelayUnst   = "(*identity.ValidatorStore).delayHandleUnstake"
	fnExecTracker = "(*identity.ValidatorStore).ExecuteAllegationTracker"
)

func init() {
	register(&propertyDef{
		ID:    "C19",
		Title: "Allegations: verdicts follow votes, frozen stays frozen, penalties bounded",
		Explain: "Decides on every path: (handlers) an allegation is recorded only past not-frozen(accused), active(reporter) and reporter != accused, a vote only past not-frozen(voter) and active(voter), with the message's own fields; " +
			"(vote store) a vote is appended only for choice YES/NO, on an open request, and a second vote by the same address leads to rejection; " +
			"(tally) freezing, slashing, the delayed unstake and the bounty lie behind the yes-share comparison, the INNOCENT verdict behind the no-share comparison, the slashed stake is the accused validator's, the bounty is credited only after a successful slash; " +
			"(release) the release fields are written only by HandleRelease, behind IsFrozen and ReleaseReady; (frozen set) the scan of frozen validators skips released records without stopping; staking handlers keep their not-frozen guard (shared with C11).",
		NotDecided: "the float threshold arithmetic, bounty <= penalty (depends on option values), set membership after a verdict",
		Run:        runC19,
	})
}

// rejectOb: whenever the classifier recognises a rejecting condition, its reject edge must not reach the sink.
func (r *Run) rejectOb(rule string, fn *ssa.Function, construct string, classify func(cond ssa.Value) int, sink func(ssa.Instruction) bool, okMsg, badMsg string) {
	p := r.P
	n := 0
	bad := false
	pos := p.pos(fn.Pos())
	for _, b := range fn.Blocks {
		iff := blockIf(b)
		if iff == nil {
			continue
		}
		pol := classify(iff.Cond)
		if pol == 0 {
			continue
		}
		n++
		// pol = +1: rejecting condition holds on the true edge
		target := b.Succs[0]
		if pol < 0 {
			target = b.Succs[1]
		}
		// the reject edge must lead to a failing exit without the sink and without re-entering the loop
		for blk := range reachFrom(target, nil) {
			for _, ins := range blk.Instrs {
				if sink(ins) {
					bad = true
					pos = p.ipos(iff)
				}
			}
		}
	}
	if n == 0 {
		r.Viol(rule, fname(fn), construct, "the rejecting test was not found: "+badMsg, pos, nil)
		return
	}
	r.Check(!bad, rule, fname(fn), construct, okMsg, badMsg, pos)
}

func runC19(r *Run) {
	p := r.P
	alleg := p.deliverEntry("ALLEGATION")
	vote := p.deliverEntry("ALLEGATION_VOTE")
	rel := p.deliverEntry("RELEASE")

	sinkA := callsTo(fnPerformAll)
	r.guardOb("C19.handler.allegation", alleg, "PerformAllegation", sinkA,
		boolCallG("not frozen(msg.MaliciousAddress)", false, []string{fnIsFrozen}, nil, msgF(p, "MaliciousAddress")), "an already frozen validator can be accused again")
	r.guardOb("C19.handler.allegation", alleg, "PerformAllegation", sinkA,
		boolCallG("active(msg.ValidatorAddress)", true, []string{fnIsActive}, nil, msgF(p, "ValidatorAddress")), "an account that is not an active validator can open an allegation")
	r.guardOb("C19.handler.allegation", alleg, "PerformAllegation", sinkA,
		eqG("reporter != accused", false, msgF(p, "ValidatorAddress"), msgF(p, "MaliciousAddress")), "a validator can accuse itself")
	r.argCheck("C19.handler.allegation", alleg, fnPerformAll, 1, "msg.ValidatorAddress", msgF(p, "ValidatorAddress"), "the recorded reporter is not the checked one")
	r.argCheck("C19.handler.allegation", alleg, fnPerformAll, 2, "msg.MaliciousAddress", msgF(p, "MaliciousAddress"), "the recorded accused is not the checked one")

	sinkV := callsTo(fnEvVote)
	r.guardOb("C19.handler.vote", vote, "EvidenceStore.Vote", sinkV,
		boolCallG("not frozen(msg.Address)", false, []string{fnIsFrozen}, nil, msgF(p, "Address")), "a frozen validator can vote")
	r.guardOb("C19.handler.vote", vote, "EvidenceStore.Vote", sinkV,
		boolCallG("active(msg.Address)", true, []string{fnIsActive}, nil, msgF(p, "Address")), "an account that is not an active validator can vote on allegations")
	r.argCheck("C19.handler.vote", vote, fnEvVote, 1, "msg.RequestID", msgF(p, "RequestID"), "vote lands on another request")
	r.argCheck("C19.handler.vote", vote, fnEvVote, 2, "msg.Address", msgF(p, "Address"), "the vote is recorded for another address than the checked signer")
	r.argCheck("C19.handler.vote", vote, fnEvVote, 3, "msg.Choice", msgF(p, "Choice"), "choice differs from the message")

	r.argCheck("C19.handler.release", rel, fnHandleRel, 1, "options from GetEvidenceOptions", func(v ssa.Value) bool {
		s, i := tupleSource(v)
		c, ok := s.(*ssa.Call)
		return ok && i == 0 && calleeName(c) == "(*data/governance.Store).GetEvidenceOptions"
	}, "release time is checked against other options")
	r.argCheck("C19.handler.release", rel, fnHandleRel, 2, "msg.ValidatorAddress", msgF(p, "ValidatorAddress"), "another validator is released")

	// ---- vote store
	vs := p.MustFn(fnEvVote)
	isSet := func(ins ssa.Instruction) bool { return calleeName(ins) == fnSetAllegReq }
	choiceP := paramIs(vs, 3)
	yes, no := evidenceConst(p, "YES"), evidenceConst(p, "NO")
	set := firstCallIn(vs, fnSetAllegReq)
	if set == nil {
		r.Viol("C19.vote", fname(vs), "vote persisted", "no SetAllegationRequest in Vote", p.pos(vs.Pos()), nil)
	} else {
		g := &AnyGuard{Name: "choice == YES or choice == NO", Alts: []GuardSpec{cmpG("choice == YES", choiceP, token.EQL, constIs(yes)), cmpG("choice == NO", choiceP, token.EQL, constIs(no))}}
		edges := g.Edges(p, vs)
		r.Check(len(edges) >= 2 && !reachWithout(vs, edges)[set.Block()], "C19.vote", fname(vs), "vote recorded only for YES/NO",
			"the request is rewritten only when the choice is one of the two valid values", "a vote with another choice value can be recorded (counts in neither tally but blocks the voter)", p.ipos(set))
		for _, st := range []string{"GUILTY", "INNOCENT"} {
			k := evidenceConst(p, st)
			g2 := cmpG("status != "+st, fieldSuffix("Status"), token.NEQ, constIs(k))
			e2 := g2.Edges(p, vs)
			r.Check(len(e2) > 0 && !reachWithout(vs, e2)[set.Block()], "C19.vote", fname(vs), "no vote on a request already "+st,
				"closed requests are not modified", "a vote can be added to a request that already has a verdict", p.ipos(set))
		}
		r.rejectOb("C19.vote", vs, "second vote by the same address is rejected", func(cond ssa.Value) int {
			return boolCond(cond, func(v ssa.Value) bool {
				c, ok := v.(*ssa.Call)
				if !ok {
					return false
				}
				n := calleeName(c)
				if n != "(data/keys.Address).Equal" && n != "bytes.Equal" {
					return false
				}
				a, b := c.Call.Args[0], c.Call.Args[1]
				isElem := func(x ssa.Value) bool {
					pa := pathOf(x)
					return strings.Contains(pa.FieldString(), "Votes") && strings.HasSuffix(pa.FieldString(), "Address")
				}
				isVoter := paramIs(vs, 2)
				return (isElem(a) && isVoter(b)) || (isElem(b) && isVoter(a))
			})
		}, isSet, "an address found among the recorded votes leads to rejection", "an address that already voted can vote again (one validator counts several times)")
	}

	// ---- release
	hr := p.MustFn(fnHandleRel)
	upd := firstCallIn(hr, fnUpdSusp)
	if upd == nil {
		r.Viol("C19.release", fname(hr), "release persisted", "no UpdateSuspiciousValidator in HandleRelease", p.pos(hr.Pos()), nil)
	} else {
		gF := boolCallG("IsFrozen()", true, []string{"(*data/evidence.LastValidatorHistory).IsFrozen"})
		eF := gF.Edges(p, hr)
		r.Check(len(eF) > 0 && !reachWithout(hr, eF)[upd.Block()], "C19.release", fname(hr), "release only of a frozen validator",
			"guarded by IsFrozen()", "a validator that is not frozen can be 'released' (release time overwritten)", p.ipos(upd))
		gR := &CallGuard{Name: "ReleaseReady", Callees: []string{"(*data/evidence.LastValidatorHistory).ReleaseReady"}, Want: true}
		eR := gR.Edges(p, hr)
		// both the bool and the error of ReleaseReady
		liveB := reachWithout(hr, boolEdgesOf(hr, "(*data/evidence.LastValidatorHistory).ReleaseReady", true))
		r.Check(len(eR) > 0 && !reachWithout(hr, eR)[upd.Block()] && !liveB[upd.Block()], "C19.release", fname(hr), "release only when ReleaseReady",
			"guarded by ReleaseReady() == true with a nil error", "a frozen validator can be released before the configured release time", p.ipos(upd))
	}
	// writers of ReleaseAt / ReleaseHeight
	nW := 0
	for _, fn := range sortedFns(p.Fns) {
		if !inRepo(fn) {
			continue
		}
		allInstrs(fn, func(ins ssa.Instruction) {
			st, ok := ins.(*ssa.Store)
			if !ok {
				return
			}
			fa, ok := st.Addr.(*ssa.FieldAddr)
			if !ok {
				return
			}
			if n := namedOf(fa.X.Type()); n == nil || tname(n) != "data/evidence.LastValidatorHistory" {
				return
			}
			f := fieldName(fa.X.Type(), fa.Field)
			if f != "ReleaseAt" && f != "ReleaseHeight" {
				return
			}
			if _, isAlloc := pathOf(fa.X).Root.(*ssa.Alloc); isAlloc {
				return // constructing a fresh record with a composite literal
			}
			nW++
			r.Check(fname(topFn(fn)) == fnHandleRel, "C19.release.who", fname(fn), "writes LastValidatorHistory."+f,
				"the release fields are written by HandleRelease only", "the release fields of a frozen validator's record are written outside HandleRelease (bypassing IsFrozen/ReleaseReady)", p.ipos(st))
		})
	}
	if nW < 2 {
		fail("only %d writers of the release fields found (expected 2 in HandleRelease)", nW)
	}

	// ---- frozen scan
	isv := p.MustFn("(*data/evidence.EvidenceStore).IterateSuspiciousValidators")
	for _, cl := range isv.AnonFuncs {
		ok := true
		for _, ret := range returnsOf(cl) {
			v := ret.Results[0]
			if c, isC := boolConst(v); isC && !c {
				continue
			}
			if call, isCall := v.(*ssa.Call); isCall && call.Call.StaticCallee() == nil {
				if isCallbackValue(call.Call.Value) {
					continue // return fn(lvh)
				}
			}
			ok = false
		}
		r.Check(ok, "C19.frozen-scan", fname(cl), "skips released records without stopping",
			"the scan callback returns false or the caller's verdict", "the scan of frozen validators can stop at a released record: frozen validators sorting after it keep their power", p.pos(cl.Pos()))
		gF := boolCallG("IsFrozen()", true, []string{"(*data/evidence.LastValidatorHistory).IsFrozen"})
		eF := gF.Edges(p, cl)
		okCall := len(eF) > 0
		allInstrs(cl, func(ins ssa.Instruction) {
			if c, isCall := ins.(*ssa.Call); isCall && c.Call.StaticCallee() == nil {
				if isCallbackValue(c.Call.Value) && reachWithout(cl, eF)[c.Block()] {
					okCall = false
				}
			}
		})
		r.Check(okCall, "C19.frozen-scan", fname(cl), "only frozen records are reported", "the caller sees a record only on the IsFrozen() edge", "released validators are reported as frozen", p.pos(cl.Pos()))
	}
	cm := p.MustFn("(*identity.ValidatorStore).CheckMaliciousValidators")
	if c := firstCallIn(cm, "(*data/evidence.EvidenceStore).IterateSuspiciousValidators"); c != nil {
		cl := closureOf(c.Call.Args[1])
		never := cl != nil
		if cl != nil {
			for _, ret := range returnsOf(cl) {
				if k, isC := boolConst(ret.Results[0]); !isC || k {
					never = false
				}
			}
		}
		r.Check(never, "C19.frozen-scan", fname(cm), "malicious set filled from every frozen record", "the collecting callback never stops the scan", "the malicious set can miss frozen validators", p.ipos(c))
	} else {
		r.Viol("C19.frozen-scan", fname(cm), "malicious set filled from every frozen record", "CheckMaliciousValidators no longer scans the frozen validators", p.pos(cm.Pos()), nil)
	}

	// ---- tally
	checkTally(r)

	// ---- frozen guards of the staking handlers (shared with C11)
	checkLivePredicates(r, "C19.frozen-staking", fnIsFrozen, fnIsActive)
	checkStatusWrite(r)
	nf := boolCallG("not frozen(msg.ValidatorAddress)", false, []string{fnIsFrozen}, nil, msgF(p, "ValidatorAddress"))
	r.guardOb("C19.frozen-staking", p.deliverEntry("STAKE"), "stake effects", callsTo(fnBalMinus, fnDelegStake, fnHandleStake), nf, "a guilty validator can stake")
	r.guardOb("C19.frozen-staking", p.deliverEntry("UNSTAKE"), "unstake effects", callsTo(fnDelegUnstake, fnHandleUnst), nf, "a guilty validator can unstake")
	r.guardOb("C19.frozen-staking", p.deliverEntry("WITHDRAW"), "withdraw effects", callsTo(fnDelegWithdr, fnBalAdd), nf, "a guilty validator can withdraw")
	checkCreateSuspicious(r)
	checkCleanTracker(r)
	checkNoDowngrade(r)
	checkOptionsValidated(r, "C19.options", "ValidateEvidence", 3)
	r.Floor("C19.", 30)
}

func evidenceConst(p *Program, name string) int64 {
	pk := p.AllPkgs[Mod+"/data/evidence"]
	o := pk.Types.Scope().Lookup(name)
	if o == nil {
		fail("evidence.%s missing", name)
	}
	return constValue(p, Mod+"/data/evidence", name)
}

// boolEdgesOf: pass edges where the bool result of a call to name equals want.
func boolEdgesOf(fn *ssa.Function, name string, want bool) []Edge {
	return condEdges(fn, func(cond ssa.Value, _ *ssa.If) int {
		pol := boolCond(cond, func(v ssa.Value) bool {
			s, _ := tupleSource(v)
			c, ok := s.(*ssa.Call)
			return ok && calleeName(c) == name && isBoolType(v.Type())
		})
		if !want {
			pol = -pol
		}
		return pol
	})
}

func checkTally(r *Run) {
	p := r.P
	fn := p.MustFn(fnExecTracker)
	name := fname(fn)
	yes, no := evidenceConst(p, "YES"), evidenceConst(p, "NO")
	guilty, innocent := evidenceConst(p, "GUILTY"), evidenceConst(p, "INNOCENT")
	// counters: int phis incremented on the edge Choice == YES / NO
	counterFor := func(k int64) map[ssa.Value]bool {
		res := map[ssa.Value]bool{}
		allInstrs(fn, func(ins ssa.Instruction) {
			bo, ok := ins.(*ssa.BinOp)
			if !ok || bo.Op != token.ADD {
				return
			}
			if c, isC := intConst(bo.Y); !isC || c != 1 {
				return
			}
			// control: the block is reached through an edge Choice == k
			g := cmpG("choice", fieldSuffix("Choice"), token.EQL, constIs(k))
			edges := g.Edges(p, fn)
			if len(edges) > 0 && !reachWithoutFromLoop(fn, edges, bo.Block()) {
				res[bo] = true
				res[bo.X] = true
			}
		})
		return res
	}
	yesC, noC := counterFor(yes), counterFor(no)
	if len(yesC) == 0 || len(noC) == 0 {
		r.Viol("C19.tally", name, "yes/no counters", "counters incremented under Choice == YES / NO were not found", p.pos(fn.Pos()), nil)
		return
	}
	// each request is tallied from zero: the counter's loop phi has no other incoming value than the constant 0 and its own increments
	for label, set := range map[string]map[ssa.Value]bool{"yes": yesC, "no": noC} {
		fresh := true
		for v := range set {
			phi, ok := v.(*ssa.Phi)
			if !ok {
				continue
			}
			seen := map[*ssa.Phi]bool{}
			var chk func(ph *ssa.Phi)
			chk = func(ph *ssa.Phi) {
				if seen[ph] {
					return
				}
				seen[ph] = true
				for _, e := range ph.Edges {
					if set[e] || e == ssa.Value(ph) {
						continue
					}
					if k, isC := intConst(e); isC && k == 0 {
						continue
					}
					if p2, isPhi := e.(*ssa.Phi); isPhi && p2.Block() != ph.Block() && !loopCarriedOutside(p2, ph) {
						chk(p2)
						continue
					}
					fresh = false
				}
			}
			chk(phi)
		}
		r.Check(fresh, "C19.tally", name, label+" counter starts at 0 for every request",
			"the tally of a request counts only that request's votes", "the "+label+" counter carries over between requests: a validator can be declared guilty from votes cast on another allegation", p.pos(fn.Pos()))
	}
	fromCounter := func(set map[ssa.Value]bool) VPred {
		return func(v ssa.Value) bool { return derivesFrom(v, func(y ssa.Value) bool { return set[y] }) }
	}
	isFloat := func(v ssa.Value) bool { return strings.Contains(v.Type().String(), "float") }
	shareGuard := func(label string, set map[ssa.Value]bool) *EdgeGuard {
		return cmpG(label, func(v ssa.Value) bool { return isFloat(v) && fromCounter(set)(v) }, token.GTR,
			func(v ssa.Value) bool {
				return isFloat(v) && derivesFrom(v, func(y ssa.Value) bool { return strings.HasSuffix(pathOf(y).FieldString(), "AllegationPercentage") })
			})
	}
	// the quorum both shares are divided by is the ceiling of active * votePercentage / decimals
	ceilOK := false
	allInstrs(fn, func(ins ssa.Instruction) {
		bo, ok := ins.(*ssa.BinOp)
		if !ok || bo.Op != token.QUO || !isFloat(bo) || !fromCounter(yesC)(bo.X) {
			return
		}
		if derivesFrom(bo.Y, func(y ssa.Value) bool { c, isC := y.(*ssa.Call); return isC && calleeName(c) == "math.Ceil" }) &&
			derivesFrom(bo.Y, func(y ssa.Value) bool { return strings.HasSuffix(pathOf(y).FieldString(), "ValidatorVotePercentage") }) {
			ceilOK = true
		}
	})
	r.Check(ceilOK, "C19.tally", name, "quorum = ceil(active * ValidatorVotePercentage / decimals)",
		"the share denominator is rounded up", "the vote quorum is no longer the ceiling of the configured share of the active set: fewer votes than configured decide a verdict", p.pos(fn.Pos()))
	gY := shareGuard("yes share > allegation percentage", yesC)
	gN := shareGuard("no share > 1 - allegation percentage", noC)
	guiltySinks := callsTo(fnCreateSusp, fnDelegMinus, fnDelayUnst)
	r.guardObIn("C19.tally", fn, "freeze / slash / delayed unstake", guiltySinks, gY, "a validator can be frozen and slashed without the yes votes crossing the configured share")
	// status stores
	statusStore := func(k int64) SinkPred {
		return func(f *ssa.Function, ins ssa.Instruction) bool {
			st, ok := ins.(*ssa.Store)
			if !ok {
				return false
			}
			c, isC := intConst(st.Val)
			return isC && c == k && strings.HasSuffix(pathOf(st.Addr).FieldString(), "Status")
		}
	}
	r.guardObIn("C19.tally", fn, "Status = GUILTY", statusStore(guilty), gY, "a GUILTY verdict without the yes share")
	r.guardObIn("C19.tally", fn, "Status = INNOCENT", statusStore(innocent), gN, "an INNOCENT verdict without the no share")
	// bounty credit only after a successful slash
	r.guardObIn("C19.tally", fn, "bounty credit", callsTo(fnBalAdd), errCallG("stake slash succeeded", []string{fnDelegMinus}), "the bounty is paid although nothing was taken from the guilty validator's stake")
	// slashed subject derives from the accused address of the request
	if c := firstCallIn(fn, fnDelegMinus); c != nil {
		okS := true
		for _, a := range c.Call.Args[1:3] {
			if !derivesFrom(a, func(y ssa.Value) bool { return strings.HasSuffix(pathOf(y).FieldString(), "MaliciousAddress") }) {
				okS = false
			}
		}
		r.Check(okS, "C19.tally", name, "slashed stake belongs to the accused validator",
			"the validator and stake address debited derive from the request's MaliciousAddress", "the slash is taken from a stake that does not derive from the accused validator's record", p.ipos(c))
	}
	if c := firstCallIn(fn, fnCreateSusp); c != nil {
		r.Check(strings.HasSuffix(pathOf(c.Call.Args[1]).FieldString(), "MaliciousAddress"), "C19.tally", name, "frozen validator is the accused",
			"CreateSuspiciousValidator(request.MaliciousAddress)", "another validator than the accused is frozen", p.ipos(c))
	}
}

// guardObIn: like guardOb but scoped to the single function (no descent).
func (r *Run) guardObIn(rule string, fn *ssa.Function, sinkDesc string, sink SinkPred, g GuardSpec, consequence string) {
	p := r.P
	edges := g.Edges(p, fn)
	live := reachWithout(fn, edges)
	n, bad := 0, false
	pos := p.pos(fn.Pos())
	allInstrs(fn, func(ins ssa.Instruction) {
		if sink(fn, ins) {
			n++
			if len(edges) == 0 || live[ins.Block()] {
				bad = true
				pos = p.ipos(ins)
			}
		}
	})
	construct := sinkDesc + " behind " + g.String()
	if n == 0 {
		r.Viol(rule, fname(fn), construct, "sink not found in "+fname(fn), pos, nil)
		return
	}
	r.Check(!bad, rule, fname(fn), construct, "reachable only past the guard's pass edge",
		sinkDesc+" is reachable without passing "+g.String()+": "+consequence, pos)
}

// reachWithoutFromLoop: is block b reachable (from the function entry) when the edges are removed?
func reachWithoutFromLoop(fn *ssa.Function, edges []Edge, b *ssa.BasicBlock) bool {
	return reachWithout(fn, edges)[b]
}

// isCallbackValue: a function value supplied by the caller (parameter or captured variable, possibly captured by reference).
func isCallbackValue(v ssa.Value) bool {
	if u, ok := v.(*ssa.UnOp); ok {
		v = u.X
	}
	switch v.(type) {
	case *ssa.FreeVar, *ssa.Parameter:
		return true
	}
	return false
}

// loopCarriedOutside: phi p2 (feeding ph's entry edge) is itself a loop-carried variable of an enclosing loop, i.e. it
// receives (transitively) a value computed from ph - the counter survives from one outer iteration to the next.
func loopCarriedOutside(p2, ph *ssa.Phi) bool {
	return derivesFrom(p2, func(y ssa.Value) bool { return y == ssa.Value(ph) })
}
