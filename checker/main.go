package main

import (
	"encoding/json"
	"flag"
	"fmt"
	"os"
	"path/filepath"
	"sort"
	"strings"
)

func usage() {
	fmt.Fprintln(os.Stderr, `usage:
  olint check -property <Cxx|all> [-tier quick|thorough] [-repo /repo] [-verif /verif]
  olint replay <evidence/replay/Cxx-n.json>
  olint dump -fn <name>      (debug: print SSA of a function)
  olint list                 (properties with registered rules)`)
	os.Exit(2)
}

func main() {
	if len(os.Args) < 2 {
		usage()
	}
	switch os.Args[1] {
	case "check":
		os.Exit(cmdCheck(os.Args[2:]))
	case "replay":
		os.Exit(cmdReplay(os.Args[2:]))
	case "dump":
		cmdDump(os.Args[2:])
	case "fnlist":
		// the function vocabulary the rules are written against (checker/known_funcs.txt)
		os.Setenv("OLINT_NO_INLINE", "1")
		repo := "/repo"
		if len(os.Args) > 2 {
			repo = os.Args[2]
		}
		p := Load(repo, patternsFor("thorough"))
		var names []string
		for n, f := range p.byName {
			if f.Parent() == nil && f.Synthetic == "" {
				names = append(names, n)
			}
		}
		sort.Strings(names)
		for _, n := range names {
			fmt.Println(n)
		}
	case "list":
		var ids []string
		for id := range registry {
			ids = append(ids, id)
		}
		sort.Strings(ids)
		for _, id := range ids {
			fmt.Println(id, registry[id].Title)
		}
	default:
		usage()
	}
}

func defaultVerif() string {
	if v := os.Getenv("OLINT_VERIF"); v != "" {
		return v
	}
	exe, err := os.Executable()
	if err == nil {
		d := filepath.Dir(filepath.Dir(exe))
		if _, err := os.Stat(filepath.Join(d, "properties.jsonl")); err == nil {
			return d
		}
	}
	return "/verif"
}

func patternsFor(tier string) []string {
	if tier == "thorough" {
		return []string{"./..."}
	}
	return []string{"./cmd/olfullnode/...", "./app/..."}
}

func loadOrUndecided(repo string, tier string, ids []string, verifDir string) *Program {
	var p *Program
	func() {
		defer func() {
			if e := recover(); e != nil {
				reason := fmt.Sprint(e)
				if u, ok := e.(undecided); ok {
					reason = u.reason
				}
				for _, id := range ids {
					fmt.Printf("UNDECIDED property=%s reason=%s\n", id, reason)
					r := &Run{Property: id, Tier: tier, floors: map[string]int{}, FnsSeen: map[string]bool{}, Extra: map[string]interface{}{}}
					if d := registry[id]; d != nil {
						r.Explain = d.Explain
						r.NotDecided = d.NotDecided
					}
					r.writeEvidence(filepath.Join(verifDir, "evidence", id+".json"), reason)
				}
				p = nil
			}
		}()
		p = Load(repo, patternsFor(tier))
	}()
	return p
}

func cmdCheck(args []string) int {
	fs := flag.NewFlagSet("check", flag.ExitOnError)
	prop := fs.String("property", "", "property id or 'all'")
	tier := fs.String("tier", "", "quick|thorough")
	repo := fs.String("repo", "/repo", "repository directory")
	verif := fs.String("verif", defaultVerif(), "verif directory (evidence, known findings)")
	fs.Parse(args)
	if *tier == "" {
		*tier = os.Getenv("VERIF_TIER")
	}
	if *tier != "thorough" {
		*tier = "quick"
	}
	var ids []string
	if *prop == "all" {
		for id := range registry {
			ids = append(ids, id)
		}
		sort.Strings(ids)
	} else {
		for _, id := range strings.Split(*prop, ",") {
			if registry[id] == nil {
				fmt.Fprintf(os.Stderr, "no rules registered for property %q\n", id)
				return 2
			}
			ids = append(ids, id)
		}
	}
	if len(ids) == 0 {
		usage()
	}
	p := loadOrUndecided(*repo, *tier, ids, *verif)
	if p == nil {
		return 2
	}
	worst := 0
	for _, id := range ids {
		code := execute(p, registry[id], *tier, *verif)
		status := map[int]string{0: "PASS", 1: "FAIL", 2: "UNDECIDED"}[code]
		fmt.Printf("%s %s tier=%s load=%.1fs\n", status, id, *tier, p.LoadS)
		if code > worst && !(worst == 1) {
			worst = code
		}
		if code == 1 {
			worst = 1
		}
	}
	return worst
}

func cmdReplay(args []string) int {
	fs := flag.NewFlagSet("replay", flag.ExitOnError)
	repo := fs.String("repo", "/repo", "repository directory")
	verif := fs.String("verif", defaultVerif(), "verif directory")
	fs.Parse(args)
	if fs.NArg() != 1 {
		usage()
	}
	b, err := os.ReadFile(fs.Arg(0))
	if err != nil {
		fmt.Fprintln(os.Stderr, err)
		return 2
	}
	var o Obligation
	if err := json.Unmarshal(b, &o); err != nil {
		fmt.Fprintln(os.Stderr, err)
		return 2
	}
	id := strings.SplitN(o.Rule, ".", 2)[0]
	def := registry[id]
	if def == nil {
		fmt.Fprintln(os.Stderr, "unknown property in replay file:", id)
		return 2
	}
	fmt.Printf("replaying obligation rule=%s func=%s construct=%q (re-evaluating property %s on %s)\n", o.Rule, o.Func, o.Construct, id, *repo)
	tmp, _ := os.MkdirTemp("", "olint-replay")
	defer os.RemoveAll(tmp)
	// known findings apply to replay as well
	if kb, err := os.ReadFile(filepath.Join(*verif, "known_findings.json")); err == nil {
		os.WriteFile(filepath.Join(tmp, "known_findings.json"), kb, 0o644)
	}
	p := loadOrUndecided(*repo, "quick", []string{id}, tmp)
	if p == nil {
		return 2
	}
	code := execute(p, def, "quick", tmp)
	eb, _ := os.ReadFile(filepath.Join(tmp, "evidence", id+".json"))
	var ev struct {
		Coverage struct {
			Violations []Obligation `json:"violations"`
		} `json:"coverage"`
	}
	json.Unmarshal(eb, &ev)
	for _, v := range ev.Coverage.Violations {
		if v.Rule == o.Rule && v.Func == o.Func && v.Construct == o.Construct {
			fmt.Printf("REPRODUCED: %s %s %q at %s: %s\n", v.Rule, v.Func, v.Construct, v.Pos, v.Detail)
			return 1
		}
	}
	fmt.Printf("not reproduced on the current tree (check exit code %d)\n", code)
	return 0
}

func cmdDump(args []string) {
	fs := flag.NewFlagSet("dump", flag.ExitOnError)
	repo := fs.String("repo", "/repo", "repository directory")
	fn := fs.String("fn", "", "function name (fname form), substring match with -sub")
	sub := fs.Bool("sub", false, "substring match")
	fs.Parse(args)
	p := Load(*repo, patternsFor("quick"))
	var names []string
	for n := range p.byName {
		if n == *fn || (*sub && strings.Contains(n, *fn)) {
			names = append(names, n)
		}
	}
	sort.Strings(names)
	for _, n := range names {
		p.byName[n].WriteTo(os.Stdout)
	}
	if len(names) == 0 {
		fmt.Println("no function", *fn)
	}
}
