package main

// C07 Mempool checks are isolated from consensus execution.

import (
	"fmt"
	"go/types"
	"sort"
	"strings"

	"golang.org/x/tools/go/ssa"
)

func init() {
	register(&propertyDef{
		ID:    "C07",
		Title: "Mempool checks are isolated from consensus execution",
		Explain: "Decides: (aim) typestate 'aim-before-use': at the entry of every consensus hook no shared store is assumed to point at the deliver state (any CheckTx may have re-aimed all of them); " +
			"every use of a context store that reads or writes chain state must be preceded on all paths by WithState(deliver) on that store (directly, through context.Action/ValidatorCtx, or on the value used); " +
			"(recreate) Commit replaces the check state by a fresh one on the committed tree after committing deliver; " +
			"(nowrite) nothing reachable from CheckTx commits or writes the tree, touches the deliver state, or runs the EVM state transition.",
		NotDecided: "equality of transcripts; true concurrency with background jobs and RPC; in-memory caches shared between the check and deliver paths beyond the state pointers (see C06.memory / C07.shared in DESIGN.md)",
		Run:        runC07,
	})
}

type aset map[string]bool

func (a aset) clone() aset {
	b := aset{}
	for k := range a {
		b[k] = true
	}
	return b
}

func asetInter(a, b aset) aset {
	if a == nil {
		return b.clone()
	}
	r := aset{}
	if a["*"] {
		return b.clone()
	}
	if b["*"] {
		return a.clone()
	}
	for k := range a {
		if b[k] {
			r[k] = true
		}
	}
	return r
}

func asetEq(a, b aset) bool {
	if len(a) != len(b) {
		return false
	}
	for k := range a {
		if !b[k] {
			return false
		}
	}
	return true
}

func (a aset) has(p string) bool {
	if a["*"] {
		return true
	}
	for p != "" {
		if a[p] {
			return true
		}
		i := strings.LastIndex(p, ".")
		if i < 0 {
			break
		}
		p = p[:i]
	}
	return false
}

type aimAnalysis struct {
	r       *Run
	p       *Program
	ctxType *types.Named
	uses    int
	silent  int
	seenUse map[string]bool
	// exempt context fields (with reason)
	exempt map[string]string
}

type aimFrame struct {
	an        *aimAnalysis
	fn        *ssa.Function
	bind      map[ssa.Value][]string // value -> ctx paths it denotes / carries ("#deliver", "#check" for state values)
	aimedVals map[ssa.Value]bool
	depth     int
	chain     []string
	retPaths  []string // context paths carried by the frame's return value
}

func (an *aimAnalysis) isCtxPtr(t types.Type) bool {
	ptr, ok := t.(*types.Pointer)
	if !ok {
		return false
	}
	n, ok := ptr.Elem().(*types.Named)
	return ok && n.Obj() == an.ctxType.Obj()
}

func (an *aimAnalysis) hasWithState(t types.Type) bool {
	ms := an.p.SSA.MethodSets.MethodSet(t)
	for i := 0; i < ms.Len(); i++ {
		if ms.At(i).Obj().Name() == "WithState" {
			return true
		}
	}
	return false
}

// pathsOf: the context field paths a value denotes or carries.
func (fr *aimFrame) pathsOf(v ssa.Value, depth int) []string {
	if depth > 8 {
		return nil
	}
	if ps, ok := fr.bind[v]; ok {
		return ps
	}
	an := fr.an
	switch x := v.(type) {
	case *ssa.UnOp:
		if fa, ok := x.X.(*ssa.FieldAddr); ok {
			name := fieldName(fa.X.Type(), fa.Field)
			if an.isCtxPtr(fa.X.Type()) {
				return []string{name}
			}
			bps := fr.pathsOf(fa.X, depth+1)
			var res []string
			for _, bp := range bps {
				if !strings.HasPrefix(bp, "#") {
					res = append(res, bp+"."+name)
				}
			}
			return res
		}
		if a, ok := x.X.(*ssa.Alloc); ok {
			if w := wholeStore(a); w != nil {
				return fr.pathsOf(w, depth+1)
			}
		}
	case *ssa.FieldAddr:
		// address of a ctx sub-struct (e.g. &app.Context): denotes the context itself
		if an.isCtxPtr(x.Type()) {
			return nil
		}
	case *ssa.MakeInterface:
		return fr.pathsOf(x.X, depth+1)
	case *ssa.ChangeType:
		return fr.pathsOf(x.X, depth+1)
	case *ssa.Call:
		sc := x.Call.StaticCallee()
		if sc != nil && sc.Signature.Recv() != nil && len(x.Call.Args) > 0 && types.Identical(x.Type(), x.Call.Args[0].Type()) {
			// selector methods returning the receiver (WithPrefixType, WithHeight, WithChain, WithState ...)
			return fr.pathsOf(x.Call.Args[0], depth+1)
		}
		if sc != nil && sc.Signature.Recv() == nil && strings.HasPrefix(sc.Name(), "New") {
			// constructor of a carrier (NewValidatorContext, action.NewContext): carries the paths of its arguments
			var res []string
			for _, a := range x.Call.Args {
				for _, q := range fr.pathsOf(a, depth+1) {
					if !strings.HasPrefix(q, "#") {
						res = append(res, q)
					}
				}
			}
			return res
		}
	case *ssa.Phi:
		var res []string
		for _, e := range x.Edges {
			if e == ssa.Value(x) {
				continue
			}
			if _, isPhi := e.(*ssa.Phi); isPhi {
				continue
			}
			res = append(res, fr.pathsOf(e, depth+1)...)
		}
		sort.Strings(res)
		return uniq(res)
	}
	return nil
}

// stateKind: is v the deliver state / the check state?
func (fr *aimFrame) stateKind(v ssa.Value) string {
	if ps, ok := fr.bind[v]; ok && len(ps) == 1 && strings.HasPrefix(ps[0], "#") {
		return ps[0]
	}
	if u, ok := v.(*ssa.UnOp); ok {
		if fa, ok := u.X.(*ssa.FieldAddr); ok && fr.an.isCtxPtr(fa.X.Type()) {
			switch fieldName(fa.X.Type(), fa.Field) {
			case "deliver":
				return "#deliver"
			case "check":
				return "#check"
			}
		}
	}
	return ""
}

func (fr *aimFrame) analyze(in aset) aset {
	fn := fr.fn
	if fn.Blocks == nil {
		return in
	}
	ins := make([]aset, len(fn.Blocks))
	outs := make([]aset, len(fn.Blocks))
	ins[0] = in.clone()
	work := []*ssa.BasicBlock{fn.Blocks[0]}
	for iter := 0; len(work) > 0 && iter < 4000; iter++ {
		b := work[0]
		work = work[1:]
		st := ins[b.Index].clone()
		for _, instr := range b.Instrs {
			st = fr.transfer(instr, st, false)
		}
		if outs[b.Index] != nil && asetEq(outs[b.Index], st) {
			continue
		}
		outs[b.Index] = st
		for _, s := range b.Succs {
			n := asetInter(ins[s.Index], st)
			if ins[s.Index] == nil || !asetEq(n, ins[s.Index]) {
				ins[s.Index] = n
				work = append(work, s)
			} else if outs[s.Index] == nil {
				work = append(work, s)
			}
		}
	}
	var exit aset
	for _, b := range fn.Blocks {
		if ins[b.Index] == nil {
			continue
		}
		st := ins[b.Index].clone()
		for _, instr := range b.Instrs {
			st = fr.transfer(instr, st, true)
			if ret, ok := instr.(*ssa.Return); ok {
				exit = asetInter(exit, st)
				if len(ret.Results) == 1 {
					for _, q := range fr.pathsOf(ret.Results[0], 0) {
						if !strings.HasPrefix(q, "#") {
							fr.retPaths = append(fr.retPaths, q)
						}
					}
				}
			}
		}
	}
	if exit == nil {
		exit = in
	}
	return exit
}

func (fr *aimFrame) transfer(instr ssa.Instruction, st aset, report bool) aset {
	an := fr.an
	p := an.p
	switch x := instr.(type) {
	case *ssa.Store:
		if fa, ok := x.Addr.(*ssa.FieldAddr); ok && an.isCtxPtr(fa.X.Type()) {
			if fieldName(fa.X.Type(), fa.Field) == "deliver" {
				return aset{} // a new deliver state: nothing points at it yet
			}
		}
	case ssa.CallInstruction:
		c := x.Common()
		sc := c.StaticCallee()
		if sc == nil {
			// closures called directly (function values built in this frame) and ext-app block functions are handled by reachability rules
			return st
		}
		name := sc.Name()
		if name == "WithState" && sc.Signature.Recv() != nil && len(c.Args) == 2 {
			ps := fr.pathsOf(c.Args[0], 0)
			kind := fr.stateKind(c.Args[1])
			st = st.clone()
			if kind == "#deliver" {
				for _, q := range ps {
					st[q] = true
				}
				if v, ok := instr.(ssa.Value); ok {
					fr.aimedVals[v] = true
				}
			} else {
				for _, q := range ps {
					delete(st, q)
				}
			}
			return st
		}
		if !inRepo(sc) {
			return st
		}
		// bind arguments
		bind := map[ssa.Value][]string{}
		hasCtx := false
		args := c.Args
		for i, a := range args {
			if i >= len(sc.Params) {
				break
			}
			if an.isCtxPtr(a.Type()) {
				hasCtx = true
				bind[sc.Params[i]] = nil
				continue
			}
			if k := fr.stateKind(a); k != "" {
				bind[sc.Params[i]] = []string{k}
			} else if ps := fr.pathsOf(a, 0); len(ps) > 0 {
				bind[sc.Params[i]] = ps
			}
		}
		inApp := fnPkg(sc) != nil && fnPkg(sc).Path() == Mod+"/app"
		isAppMethod := sc.Signature.Recv() != nil && strings.Contains(tname(sc.Signature.Recv().Type()), "app.App")
		if inApp && (hasCtx || len(bind) > 0 || isAppMethod) && fr.depth < 7 && sc.Blocks != nil {
			sub := &aimFrame{an: an, fn: sc, bind: bind, aimedVals: map[ssa.Value]bool{}, depth: fr.depth + 1, chain: append(append([]string{}, fr.chain...), fname(sc))}
			var out aset
			if !report {
				an.silent++
				out = sub.analyze(st)
				an.silent--
			} else {
				out = sub.analyze(st)
			}
			if v, ok := instr.(ssa.Value); ok && len(sub.retPaths) > 0 {
				sort.Strings(sub.retPaths)
				fr.bind[v] = uniq(sub.retPaths)
			}
			return out
		}
		// use: a value carrying context store paths is handed to a callee that touches chain state
		e := p.Eff(sc)
		if !(e.ReadsState || e.WritesState) {
			return st
		}
		for i, a := range args {
			if !an.isStoreOrCarrier(a.Type()) {
				continue
			}
			ps := fr.pathsOf(a, 0)
			if len(ps) == 0 {
				continue
			}
			// only store objects (types with WithState) or carriers of them count
			for _, q := range ps {
				if strings.HasPrefix(q, "#") {
					continue
				}
				root := strings.SplitN(q, ".", 2)[0]
				if _, ex := an.exempt[root]; ex {
					continue
				}
				if !an.isStoreField(root) {
					continue
				}
				if report && an.silent == 0 {
					an.uses++
				}
				if fr.aimedVals[a] || st.has(q) {
					if report && an.silent == 0 {
						key := fname(fr.fn) + "|" + q + "|" + fname(sc)
						if !an.seenUse[key] {
							an.seenUse[key] = true
							an.r.OK("C07.aim", fname(fr.fn), "use of context."+q+" via "+fname(sc), "the store is aimed at the deliver state on every path to this use")
						}
					}
					continue
				}
				if report && an.silent == 0 {
					an.r.Viol("C07.aim", fname(fr.fn), "use of context."+q+" via "+fname(sc),
						fmt.Sprintf("the shared store context.%s is used (argument %d of %s, which reads or writes chain state) without WithState(deliver) on every path from the hook entry: "+
							"a CheckTx that ran since the last re-aim leaves it pointing at the check state, so consensus reads/writes go to the mempool state", q, i, fname(sc)),
						p.ipos(instr), append(append([]string{}, fr.chain...), fname(sc)))
				}
			}
		}
	}
	return st
}

// isStoreOrCarrier: the type has a WithState method (a store) or is a (pointer to a) struct holding stores (a carrier
// such as identity.ValidatorContext / action.Context).
func (an *aimAnalysis) isStoreOrCarrier(t types.Type) bool {
	if an.hasWithState(t) {
		return true
	}
	el := t
	if ptr, ok := t.(*types.Pointer); ok {
		el = ptr.Elem()
	}
	if s, ok := el.Underlying().(*types.Struct); ok {
		for j := 0; j < s.NumFields(); j++ {
			if an.hasWithState(s.Field(j).Type()) {
				return true
			}
		}
	}
	return false
}

var storeFieldCache map[string]bool

// isStoreField: the context field's type (or pointer to it) has a WithState method, or is a carrier field (unknown type) -
// fields of plain data (cfg, node, logWriter, header...) are not stores.
func (an *aimAnalysis) isStoreField(name string) bool {
	if storeFieldCache == nil {
		storeFieldCache = map[string]bool{}
		st := an.ctxType.Underlying().(*types.Struct)
		for i := 0; i < st.NumFields(); i++ {
			f := st.Field(i)
			t := f.Type()
			ok := an.hasWithState(t)
			if !ok {
				if _, isPtr := t.(*types.Pointer); !isPtr {
					ok = an.hasWithState(types.NewPointer(t))
				}
			}
			// pointer-to-struct fields holding stores (carriers cached in the context) count as well
			if !ok {
				if ptr, isPtr := t.(*types.Pointer); isPtr {
					if s, isStruct := ptr.Elem().Underlying().(*types.Struct); isStruct {
						for j := 0; j < s.NumFields(); j++ {
							if an.hasWithState(s.Field(j).Type()) {
								ok = true
							}
						}
					}
				}
			}
			storeFieldCache[f.Name()] = ok
		}
	}
	return storeFieldCache[name]
}

func runC07(r *Run) {
	checkWithStateInPlace(r, "C07.withstate")
	p := r.P
	appPkg := p.AllPkgs[Mod+"/app"]
	co := appPkg.Types.Scope().Lookup("context")
	if co == nil {
		fail("type app.context missing")
	}
	an := &aimAnalysis{r: r, p: p, ctxType: co.Type().(*types.Named), seenUse: map[string]bool{},
		exempt: map[string]string{
			"transaction": "internal-transaction queue: its own in-memory State (memdb), never aimed at check/deliver and not part of the application hash",
		}}
	roots := p.Roots()
	for _, role := range []string{"init", "begin", "deliver", "end", "commit"} {
		fn := roots[role]
		fr := &aimFrame{an: an, fn: fn, bind: map[ssa.Value][]string{}, aimedVals: map[ssa.Value]bool{}, chain: []string{fname(fn)}}
		fr.analyze(aset{})
	}
	r.Extra["aim_uses_evaluated"] = an.uses
	r.Floor("C07.aim", 40)
	for f, why := range an.exempt {
		r.Info("C07.aim", "", "exempt context."+f, why)
	}

	// ---- C07.recreate
	cm := roots["commit"]
	var commitCall *ssa.Call
	var checkStore *ssa.Store
	allInstrs(cm, func(ins ssa.Instruction) {
		switch x := ins.(type) {
		case *ssa.Call:
			if calleeName(x) == fnStateCmt {
				commitCall = x
			}
		case *ssa.Store:
			if fa, ok := x.Addr.(*ssa.FieldAddr); ok && an.isCtxPtr(fa.X.Type()) && fieldName(fa.X.Type(), fa.Field) == "check" {
				checkStore = x
			}
		}
	})
	okRecreate := commitCall != nil && checkStore != nil && dominatesInstr(commitCall, checkStore) &&
		derivesFrom(checkStore.Val, func(y ssa.Value) bool { c, ok := y.(*ssa.Call); return ok && calleeName(c) == "storage.NewState" })
	if okRecreate {
		for _, ret := range returnsOf(cm) {
			if !dominatesInstr(checkStore, ret) {
				okRecreate = false
			}
		}
	}
	r.Check(okRecreate, "C07.recreate", fname(cm), "check = NewState(chainstate) after deliver.Commit()",
		"on every path Commit replaces the check state by a fresh State over the committed tree after committing deliver",
		"Commit does not (on every path, after deliver.Commit) replace the check state by a fresh one: mempool-session writes survive into later blocks' checks or the check state lags the committed tree", p.pos(cm.Pos()))
	if commitCall != nil {
		r.Check(fnStateKind(an, commitCall.Call.Args[0]) == "deliver", "C07.recreate", fname(cm), "the committed state is deliver",
			"State.Commit is called on context.deliver", "Commit commits something else than the deliver state", p.ipos(commitCall))
	}

	// ---- C07.nowrite
	ck := roots["check"]
	reach, par := p.Reach(ck)
	forbidden := map[string]string{
		fnCSSet: "writes the committed tree", fnCSDel: "writes the committed tree", fnCSCommit: "commits the tree",
		fnStateWr: "flushes a block cache into the tree", fnStateCmt: "commits a state",
		"(*vm.EVMTransaction).Apply":         "runs the EVM state transition (the shared EVM object cache would be mutated by a mempool check)",
		"(*vm.StateTransition).TransitionDb": "runs the EVM state transition",
	}
	nfound := 0
	for _, fn := range sortedFns(reach) {
		n := fname(fn)
		if why, bad := forbidden[n]; bad {
			// State.Commit on the internal tx queue is not chain state; find whether the path is through the queue only
			if n == fnStateCmt || n == fnStateWr || n == fnCSCommit || n == fnCSSet || n == fnCSDel {
				if onlyQueueCallers(p, fn, reach) {
					continue
				}
			}
			nfound++
			r.Viol("C07.nowrite", fname(ck), "reaches "+n, "CheckTx can reach "+n+", which "+why, p.pos(fn.Pos()), callPath(par, fn))
		}
	}
	// loads of context.deliver on the check path
	for _, fn := range sortedFns(reach) {
		allInstrs(fn, func(ins ssa.Instruction) {
			if u, ok := ins.(*ssa.UnOp); ok {
				if fa, ok := u.X.(*ssa.FieldAddr); ok && an.isCtxPtr(fa.X.Type()) && fieldName(fa.X.Type(), fa.Field) == "deliver" {
					nfound++
					r.Viol("C07.nowrite", fname(fn), "reads context.deliver", "code reachable from CheckTx reads the deliver state pointer", p.ipos(ins), callPath(par, fn))
				}
			}
		})
	}
	if nfound == 0 {
		r.OK("C07.nowrite", fname(ck), fmt.Sprintf("no forbidden sink among %d functions reachable from CheckTx", len(reach)),
			"no tree write/commit, no state flush, no EVM state transition, no read of context.deliver is reachable from the mempool check")
	}
	// OLVM ProcessCheck must not run the VM: covered by the Apply/TransitionDb entries above; record the handler explicitly
	for _, h := range p.Handlers() {
		if strings.HasSuffix(h.Name, "olvmTx") && h.Check != nil {
			sub, _ := p.Reach(h.Check)
			bad := false
			for f := range sub {
				if fname(f) == "(*vm.EVMTransaction).Apply" {
					bad = true
				}
			}
			r.Check(!bad, "C07.nowrite", fname(h.Check), "OLVM ProcessCheck does not execute the VM", "Apply unreachable from ProcessCheck", "OLVM ProcessCheck reaches EVMTransaction.Apply", p.pos(h.Check.Pos()))
		}
	}
	// the check root uses the check state for its session and its action context
	allInstrs(ck, func(ins ssa.Instruction) {
		c, ok := ins.(*ssa.Call)
		if !ok {
			return
		}
		n := calleeName(c)
		switch n {
		case fnBeginTx, fnCommitTx, fnDiscardTx:
			r.Check(fnStateKind(an, c.Call.Args[0]) == "check", "C07.checkstate", fname(ck), strings.TrimPrefix(n, "(*storage.State).")+" on context.check",
				"the mempool session lives on the check state", "the mempool check opens/closes a session on something else than context.check", p.ipos(c))
		case "(*app.context).Action":
			r.Check(fnStateKind(an, c.Call.Args[2]) == "check", "C07.checkstate", fname(ck), "Action(header, context.check)",
				"the mempool check's stores are aimed at the check state", "the mempool check aims the shared stores at something else than context.check", p.ipos(c))
		}
	})
	checkShared(r)
	checkStickyDefault(r)
	checkBigAlias(r)
	dl := roots["deliver"]
	allInstrs(dl, func(ins ssa.Instruction) {
		c, ok := ins.(*ssa.Call)
		if !ok {
			return
		}
		n := calleeName(c)
		switch n {
		case fnBeginTx, fnCommitTx, fnDiscardTx:
			r.Check(fnStateKind(an, c.Call.Args[0]) == "deliver", "C07.deliverstate", fname(dl), strings.TrimPrefix(n, "(*storage.State).")+" on context.deliver",
				"the delivery session lives on the deliver state", "DeliverTx opens/closes its session on something else than context.deliver", p.ipos(c))
		case "(*app.context).Action":
			r.Check(fnStateKind(an, c.Call.Args[2]) == "deliver", "C07.deliverstate", fname(dl), "Action(header, context.deliver)",
				"DeliverTx aims the shared stores at the deliver state", "DeliverTx aims the shared stores at something else than context.deliver", p.ipos(c))
		}
	})
}

func fnStateKind(an *aimAnalysis, v ssa.Value) string {
	if u, ok := v.(*ssa.UnOp); ok {
		if fa, ok := u.X.(*ssa.FieldAddr); ok && an.isCtxPtr(fa.X.Type()) {
			return fieldName(fa.X.Type(), fa.Field)
		}
	}
	return ""
}

// onlyQueueCallers: every call site (inside the reachable set) of fn has the internal-tx queue's State as receiver.
func onlyQueueCallers(p *Program, fn *ssa.Function, reach map[*ssa.Function]bool) bool {
	found := false
	all := true
	for caller := range reach {
		allInstrs(caller, func(ins ssa.Instruction) {
			ci, ok := ins.(ssa.CallInstruction)
			if !ok {
				return
			}
			for _, c := range p.SiteCallees(ci) {
				if c != fn {
					continue
				}
				found = true
				args := callArgs(ci)
				if len(args) == 0 || !isQueueState(args[0]) {
					// calls from inside package storage on an arbitrary receiver: judged by their own callers
					if pk := fnPkg(caller); pk != nil && pk.Path() == Mod+"/storage" {
						if !onlyQueueCallers(p, topFn(caller), reach) {
							all = false
						}
						continue
					}
					all = false
				}
			}
		})
	}
	return found && all
}
