package main

// Sibling agreement for stores that keep one record kind under several state prefixes: the functions that search
// "all stores" must cover every prefix the selector can select.

import (
	"sort"
	"strings"

	"golang.org/x/tools/go/ssa"
)

// selectorPrefixes: the prefix fields (by name) and selector constants handled by T.WithPrefixType.
func selectorPrefixes(p *Program, sel *ssa.Function) (fields []string, consts []int64) {
	fset, cset := map[string]bool{}, map[int64]bool{}
	allInstrs(sel, func(ins ssa.Instruction) {
		switch x := ins.(type) {
		case *ssa.Store:
			// ts.prefix = ts.prefixX
			if fs := pathOf(x.Addr).FieldString(); fs == "prefix" || strings.HasSuffix(fs, ".prefix") {
				src := pathOf(x.Val)
				if src.Root == pathOf(x.Addr).Root && len(src.Fields) == 1 {
					fset[src.Fields[0]] = true
				}
			}
		case *ssa.BinOp:
			if k, ok := intConst(x.Y); ok && x.X == ssa.Value(sel.Params[1]) {
				cset[k] = true
			}
		}
	})
	for f := range fset {
		fields = append(fields, f)
	}
	for c := range cset {
		consts = append(consts, c)
	}
	sort.Strings(fields)
	sort.Slice(consts, func(i, j int) bool { return consts[i] < consts[j] })
	return
}

// checkAllStores evaluates the agreement for store type recvType ("(*data/governance.ProposalStore)").
func checkAllStores(r *Run, rule, recvType string, consequence string) {
	p := r.P
	sel := p.MustFn(recvType + ".WithPrefixType")
	fields, consts := selectorPrefixes(p, sel)
	if len(fields) < 2 || len(consts) < 2 {
		fail("%s: selector of %s not understood (%d prefix fields, %d constants)", rule, recvType, len(fields), len(consts))
	}
	if q := p.Fn(recvType + ".QueryAllStores"); q != nil && q.Blocks != nil {
		used := map[int64]bool{}
		allInstrs(q, func(ins ssa.Instruction) {
			if c, ok := ins.(*ssa.Call); ok && c.Call.StaticCallee() == sel {
				if k, isK := intConst(c.Call.Args[1]); isK {
					used[k] = true
				}
			}
		})
		var missing []string
		for _, k := range consts {
			if !used[k] {
				missing = append(missing, itoa(k))
			}
		}
		r.Check(len(missing) == 0, rule, fname(q), "the all-stores lookup tries every state the selector knows", itoa(int64(len(consts)))+" selector constants, all used",
			"QueryAllStores skips selector value(s) "+strings.Join(missing, ", ")+": a record in that state is reported as absent ("+consequence+")", p.pos(q.Pos()))
	}
	if e := p.Fn(recvType + ".Exists"); e != nil && e.Blocks != nil {
		read := map[string]bool{}
		allInstrs(e, func(ins ssa.Instruction) {
			if u, ok := ins.(*ssa.UnOp); ok {
				pa := pathOf(u)
				if pa.Root == ssa.Value(e.Params[0]) && len(pa.Fields) == 1 {
					read[pa.Fields[0]] = true
				}
			}
		})
		// only for an Exists that is written over the state prefixes (not over the currently selected prefix)
		multi := false
		for _, f := range fields {
			if read[f] {
				multi = true
			}
		}
		if multi {
			var missing []string
			for _, f := range fields {
				if !read[f] {
					missing = append(missing, f)
				}
			}
			r.Check(len(missing) == 0, rule, fname(e), "Exists consults every state prefix the selector knows", strings.Join(fields, ", "),
				"Exists does not look under "+strings.Join(missing, ", ")+": a record in that state is reported as absent ("+consequence+")", p.pos(e.Pos()))
		} else {
			r.Info(rule, fname(e), "Exists", "acts on the currently selected prefix only")
		}
	}
}
