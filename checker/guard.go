package main

// P-GUARD: must-pass-edge analysis on the go/ssa control-flow graph.

import (
	"go/constant"
	"go/token"
	"go/types"

	"golang.org/x/tools/go/ssa"
)

// Edge is a CFG edge From -> From.Succs[Succ]. When Pred is non-nil the edge is meant only for executions that
// entered From through Pred (used when From's condition is a boolean phi: `x := a && b; if x`).
type Edge struct {
	From *ssa.BasicBlock
	Succ int
	Pred *ssa.BasicBlock
}

func (e Edge) To() *ssa.BasicBlock { return e.From.Succs[e.Succ] }

func blockIf(b *ssa.BasicBlock) *ssa.If {
	if len(b.Instrs) == 0 {
		return nil
	}
	i, _ := b.Instrs[len(b.Instrs)-1].(*ssa.If)
	return i
}

// phiCond: the block's If condition is (a negation of) a boolean phi - a flag assigned on several paths
// (`x := a && b; if x`, or `ok := false; if c { ok = true }; ...; if ok`) - or a comparison of a phi with nil (an error
// assigned on several paths, as left behind when a helper `if err := h(); err != nil` is inlined: the phi merges the
// helper's returns). The phi may live in any dominating block. flip: the condition is the negation of "phi is true" /
// "phi != nil".
func phiCond(b *ssa.BasicBlock) (*ssa.Phi, bool) {
	iff := blockIf(b)
	if iff == nil {
		return nil, false
	}
	v, flip := stripNot(iff.Cond)
	if phi, ok := v.(*ssa.Phi); ok && isBoolType(phi.Type()) {
		return phi, flip
	}
	if bo, ok := v.(*ssa.BinOp); ok && (bo.Op == token.EQL || bo.Op == token.NEQ) {
		var x ssa.Value
		if isNilConst(bo.Y) {
			x = bo.X
		} else if isNilConst(bo.X) {
			x = bo.Y
		}
		if phi, ok := x.(*ssa.Phi); ok && !isBoolType(phi.Type()) {
			if bo.Op == token.EQL {
				flip = !flip
			}
			return phi, flip
		}
	}
	return nil, false
}

// phiEdgeCond: the condition "phi is true" / "phi != nil" for one incoming value of a flag phi.
var phiEdgeCondCache = map[ssa.Value]ssa.Value{}

func phiEdgeCond(phi *ssa.Phi, e ssa.Value) ssa.Value {
	if isBoolType(phi.Type()) {
		return e
	}
	if c, ok := phiEdgeCondCache[e]; ok {
		return c
	}
	c := ssa.OlintCompare(token.NEQ, e, ssa.NewConst(nil, e.Type()))
	phiEdgeCondCache[e] = c
	return c
}

// phiEdgeConst: the truth value of the flag for one incoming value, if it is known.
func phiEdgeConst(phi *ssa.Phi, e ssa.Value) (bool, bool) {
	if isBoolType(phi.Type()) {
		if c, ok := boolConst(e); ok {
			return c, true
		}
		return constBoolResult(e)
	}
	if isNilConst(e) {
		return false, true
	}
	if isErrorType(e.Type()) && !inPhiEdgeConst {
		// (errNonNilBy itself looks at condition edges, which look at phi edges: no re-entry)
		inPhiEdgeConst = true
		nn := provablyNonNilError(e)
		inPhiEdgeConst = false
		if nn {
			return true, true
		}
	}
	return false, false
}

var inPhiEdgeConst bool

func predIndex(b, from *ssa.BasicBlock) int {
	idx := -1
	for i, p := range b.Preds {
		if p == from {
			if idx >= 0 {
				return -1 // ambiguous (both branches of one If lead here)
			}
			idx = i
		}
	}
	return idx
}

var flagPhiCache = map[*ssa.Function][]*ssa.Phi{}

// flagPhis: boolean phis used as If conditions in fn (directly or as an incoming value of such a phi).
func flagPhis(fn *ssa.Function) []*ssa.Phi {
	if r, ok := flagPhiCache[fn]; ok {
		return r
	}
	seen := map[*ssa.Phi]bool{}
	var res []*ssa.Phi
	var add func(phi *ssa.Phi)
	add = func(phi *ssa.Phi) {
		if seen[phi] || len(res) >= 10 {
			return
		}
		seen[phi] = true
		res = append(res, phi)
		for _, e := range phi.Edges {
			if p2, ok := e.(*ssa.Phi); ok && isBoolType(p2.Type()) == isBoolType(phi.Type()) {
				add(p2)
			}
		}
	}
	for _, b := range fn.Blocks {
		if phi, _ := phiCond(b); phi != nil {
			add(phi)
		}
	}
	flagPhiCache[fn] = res
	return res
}

// flagFacts: the non-constant incoming values of the tracked nil-compared phis. Along a path the analysis remembers
// whether such a value was tested against nil (`if err != nil` inside an inlined helper, before the merged result is tested
// again by the caller), so that the second test is decided.
var flagFactCache = map[*ssa.Function][]ssa.Value{}

func flagFacts(fn *ssa.Function) []ssa.Value {
	if r, ok := flagFactCache[fn]; ok {
		return r
	}
	var res []ssa.Value
	seen := map[ssa.Value]bool{}
	for _, phi := range flagPhis(fn) {
		if isBoolType(phi.Type()) {
			continue
		}
		for _, e := range phi.Edges {
			if _, isC := phiEdgeConst(phi, e); isC || seen[e] || len(res) >= 16 {
				continue
			}
			if _, isPhi := e.(*ssa.Phi); isPhi {
				continue
			}
			seen[e] = true
			res = append(res, e)
		}
	}
	flagFactCache[fn] = res
	return res
}

// nilTestOf: cond is `x == nil` / `x != nil` (possibly negated): returns x and whether the TRUE edge means x != nil.
func nilTestOf(cond ssa.Value) (ssa.Value, bool, bool) {
	v, flip := stripNot(cond)
	bo, ok := v.(*ssa.BinOp)
	if !ok || (bo.Op != token.EQL && bo.Op != token.NEQ) {
		return nil, false, false
	}
	var x ssa.Value
	if isNilConst(bo.Y) {
		x = bo.X
	} else if isNilConst(bo.X) {
		x = bo.Y
	} else {
		return nil, false, false
	}
	trueMeansNonNil := bo.Op == token.NEQ
	if flip {
		trueMeansNonNil = !trueMeansNonNil
	}
	return x, trueMeansNonNil, true
}

// rstate: a block plus, for each tracked flag phi, the predecessor index through which the phi's block was last entered (-1 unknown).
type rstate struct {
	b    *ssa.BasicBlock
	from *ssa.BasicBlock // only used to seed the first transition
	env  string
}

func envGet(env string, i int) int {
	if i >= len(env) {
		return -1
	}
	return int(env[i]) - 1
}

func envSet(env string, n, i, v int) string {
	bs := []byte(env)
	for len(bs) < n {
		bs = append(bs, 0)
	}
	bs[i] = byte(v + 1)
	return string(bs)
}

// flagValue resolves the value a flag phi has in the given environment: a constant, another value, or unknown.
func flagValue(phis []*ssa.Phi, env string, phi *ssa.Phi, depth int) (ssa.Value, *ssa.BasicBlock) {
	for i, p := range phis {
		if p != phi {
			continue
		}
		k := envGet(env, i)
		if k < 0 || k >= len(phi.Edges) {
			return nil, nil
		}
		e := phi.Edges[k]
		if p2, ok := e.(*ssa.Phi); ok && depth < 4 && isBoolType(p2.Type()) == isBoolType(phi.Type()) {
			if v, pb := flagValue(phis, env, p2, depth+1); v != nil {
				return v, pb
			}
		}
		return e, phi.Block().Preds[k]
	}
	return nil, nil
}

// reachCore: forward reachability over (block, flag environment) states with the removed edges, pruning the infeasible
// successor of a flag condition whose current value is a constant. scan is called once per visited state
// with the index to start at and returns false to stop propagation from that block.
func reachCore(starts []rstate, startIdx int, removed []Edge, scan func(b *ssa.BasicBlock, start int) bool) map[*ssa.BasicBlock]bool {
	rm := map[Edge]bool{}
	for _, e := range removed {
		rm[e] = true
	}
	blocks := map[*ssa.BasicBlock]bool{}
	if len(starts) == 0 {
		return blocks
	}
	fn := starts[0].b.Parent()
	phis := flagPhis(fn)
	facts := flagFacts(fn)
	np := len(phis) + len(facts)
	type key struct {
		b   *ssa.BasicBlock
		env string
	}
	seen := map[key]bool{}
	var stack []rstate
	enter := func(from, to *ssa.BasicBlock, env string) string {
		for i, phi := range phis {
			if phi.Block() == to {
				env = envSet(env, np, i, predIndex(to, from))
			}
		}
		for j, fv := range facts {
			// a fact about a value does not survive re-executing its definition (next loop iteration)
			if ins, ok := fv.(ssa.Instruction); ok && ins.Block() == to && envGet(env, len(phis)+j) >= 0 {
				env = envSet(env, np, len(phis)+j, -1)
			}
		}
		// the edge just taken may itself be a nil test of a tracked value
		if iff := blockIf(from); iff != nil && len(facts) > 0 && len(from.Succs) == 2 && from.Succs[0] != from.Succs[1] {
			if x, trueNonNil, ok := nilTestOf(iff.Cond); ok {
				for j, fv := range facts {
					if fv == x {
						nonNil := trueNonNil == (from.Succs[0] == to)
						v := 0
						if nonNil {
							v = 1
						}
						env = envSet(env, np, len(phis)+j, v)
					}
				}
			}
		}
		return env
	}
	factOf := func(env string, v ssa.Value) (bool, bool) {
		for j, fv := range facts {
			if fv == v {
				switch envGet(env, len(phis)+j) {
				case 0:
					return false, true
				case 1:
					return true, true
				}
			}
		}
		return false, false
	}
	expand := func(st rstate) {
		phi, flip := phiCond(st.b)
		var cur ssa.Value
		var curPred *ssa.BasicBlock
		if phi != nil {
			cur, curPred = flagValue(phis, st.env, phi, 0)
		}
		for i, s := range st.b.Succs {
			if rm[Edge{st.b, i, nil}] {
				continue
			}
			if cur != nil {
				c, ok := phiEdgeConst(phi, cur)
				if !ok && !isBoolType(phi.Type()) {
					c, ok = factOf(st.env, cur)
				}
				if ok {
					val := c != flip
					if (i == 0) != val {
						continue
					}
				}
				if curPred != nil && rm[Edge{st.b, i, curPred}] {
					continue
				}
			}
			stack = append(stack, rstate{b: s, env: enter(st.b, s, st.env)})
		}
	}
	for _, s := range starts {
		if s.from != nil {
			s.env = enter(s.from, s.b, s.env)
		}
		if startIdx > 0 {
			// partial first block: not marked visited (it may be re-entered from the top through a loop)
			if scan == nil || scan(s.b, startIdx) {
				expand(s)
			}
			continue
		}
		stack = append(stack, s)
	}
	for len(stack) > 0 {
		st := stack[len(stack)-1]
		stack = stack[:len(stack)-1]
		k := key{st.b, st.env}
		if seen[k] {
			continue
		}
		seen[k] = true
		blocks[st.b] = true
		if scan != nil && !scan(st.b, 0) {
			continue
		}
		expand(st)
	}
	return blocks
}

// reachWithout returns the blocks reachable from the entry of fn when the given edges are removed.
func reachWithout(fn *ssa.Function, removed []Edge) map[*ssa.BasicBlock]bool {
	if len(fn.Blocks) == 0 {
		return map[*ssa.BasicBlock]bool{}
	}
	return reachCore([]rstate{{b: fn.Blocks[0]}}, 0, removed, nil)
}

// reachFrom returns blocks reachable from block start (inclusive) with edges removed.
func reachFrom(start *ssa.BasicBlock, removed []Edge) map[*ssa.BasicBlock]bool {
	return reachCore([]rstate{{b: start}}, 0, removed, nil)
}

// ---------------------------------------------------------------------------------------------
// condition normalisation

// stripNot peels boolean negations and comparisons with boolean constants.
// Returns the underlying value and whether the polarity is flipped.
func stripNot(v ssa.Value) (ssa.Value, bool) {
	flip := false
	for {
		switch x := v.(type) {
		case *ssa.UnOp:
			if x.Op == token.NOT {
				v = x.X
				flip = !flip
				continue
			}
		case *ssa.BinOp:
			if x.Op == token.EQL || x.Op == token.NEQ {
				if c, ok := boolConst(x.Y); ok {
					v = x.X
					if (x.Op == token.EQL) != c {
						flip = !flip
					}
					continue
				}
				if c, ok := boolConst(x.X); ok {
					v = x.Y
					if (x.Op == token.EQL) != c {
						flip = !flip
					}
					continue
				}
			}
		}
		return v, flip
	}
}

func boolConst(v ssa.Value) (bool, bool) {
	c, ok := v.(*ssa.Const)
	if !ok || c.Value == nil || c.Value.Kind() != constant.Bool {
		return false, false
	}
	return constant.BoolVal(c.Value), true
}

func isNilConst(v ssa.Value) bool {
	c, ok := v.(*ssa.Const)
	return ok && c.Value == nil
}

func intConst(v ssa.Value) (int64, bool) {
	c, ok := v.(*ssa.Const)
	if !ok || c.Value == nil || c.Value.Kind() != constant.Int {
		return 0, false
	}
	i, ok := constant.Int64Val(c.Value)
	return i, ok
}

// resolveLoad: a load from a local Alloc is replaced by the value last stored in the same block
// (address-taken / closure-captured locals such as `err`).
func resolveLoad(v ssa.Value) ssa.Value {
	u, ok := v.(*ssa.UnOp)
	if !ok || u.Op != token.MUL {
		return v
	}
	a, ok := u.X.(*ssa.Alloc)
	if !ok {
		return v
	}
	b := u.Block()
	var last ssa.Value
	for _, ins := range b.Instrs {
		if ins == ssa.Instruction(u) {
			break
		}
		if st, ok := ins.(*ssa.Store); ok && st.Addr == ssa.Value(a) {
			last = st.Val
		}
	}
	if last != nil {
		return last
	}
	// single store anywhere in the function (non-loop) is also unambiguous
	var only ssa.Value
	n := 0
	for _, r := range *a.Referrers() {
		if st, ok := r.(*ssa.Store); ok && st.Addr == ssa.Value(a) {
			only = st.Val
			n++
		}
	}
	if n == 1 {
		return only
	}
	return v
}

// tupleSource: for an Extract returns (tuple call, index); for a plain call returns (call, -1).
func tupleSource(v ssa.Value) (ssa.Value, int) {
	v = resolveLoad(v)
	if e, ok := v.(*ssa.Extract); ok {
		return e.Tuple, e.Index
	}
	return v, -1
}

// CondInfo describes an If condition relative to a source value.
type CondKind int

const (
	CondNone    CondKind = iota
	CondBool             // the value itself (bool); TrueOnTrue tells polarity
	CondNilness          // value compared with nil; TrueOnTrue == "value is nil on the true edge"
)

// boolCond: does cond denote (possibly negated) boolean value `src`? Returns polarity:
// +1: src is true on the true edge; -1: src is true on the false edge; 0: not related.
func boolCond(cond ssa.Value, match func(ssa.Value) bool) int {
	v, flip := stripNot(cond)
	v = resolveLoad(v)
	if match(v) {
		if flip {
			return -1
		}
		return +1
	}
	return 0
}

// nilCond: cond is `x == nil` / `x != nil` (possibly negated) with match(x).
// Returns +1 if x is nil on the true edge, -1 if x is nil on the false edge, 0 otherwise.
func nilCond(cond ssa.Value, match func(ssa.Value) bool) int {
	v, flip := stripNot(cond)
	bo, ok := v.(*ssa.BinOp)
	if !ok || (bo.Op != token.EQL && bo.Op != token.NEQ) {
		return 0
	}
	var x ssa.Value
	if isNilConst(bo.Y) {
		x = bo.X
	} else if isNilConst(bo.X) {
		x = bo.Y
	} else {
		return 0
	}
	x = resolveLoad(x)
	if !match(x) {
		return 0
	}
	pol := +1
	if bo.Op == token.NEQ {
		pol = -1
	}
	if flip {
		pol = -pol
	}
	return pol
}

// edgeFor converts a polarity on block b's If into the pass edge.
func edgeFor(b *ssa.BasicBlock, pol int) Edge {
	if pol > 0 {
		return Edge{b, 0, nil}
	}
	return Edge{b, 1, nil}
}

// condEdges enumerates, for every If in fn, the pass edge decided by `classify`:
// classify returns +1 when the guard holds on the true edge, -1 on the false edge, 0 if unrelated.
// A condition that is a boolean phi (`x := a && b; if x`) is classified per incoming value.
func condEdges(fn *ssa.Function, classify func(cond ssa.Value, at *ssa.If) int) []Edge {
	var res []Edge
	for _, b := range fn.Blocks {
		iff := blockIf(b)
		if iff == nil {
			continue
		}
		if pol := classify(iff.Cond, iff); pol != 0 {
			res = append(res, edgeFor(b, pol))
			continue
		}
		if phi, flip := phiCond(b); phi != nil {
			for k, e := range phi.Edges {
				if _, isC := phiEdgeConst(phi, e); isC {
					continue
				}
				if _, isPhi := e.(*ssa.Phi); isPhi && !isBoolType(phi.Type()) {
					continue
				}
				pol := classify(phiEdgeCond(phi, e), iff)
				if pol == 0 {
					continue
				}
				if flip {
					pol = -pol
				}
				ed := edgeFor(b, pol)
				ed.Pred = phi.Block().Preds[k]
				if predIndex(phi.Block(), ed.Pred) == k {
					res = append(res, ed)
				}
			}
		}
	}
	return res
}

// isCallResult: v is the result (or the k-th component, k<0 = any) of a call accepted by pred.
func isCallResult(v ssa.Value, k int, pred func(c *ssa.Call) bool) (*ssa.Call, bool) {
	src, idx := tupleSource(v)
	c, ok := src.(*ssa.Call)
	if !ok {
		return nil, false
	}
	if k >= 0 && idx >= 0 && idx != k {
		return nil, false
	}
	if !pred(c) {
		return nil, false
	}
	return c, true
}

func isErrorType(t types.Type) bool {
	n, ok := t.(*types.Named)
	return ok && n.Obj().Pkg() == nil && n.Obj().Name() == "error"
}

func isBoolType(t types.Type) bool {
	b, ok := t.Underlying().(*types.Basic)
	return ok && b.Kind() == types.Bool
}

// resultIndexOfType returns the index of the last result of the signature with the given predicate, or -1.
func resultIndex(sig *types.Signature, pred func(types.Type) bool) int {
	for i := sig.Results().Len() - 1; i >= 0; i-- {
		if pred(sig.Results().At(i).Type()) {
			return i
		}
	}
	return -1
}

// ---------------------------------------------------------------------------------------------
// Guard specifications

// GuardSpec recognises the pass edges of one semantic guard inside a function.
type GuardSpec interface {
	Edges(p *Program, fn *ssa.Function) []Edge
	String() string
}

// CallGuard: a call to one of Callees whose boolean result must be Want, or whose error result must be nil
// (Want is ignored for error results: the pass edge is always err == nil), or - for pointer/ other
// results with NonNil set - must be non-nil.
type CallGuard struct {
	Name     string
	Callees  []string                  // fname()s or "invoke:..." names
	Want     bool                      // required value of the bool result
	ArgOK    func(call *ssa.Call) bool // optional argument constraint
	Depth    int                       // helper-summary depth (0 = default 3)
	Result   func(call *ssa.Call) int  // optional: which result index carries the verdict
	ErrOnly  bool                      // consider only the error result
	seen     map[*ssa.Function]map[bool]bool
	flagSeen map[string]bool
}

func (g *CallGuard) String() string { return g.Name }

func (g *CallGuard) matches(c *ssa.Call) bool {
	n := calleeName(c)
	for _, w := range g.Callees {
		if n == w {
			return g.ArgOK == nil || g.ArgOK(c)
		}
	}
	return false
}

func (g *CallGuard) Edges(p *Program, fn *ssa.Function) []Edge {
	return g.edges(p, fn, 0)
}

func (g *CallGuard) edges(p *Program, fn *ssa.Function, depth int) []Edge {
	maxd := g.Depth
	if maxd == 0 {
		maxd = 3
	}
	var res []Edge
	// verdict of the guard call (or of a helper establishing it) used as a condition: +1 / -1 = pass on the true / false edge
	directPol := func(cond ssa.Value) int {
		// direct boolean use
		pol := boolCond(cond, func(v ssa.Value) bool {
			c, ok := isCallResult(v, -1, func(c *ssa.Call) bool { return g.verdictCall(p, c, depth, maxd) })
			if !ok {
				return false
			}
			_, idx := tupleSource(v)
			return g.isVerdictResult(c, idx, isBoolType)
		})
		if pol != 0 && !g.ErrOnly {
			// bool verdict: pass edge is where result == Want (for summarised helpers: true = success)
			c, _ := isCallResult(mustStrip(cond), -1, func(*ssa.Call) bool { return true })
			want := g.Want
			if c != nil && !g.matches(c) {
				want = true // helper summary: success == true
			}
			if !want {
				pol = -pol
			}
			return pol
		}
		// error use: pass edge is err == nil
		return nilCond(cond, func(v ssa.Value) bool {
			c, ok := isCallResult(v, -1, func(c *ssa.Call) bool { return g.verdictCall(p, c, depth, maxd) })
			if !ok {
				return false
			}
			_, idx := tupleSource(v)
			return g.isVerdictResult(c, idx, isErrorType)
		})
	}
	for _, b := range fn.Blocks {
		iff := blockIf(b)
		if iff == nil {
			continue
		}
		if pol := directPol(iff.Cond); pol != 0 {
			res = append(res, edgeFor(b, pol))
			continue
		}
		// the verdict reaches the test through a phi (a flag or an error assigned on several paths, e.g. the merged result of
		// an inlined helper): the edge is a pass edge for the paths that enter the phi with the verdict
		if phi, flip := phiCond(b); phi != nil {
			for k, e := range phi.Edges {
				if _, isC := phiEdgeConst(phi, e); isC {
					continue
				}
				if _, isPhi := e.(*ssa.Phi); isPhi {
					continue
				}
				pol := directPol(phiEdgeCond(phi, e))
				if pol == 0 {
					continue
				}
				if flip {
					pol = -pol
				}
				ed := edgeFor(b, pol)
				ed.Pred = phi.Block().Preds[k]
				if predIndex(phi.Block(), ed.Pred) == k {
					res = append(res, ed)
				}
			}
		}
		// flag summary: the condition is a boolean result of a repository helper (a "stop"/"done" flag rather than a
		// success verdict); the edge on which the flag has value val is a pass edge when every return of the helper that
		// may yield val there lies behind the guard inside the helper.
		if depth < maxd {
			var fc *ssa.Call
			fidx := 0
			fpol := boolCond(iff.Cond, func(v ssa.Value) bool {
				c, ok := isCallResult(v, -1, func(c *ssa.Call) bool {
					sc := c.Call.StaticCallee()
					return sc != nil && inRepo(sc) && sc.Blocks != nil && !g.matches(c)
				})
				if !ok {
					return false
				}
				_, idx := tupleSource(v)
				if idx < 0 {
					idx = 0
				}
				if !g.isVerdictResult(c, idx, isBoolType) && !(idx == 0 && c.Call.Signature().Results().Len() == 1) {
					return false
				}
				fc, fidx = c, idx
				return true
			})
			if fpol != 0 && fc != nil {
				for _, val := range []bool{true, false} {
					if g.flagEstablishes(p, fc.Call.StaticCallee(), fidx, val, depth+1) {
						if val {
							res = append(res, edgeFor(b, fpol))
						} else {
							res = append(res, edgeFor(b, -fpol))
						}
					}
				}
			}
		}
	}
	return res
}

// flagEstablishes: every return of h whose idx-th (boolean) result may be val is unreachable once the pass edges of g
// inside h are removed, and at least one such return exists.
func (g *CallGuard) flagEstablishes(p *Program, h *ssa.Function, idx int, val bool, depth int) bool {
	if g.flagSeen == nil {
		g.flagSeen = map[string]bool{}
	}
	key := fname(h) + "#" + string(rune('0'+idx))
	if val {
		key += "T"
	}
	if r, ok := g.flagSeen[key]; ok {
		return r
	}
	g.flagSeen[key] = false // cycle guard
	edges := g.edges(p, h, depth)
	if len(edges) == 0 {
		return false
	}
	live := reachWithout(h, edges)
	n := 0
	ok := true
	for _, ret := range returnsOf(h) {
		if idx >= len(ret.Results) || !isBoolType(ret.Results[idx].Type()) {
			return false
		}
		if k, isC := boolConst(ret.Results[idx]); isC && k != val {
			continue
		}
		n++
		if live[ret.Block()] {
			ok = false
		}
	}
	ok = ok && n > 0
	g.flagSeen[key] = ok
	return ok
}

func mustStrip(v ssa.Value) ssa.Value {
	x, _ := stripNot(v)
	return resolveLoad(x)
}

func (g *CallGuard) isVerdictResult(c *ssa.Call, idx int, pred func(types.Type) bool) bool {
	sig := c.Call.Signature()
	if idx < 0 {
		return sig.Results().Len() == 1 && pred(sig.Results().At(0).Type())
	}
	if g.Result != nil && g.matches(c) {
		return g.Result(c) == idx
	}
	return idx < sig.Results().Len() && pred(sig.Results().At(idx).Type())
}

// verdictCall: c is the guard call itself, or a repo helper that establishes the guard on all its
// success returns (guard summary).
func (g *CallGuard) verdictCall(p *Program, c *ssa.Call, depth, maxd int) bool {
	if g.matches(c) {
		return true
	}
	if depth >= maxd {
		return false
	}
	sc := c.Call.StaticCallee()
	if sc == nil || !inRepo(sc) || sc.Blocks == nil {
		return false
	}
	return g.establishes(p, sc, depth+1, maxd)
}

// establishes: every path of h to a success return (true / nil error) passes a pass edge of g.
func (g *CallGuard) establishes(p *Program, h *ssa.Function, depth, maxd int) bool {
	if g.seen == nil {
		g.seen = map[*ssa.Function]map[bool]bool{}
	}
	if m, ok := g.seen[h]; ok {
		if r, ok := m[true]; ok {
			return r
		}
	}
	g.seen[h] = map[bool]bool{true: false} // cycle guard
	edges := g.edges(p, h, depth)
	live := reachWithout(h, edges)
	ok := true
	nsucc := 0
	for _, b := range h.Blocks {
		if len(b.Instrs) == 0 {
			continue
		}
		r, isRet := b.Instrs[len(b.Instrs)-1].(*ssa.Return)
		if !isRet {
			continue
		}
		if !returnMayBeSuccess(r) {
			continue
		}
		nsucc++
		if !live[b] {
			continue
		}
		// the verdict of the guard call (or of a helper establishing it) is returned as is
		direct := false
		for _, v := range r.Results {
			if !isErrorType(v.Type()) && !isBoolType(v.Type()) {
				continue
			}
			if c, isV := isCallResult(v, -1, func(c *ssa.Call) bool { return g.verdictCall(p, c, depth, maxd) }); isV {
				if g.matches(c) && isBoolType(v.Type()) && !g.Want {
					continue // a negative bool guard returned directly would invert the meaning
				}
				direct = true
			}
		}
		if !direct {
			ok = false
		}
	}
	if nsucc == 0 {
		ok = false
	}
	g.seen[h][true] = ok
	return ok
}

// returnMayBeSuccess: a return whose bool results are not constant false and whose error results are
// not provably non-nil at that point.
func returnMayBeSuccess(r *ssa.Return) bool {
	for _, v := range r.Results {
		if isBoolType(v.Type()) {
			if c, ok := boolConst(v); ok && !c {
				return false
			}
			if alwaysFalseResult(v) {
				return false
			}
		}
		if isErrorType(v.Type()) {
			if errNonNilAt(v, r.Block()) {
				return false
			}
		}
	}
	return true
}

// alwaysFalseResult: v is the i-th result of a static call to a repository function all of whose returns yield the
// constant false there (failure helpers such as helpers.LogAndReturnFalse).
func alwaysFalseResult(v ssa.Value) bool {
	ex, ok := v.(*ssa.Extract)
	if !ok {
		return false
	}
	c, ok := ex.Tuple.(*ssa.Call)
	if !ok {
		return false
	}
	sc := c.Call.StaticCallee()
	if sc == nil || sc.Blocks == nil {
		return false
	}
	rets := returnsOf(sc)
	if len(rets) == 0 {
		return false
	}
	for _, ret := range rets {
		if ex.Index >= len(ret.Results) {
			return false
		}
		if k, isC := boolConst(ret.Results[ex.Index]); !isC || k {
			return false
		}
	}
	return true
}

func provablyNonNilError(v ssa.Value) bool { return errNonNilBy(v, nil, 0) }

// errNonNilAt: the error value v is non-nil whenever block b executes: by construction, or because b is reachable
// only through an edge on which v != nil.
func errNonNilAt(v ssa.Value, b *ssa.BasicBlock) bool { return errNonNilBy(v, b, 0) }

func errNonNilBy(v ssa.Value, at *ssa.BasicBlock, depth int) bool {
	if depth > 6 {
		return false
	}
	switch x := v.(type) {
	case *ssa.Const:
		return false // nil
	case *ssa.MakeInterface:
		return true
	case *ssa.UnOp:
		if g, ok := x.X.(*ssa.Global); ok && isErrorType(x.Type()) && g.Pkg != nil {
			return true // package-level error variable (Err...)
		}
	case *ssa.Call:
		switch calleeName(x) {
		case "errors.New", "fmt.Errorf", "github.com/pkg/errors.New", "github.com/pkg/errors.Errorf":
			return true
		case "github.com/pkg/errors.Wrap", "github.com/pkg/errors.Wrapf", "github.com/pkg/errors.WithMessage", "github.com/pkg/errors.WithStack":
			if len(x.Call.Args) > 0 && errNonNilBy(x.Call.Args[0], x.Block(), depth+1) {
				return true
			}
		}
	case *ssa.Phi:
		all := len(x.Edges) > 0
		for i, e := range x.Edges {
			if !errNonNilBy(e, x.Block().Preds[i], depth+1) {
				all = false
			}
		}
		if all {
			return true
		}
	}
	if at == nil {
		return false
	}
	// dominated by a non-nil test of the same value
	fn := at.Parent()
	nonNilEdges := condEdges(fn, func(cond ssa.Value, _ *ssa.If) int {
		return -nilCond(cond, func(y ssa.Value) bool { return y == v })
	})
	if len(nonNilEdges) == 0 {
		return false
	}
	return !reachWithout(fn, nonNilEdges)[at]
}

// EdgeGuard is a guard given directly by a classifier over If conditions.
type EdgeGuard struct {
	Name     string
	Classify func(p *Program, fn *ssa.Function, cond ssa.Value, at *ssa.If) int
}

func (g *EdgeGuard) String() string { return g.Name }
func (g *EdgeGuard) Edges(p *Program, fn *ssa.Function) []Edge {
	return condEdges(fn, func(c ssa.Value, at *ssa.If) int { return g.Classify(p, fn, c, at) })
}

// AnyGuard: union of alternatives (any of them guards).
type AnyGuard struct {
	Name string
	Alts []GuardSpec
}

func (g *AnyGuard) String() string { return g.Name }
func (g *AnyGuard) Edges(p *Program, fn *ssa.Function) []Edge {
	var res []Edge
	for _, a := range g.Alts {
		res = append(res, a.Edges(p, fn)...)
	}
	return res
}

// ---------------------------------------------------------------------------------------------
// Interprocedural must-pass

type Site struct {
	Fn    *ssa.Function
	Instr ssa.Instruction
	Chain []string // call chain from the entry
}

type MustPass struct {
	P      *Program
	Scope  func(*ssa.Function) bool // callees to descend into
	IsSink func(fn *ssa.Function, ins ssa.Instruction) bool
	Guard  GuardSpec
	memo   map[*ssa.Function][]Site
	active map[*ssa.Function]bool
	Sinks  int // number of sink sites seen (guarded or not)
}

// Exposed returns the sink sites reachable from the entry of fn without passing a pass edge of the guard.
func (m *MustPass) Exposed(fn *ssa.Function) []Site {
	if m.memo == nil {
		m.memo = map[*ssa.Function][]Site{}
		m.active = map[*ssa.Function]bool{}
	}
	if r, ok := m.memo[fn]; ok {
		return r
	}
	if m.active[fn] || fn.Blocks == nil {
		return nil
	}
	m.active[fn] = true
	defer func() { m.active[fn] = false }()
	var edges []Edge
	if m.Guard != nil {
		edges = m.Guard.Edges(m.P, fn)
	}
	live := reachWithout(fn, edges)
	var res []Site
	for _, b := range fn.Blocks {
		for _, ins := range b.Instrs {
			if m.IsSink(fn, ins) {
				m.Sinks++
				if live[b] {
					res = append(res, Site{fn, ins, []string{fname(fn)}})
				}
				continue
			}
			// descend
			var callees []*ssa.Function
			if sc := staticCallee(ins); sc != nil {
				callees = append(callees, sc)
			}
			if mc, ok := ins.(*ssa.MakeClosure); ok {
				if f, ok := mc.Fn.(*ssa.Function); ok {
					callees = append(callees, f)
				}
			}
			for _, c := range callees {
				if c.Blocks == nil || !m.Scope(c) {
					continue
				}
				sub := m.Exposed(c)
				if live[b] {
					for _, s := range sub {
						res = append(res, Site{s.Fn, s.Instr, append([]string{fname(fn)}, s.Chain...)})
					}
				}
			}
		}
	}
	m.memo[fn] = res
	return res
}

// constBoolResult: v is the i-th result of a static call to a repository function all of whose returns yield the same
// boolean constant there (helpers.LogAndReturnFalse / LogAndReturnTrue).
func constBoolResult(v ssa.Value) (bool, bool) {
	ex, ok := v.(*ssa.Extract)
	if !ok {
		return false, false
	}
	c, ok := ex.Tuple.(*ssa.Call)
	if !ok {
		return false, false
	}
	sc := c.Call.StaticCallee()
	if sc == nil || sc.Blocks == nil {
		return false, false
	}
	rets := returnsOf(sc)
	if len(rets) == 0 {
		return false, false
	}
	var val bool
	for i, ret := range rets {
		if ex.Index >= len(ret.Results) {
			return false, false
		}
		k, isC := boolConst(ret.Results[ex.Index])
		if !isC || (i > 0 && k != val) {
			return false, false
		}
		val = k
	}
	return val, true
}
