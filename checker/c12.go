package main

// C12 Delegation pool consistency and undelegation maturity.

import (
	"go/constant"
	"go/token"
	"strings"

	"golang.org/x/tools/go/ssa"
)

const (
	ndStore       = "(*data/network_delegation.Store)."
	ndRew         = "(*data/network_delegation.DelegRewardStore)."
	fnPoolByName  = "(*data/governance.Store).GetPoolByName"
	fnNDWithPref  = ndStore + "WithPrefix"
	fnMatureDeleg = "app.addMaturedAmountsToBalance"
	fnMatureRew   = "app.matureDelegationRewards"
)

func init() {
	register(&propertyDef{
		ID:    "C12",
		Title: "Delegation pool consistency and undelegation maturity",
		Explain: "Decides on every path: (delegate) the delegator is debited, the delegation pool credited and the active record increased with one coin datum, each step behind the previous one's success; " +
			"(undelegate) every successful return is preceded by the error-checked reduction of the active record, the pending entry at header height + configured maturity and the pool debit, all with the message's coin and delegator; " +
			"(reinvest/withdraw) the reward balance is reduced through the error-checked Minus before the pool/active record or the pending reward entry grows, with one datum; " +
			"(maturity) BeginBlock runs both maturity payers on every (error-free) path, each scans exactly the request's height, credits the scanned address with the scanned amount and then zeroes that same entry before the next one; " +
			"(keys) the per-height scan prefixes end with the key separator, so one height's scan cannot see another height's entries; active/pending selections of the shared store are made immediately before use.",
		NotDecided: "pool balance = sum of active delegations (arithmetic over histories); sign/currency validation of the amounts (C02)",
		Run:        runC12,
	})
}

// precededOnSuccess: every successful return of fn (and of no other function) is preceded on all paths by an instruction satisfying pred.
func (r *Run) precededOnSuccess(rule string, fn *ssa.Function, what string, pred func(ssa.Instruction) bool, consequence string) {
	p := r.P
	var removed []Edge
	n := 0
	for _, f := range handlerBody(fn) {
		if f != fn {
			continue
		}
		for _, b := range f.Blocks {
			for _, ins := range b.Instrs {
				if pred(ins) {
					n++
					for i := range b.Succs {
						removed = append(removed, Edge{b, i, nil})
					}
				}
			}
		}
	}
	if n == 0 {
		r.Viol(rule, fname(fn), what+" before every successful return", "no such step in "+fname(fn)+": "+consequence, p.pos(fn.Pos()), nil)
		return
	}
	live := reachWithout(fn, removed)
	bad := false
	pos := p.pos(fn.Pos())
	for _, ret := range returnsOf(fn) {
		if returnMayBeSuccess(ret) && live[ret.Block()] {
			// the block itself may contain the step before the return
			has := false
			for _, ins := range ret.Block().Instrs {
				if pred(ins) {
					has = true
				}
			}
			if !has {
				bad = true
				pos = p.ipos(ret)
			}
		}
	}
	r.Check(!bad, rule, fname(fn), what+" before every successful return", "no successful return is reachable without it",
		"a successful return is reachable without "+what+": "+consequence, pos)
}

func isCallTo(names ...string) func(ssa.Instruction) bool {
	return func(ins ssa.Instruction) bool {
		n := calleeName(ins)
		for _, w := range names {
			if n == w {
				return true
			}
		}
		return false
	}
}

func runC12(r *Run) {
	p := r.P
	var poolAddrD func(v ssa.Value, depth int) bool
	poolAddrD = func(v ssa.Value, depth int) bool {
		s, i := tupleSource(v)
		c, ok := s.(*ssa.Call)
		if !ok || i > 0 {
			return false
		}
		if calleeName(c) == fnPoolByName {
			return true
		}
		// a same-repository wrapper all of whose returns hand out the looked-up pool address (or nothing)
		sc := c.Call.StaticCallee()
		if depth > 2 || sc == nil || !inRepo(sc) || sc.Blocks == nil {
			return false
		}
		n := 0
		for _, ret := range returnsOf(sc) {
			if len(ret.Results) == 0 {
				return false
			}
			r0 := ret.Results[0]
			if k, isC := r0.(*ssa.Const); isC && k.Value == nil {
				continue
			}
			if !poolAddrD(r0, depth+1) {
				return false
			}
			n++
		}
		return n > 0
	}
	poolAddr := func(v ssa.Value) bool { return poolAddrD(v, 0) }
	activeSel := func(v ssa.Value) bool {
		c, ok := v.(*ssa.Call)
		if !ok || calleeName(c) != fnNDWithPref {
			return false
		}
		k, isC := intConst(c.Call.Args[1])
		return isC && k == constValue(p, Mod+"/data/network_delegation", "ActiveType")
	}

	// ---- delegate
	dl := p.deliverEntry("ADD_NETWORK_DELEGATE")
	coinD := coinFromMsg(p, "Amount")
	r.argCheck("C12.delegate", dl, fnBalMinus, 1, "msg.DelegationAddress", msgF(p, "DelegationAddress"), "someone else is debited")
	r.argCheck("C12.delegate", dl, fnBalMinus, 2, "coin from msg.Amount", coinD, "the debited amount is not the message's")
	r.guardOb("C12.delegate", dl, "pool credit", callsToWith([]string{fnBalAdd}, nil, poolAddr), errCallG("delegator debit succeeded", []string{fnBalMinus}, nil, msgF(p, "DelegationAddress")),
		"the pool grows without the delegator paying")
	r.guardOb("C12.delegate", dl, "active record increase", callsToWith([]string{ndStore + "Set"}, activeSel), errCallG("pool credit succeeded", []string{fnBalAdd}, nil, poolAddr),
		"the active delegation grows although the pool was not credited")
	if d, c, s := firstCall(dl, fnBalMinus), firstCall(dl, fnBalAdd), firstCall(dl, ndStore+"Set"); d != nil && c != nil && s != nil {
		okDatum := samePath(d.Call.Args[2], c.Call.Args[2]) && derivesFrom(s.Call.Args[2], func(y ssa.Value) bool { return samePath(y, d.Call.Args[2]) || coinD(y) })
		g := firstCall(dl, ndStore+"Get")
		okCur := g != nil && activeSel(g.Call.Args[0]) && msgF(p, "DelegationAddress")(g.Call.Args[1]) && msgF(p, "DelegationAddress")(s.Call.Args[1]) &&
			derivesFrom(s.Call.Args[2], func(y ssa.Value) bool { src, i := tupleSource(y); return src == ssa.Value(g) && i == 0 })
		r.Check(okDatum && okCur, "C12.delegate", fname(dl), "active[delegator] = active[delegator] + the debited coin",
			"one coin is debited, credited to the pool and added to the delegator's own active record", "debit, pool credit and active record do not use one datum / one delegator", p.ipos(s))
	} else {
		r.Viol("C12.delegate", fname(dl), "debit, pool credit, active record", "one of the three steps is missing", p.pos(dl.Pos()), nil)
	}

	// ---- undelegate
	ud := p.deliverEntry("NETWORK_UNDELEGATE")
	coinU := coinFromMsg(p, "Amount")
	lose := "the delegator keeps (or loses) value: the three records of an undelegation must move together"
	r.precededOnSuccess("C12.undelegate", ud, "the active record reduction", isCallTo(ndStore+"Set"), lose)
	r.precededOnSuccess("C12.undelegate", ud, "the pending entry", isCallTo(ndStore+"SetPendingAmount"), lose)
	r.precededOnSuccess("C12.undelegate", ud, "the pool debit", func(ins ssa.Instruction) bool {
		c, ok := ins.(*ssa.Call)
		return ok && calleeName(c) == fnBalMinus && poolAddr(c.Call.Args[1])
	}, lose)
	r.guardOb("C12.undelegate", ud, "active record write", callsTo(ndStore+"Set"), &CallGuard{Name: "Coin.Minus succeeded", Callees: []string{"(data/balance.Coin).Minus"}, ErrOnly: true,
		ArgOK: func(c *ssa.Call) bool { return coinU(c.Call.Args[1]) }}, "more than the active delegation can be undelegated (negative active record)")
	if s := firstCall(ud, ndStore+"Set"); s != nil {
		g := firstCall(ud, ndStore+"Get")
		ok := g != nil && msgF(p, "Delegator")(g.Call.Args[1]) && msgF(p, "Delegator")(s.Call.Args[1]) &&
			derivesFrom(s.Call.Args[2], func(y ssa.Value) bool {
				c, isC := y.(*ssa.Call)
				return isC && calleeName(c) == "(data/balance.Coin).Minus"
			}) && derivesFrom(s.Call.Args[2], func(y ssa.Value) bool { src, i := tupleSource(y); return g != nil && src == ssa.Value(g) && i == 0 })
		r.Check(ok, "C12.undelegate", fname(ud), "active[msg.Delegator] = active[msg.Delegator] - coin", "own record, Minus result", "the reduced record is not the delegator's own active record minus the message's coin", p.ipos(s))
	}
	for _, c := range allCalls(ud, ndStore+"SetPendingAmount") {
		okH := false
		if bo, ok := c.Call.Args[2].(*ssa.BinOp); ok && bo.Op == token.ADD {
			isH := func(x ssa.Value) bool {
				return derivesFrom(x, func(y ssa.Value) bool {
					cc, ok := y.(*ssa.Call)
					return (ok && strings.HasSuffix(calleeName(cc), "abci/types.Header).GetHeight")) || headerHeight(y)
				})
			}
			isM := recF("RewardsMaturityTime", "(*data/governance.Store).GetNetworkDelegOptions")
			okH = (isH(bo.X) && isM(bo.Y)) || (isH(bo.Y) && isM(bo.X))
		}
		r.Check(okH, "C12.undelegate", fname(ud), "pending height = header height + RewardsMaturityTime", "matures after the configured period", "the pending entry is not scheduled at height + maturity (paid early/late)", p.ipos(c))
		r.Check(msgF(p, "Delegator")(c.Call.Args[1]) && coinU(c.Call.Args[3]), "C12.undelegate", fname(ud), "pending entry for msg.Delegator with the message's coin", "own entry, own amount",
			"the pending entry is recorded for someone else or with another amount", p.ipos(c))
	}
	// merging with an existing entry reads the entry of the same delegator and height
	if g := firstCall(ud, ndStore+"GetPendingAmount"); g != nil {
		sets := allCalls(ud, ndStore+"SetPendingAmount")
		ok := msgF(p, "Delegator")(g.Call.Args[1])
		for _, s := range sets {
			if !samePath(s.Call.Args[2], g.Call.Args[2]) {
				ok = false
			}
		}
		r.Check(ok, "C12.undelegate", fname(ud), "existing pending entry read under the same (delegator, height) key", "GetPendingAmount(msg.Delegator, matureHeight)",
			"an existing pending entry is not merged from its own key: two undelegations maturing together overwrite each other", p.ipos(g))
		r.guardOb("C12.undelegate", ud, "overwriting SetPendingAmount", func(fn *ssa.Function, ins ssa.Instruction) bool {
			c, ok := ins.(*ssa.Call)
			return ok && calleeName(c) == ndStore+"SetPendingAmount" && !derivesFrom(c.Call.Args[3], func(y ssa.Value) bool { s2, i := tupleSource(y); return s2 == ssa.Value(g) && i == 0 })
		}, boolCallG("no pending entry yet", false, []string{ndStore + "PendingExists"}, nil, msgF(p, "Delegator")), "an existing pending entry of the same height is overwritten: the earlier undelegation is never paid")
	} else {
		r.Viol("C12.undelegate", fname(ud), "existing pending entry merged", "the handler no longer reads an existing pending entry of the same height", p.pos(ud.Pos()), nil)
	}
	for _, c := range allCalls(ud, fnBalMinus) {
		if poolAddr(c.Call.Args[1]) {
			r.Check(coinU(c.Call.Args[2]), "C12.undelegate", fname(ud), "pool debited by the message's coin", "same datum", "the pool is debited by another amount than what leaves the active set", p.ipos(c))
		}
	}

	// ---- reinvest and reward withdrawal
	ri := p.deliverEntry("REWARDS_REINVEST_NETWORK_DELEGATE")
	r.guardOb("C12.reinvest", ri, "pool credit / active increase", callsTo(fnBalAdd, ndStore+"Set"), errCallG("reward balance reduced", []string{ndRew + "MinusRewardsBalance"}, nil, msgF(p, "Delegator"), coinFromMsg(p, "Amount")),
		"rewards are reinvested without being taken from the reward balance")
	r.guardOb("C12.reinvest", ri, "active increase", callsToWith([]string{ndStore + "Set"}, activeSel), errCallG("pool credit succeeded", []string{fnBalAdd}, nil, poolAddr), "active grows without the pool")
	if s := firstCall(ri, ndStore+"Set"); s != nil {
		g := firstCall(ri, ndStore+"Get")
		ok := g != nil && activeSel(g.Call.Args[0]) && activeSel(s.Call.Args[0]) && msgF(p, "Delegator")(g.Call.Args[1]) && msgF(p, "Delegator")(s.Call.Args[1])
		r.Check(ok, "C12.reinvest", fname(ri), "active record selected immediately before its read and its write", "WithPrefix(ActiveType).Get/Set(msg.Delegator)",
			"the active record is read/written without selecting the active prefix first: the shared store may still point at the pending keys (an undelegate or a query ran before) and the reinvested amount lands on a dead key", p.ipos(s))
	}
	wr := p.deliverEntry("REWARDS_WITHDRAW_NETWORK_DELEGATE")
	r.argCheck("C12.withdraw", wr, ndRew+"Withdraw", 1, "msg.Delegator", msgF(p, "Delegator"), "someone else's rewards are withdrawn")
	r.argCheck("C12.withdraw", wr, ndRew+"Withdraw", 2, "amount from msg.Amount", coinFromMsg(p, "Amount"), "another amount than requested")
	r.argCheck("C12.withdraw", wr, ndRew+"Withdraw", 3, "header height + RewardsMaturityTime", func(v ssa.Value) bool {
		bo, ok := v.(*ssa.BinOp)
		if !ok || bo.Op != token.ADD {
			return false
		}
		isM := recF("RewardsMaturityTime", "(*data/governance.Store).GetNetworkDelegOptions")
		return isM(bo.X) || isM(bo.Y)
	}, "reward withdrawals mature at the wrong height")
	// reward store: Withdraw = MinusRewardsBalance (checked) then addPendingRewards(same datum)
	w := p.MustFn(ndRew + "Withdraw")
	mn, ap := firstCallIn(w, ndRew+"MinusRewardsBalance"), firstCallIn(w, ndRew+"addPendingRewards")
	okW := mn != nil && ap != nil && paramIs(w, 1)(mn.Call.Args[1]) && paramIs(w, 2)(mn.Call.Args[2]) && paramIs(w, 1)(ap.Call.Args[1]) && paramIs(w, 2)(ap.Call.Args[2]) && paramIs(w, 3)(ap.Call.Args[3])
	if okW {
		e := (&CallGuard{Name: "minus", Callees: []string{ndRew + "MinusRewardsBalance"}, ErrOnly: true}).Edges(p, w)
		okW = len(e) > 0 && !reachWithout(w, e)[ap.Block()]
	}
	r.Check(okW, "C12.withdraw", fname(w), "balance reduced (error-checked) before the same amount becomes pending", "MinusRewardsBalance then addPendingRewards with the function's own parameters",
		"a reward withdrawal can become pending without (or with another amount than) the reduction of the accrued balance: withdrawals exceed the accrued rewards", p.pos(w.Pos()))
	mb := p.MustFn(ndRew + "MinusRewardsBalance")
	setc := firstCallIn(mb, ndRew+"set")
	if setc != nil {
		e := (&CallGuard{Name: "minus", Callees: []string{"(*data/balance.Amount).Minus"}, ErrOnly: true}).Edges(p, mb)
		r.Check(len(e) > 0 && !reachWithout(mb, e)[setc.Block()], "C12.withdraw", fname(mb), "balance write behind the Minus error check", "never negative",
			"the reward balance can be written with a negative result", p.ipos(setc))
	}

	// ---- maturity payers
	bb := p.Roots()["begin"]
	for _, payer := range []string{fnMatureDeleg, fnMatureRew} {
		p.MustFn(payer)
	}
	c1 := firstCallIn(bb, fnMatureDeleg)
	ok1 := c1 != nil
	if ok1 {
		for _, ret := range returnsOf(bb) {
			if !dominatesInstr(c1, ret) {
				ok1 = false
			}
		}
	}
	r.Check(ok1, "C12.maturity", fname(bb), "undelegation maturity runs in every BeginBlock", "addMaturedAmountsToBalance dominates every return", "a BeginBlock path skips the undelegation maturity step: the entries of that height are never paid", p.pos(bb.Pos()))
	hb := p.MustFn("app.handleBlockRewards")
	pull := firstCallIn(hb, "(*data/rewards.RewardCumulativeStore).PullRewards")
	mat := firstCallIn(hb, fnMatureRew)
	okM := pull != nil && mat != nil
	if okM {
		errEdges := invertEdges((&CallGuard{Name: "pull", Callees: []string{"(*data/rewards.RewardCumulativeStore).PullRewards"}, ErrOnly: true}).Edges(p, hb))
		reach := reachFromInstr(pull, errEdges, func(ins ssa.Instruction) bool { return ins == ssa.Instruction(mat) })
		for ins := range reach {
			if _, isRet := ins.(*ssa.Return); isRet {
				okM = false
			}
		}
	}
	r.Check(okM, "C12.maturity", fname(hb), "reward maturity runs on every error-free path of the block-reward hook", "after a successful PullRewards every path passes matureDelegationRewards",
		"the reward-withdrawal maturity step is skipped on some error-free path (e.g. when the delegation pool is empty): withdrawals maturing in that block are never paid", p.pos(hb.Pos()))
	checkPayer(r, fnMatureDeleg, ndStore+"IteratePendingAmounts", fnBalAdd, ndStore+"SetPendingAmount", 1)
	checkPayer(r, fnMatureRew, ndRew+"IteratePD", fnBalAdd, ndRew+"SetPendingRewards", 2)

	// ---- key ranges
	ipa := p.MustFn(ndStore + "IteratePendingAmounts")
	sep := constString(p, Mod+"/storage", "DB_PREFIX")
	// decimal height parameter immediately followed by the separator
	heightSep := func(fn *ssa.Function) bool {
		found := false
		allInstrs(fn, func(ins ssa.Instruction) {
			if bo, ok := ins.(*ssa.BinOp); ok && bo.Op == token.ADD {
				if k, isC := bo.Y.(*ssa.Const); isC && k.Value != nil && k.Value.Kind() == constant.String && constant.StringVal(k.Value) == sep {
					if c, isCall := bo.X.(*ssa.Call); isCall && calleeName(c) == "strconv.FormatInt" {
						if _, isP := c.Call.Args[0].(*ssa.Parameter); isP {
							if b, isK := intConst(c.Call.Args[1]); isK && b == 10 {
								found = true
							}
						}
					}
				}
			}
		})
		return found
	}
	r.Check(heightSep(ipa), "C12.keys", fname(ipa), "scan prefix = pending + decimal height + separator", "the separator is part of the prefix",
		"the per-height scan prefix does not end with the key separator: the scan of height 12 also returns the entries of 120, 1200, ... which are paid early and again at their own height", p.pos(ipa.Pos()))
	for _, n := range []string{"SetPendingAmount", "GetPendingAmount", "PendingExists"} {
		f := p.MustFn(ndStore + n)
		r.Check(heightSep(f), "C12.keys", fname(f), "entry key = pending + decimal height + separator + address", "same layout as the per-height scan prefix",
			"the entry key no longer starts with <height><separator>: the maturity scan of that height does not find what the handler wrote (never paid) or finds other heights' entries", p.pos(f.Pos()))
	}
	ipd := p.MustFn(ndRew + "IteratePD")
	sprintfFmt := func(fn *ssa.Function) (string, *ssa.Call) {
		var out string
		var at *ssa.Call
		allInstrs(fn, func(ins ssa.Instruction) {
			if c, ok := ins.(*ssa.Call); ok && calleeName(c) == "fmt.Sprintf" && at == nil {
				if k, isC := c.Call.Args[0].(*ssa.Const); isC && k.Value != nil && k.Value.Kind() == constant.String {
					out, at = constant.StringVal(k.Value), c
				}
			}
		})
		return out, at
	}
	scanFmt, _ := sprintfFmt(ipd)
	r.Check(strings.HasSuffix(scanFmt, "%d"+sep), "C12.keys", fname(ipd), "scan prefix ends with the separator after the height", "…pending_%d_", "the reward-maturity scan prefix does not end with the separator after the height (one height's scan sees another height's entries)", p.pos(ipd.Pos()))
	pk := p.MustFn(ndRew + "getPendingRewardsKey")
	keyFmt, _ := sprintfFmt(pk)
	r.Check(scanFmt != "" && strings.HasPrefix(keyFmt, scanFmt) && len(keyFmt) > len(scanFmt), "C12.keys", fname(pk), "entry key format extends the per-height scan format", "writer and reader agree on <prefix>pending_<height>_",
		"the pending-reward entry key ("+keyFmt+") does not extend the maturity scan prefix ("+scanFmt+"): matured withdrawals are never found", p.pos(pk.Pos()))

	// ---- selector discipline for the shared delegation store in the handlers
	singles := singletonTypes(p)
	sels := selectorMethods(p, singles)
	scope := map[*ssa.Function]bool{}
	for fn := range p.Fns {
		if inRepo(fn) && fn.Blocks != nil && fnPkg(fn).Path() == Mod+"/action/network_delegation" {
			scope[fn] = true
		}
	}
	checkSelectorDisciplineAs(r, "C12.selector", sels, scope)
	checkIterAdapters(r, "C12.iter", []string{ndRew + "IteratePD", ndStore + "iterateAddresses", ndStore + "iterate", ndStore + "IteratePendingAmounts"})
	r.Floor("C12.", 40)
}

func constString(p *Program, pkg, name string) string {
	pk := p.AllPkgs[pkg]
	if pk == nil {
		fail("package %s not loaded", pkg)
	}
	o := pk.Types.Scope().Lookup(name)
	if o == nil {
		fail("constant %s.%s missing", pkg, name)
	}
	c, ok := o.(interface{ Val() constant.Value })
	if !ok {
		fail("%s.%s is not a constant", pkg, name)
	}
	return constant.StringVal(c.Val())
}

// checkPayer: the BeginBlock payer scans req.Header.Height, credits (addr, amount) of the callback and zeroes the same entry.
func checkPayer(r *Run, payer, iter, credit, zero string, zeroHeightArg int) {
	p := r.P
	fn := p.MustFn(payer)
	name := fname(fn)
	it := firstCallIn(fn, iter)
	if it == nil {
		r.Viol("C12.maturity", name, "scan of the maturing entries", "no call to "+iter, p.pos(fn.Pos()), nil)
		return
	}
	// exactly the request's height: plain copies and closure captures only, no arithmetic
	var isReqH func(v ssa.Value) bool
	isReqH = func(v ssa.Value) bool {
		v = resolveLoad(v)
		if fv, ok := v.(*ssa.FreeVar); ok {
			if b := freeVarBinding(fv); b != nil {
				return isReqH(b)
			}
			return false
		}
		pa := pathOf(v)
		_, isParam := pa.Root.(*ssa.Parameter)
		return isParam && strings.HasSuffix(pa.FieldString(), "Header.Height")
	}
	r.Check(isReqH(it.Call.Args[1]), "C12.maturity", name, "scans exactly the block's own height", "Iterate…(req.Header.Height)", "the payer scans another height than the current block's (paid early/late)", p.ipos(it))
	cl := closureOf(it.Call.Args[2])
	if cl == nil {
		r.Viol("C12.maturity", name, "payer callback", "callback not resolved", p.ipos(it), nil)
		return
	}
	cr, zr := firstCallIn(cl, credit), firstCallIn(cl, zero)
	if cr == nil || zr == nil {
		r.Viol("C12.maturity", fname(cl), "credit then zero", "the callback no longer credits the entry and zeroes it", p.pos(cl.Pos()), nil)
		return
	}
	addrP := cl.Params[0]
	fromAddr := func(v ssa.Value) bool { return derivesFrom(v, func(y ssa.Value) bool { return y == ssa.Value(addrP) }) }
	fromAmt := func(v ssa.Value) bool {
		return derivesFrom(v, func(y ssa.Value) bool { return y == ssa.Value(cl.Params[1]) })
	}
	r.Check(fromAddr(cr.Call.Args[1]) && fromAmt(cr.Call.Args[2]), "C12.maturity", fname(cl), "credits the scanned address with the scanned amount", "AddToAddress(addr, amount of the entry)",
		"the matured amount is credited to someone else or with another amount", p.ipos(cr))
	zargs := zr.Call.Args
	okZero := fromAddr(zargs[1]) && isReqH(zargs[1+zeroHeightArg])
	zeroVal := false
	for _, a := range zargs[1:] {
		if derivesFrom(a, func(y ssa.Value) bool {
			c, ok := y.(*ssa.Call)
			if !ok || calleeName(c) != "data/balance.NewAmount" {
				return false
			}
			k, isK := intConst(c.Call.Args[0])
			return isK && k == 0
		}) && !fromAmt(a) {
			zeroVal = true
		}
	}
	okZero = okZero && zeroVal
	r.Check(okZero, "C12.maturity", fname(cl), "zeroes the entry of the same address and height", "Set…(addr, height, 0)", "the cleared entry is not the one that was paid (it will be paid again)", p.ipos(zr))
	// after the credit, the zeroing is reached before the callback returns
	reach := reachFromInstr(cr, nil, func(ins ssa.Instruction) bool { return ins == ssa.Instruction(zr) })
	leak := false
	for ins := range reach {
		if _, isRet := ins.(*ssa.Return); isRet {
			leak = true
		}
	}
	r.Check(!leak, "C12.maturity", fname(cl), "the entry is zeroed on every path after the credit", "no return between credit and zeroing (errors panic)", "an entry can be credited without being cleared: it is paid again", p.ipos(cr))
	r.Check(callbackNeverStops(cl), "C12.maturity", fname(cl), "every entry of the height is paid", "the callback never stops the scan", "the scan can stop early: later entries of the height are never paid", p.pos(cl.Pos()))
}
