package main

// Program representation shared by all rules: type-checked packages of /repo, go/ssa IR,
// VTA call graph restricted to the repository module, ABCI roots found by role.

import (
	"fmt"
	"go/token"
	"go/types"
	"os"
	"sort"
	"strings"
	"time"

	"golang.org/x/tools/go/callgraph"
	"golang.org/x/tools/go/callgraph/cha"
	"golang.org/x/tools/go/callgraph/vta"
	"golang.org/x/tools/go/packages"
	"golang.org/x/tools/go/ssa"
	"golang.org/x/tools/go/ssa/ssautil"
)

const Mod = "github.com/Oneledger/protocol"

type Program struct {
	RepoDir   string
	Fset      *token.FileSet
	Pkgs      []*packages.Package // root packages
	AllPkgs   map[string]*packages.Package
	SSA       *ssa.Program
	Fns       map[*ssa.Function]bool // all functions (ssautil.AllFunctions)
	Inlined   []string               // new helper functions dissolved into their callers (inline.go)
	Dissolved []string               // new helpers no longer analysed on their own
	byName    map[string]*ssa.Function
	cg        *callgraph.Graph
	chaCG     *callgraph.Graph
	out       map[*ssa.Function][]*ssa.Function // repo-internal + leaf library callees (VTA)
	TypeErrs  []string
	LoadS     float64
	Patterns  []string

	roots            map[string]*ssa.Function // ABCI role -> closure
	regTypes         map[string]bool
	buildingHandlers bool
}

// undecided is raised (panic) by infrastructure code when the analysis cannot be run.
type undecided struct{ reason string }

func fail(format string, a ...interface{}) { panic(undecided{fmt.Sprintf(format, a...)}) }

func loadEnv() []string {
	env := []string{}
	for _, e := range os.Environ() {
		k := strings.SplitN(e, "=", 2)[0]
		switch k {
		case "GOFLAGS", "GOPROXY", "GOSUMDB", "GOTOOLCHAIN", "GOWORK":
			continue
		}
		env = append(env, e)
	}
	return append(env, "GOFLAGS=-mod=mod", "GOPROXY=off", "GOSUMDB=off", "GOTOOLCHAIN=local", "GOWORK=off")
}

func Load(repo string, patterns []string) *Program {
	t0 := time.Now()
	cfg := &packages.Config{
		Mode: packages.LoadAllSyntax,
		Dir:  repo,
		Env:  loadEnv(),
	}
	pkgs, err := packages.Load(cfg, patterns...)
	if err != nil {
		fail("load: %v", err)
	}
	if len(pkgs) == 0 {
		fail("load: zero packages matched %v", patterns)
	}
	p := &Program{RepoDir: repo, Pkgs: pkgs, AllPkgs: map[string]*packages.Package{}, Patterns: patterns}
	packages.Visit(pkgs, nil, func(pk *packages.Package) {
		p.AllPkgs[pk.PkgPath] = pk
		for _, e := range pk.Errors {
			p.TypeErrs = append(p.TypeErrs, pk.PkgPath+": "+e.Error())
		}
	})
	// Type errors are tolerated only outside the import closure of the node application.
	appPk := p.AllPkgs[Mod+"/app"]
	if appPk == nil {
		fail("package %s/app not loaded", Mod)
	}
	closure := map[string]bool{}
	packages.Visit([]*packages.Package{appPk}, nil, func(pk *packages.Package) { closure[pk.PkgPath] = true })
	for _, pk := range p.AllPkgs {
		if closure[pk.PkgPath] && (len(pk.Errors) > 0 || pk.IllTyped) {
			fail("type errors inside the node closure: %s: %v", pk.PkgPath, pk.Errors)
		}
	}
	// Build SSA only for well-typed packages.
	var good []*packages.Package
	for _, pk := range pkgs {
		if !pk.IllTyped && len(pk.Errors) == 0 {
			good = append(good, pk)
		}
	}
	p.Fset = pkgs[0].Fset
	prog, _ := ssautil.AllPackages(good, ssa.InstantiateGenerics)
	prog.Build()
	p.SSA = prog
	p.Fns = ssautil.AllFunctions(prog)
	p.Inlined = p.inlineNewHelpers()
	p.byName = map[string]*ssa.Function{}
	for fn := range p.Fns {
		if inRepo(fn) {
			p.byName[fname(fn)] = fn
		}
	}
	p.LoadS = time.Since(t0).Seconds()
	return p
}

func inRepoPkg(pk *types.Package) bool {
	return pk != nil && (pk.Path() == Mod || strings.HasPrefix(pk.Path(), Mod+"/"))
}

func fnPkg(fn *ssa.Function) *types.Package {
	for f := fn; f != nil; f = f.Parent() {
		if f.Pkg != nil {
			return f.Pkg.Pkg
		}
		if f.Object() != nil && f.Object().Pkg() != nil {
			return f.Object().Pkg()
		}
	}
	// synthetic wrappers ($bound, $thunk): use the receiver / object package
	if fn.Signature != nil && fn.Signature.Recv() != nil {
		if n := namedOf(fn.Signature.Recv().Type()); n != nil {
			return n.Obj().Pkg()
		}
	}
	return nil
}

func inRepo(fn *ssa.Function) bool { return fn != nil && inRepoPkg(fnPkg(fn)) }

func namedOf(t types.Type) *types.Named {
	for {
		switch x := t.(type) {
		case *types.Pointer:
			t = x.Elem()
		case *types.Named:
			return x
		default:
			return nil
		}
	}
}

// fname is the canonical short name of a function: module prefix removed,
// e.g. "(*storage.State).Get", "action.ValidateBasic", "(*app.App).txChecker$1".
func fname(fn *ssa.Function) string {
	if fn == nil {
		return "<nil>"
	}
	return strings.ReplaceAll(fn.String(), Mod+"/", "")
}

func tname(t types.Type) string {
	return strings.ReplaceAll(types.TypeString(t, nil), Mod+"/", "")
}

func (p *Program) Fn(name string) *ssa.Function { return p.byName[name] }

// MustFn returns the function or marks the run undecided (a symbol the rules are written in is gone).
func (p *Program) MustFn(name string) *ssa.Function {
	f := p.byName[name]
	if f == nil {
		fail("anchor symbol missing: %s", name)
	}
	if f.Blocks == nil {
		fail("anchor symbol has no body: %s", name)
	}
	return f
}

func (p *Program) pos(pos token.Pos) string {
	if !pos.IsValid() {
		return "-"
	}
	ps := p.Fset.Position(pos)
	f := strings.TrimPrefix(ps.Filename, p.RepoDir+"/")
	return fmt.Sprintf("%s:%d", f, ps.Line)
}

func (p *Program) ipos(ins ssa.Instruction) string {
	if ins == nil {
		return "-"
	}
	if ins.Pos().IsValid() {
		return p.pos(ins.Pos())
	}
	// fall back to any positioned instruction in the block, then function
	for _, i := range ins.Block().Instrs {
		if i.Pos().IsValid() {
			return p.pos(i.Pos())
		}
	}
	return p.pos(ins.Parent().Pos())
}

// ---------------------------------------------------------------------------------------------
// call graph

func (p *Program) CG() *callgraph.Graph {
	if p.cg == nil {
		p.chaCG = cha.CallGraph(p.SSA)
		p.cg = vta.CallGraph(p.Fns, p.chaCG)
		p.out = map[*ssa.Function][]*ssa.Function{}
		for fn, n := range p.cg.Nodes {
			if fn == nil || !inRepo(fn) {
				continue
			}
			seen := map[*ssa.Function]bool{}
			for _, e := range n.Out {
				c := e.Callee.Func
				if c == nil || seen[c] {
					continue
				}
				seen[c] = true
				p.out[fn] = append(p.out[fn], c)
			}
			// function values referenced in fn (closures, method values handed to libraries)
			for _, b := range fn.Blocks {
				for _, ins := range b.Instrs {
					for _, op := range ins.Operands(nil) {
						if op == nil || *op == nil {
							continue
						}
						var f *ssa.Function
						switch v := (*op).(type) {
						case *ssa.Function:
							f = v
						case *ssa.MakeClosure:
							f, _ = v.Fn.(*ssa.Function)
						}
						if f != nil && !seen[f] {
							seen[f] = true
							p.out[fn] = append(p.out[fn], f)
						}
					}
					// repo types converted to a library interface: the interface's methods may be called back
					if mi, ok := ins.(*ssa.MakeInterface); ok {
						it, _ := mi.Type().Underlying().(*types.Interface)
						if it == nil || it.NumMethods() == 0 {
							continue
						}
						if n := namedOf(mi.Type()); n != nil && inRepoPkg(n.Obj().Pkg()) {
							continue // repo interface: VTA resolves the invokes
						}
						if n := namedOf(mi.X.Type()); n == nil || !inRepoPkg(n.Obj().Pkg()) {
							continue
						}
						ms := p.SSA.MethodSets.MethodSet(mi.X.Type())
						for i := 0; i < it.NumMethods(); i++ {
							sel := ms.Lookup(it.Method(i).Pkg(), it.Method(i).Name())
							if sel == nil {
								continue
							}
							if f := p.SSA.MethodValue(sel); f != nil && !seen[f] {
								seen[f] = true
								p.out[fn] = append(p.out[fn], f)
							}
						}
					}
				}
			}
			sort.Slice(p.out[fn], func(i, j int) bool { return fname(p.out[fn][i]) < fname(p.out[fn][j]) })
		}
	}
	return p.cg
}

// Callees returns the resolved callees (VTA) of fn: repo functions and library leaves.
func (p *Program) Callees(fn *ssa.Function) []*ssa.Function {
	p.CG()
	return p.out[fn]
}

// SiteCallees returns the VTA-resolved callees of one call site.
func (p *Program) SiteCallees(site ssa.CallInstruction) []*ssa.Function {
	p.CG()
	if sc := site.Common().StaticCallee(); sc != nil {
		return []*ssa.Function{sc}
	}
	n := p.cg.Nodes[site.Parent()]
	if n == nil {
		return nil
	}
	var res []*ssa.Function
	for _, e := range n.Out {
		if e.Site == site && e.Callee.Func != nil {
			res = append(res, e.Callee.Func)
		}
	}
	return res
}

// stop nodes of repo-internal reachability: crash path (handled by C18.recover).
func isStopNode(fn *ssa.Function) bool {
	n := fname(fn)
	return n == "(*app.App).handlePanic" || n == "(*app.App).Close"
}

// Reach computes the repo-internal functions reachable from the given roots.
// parent records one predecessor for shortest call paths.
func (p *Program) Reach(roots ...*ssa.Function) (map[*ssa.Function]bool, map[*ssa.Function]*ssa.Function) {
	p.CG()
	seen := map[*ssa.Function]bool{}
	parent := map[*ssa.Function]*ssa.Function{}
	var q []*ssa.Function
	for _, r := range roots {
		if r != nil && !seen[r] {
			seen[r] = true
			q = append(q, r)
		}
	}
	// a closure can only run if the function that creates it ran: VTA resolves callback parameters (Iterate(fn)) to every
	// closure that flows into them anywhere in the program, so closures wait until their parent is reachable.
	type pend struct{ c, from *ssa.Function }
	var pending []pend
	for {
		for len(q) > 0 {
			f := q[0]
			q = q[1:]
			for _, c := range p.out[f] {
				if seen[c] || !inRepo(c) || isStopNode(c) || p.unregisteredHandler(c) {
					continue
				}
				if c.Parent() != nil && !seen[c.Parent()] {
					pending = append(pending, pend{c, f})
					continue
				}
				seen[c] = true
				parent[c] = f
				q = append(q, c)
			}
		}
		progress := false
		var rest []pend
		for _, pe := range pending {
			if seen[pe.c] {
				continue
			}
			if seen[pe.c.Parent()] {
				seen[pe.c] = true
				parent[pe.c] = pe.from
				q = append(q, pe.c)
				progress = true
			} else {
				rest = append(rest, pe)
			}
		}
		pending = rest
		if !progress {
			break
		}
	}
	return seen, parent
}

// unregisteredHandler: c is a method of an action.Tx implementer that the node never registers on a router
// (VTA resolves router dispatch to every implementer in the program, e.g. the disabled BTC handlers).
func (p *Program) unregisteredHandler(c *ssa.Function) bool {
	if c.Signature.Recv() == nil {
		return false
	}
	switch c.Name() {
	case "Validate", "ProcessCheck", "ProcessDeliver", "ProcessFee":
	default:
		return false
	}
	if txIface == nil {
		p.initTxIface()
	}
	rt := c.Signature.Recv().Type()
	if !implementsTx(rt) {
		return false
	}
	if p.buildingHandlers {
		return false
	}
	if p.regTypes == nil {
		p.buildingHandlers = true
		defer func() { p.buildingHandlers = false }()
		p.regTypes = map[string]bool{}
		p.regTypes["action.unknownTx"] = true
		for _, h := range p.Handlers() {
			p.regTypes[h.Name] = true
		}
	}
	n := namedOf(rt)
	if n == nil {
		return false
	}
	return !p.regTypes[tname(n)]
}

func callPath(parent map[*ssa.Function]*ssa.Function, f *ssa.Function) []string {
	var path []string
	for x := f; x != nil; x = parent[x] {
		path = append([]string{fname(x)}, path...)
		if len(path) > 40 {
			break
		}
	}
	return path
}

// ---------------------------------------------------------------------------------------------
// ABCI roots, by role: the closures stored into the fields of app.ABCI that the
// abci.Application methods of *ABCI load and call.

var abciRoles = map[string]string{ // abci.Application method -> role name
	"Info": "info", "CheckTx": "check", "InitChain": "init", "BeginBlock": "begin",
	"DeliverTx": "deliver", "EndBlock": "end", "Commit": "commit", "Query": "query",
}

func (p *Program) Roots() map[string]*ssa.Function {
	if p.roots != nil {
		return p.roots
	}
	p.roots = map[string]*ssa.Function{}
	appPkg := p.SSA.ImportedPackage(Mod + "/app")
	if appPkg == nil {
		fail("no SSA package for app")
	}
	abciT := appPkg.Type("ABCI")
	if abciT == nil {
		fail("type app.ABCI missing")
	}
	ptr := types.NewPointer(abciT.Type())
	fieldRole := map[int]string{}
	for m, role := range abciRoles {
		sel := p.SSA.MethodSets.MethodSet(ptr).Lookup(appPkg.Pkg, m)
		if sel == nil {
			continue
		}
		fn := p.SSA.MethodValue(sel)
		if fn == nil {
			continue
		}
		for _, b := range fn.Blocks {
			for _, ins := range b.Instrs {
				if c, ok := ins.(*ssa.Call); ok {
					if ld, ok := c.Call.Value.(*ssa.UnOp); ok {
						if fa, ok := ld.X.(*ssa.FieldAddr); ok {
							fieldRole[fa.Field] = role
						}
					}
				}
			}
		}
	}
	for _, mem := range appPkg.Members {
		_ = mem
	}
	for fn := range p.Fns {
		if fn.Pkg != appPkg {
			continue
		}
		for _, b := range fn.Blocks {
			for _, ins := range b.Instrs {
				st, ok := ins.(*ssa.Store)
				if !ok {
					continue
				}
				fa, ok := st.Addr.(*ssa.FieldAddr)
				if !ok {
					continue
				}
				if n := namedOf(fa.X.Type()); n == nil || n.Obj() != abciT.Object() {
					continue
				}
				role, ok := fieldRole[fa.Field]
				if !ok {
					continue
				}
				if cl := closureOf(st.Val); cl != nil {
					p.roots[role] = cl
				}
			}
		}
	}
	for _, role := range []string{"info", "check", "init", "begin", "deliver", "end", "commit"} {
		if p.roots[role] == nil {
			fail("ABCI root for role %q not found", role)
		}
	}
	return p.roots
}

// closureOf resolves a value to the function it denotes: a MakeClosure, a function, or the
// (single) closure returned by a statically called constructor.
func closureOf(v ssa.Value) *ssa.Function {
	switch x := v.(type) {
	case *ssa.MakeClosure:
		f, _ := x.Fn.(*ssa.Function)
		return f
	case *ssa.Function:
		return x
	case *ssa.ChangeType:
		return closureOf(x.X)
	case *ssa.Call:
		sc := x.Call.StaticCallee()
		if sc == nil {
			return nil
		}
		var res *ssa.Function
		for _, b := range sc.Blocks {
			for _, ins := range b.Instrs {
				if r, ok := ins.(*ssa.Return); ok && len(r.Results) == 1 {
					if f := closureOf(r.Results[0]); f != nil {
						res = f
					}
				}
			}
		}
		return res
	}
	return nil
}

func (p *Program) ConsensusRoots() []*ssa.Function {
	r := p.Roots()
	return []*ssa.Function{r["init"], r["begin"], r["deliver"], r["end"], r["commit"]}
}

// ---------------------------------------------------------------------------------------------
// small SSA helpers

func staticCallee(ins ssa.Instruction) *ssa.Function {
	c, ok := ins.(ssa.CallInstruction)
	if !ok {
		return nil
	}
	if sc := c.Common().StaticCallee(); sc != nil {
		return sc
	}
	return nil
}

// calleeName: resolved static callee name, or "invoke:<iface method full name>" for interface calls.
func calleeName(ins ssa.Instruction) string {
	c, ok := ins.(ssa.CallInstruction)
	if !ok {
		return ""
	}
	cc := c.Common()
	if cc.IsInvoke() {
		return "invoke:" + strings.ReplaceAll(cc.Method.FullName(), Mod+"/", "")
	}
	if sc := cc.StaticCallee(); sc != nil {
		return fname(sc)
	}
	if b, ok := cc.Value.(*ssa.Builtin); ok {
		return "builtin:" + b.Name()
	}
	return ""
}

// callArgs returns the arguments including the receiver as first element for method calls.
func callArgs(ins ssa.Instruction) []ssa.Value {
	c, ok := ins.(ssa.CallInstruction)
	if !ok {
		return nil
	}
	cc := c.Common()
	if cc.IsInvoke() {
		return append([]ssa.Value{cc.Value}, cc.Args...)
	}
	return cc.Args
}

func allInstrs(fn *ssa.Function, f func(ssa.Instruction)) {
	for _, b := range fn.Blocks {
		for _, ins := range b.Instrs {
			f(ins)
		}
	}
}

func anonFuncsOf(fn *ssa.Function) []*ssa.Function { return fn.AnonFuncs }

// withAnon returns fn and all its nested anonymous functions.
func withAnon(fn *ssa.Function) []*ssa.Function {
	res := []*ssa.Function{fn}
	for _, a := range fn.AnonFuncs {
		res = append(res, withAnon(a)...)
	}
	return res
}

func sortedFns(m map[*ssa.Function]bool) []*ssa.Function {
	var r []*ssa.Function
	for f := range m {
		r = append(r, f)
	}
	sort.Slice(r, func(i, j int) bool { return fname(r[i]) < fname(r[j]) })
	return r
}
