package main

// P-CONST: evaluation of pure integer/boolean SSA expressions and partial evaluation of branch conditions over a small
// enumerated domain. This is constant propagation over the IR (no repository code is executed).

import (
	"go/token"
	"go/types"

	"golang.org/x/tools/go/ssa"
)

type IntEnv func(v ssa.Value) (int64, bool)

// pureEval evaluates v (int or bool, bool as 0/1) under env; calls to pure repository functions over integers are
// evaluated by interpreting their SSA (depth-limited).
func pureEval(v ssa.Value, env IntEnv, depth int) (int64, bool) {
	if depth > 6 {
		return 0, false
	}
	if k, ok := env(v); ok {
		return k, true
	}
	switch x := v.(type) {
	case *ssa.Const:
		if b, ok := boolConst(x); ok {
			if b {
				return 1, true
			}
			return 0, true
		}
		return intConst(x)
	case *ssa.UnOp:
		if x.Op == token.NOT {
			a, ok := pureEval(x.X, env, depth)
			return 1 - a, ok
		}
		if x.Op == token.SUB {
			a, ok := pureEval(x.X, env, depth)
			return -a, ok
		}
	case *ssa.Convert:
		if isIntegral(x.Type()) && isIntegral(x.X.Type()) {
			return pureEval(x.X, env, depth)
		}
	case *ssa.ChangeType:
		return pureEval(x.X, env, depth)
	case *ssa.Phi:
		// a merge all of whose incoming values evaluate to the same number (e.g. the single remaining edge of a merged helper
		// result after the constant outcomes were threaded away)
		if len(x.Edges) == 0 {
			return 0, false
		}
		var val int64
		for i, e := range x.Edges {
			if e == ssa.Value(x) {
				continue
			}
			k, ok := pureEval(e, env, depth+1)
			if !ok || (i > 0 && k != val) {
				return 0, false
			}
			val = k
		}
		return val, true
	case *ssa.BinOp:
		a, ok1 := pureEval(x.X, env, depth)
		b, ok2 := pureEval(x.Y, env, depth)
		if !ok1 || !ok2 {
			return 0, false
		}
		bi := func(c bool) (int64, bool) {
			if c {
				return 1, true
			}
			return 0, true
		}
		switch x.Op {
		case token.ADD:
			return a + b, true
		case token.SUB:
			return a - b, true
		case token.MUL:
			return a * b, true
		case token.QUO:
			if b == 0 {
				return 0, false
			}
			return a / b, true
		case token.REM:
			if b == 0 {
				return 0, false
			}
			return a % b, true
		case token.GEQ:
			return bi(a >= b)
		case token.GTR:
			return bi(a > b)
		case token.LEQ:
			return bi(a <= b)
		case token.LSS:
			return bi(a < b)
		case token.EQL:
			return bi(a == b)
		case token.NEQ:
			return bi(a != b)
		}
	case *ssa.Call:
		sc := x.Call.StaticCallee()
		if sc == nil || !inRepo(sc) || sc.Blocks == nil || len(sc.Blocks) > 24 {
			return 0, false
		}
		var args []int64
		for _, a := range x.Call.Args {
			k, ok := pureEval(a, env, depth)
			if !ok {
				return 0, false
			}
			args = append(args, k)
		}
		return interpPure(sc, args, env, depth+1)
	}
	return 0, false
}

func isIntegral(t types.Type) bool {
	b, ok := t.Underlying().(*types.Basic)
	return ok && b.Info()&(types.IsInteger|types.IsBoolean) != 0
}

// interpPure interprets a function whose parameters are integers/bools and whose body is pure arithmetic and branching.
func interpPure(fn *ssa.Function, args []int64, outer IntEnv, depth int) (int64, bool) {
	if len(args) != len(fn.Params) {
		return 0, false
	}
	vals := map[ssa.Value]int64{}
	for i, p := range fn.Params {
		if !isIntegral(p.Type()) {
			return 0, false
		}
		vals[p] = args[i]
	}
	env := func(v ssa.Value) (int64, bool) {
		k, ok := vals[v]
		return k, ok
	}
	b := fn.Blocks[0]
	var prev *ssa.BasicBlock
	for steps := 0; steps < 200; steps++ {
		for _, ins := range b.Instrs {
			switch x := ins.(type) {
			case *ssa.Phi:
				idx := predIndex(b, prev)
				if idx < 0 {
					return 0, false
				}
				k, ok := pureEval(x.Edges[idx], env, depth)
				if !ok {
					return 0, false
				}
				vals[x] = k
			case *ssa.If:
				c, ok := pureEval(x.Cond, env, depth)
				if !ok {
					return 0, false
				}
				prev = b
				if c != 0 {
					b = b.Succs[0]
				} else {
					b = b.Succs[1]
				}
				goto next
			case *ssa.Jump:
				prev = b
				b = b.Succs[0]
				goto next
			case *ssa.Return:
				if len(x.Results) != 1 {
					return 0, false
				}
				return pureEval(x.Results[0], env, depth)
			case *ssa.DebugRef:
			case ssa.Value:
				k, ok := pureEval(x, env, depth)
				if !ok {
					// values that are not needed (e.g. unused) may be unevaluable; only fail when used
					continue
				}
				vals[x] = k
			default:
				return 0, false
			}
		}
		return 0, false
	next:
	}
	return 0, false
}

// reachUnderEnv: blocks reachable from `from` (exclusive start at instruction) when every If whose condition evaluates
// under env takes only its feasible edge. Boolean flag phis are tracked by the underlying reachability.
func reachUnderEnv(from ssa.Instruction, env IntEnv, barrier func(ssa.Instruction) bool) map[ssa.Instruction]bool {
	fn := from.Parent()
	var removed []Edge
	for _, b := range fn.Blocks {
		iff := blockIf(b)
		if iff == nil {
			continue
		}
		if c, ok := pureEval(iff.Cond, env, 0); ok {
			if c != 0 {
				removed = append(removed, Edge{b, 1, nil})
			} else {
				removed = append(removed, Edge{b, 0, nil})
			}
		}
	}
	return reachFromInstr(from, removed, barrier)
}
