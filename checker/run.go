package main

// Run context: obligations, verdicts, floors, evidence and known-findings plumbing.

import (
	"encoding/json"
	"fmt"
	"os"
	"path/filepath"
	"sort"
	"strconv"
	"strings"
	"time"
)

type Obligation struct {
	Rule      string   `json:"rule"`
	Func      string   `json:"func"`
	Construct string   `json:"construct"`
	Verdict   string   `json:"verdict"` // ok | violation | known | info
	Detail    string   `json:"detail,omitempty"`
	Pos       string   `json:"pos,omitempty"`
	Path      []string `json:"path,omitempty"`
}

func (o *Obligation) key() string { return o.Rule + "|" + o.Func + "|" + o.Construct }

type KnownFinding struct {
	Property  string `json:"property"`
	Rule      string `json:"rule"`
	Func      string `json:"func"`
	Construct string `json:"construct"`
	FailsFor  string `json:"fails_for"`
	Status    string `json:"status"` // "known" or "fixed: <commit>"
}

type KnownFile struct {
	Findings []KnownFinding `json:"findings"`
	Fixed    []string       `json:"fixed"`
}

type Run struct {
	P          *Program
	Property   string
	Tier       string
	Seed       int64
	Obls       []*Obligation
	floors     map[string]int
	Assumes    []string
	Explain    string
	NotDecided string
	Rules      []string
	known      []KnownFinding
	FnsSeen    map[string]bool
	Extra      map[string]interface{}
	t0         time.Time
}

func (r *Run) add(verdict, rule, fn, construct, detail, pos string, path []string) *Obligation {
	if verdict == "violation" {
		for _, old := range r.Obls {
			if old.Verdict == "violation" && old.Rule == rule && old.Func == fn && old.Construct == construct {
				if pos != "" && !strings.Contains(old.Detail, pos) && len(old.Detail) < 1500 {
					old.Detail += " | also at " + pos
				}
				return old
			}
		}
	}
	o := &Obligation{Rule: rule, Func: fn, Construct: construct, Verdict: verdict, Detail: detail, Pos: pos, Path: path}
	r.Obls = append(r.Obls, o)
	if os.Getenv("OLINT_DUMP") != "" {
		fmt.Fprintf(os.Stderr, "OBL\t%s\t%s\t%s\t%s\t%s\n", verdict, rule, fn, construct, detail)
	}
	if fn != "" {
		r.FnsSeen[fn] = true
	}
	return o
}

func (r *Run) OK(rule, fn, construct, detail string) {
	r.add("ok", rule, fn, construct, detail, "", nil)
}
func (r *Run) Info(rule, fn, construct, detail string) {
	r.add("info", rule, fn, construct, detail, "", nil)
}
func (r *Run) Viol(rule, fn, construct, detail, pos string, path []string) {
	r.add("violation", rule, fn, construct, detail, pos, path)
}

// Check records ok or violation.
func (r *Run) Check(cond bool, rule, fn, construct, okDetail, badDetail, pos string) bool {
	if cond {
		r.add("ok", rule, fn, construct, okDetail, pos, nil)
	} else {
		r.add("violation", rule, fn, construct, badDetail, pos, nil)
	}
	return cond
}

// Floor: the rule (prefix) must have produced at least n obligations, otherwise the run is undecided.
func (r *Run) Floor(rulePrefix string, n int) { r.floors[rulePrefix] = n }

func (r *Run) Assume(s string) { r.Assumes = append(r.Assumes, s) }

func loadKnown(verifDir string) []KnownFinding {
	b, err := os.ReadFile(filepath.Join(verifDir, "known_findings.json"))
	if err != nil {
		return nil
	}
	var kf KnownFile
	if err := json.Unmarshal(b, &kf); err != nil {
		fail("known_findings.json unreadable: %v", err)
	}
	return kf.Findings
}

func (r *Run) isKnown(o *Obligation) *KnownFinding {
	for i := range r.known {
		k := &r.known[i]
		if k.Status != "known" {
			continue
		}
		if k.Property == r.Property && k.Rule == o.Rule && k.Func == o.Func && k.Construct == o.Construct {
			return k
		}
	}
	return nil
}

type propertyDef struct {
	ID         string
	Title      string
	Explain    string // clauses decided
	NotDecided string
	Run        func(r *Run)
}

var registry = map[string]*propertyDef{}

func register(d *propertyDef) { registry[d.ID] = d }

// execute runs one property and returns the exit code.
func execute(p *Program, def *propertyDef, tier string, verifDir string) (code int) {
	seed := int64(0)
	if s := os.Getenv("VERIF_SEED"); s != "" {
		seed, _ = strconv.ParseInt(s, 10, 64)
	}
	r := &Run{P: p, Property: def.ID, Tier: tier, Seed: seed, floors: map[string]int{}, FnsSeen: map[string]bool{},
		Extra: map[string]interface{}{}, t0: time.Now(), Explain: def.Explain, NotDecided: def.NotDecided}
	evPath := filepath.Join(verifDir, "evidence", def.ID+".json")
	os.MkdirAll(filepath.Join(verifDir, "evidence", "replay"), 0o755)
	os.Remove(evPath)
	und := ""
	func() {
		defer func() {
			if e := recover(); e != nil {
				if u, ok := e.(undecided); ok {
					und = u.reason
					return
				}
				und = fmt.Sprintf("analysis panicked: %v", e)
				if os.Getenv("OLINT_DEBUG") != "" {
					panic(e)
				}
			}
		}()
		r.known = loadKnown(verifDir)
		def.Run(r)
		// floors
		for pref, n := range r.floors {
			cnt := 0
			for _, o := range r.Obls {
				if strings.HasPrefix(o.Rule, pref) && o.Verdict != "info" {
					cnt++
				}
			}
			if cnt < n {
				fail("rule %s matched %d instances, below its confirmed floor %d (vacuous pass refused)", pref, cnt, n)
			}
		}
	}()
	if und != "" {
		// a violation found before the analysis had to stop is still a violation: report it (exit 1) and mention the
		// part that could not be decided; with nothing found the verdict stays UNDECIDED (exit 2)
		found := false
		for _, o := range r.Obls {
			if o.Verdict == "violation" && r.isKnown(o) == nil {
				found = true
			}
		}
		if !found {
			fmt.Printf("UNDECIDED property=%s reason=%s\n", def.ID, und)
			r.writeEvidence(evPath, und)
			return 2
		}
		fmt.Printf("  note: the analysis of %s stopped early (%s); the violations found up to that point are reported\n", def.ID, und)
	}
	// verdicts
	sort.SliceStable(r.Obls, func(i, j int) bool { return r.Obls[i].key() < r.Obls[j].key() })
	nviol := 0
	// clean old replay files of this property
	old, _ := filepath.Glob(filepath.Join(verifDir, "evidence", "replay", def.ID+"-*.json"))
	for _, f := range old {
		os.Remove(f)
	}
	seenKnown := map[string]bool{}
	for _, o := range r.Obls {
		if o.Verdict != "violation" {
			continue
		}
		if k := r.isKnown(o); k != nil {
			o.Verdict = "known"
			if !seenKnown[o.key()] {
				seenKnown[o.key()] = true
				fmt.Printf("KNOWN-FINDING: property=%s rule=%s func=%s construct=%s :: %s\n", def.ID, o.Rule, o.Func, o.Construct, k.FailsFor)
			}
			continue
		}
		nviol++
		rp := filepath.Join(verifDir, "evidence", "replay", fmt.Sprintf("%s-%d.json", def.ID, nviol))
		b, _ := json.MarshalIndent(o, "", " ")
		os.WriteFile(rp, b, 0o644)
		fmt.Printf("  rule=%s func=%s construct=%q at %s: %s\n", o.Rule, o.Func, o.Construct, o.Pos, o.Detail)
		if len(o.Path) > 0 {
			fmt.Printf("    path: %s\n", strings.Join(o.Path, " -> "))
		}
		fmt.Printf("VIOLATION property=%s replay=%s\n", def.ID, rp)
	}
	r.writeEvidence(evPath, "")
	if nviol > 0 {
		return 1
	}
	return 0
}

func (r *Run) writeEvidence(path string, undecidedReason string) {
	type cov struct {
		Explanation        string                 `json:"explanation"`
		NotDecided         string                 `json:"not_decided"`
		Obligations        int                    `json:"obligations"`
		Discharged         int                    `json:"discharged"`
		Evaluations        int                    `json:"evaluations"`
		DistinctNontrivial int                    `json:"distinct_nontrivial"`
		Rule               string                 `json:"rule"`
		Samples            []*Obligation          `json:"samples"`
		CheckerCmd         string                 `json:"checker_cmd"`
		TrustedBase        []string               `json:"trusted_base"`
		RulesApplied       map[string]int         `json:"rules_applied"`
		FunctionsAnalysed  []string               `json:"functions_analysed"`
		Packages           int                    `json:"packages_loaded"`
		SSAFunctions       int                    `json:"ssa_functions"`
		Patterns           []string               `json:"load_patterns"`
		TypeErrsOutside    []string               `json:"type_errors_outside_node_closure,omitempty"`
		Known              []*Obligation          `json:"known_findings,omitempty"`
		ViolationsList     []*Obligation          `json:"violations,omitempty"`
		Undecided          string                 `json:"undecided,omitempty"`
		Extra              map[string]interface{} `json:"extra,omitempty"`
	}
	c := cov{Explanation: r.Explain, NotDecided: r.NotDecided, RulesApplied: map[string]int{}, Extra: r.Extra, Undecided: undecidedReason}
	distinct := map[string]bool{}
	nviol := 0
	for _, o := range r.Obls {
		if o.Verdict == "info" {
			continue
		}
		c.Obligations++
		c.RulesApplied[o.Rule]++
		distinct[o.key()] = true
		switch o.Verdict {
		case "ok":
			c.Discharged++
		case "known":
			c.Known = append(c.Known, o)
		case "violation":
			nviol++
			c.ViolationsList = append(c.ViolationsList, o)
		}
	}
	c.Evaluations = c.Obligations
	c.DistinctNontrivial = len(distinct)
	c.Rule = "one evaluation = one rule instance (rule id + function + construct) whose premise matched in the resolved program of /repo; distinct = distinct (rule, function, construct) keys; info rows are not counted"
	// samples: up to 40 obligations, violations/known first, then a spread of ok ones
	var samples []*Obligation
	for _, o := range r.Obls {
		if o.Verdict == "violation" || o.Verdict == "known" {
			samples = append(samples, o)
		}
	}
	step := 1
	if len(r.Obls) > 40 {
		step = len(r.Obls) / 40
	}
	for i := 0; i < len(r.Obls) && len(samples) < 60; i += step {
		if r.Obls[i].Verdict == "ok" || r.Obls[i].Verdict == "info" {
			samples = append(samples, r.Obls[i])
		}
	}
	c.Samples = samples
	if c.Samples == nil {
		c.Samples = []*Obligation{}
	}
	c.CheckerCmd = fmt.Sprintf("./bin/olint check -property %s -tier %s", r.Property, r.Tier)
	c.TrustedBase = []string{
		"Go type checker and golang.org/x/tools v0.29.0 go/packages, go/ssa",
		"VTA call graph (over CHA) is sound for the constructs on the node's paths (no reflect-based dispatch, no unsafe)",
		"library summaries listed in the checker tables (sort.*, bytes.Equal, math/big, IAVL, tm-db)",
		"Tendermint serialises ABCI calls (local client mutex)",
	}
	for f := range r.FnsSeen {
		c.FunctionsAnalysed = append(c.FunctionsAnalysed, f)
	}
	sort.Strings(c.FunctionsAnalysed)
	if r.P != nil {
		c.Packages = len(r.P.AllPkgs)
		c.SSAFunctions = len(r.P.Fns)
		c.Patterns = r.P.Patterns
		c.TypeErrsOutside = r.P.TypeErrs
		if len(c.TypeErrsOutside) > 10 {
			c.TypeErrsOutside = c.TypeErrsOutside[:10]
		}
	}
	ev := map[string]interface{}{
		"property_id": r.Property,
		"tier":        r.Tier,
		"seed":        r.Seed,
		"level":       "other",
		"coverage":    c,
		"assumptions": append([]string{"the analysis is deterministic; VERIF_SEED is echoed but unused"}, r.Assumes...),
		"wall_s":      time.Since(r.t0).Seconds() + r.loadS(),
		"violations":  nviol,
	}
	b, _ := json.MarshalIndent(ev, "", " ")
	os.MkdirAll(filepath.Dir(path), 0o755)
	if err := os.WriteFile(path, b, 0o644); err != nil {
		fmt.Fprintln(os.Stderr, "cannot write evidence:", err)
	}
}

func (r *Run) loadS() float64 {
	if r.P == nil {
		return 0
	}
	return r.P.LoadS
}
