package main

// C14 Governance lifecycle.

import (
	"go/token"
	"strings"

	"golang.org/x/tools/go/ssa"
)

const (
	fnPropGet    = "(*data/governance.ProposalStore).Get"
	fnPropSet    = "(*data/governance.ProposalStore).Set"
	fnPropDel    = "(*data/governance.ProposalStore).Delete"
	fnPropPrefix = "(*data/governance.ProposalStore).WithPrefixType"
	fnAddFunds   = "(*data/governance.ProposalFundStore).AddFunds"
	fnDeductF    = "(*data/governance.ProposalFundStore).DeductFunds"
	fnDelFunds   = "(*data/governance.ProposalFundStore).DeleteAllFunds"
	fnCurFunds   = "(*data/governance.ProposalFundStore).GetCurrentFundsForProposal"
	fnVoteUpd    = "(*data/governance.ProposalVoteStore).Update"
	fnVoteSetup  = "(*data/governance.ProposalVoteStore).Setup"
	fnResultSoF  = "(*data/governance.ProposalVoteStore).ResultSoFar"
)

func init() {
	register(&propertyDef{
		ID:    "C14",
		Title: "Governance proposals follow their lifecycle and their funds are accounted for",
		Explain: "Decides on every path of the seven governance handlers (deliver side): each handler acts only on a proposal read from the store(s) of the expected state and past the status/outcome and deadline comparisons of its lifecycle step " +
			"(fund: Funding and height <= funding deadline; cancel: Funding, before the deadline, proposer equality; vote: Voting and height <= voting deadline; expire: Voting and voting deadline < height; " +
			"withdraw: cancelled/insufficient-funds or goal missed after the deadline; finalize: Completed, not yet finalized, decided result); the move to voting lies behind total-record + contribution >= goal and snapshots the validators; " +
			"passed/failed moves lie behind the matching vote result; the configuration update runs only on PASSED and ConfigUpdate; contributions are debited before being recorded and refunded only after DeductFunds succeeded, with the message's own datum; " +
			"distribution is followed by DeleteAllFunds and the move to Finalized; a vote rewrites only the opinion of the snapshotted record; the tally compares unrounded shares.",
		NotDecided: "the float vote arithmetic itself, totals of funds over histories, exactly-once application of a configuration change across blocks",
		Run:        runC14,
	})
}

func govConst(p *Program, name string) int64 { return constValue(p, Mod+"/data/governance", name) }

// propStore: v is ProposalStore.WithPrefixType(<const k>).
func propStore(k int64) VPred {
	return func(v ssa.Value) bool {
		c, ok := v.(*ssa.Call)
		if !ok || calleeName(c) != fnPropPrefix {
			return false
		}
		got, isC := intConst(c.Call.Args[1])
		return isC && got == k
	}
}

func runC14(r *Run) {
	checkAllStores(r, "C14.allstores", "(*data/governance.ProposalStore)", "a proposal id can be created again while its first proposal sits in that store: funds and fee are taken twice and two proposals share one id")
	p := r.P
	active, passed, failedS := govConst(p, "ProposalStateActive"), govConst(p, "ProposalStatePassed"), govConst(p, "ProposalStateFailed")
	finalized, finFailed := govConst(p, "ProposalStateFinalized"), govConst(p, "ProposalStateFinalizeFailed")
	stFunding, stVoting, stCompleted := govConst(p, "ProposalStatusFunding"), govConst(p, "ProposalStatusVoting"), govConst(p, "ProposalStatusCompleted")
	prop := func(f string) VPred { return recF(f, fnPropGet, "(*data/governance.ProposalStore).QueryAllStores") }
	statusIs := func(k int64, label string) GuardSpec {
		return cmpG("status == "+label, prop("Status"), token.EQL, constIs(k))
	}
	heightV := func(v ssa.Value) bool { return headerHeight(v) }

	// ---- fund
	fund := p.deliverEntry("PROPOSAL_FUND")
	fundSinks := callsTo(fnBalMinus, fnAddFunds, fnPropSet, fnVoteSetup)
	r.guardOb("C14.fund", fund, "fund effects", fundSinks, statusIs(stFunding, "Funding"), "funds are accepted (and voting restarted) for a proposal that is not in its funding stage")
	r.guardOb("C14.fund", fund, "fund effects", fundSinks, cmpG("height <= FundingDeadline", heightV, token.LEQ, prop("FundingDeadline")), "funds are accepted after the funding deadline")
	r.argCheck("C14.fund", fund, fnPropGet, 0, "the active store", propStore(active), "a proposal outside the active store can be funded")
	r.argCheck("C14.fund", fund, fnPropGet, 1, "msg.ProposalId", msgF(p, "ProposalId"), "another proposal than the named one is funded")
	// move to voting behind total + contribution >= goal, total read from the total record
	isCurFunds := func(y ssa.Value) bool { cc, ok := y.(*ssa.Call); return ok && calleeName(cc) == fnCurFunds }
	goalV := func(v ssa.Value) bool {
		return derivesFrom(v, func(y ssa.Value) bool { return prop("FundingGoal")(y) })
	}
	goal := bigCmpG("total record + contribution >= FundingGoal", func(v ssa.Value) bool {
		fromTotal := derivesFrom(v, isCurFunds)
		fromMsg := derivesFrom(v, func(y ssa.Value) bool { return msgF(p, "FundValue.Value")(y) || msgF(p, "FundValue")(y) })
		return fromTotal && fromMsg
	}, token.GEQ, goalV)
	votingStore := func(fn *ssa.Function, ins ssa.Instruction) bool {
		st, ok := ins.(*ssa.Store)
		if !ok {
			return false
		}
		k, isC := intConst(st.Val)
		return isC && k == stVoting && strings.HasSuffix(pathOf(st.Addr).FieldString(), "Status")
	}
	r.guardOb("C14.fund", fund, "Status = Voting", votingStore, goal, "a proposal can enter voting without its funding goal being met by the recorded total (or the total is not the total record)")
	r.guardOb("C14.fund", fund, "validator snapshot", callsTo(fnVoteSetup), goal, "the vote snapshot is taken although the goal was not met")
	// the snapshot happens whenever the status moves to voting: Setup is reachable from the status store, and Set(active) follows
	if vs := firstCall(fund, fnVoteSetup); vs != nil {
		r.Check(derivesFrom(vs.Call.Args[2], func(y ssa.Value) bool {
			c, ok := y.(*ssa.Call)
			return ok && calleeName(c) == "data/governance.NewProposalVote"
		}), "C14.fund", fname(fund), "snapshot of the active validators' power", "Setup(NewProposalVote(validator, UNKNOWN, power))", "the snapshot entry is not built from the validator list", p.ipos(vs))
	} else {
		r.Viol("C14.fund", fname(fund), "validator snapshot", "no ProposalVote.Setup call: voting begins without a snapshot", p.pos(fund.Pos()), nil)
	}
	r.guardOb("C14.fund", fund, "AddFunds", callsTo(fnAddFunds), errCallG("debit of msg.FunderAddress succeeded", []string{fnBalMinus}, nil, msgF(p, "FunderAddress"), coinFromMsg(p, "FundValue")),
		"a contribution is recorded without being debited from the funder")
	r.argCheck("C14.fund", fund, fnAddFunds, 2, "msg.FunderAddress", msgF(p, "FunderAddress"), "the contribution is recorded for someone else than the payer")
	r.argCheck("C14.fund", fund, fnAddFunds, 3, "amount from msg.FundValue", coinFromMsg(p, "FundValue"), "the recorded contribution differs from the debited amount")

	// ---- cancel
	cancel := p.deliverEntry("PROPOSAL_CANCEL")
	cSinks := callsTo(fnPropSet, fnPropDel)
	r.guardOb("C14.cancel", cancel, "cancel effects", cSinks, statusIs(stFunding, "Funding"), "a proposal that is already being voted on (or decided) can be cancelled: it moves backwards and funders withdraw money that should be distributed")
	r.guardOb("C14.cancel", cancel, "cancel effects", cSinks, cmpG("height <= FundingDeadline", heightV, token.LEQ, prop("FundingDeadline")), "cancellation after the funding deadline")
	r.guardOb("C14.cancel", cancel, "cancel effects", cSinks, eqG("stored proposer == msg.Proposer", true, prop("Proposer"), msgF(p, "Proposer")), "someone else than the proposer cancels")
	r.argCheck("C14.cancel", cancel, fnPropGet, 0, "the active store", propStore(active), "a proposal outside the active store can be cancelled")
	r.argCheck("C14.cancel", cancel, fnPropSet, 0, "the failed store", propStore(failedS), "the cancelled proposal is filed elsewhere")

	// ---- vote
	vote := p.deliverEntry("PROPOSAL_VOTE")
	vSinks := callsTo(fnVoteUpd, fnPropSet, fnPropDel)
	r.guardOb("C14.vote", vote, "vote effects", vSinks, statusIs(stVoting, "Voting"), "votes are accepted outside the voting stage")
	r.guardOb("C14.vote", vote, "vote effects", vSinks, cmpG("height <= VotingDeadline", heightV, token.LEQ, prop("VotingDeadline")), "votes are accepted after the voting deadline")
	r.argCheck("C14.vote", vote, fnPropGet, 0, "the active store", propStore(active), "a decided proposal can be voted on again")
	resIs := func(name string, want bool) GuardSpec {
		k := govConst(p, name)
		op := token.EQL
		if !want {
			op = token.NEQ
		}
		return cmpG("result "+op.String()+" "+name, recF("Result", fnResultSoF), op, constIs(k))
	}
	r.guardOb("C14.vote", vote, "move to the passed store", callsToWith([]string{fnPropSet}, propStore(passed)), resIs("VOTE_RESULT_PASSED", true), "a proposal is filed as passed without the tally saying so")
	r.guardOb("C14.vote", vote, "move to the failed store", callsToWith([]string{fnPropSet}, propStore(failedS)), resIs("VOTE_RESULT_FAILED", true), "a proposal is filed as failed without the tally saying so")
	r.guardOb("C14.vote", vote, "removal from the active store", callsTo(fnPropDel), resIs("VOTE_RESULT_TBD", false), "an undecided proposal leaves the active store")
	r.guardOb("C14.vote", vote, "result evaluation", callsTo(fnResultSoF), errCallG("vote recorded", []string{fnVoteUpd}), "the tally is taken although the vote was refused (a non-snapshotted address decides)")
	if c := firstCall(vote, fnResultSoF); c != nil {
		r.Check(msgF(p, "ProposalID")(c.Call.Args[1]) || prop("ProposalID")(c.Call.Args[1]), "C14.vote", fname(vote), "tally of the voted proposal", "ResultSoFar(this proposal)", "the tally of another proposal decides", p.ipos(c))
	}
	// vote store: only the opinion of the stored (snapshot) record is rewritten
	vu := p.MustFn(fnVoteUpd)
	var stores []string
	allInstrs(vu, func(ins ssa.Instruction) {
		if st, ok := ins.(*ssa.Store); ok {
			if fa, ok := st.Addr.(*ssa.FieldAddr); ok {
				if n := namedOf(fa.X.Type()); n != nil && tname(n) == "data/governance.ProposalVote" {
					stores = append(stores, fieldName(fa.X.Type(), fa.Field))
				}
			}
		}
	})
	get := firstCallIn(vu, "invoke:(storage.Store).Get")
	if get == nil {
		get = firstCallIn(vu, fnStateGet)
	}
	setc := firstCallIn(vu, "invoke:(storage.Store).Set")
	if setc == nil {
		setc = firstCallIn(vu, fnStateSet)
	}
	okUpd := len(stores) == 1 && stores[0] == "Opinion" && get != nil && setc != nil
	if okUpd {
		// the written bytes derive from the record read under the same key
		okUpd = derivesFrom(setc.Call.Args[len(setc.Call.Args)-1], func(y ssa.Value) bool { s, i := tupleSource(y); return s == ssa.Value(get) && i == 0 }) &&
			samePath(callArgs(get)[1], callArgs(setc)[1])
	}
	r.Check(okUpd, "C14.vote", fname(vu), "Update rewrites only Opinion of the snapshotted record",
		"the stored record (with its snapshot power) is read, only its Opinion is replaced, and it is written back under the same key",
		"a vote can change more than the opinion of the snapshotted record (e.g. its power), or writes a record that was not snapshotted", p.pos(vu.Pos()))
	g := errCallG("record exists", []string{"invoke:(storage.Store).Get", fnStateGet})
	if setc != nil {
		e := g.Edges(p, vu)
		r.Check(len(e) > 0 && !reachWithout(vu, e)[setc.Block()], "C14.vote", fname(vu), "only snapshotted validators can vote", "the write lies behind the successful read of the snapshot entry",
			"a vote record can be created for an address that was not in the snapshot", p.ipos(setc))
	}

	// ---- expire
	exp := p.deliverEntry("EXPIRE_VOTES")
	eSinks := callsTo(fnPropSet, fnPropDel)
	r.guardOb("C14.expire", exp, "expiry effects", eSinks, statusIs(stVoting, "Voting"), "a proposal that is not in voting (e.g. still collecting funds) can be expired")
	r.guardOb("C14.expire", exp, "expiry effects", eSinks, cmpG("VotingDeadline < height", prop("VotingDeadline"), token.LSS, heightV), "a proposal can be expired before its voting deadline (by anyone: the transaction is on the public router)")
	r.argCheck("C14.expire", exp, fnPropGet, 0, "the active store", propStore(active), "a decided proposal can be expired")

	// ---- withdraw
	wd := p.deliverEntry("PROPOSAL_WITHDRAW_FUNDS")
	wSinks := callsTo(fnDeductF, fnBalAdd)
	oc := func(name string) GuardSpec {
		return cmpG("outcome == "+name, prop("Outcome"), token.EQL, constIs(govConst(p, name)))
	}
	missed := bigCmpG("recorded total < goal", func(v ssa.Value) bool { return derivesFrom(v, isCurFunds) && !goalV(v) }, token.LSS, goalV)
	late := cmpG("height > FundingDeadline", heightV, token.GTR, prop("FundingDeadline"))
	r.guardOb("C14.withdraw", wd, "refund", wSinks, &AnyGuard{Name: "cancelled / insufficient funds / goal missed", Alts: []GuardSpec{oc("ProposalOutcomeCancelled"), oc("ProposalOutcomeInsufficientFunds"), missed}},
		"funds of a proposal that met its goal can be withdrawn (they must be distributed at finalisation)")
	r.guardOb("C14.withdraw", wd, "refund", wSinks, &AnyGuard{Name: "cancelled / insufficient funds / after the funding deadline", Alts: []GuardSpec{oc("ProposalOutcomeCancelled"), oc("ProposalOutcomeInsufficientFunds"), late}},
		"funds can be withdrawn while the proposal is still collecting")
	r.guardOb("C14.withdraw", wd, "credit", callsTo(fnBalAdd), errCallG("DeductFunds succeeded", []string{fnDeductF}, nil, nil, msgF(p, "Funder")), "the refund is paid although the escrow record could not be reduced")
	r.guardOb("C14.withdraw", wd, "refund", wSinks, boolCallG("msg.Funder funded this proposal", true, []string{"(*data/governance.ProposalFundStore).IsFundedByFunder"}, nil, nil, msgF(p, "Funder")), "a non-funder is refunded")
	r.argCheck("C14.withdraw", wd, fnDeductF, 3, "amount from msg.WithdrawValue", coinFromMsg(p, "WithdrawValue"), "deducted amount differs from the message")
	r.argCheck("C14.withdraw", wd, fnBalAdd, 2, "coin from msg.WithdrawValue", coinFromMsg(p, "WithdrawValue"), "credited amount differs from the deducted one")

	// ---- finalize
	fin := p.deliverEntry("PROPOSAL_FINALIZE")
	finSinks := callsTo("action/governance.distributeFunds", "action/governance.setToFinalizeFromPassed", "action/governance.setToFinalizeFromFailed", "action/governance.setToFinalizeFailed")
	notIn := func(label string, k int64) GuardSpec {
		// Get on store k failed (err != nil): the proposal is not there
		return &EdgeGuard{Name: "not in the " + label + " store", Classify: func(_ *Program, _ *ssa.Function, cond ssa.Value, _ *ssa.If) int {
			return -nilCond(cond, func(v ssa.Value) bool {
				s, i := tupleSource(v)
				c, ok := s.(*ssa.Call)
				return ok && i == 1 && calleeName(c) == fnPropGet && propStore(k)(c.Call.Args[0])
			})
		}}
	}
	r.guardOb("C14.finalize", fin, "finalisation effects", finSinks, notIn("finalized", finalized), "a finalized proposal is finalized again (funds distributed / configuration applied twice)")
	r.guardOb("C14.finalize", fin, "finalisation effects", finSinks, notIn("finalize-failed", finFailed), "a proposal whose finalisation failed is processed again")
	r.guardOb("C14.finalize", fin, "finalisation effects", finSinks, statusIs(stCompleted, "Completed"), "a proposal that is not completed is finalized")
	r.guardOb("C14.finalize", fin, "finalisation effects", finSinks, resIs("VOTE_RESULT_TBD", false), "an undecided proposal is finalized")
	// the configuration update call: a dynamic call of a function value taken from GovernanceUpdateFunction
	updCall := func(fn *ssa.Function, ins ssa.Instruction) bool {
		c, ok := ins.(*ssa.Call)
		if !ok || c.Call.StaticCallee() != nil || c.Call.IsInvoke() {
			return false
		}
		return derivesFrom(c.Call.Value, func(y ssa.Value) bool { return strings.HasSuffix(pathOf(y).FieldString(), "GovernanceUpdateFunction") })
	}
	r.guardOb("C14.finalize", fin, "configuration update", updCall, resIs("VOTE_RESULT_PASSED", true), "a configuration change is applied for a proposal that did not pass")
	r.guardOb("C14.finalize", fin, "configuration update", updCall, cmpG("type == ConfigUpdate", prop("Type"), token.EQL, constIs(govConst(p, "ProposalTypeConfigUpdate"))), "a configuration change is applied for a proposal of another type")
	r.guardOb("C14.finalize", fin, "move to finalized (passed)", callsTo("action/governance.setToFinalizeFromPassed"), errCallG("distribution succeeded", []string{"action/governance.distributeFunds"}), "a proposal is marked finalized although its funds were not distributed")
	r.guardOb("C14.finalize", fin, "move to finalized (failed)", callsTo("action/governance.setToFinalizeFromFailed"), errCallG("distribution succeeded", []string{"action/governance.distributeFunds"}), "a proposal is marked finalized although its funds were not distributed")
	// distributeFunds ends with DeleteAllFunds after the credits
	df := p.MustFn("action/governance.distributeFunds")
	delF := firstCallIn(df, fnDelFunds)
	okDel := delF != nil
	if okDel {
		for _, ret := range returnsOf(df) {
			if errMayBeNil(ret) && !dominatesInstr(delF, ret) {
				okDel = false
			}
		}
	}
	r.Check(okDel, "C14.finalize", fname(df), "DeleteAllFunds before a successful return", "the escrow records are removed on every successful distribution",
		"funds can be distributed without the escrow records being deleted (they could be distributed or withdrawn again)", p.pos(df.Pos()))
	// the distributed base is the recorded total
	if c := firstCallIn(df, fnCurFunds); c != nil {
		r.OK("C14.finalize", fname(df), "distribution base is the recorded total", "GetCurrentFundsForProposal(proposal)")
	} else {
		r.Viol("C14.finalize", fname(df), "distribution base is the recorded total", "distributeFunds no longer starts from the recorded total of the proposal", p.pos(df.Pos()), nil)
	}
	// every share is a floor share of the total and is subtracted from the tracker; remainder to the fee pool
	gp := p.MustFn("action/governance.getPercentageCoin")
	div := firstCallIn(gp, "(data/balance.Coin).DivideInt64")
	mns := firstCallIn(gp, "(data/balance.Coin).Minus")
	r.Check(div != nil && mns != nil, "C14.finalize", fname(gp), "share = floor(total * pct) and is subtracted from the remainder tracker", "DivideInt64 + Minus on the tracker",
		"a distributed share is no longer a floor share taken off the remainder tracker (more than the contributions can be paid out)", p.pos(gp.Pos()))

	// ---- tally: unrounded shares
	rs := p.MustFn(fnResultSoF)
	rounded := ""
	allInstrs(rs, func(ins ssa.Instruction) {
		n := calleeName(ins)
		if strings.HasPrefix(n, "math.Round") || n == "math.Floor" || n == "math.Ceil" || n == "math.Trunc" {
			rounded = n
		}
		if cv, ok := ins.(*ssa.Convert); ok {
			// float -> int conversion of a share
			if strings.Contains(cv.X.Type().String(), "float") && !strings.Contains(cv.Type().String(), "float") {
				rounded = "float-to-integer conversion"
			}
		}
	})
	r.Check(rounded == "", "C14.tally", fname(rs), "shares compared unrounded", "no rounding between the share computation and the threshold comparison",
		"the vote shares are rounded ("+rounded+") before being compared with the pass percentage: a proposal just under the threshold passes", p.pos(rs.Pos()))
	checkOptionsValidated(r, "C14.options", "ValidateProposal", 15)
	checkGoalBoundary(r)
	checkFundTotalRead(r)
	r.Floor("C14.", 45)
}
