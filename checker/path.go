package main

// P-PATH: access-path normalisation of SSA values.

import (
	"fmt"
	"go/token"
	"go/types"
	"strings"

	"golang.org/x/tools/go/ssa"
)

// APath is a root value plus a field path.
type APath struct {
	Root    ssa.Value
	Fields  []string
	Indices []ssa.Value // non-constant index values met on the way
}

func (a APath) String() string {
	r := rootString(a.Root)
	if len(a.Fields) == 0 {
		return r
	}
	return r + "." + strings.Join(a.Fields, ".")
}

func (a APath) FieldString() string { return strings.Join(a.Fields, ".") }

func rootString(v ssa.Value) string {
	switch x := v.(type) {
	case nil:
		return "?"
	case *ssa.Parameter:
		return "param:" + x.Name()
	case *ssa.Alloc:
		t := x.Type().(*types.Pointer).Elem()
		return "alloc:" + tname(t)
	case *ssa.Global:
		return "global:" + x.Name()
	case *ssa.Call:
		return "call:" + calleeName(x)
	case *ssa.Const:
		if x.Value == nil {
			return "const:nil"
		}
		return "const:" + x.Value.String()
	case *ssa.FreeVar:
		return "freevar:" + x.Name()
	case *ssa.Extract:
		return fmt.Sprintf("%s#%d", rootString(x.Tuple), x.Index)
	case *ssa.Phi:
		return "phi:" + x.Name()
	case *ssa.MakeClosure:
		return "closure"
	case *ssa.Function:
		return "func:" + fname(x)
	case *ssa.Lookup:
		return "lookup"
	case *ssa.Next:
		return "next"
	}
	return fmt.Sprintf("%T", v)
}

// identity-like methods/functions: the result denotes the same datum as the first argument.
var identityCalls = map[string]bool{
	"(data/keys.Address).Bytes":     true,
	"(action.Address).Bytes":        true,
	"(data/keys.Address).String":    true,
	"(data/keys.Address).Humanize":  true,
	"(data/balance.Amount).BigInt":  false,
	"(*data/balance.Amount).BigInt": false,
}

func isIdentityCall(c *ssa.Call) bool {
	n := calleeName(c)
	if identityCalls[n] {
		return true
	}
	// method Bytes() on a named []byte type returns the receiver
	if sc := c.Call.StaticCallee(); sc != nil && sc.Name() == "Bytes" && sc.Signature.Recv() != nil && len(c.Call.Args) == 1 {
		if _, ok := sc.Signature.Recv().Type().Underlying().(*types.Slice); ok {
			return true
		}
	}
	return false
}

// wholeStore: if alloc a receives exactly one whole-value Store (a spilled parameter / copy) returns that value.
func wholeStore(a *ssa.Alloc) ssa.Value {
	var only ssa.Value
	n := 0
	if a.Referrers() == nil {
		return nil
	}
	for _, r := range *a.Referrers() {
		if st, ok := r.(*ssa.Store); ok && st.Addr == ssa.Value(a) {
			only = st.Val
			n++
		}
	}
	if n == 1 {
		return only
	}
	return nil
}

func fieldName(t types.Type, i int) string {
	for {
		if p, ok := t.Underlying().(*types.Pointer); ok {
			t = p.Elem()
			continue
		}
		break
	}
	if s, ok := t.Underlying().(*types.Struct); ok && i < s.NumFields() {
		return s.Field(i).Name()
	}
	return fmt.Sprintf("#%d", i)
}

// pathOf normalises v. Free variables are resolved into the enclosing function through the MakeClosure binding.
func pathOf(v ssa.Value) APath {
	return pathOf0(v, nil)
}

func pathOf0(v ssa.Value, phiSeen map[*ssa.Phi]bool) APath {
	var fields []string
	var indices []ssa.Value
	depth := 0
	for depth < 64 {
		depth++
		switch x := v.(type) {
		case *ssa.FieldAddr:
			fields = append([]string{fieldName(x.X.Type(), x.Field)}, fields...)
			v = x.X
		case *ssa.Field:
			fields = append([]string{fieldName(x.X.Type(), x.Field)}, fields...)
			v = x.X
		case *ssa.UnOp:
			if x.Op == token.MUL {
				// load: transparent; a load from a spill alloc resolves to the stored value
				if a, ok := x.X.(*ssa.Alloc); ok {
					if w := wholeStore(a); w != nil && !isZeroInit(w) {
						v = w
						continue
					}
				}
				v = x.X
				continue
			}
			return APath{v, fields, indices}
		case *ssa.Alloc:
			if w := wholeStore(x); w != nil && !isZeroInit(w) {
				if _, isParam := w.(*ssa.Parameter); isParam {
					v = w
					continue
				}
				if _, isLoad := w.(*ssa.UnOp); isLoad {
					v = w
					continue
				}
				if _, isFV := w.(*ssa.FreeVar); isFV {
					v = w
					continue
				}
			}
			return APath{v, fields, indices}
		case *ssa.ChangeType:
			v = x.X
		case *ssa.Convert:
			v = x.X
		case *ssa.MakeInterface:
			v = x.X
		case *ssa.ChangeInterface:
			v = x.X
		case *ssa.TypeAssert:
			v = x.X
		case *ssa.Slice:
			if x.Low == nil && x.High == nil {
				v = x.X
				continue
			}
			return APath{v, fields, indices}
		case *ssa.IndexAddr:
			idx := "[*]"
			if k, ok := intConst(x.Index); ok {
				idx = fmt.Sprintf("[%d]", k)
			} else {
				indices = append(indices, x.Index)
			}
			fields = append([]string{idx}, fields...)
			v = x.X
		case *ssa.Index:
			idx := "[*]"
			if k, ok := intConst(x.Index); ok {
				idx = fmt.Sprintf("[%d]", k)
			} else {
				indices = append(indices, x.Index)
			}
			fields = append([]string{idx}, fields...)
			v = x.X
		case *ssa.Call:
			if isIdentityCall(x) {
				v = x.Call.Args[0]
				continue
			}
			return APath{v, fields, indices}
		case *ssa.FreeVar:
			b := freeVarBinding(x)
			if b == nil {
				return APath{v, fields, indices}
			}
			v = b
		case *ssa.Phi:
			// all edges the same datum?
			var first *APath
			same := true
			if phiSeen == nil {
				phiSeen = map[*ssa.Phi]bool{}
			}
			if phiSeen[x] || len(phiSeen) > 8 {
				return APath{v, fields, indices}
			}
			phiSeen[x] = true
			for _, e := range x.Edges {
				if e == ssa.Value(x) {
					continue
				}
				pe := pathOf0(e, phiSeen)
				if first == nil {
					first = &pe
				} else if first.String() != pe.String() || first.Root != pe.Root {
					same = false
				}
			}
			if same && first != nil {
				return APath{first.Root, append(append([]string{}, first.Fields...), fields...), append(append([]ssa.Value{}, first.Indices...), indices...)}
			}
			return APath{v, fields, indices}
		default:
			return APath{v, fields, indices}
		}
	}
	return APath{v, fields, indices}
}

func isZeroInit(v ssa.Value) bool {
	c, ok := v.(*ssa.Const)
	return ok && c.Value == nil
}

// freeVarBinding: the value bound to the free variable at the (single) MakeClosure of its function.
func freeVarBinding(fv *ssa.FreeVar) ssa.Value {
	fn := fv.Parent()
	par := fn.Parent()
	if par == nil {
		return nil
	}
	idx := -1
	for i, f := range fn.FreeVars {
		if f == fv {
			idx = i
		}
	}
	if idx < 0 {
		return nil
	}
	var res ssa.Value
	n := 0
	for _, b := range par.Blocks {
		for _, ins := range b.Instrs {
			if mc, ok := ins.(*ssa.MakeClosure); ok && mc.Fn == ssa.Value(fn) {
				res = mc.Bindings[idx]
				n++
			}
		}
	}
	if n == 1 {
		return res
	}
	return nil
}

// samePath: two values denote the same datum.
func samePath(a, b ssa.Value) bool {
	pa, pb := pathOf(a), pathOf(b)
	return pa.Root == pb.Root && pa.FieldString() == pb.FieldString()
}

// derivesFrom: does v (transitively through pure operators, calls and phis) depend on a value satisfying pred?
// Bounded backwards def-use walk inside one function (and into free-variable bindings).
func derivesFrom(v ssa.Value, pred func(ssa.Value) bool) bool {
	return derivesFromStop(v, pred, nil)
}

// derivesFromStop: as derivesFrom, but the walk does not descend into a value for which stop holds (used to ask "is v
// this datum itself, or a sum containing it" rather than "does v depend on it in any way").
func derivesFromStop(v ssa.Value, pred func(ssa.Value) bool, stop func(ssa.Value) bool) bool {
	seen := map[ssa.Value]bool{}
	var walk func(ssa.Value, int) bool
	walk = func(x ssa.Value, d int) bool {
		if x == nil || seen[x] || d > 60 {
			return false
		}
		seen[x] = true
		if pred(x) {
			return true
		}
		if stop != nil && stop(x) {
			return false
		}
		switch y := x.(type) {
		case *ssa.FreeVar:
			if b := freeVarBinding(y); b != nil {
				return walk(b, d+1)
			}
			return false
		case *ssa.Alloc:
			// values stored into the alloc (or into its fields/elements)
			return allocStoresDerive(y, func(s ssa.Value) bool { return walk(s, d+1) })
		case *ssa.Const, *ssa.Parameter, *ssa.Global, *ssa.Function, *ssa.Builtin:
			return false
		case *ssa.MakeSlice:
			// contents written by copy(dst, src) / append into a slice of it
			if copiedInto(y, func(s ssa.Value) bool { return walk(s, d+1) }) {
				return true
			}
		case *ssa.Call:
			// digest idiom: h.Sum(..) depends on everything written with h.Write(..)
			if y.Call.IsInvoke() && y.Call.Method.Name() == "Sum" {
				hv := y.Call.Value
				found := false
				allInstrs(y.Parent(), func(ins ssa.Instruction) {
					if w, ok := ins.(*ssa.Call); ok && w.Call.IsInvoke() && w.Call.Method.Name() == "Write" && w.Call.Value == hv {
						for _, a := range w.Call.Args {
							if walk(a, d+1) {
								found = true
							}
						}
					}
				})
				if found {
					return true
				}
			}
		}
		if ins, ok := x.(ssa.Instruction); ok {
			for _, op := range ins.Operands(nil) {
				if op != nil && *op != nil && walk(*op, d+1) {
					return true
				}
			}
		}
		return false
	}
	return walk(v, 0)
}

// copiedInto: some copy(dst, src) with dst derived from the slice m has a src satisfying f.
func copiedInto(m ssa.Value, f func(ssa.Value) bool) bool {
	seen := map[ssa.Value]bool{}
	var uses func(v ssa.Value) bool
	uses = func(v ssa.Value) bool {
		if seen[v] || v.Referrers() == nil {
			return false
		}
		seen[v] = true
		for _, r := range *v.Referrers() {
			switch u := r.(type) {
			case *ssa.Slice:
				if u.X == v && uses(u) {
					return true
				}
			case *ssa.Call:
				if calleeName(u) == "builtin:copy" && len(u.Call.Args) == 2 && u.Call.Args[0] == v && f(u.Call.Args[1]) {
					return true
				}
			}
		}
		return false
	}
	return uses(m)
}

// allocStoresDerive: any value stored (directly, or through FieldAddr/IndexAddr of the alloc) satisfies f.
func allocStoresDerive(a *ssa.Alloc, f func(ssa.Value) bool) bool {
	seen := map[ssa.Value]bool{}
	var addrUses func(addr ssa.Value) bool
	addrUses = func(addr ssa.Value) bool {
		if seen[addr] {
			return false
		}
		seen[addr] = true
		refs := addr.Referrers()
		if refs == nil {
			return false
		}
		for _, r := range *refs {
			switch u := r.(type) {
			case *ssa.Store:
				if u.Addr == addr && f(u.Val) {
					return true
				}
			case *ssa.FieldAddr:
				if u.X == addr && addrUses(u) {
					return true
				}
			case *ssa.IndexAddr:
				if u.X == addr && addrUses(u) {
					return true
				}
			case *ssa.Slice:
				if u.X == addr && addrUses(u) {
					return true
				}
			case *ssa.Call:
				if calleeName(u) == "builtin:copy" {
					if len(u.Call.Args) == 2 && u.Call.Args[0] == addr && f(u.Call.Args[1]) {
						return true
					}
					continue
				}
				// passed to a callee that fills it (Unmarshal, Deserialize): depends on the other arguments
				for _, a2 := range callArgs(u) {
					if a2 != addr && !seen[a2] {
						if _, isAlloc := a2.(*ssa.Alloc); isAlloc {
							continue
						}
						if f(a2) {
							return true
						}
					}
				}
			case *ssa.MakeInterface:
				if addrUses(u) {
					return true
				}
			}
		}
		return false
	}
	return addrUses(a)
}

// isSubtractiveOp: x is the result of a subtraction, multiplication or division of amounts: the result is no longer "the
// same quantity" as any operand.
func isSubtractiveOp(x ssa.Value) bool {
	c, ok := x.(*ssa.Call)
	if !ok {
		if bo, isB := x.(*ssa.BinOp); isB {
			switch bo.Op {
			case token.SUB, token.MUL, token.QUO, token.REM:
				return true
			}
		}
		return false
	}
	switch calleeName(c) {
	case "(data/balance.Coin).Minus", "(data/balance.Amount).Minus", "(*data/balance.Amount).Minus",
		"(*math/big.Int).Sub", "(*math/big.Int).Mul", "(*math/big.Int).Div", "(*math/big.Int).Quo", "(*math/big.Int).Mod", "(*math/big.Int).Rem",
		"(data/balance.Coin).DivideInt64", "(data/balance.Coin).MultiplyInt", "(data/balance.Coin).MultiplyInt64", "(data/balance.Coin).Divide":
		return true
	}
	return false
}

// everyAlternative: test holds for every value v may be: the incoming values of a phi, and the values stored whole into a
// local (a coin variable assigned on several branches and then passed by address or loaded). Other values are leaves.
func everyAlternative(v ssa.Value, test func(ssa.Value) bool) bool {
	seen := map[ssa.Value]bool{}
	var walk func(x ssa.Value, d int) bool
	walk = func(x ssa.Value, d int) bool {
		if x == nil || d > 12 {
			return false
		}
		if seen[x] {
			return true // a cycle adds no new alternative
		}
		seen[x] = true
		switch y := x.(type) {
		case *ssa.Phi:
			for _, e := range y.Edges {
				if !walk(e, d+1) {
					return false
				}
			}
			return len(y.Edges) > 0
		case *ssa.UnOp:
			if y.Op == token.MUL {
				if a, ok := y.X.(*ssa.Alloc); ok {
					return walk(a, d+1)
				}
			}
		case *ssa.MakeInterface:
			return walk(y.X, d+1)
		case *ssa.ChangeType:
			return walk(y.X, d+1)
		case *ssa.Alloc:
			var whole []ssa.Value
			if refs := y.Referrers(); refs != nil {
				for _, r := range *refs {
					if st, ok := r.(*ssa.Store); ok && st.Addr == ssa.Value(y) {
						whole = append(whole, st.Val)
					}
				}
			}
			if len(whole) > 0 {
				for _, w := range whole {
					if !walk(w, d+1) {
						return false
					}
				}
				return true
			}
		}
		return test(x)
	}
	return walk(v, 0)
}
