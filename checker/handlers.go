package main

// P-SIB: enumeration of the registered transaction handlers by role.

import (
	"go/types"
	"sort"
	"strings"

	"golang.org/x/tools/go/ssa"
)

type Handler struct {
	Type     types.Type // concrete handler type (as converted to action.Tx)
	Name     string     // tname
	RegSite  string     // where it is converted to action.Tx
	Validate *ssa.Function
	Check    *ssa.Function
	Deliver  *ssa.Function
	Fee      *ssa.Function
	TxTypes  []string // action.Type constants it is registered under (when constant)
	Routers  []string // "action" / "internal" / "ext"
}

func (h *Handler) Pkg() string {
	if n := namedOf(h.Type); n != nil && n.Obj().Pkg() != nil {
		return n.Obj().Pkg().Path()
	}
	return ""
}

var handlerCache []*Handler

// Handlers returns the handler types converted to action.Tx in functions reachable from app.newContext
// (the node's registration code), i.e. what the running node can route a transaction to.
func (p *Program) Handlers() []*Handler {
	if handlerCache != nil {
		return handlerCache
	}
	p.initTxIface()
	nc := p.MustFn("app.newContext")
	reach, _ := p.Reach(nc)
	byType := map[string]*Handler{}
	for _, fn := range sortedFns(reach) {
		allInstrs(fn, func(ins ssa.Instruction) {
			mi, ok := ins.(*ssa.MakeInterface)
			if !ok {
				return
			}
			if n := namedOf(mi.Type()); n == nil || tname(n) != "action.Tx" {
				return
			}
			ct := mi.X.Type()
			name := tname(ct)
			if name == "action.unknownTx" {
				return
			}
			h := byType[name]
			if h == nil {
				h = &Handler{Type: ct, Name: name, RegSite: p.ipos(ins)}
				ms := p.SSA.MethodSets.MethodSet(ct)
				get := func(m string) *ssa.Function {
					for i := 0; i < ms.Len(); i++ {
						if ms.At(i).Obj().Name() == m {
							return p.SSA.MethodValue(ms.At(i))
						}
					}
					return nil
				}
				h.Validate, h.Check, h.Deliver, h.Fee = get("Validate"), get("ProcessCheck"), get("ProcessDeliver"), get("ProcessFee")
				byType[name] = h
			}
			// registration details: used as argument of AddHandler with a constant type?
			for _, r := range *mi.Referrers() {
				c, ok := r.(*ssa.Call)
				if !ok || calleeName(c) != "invoke:(action.Router).AddHandler" {
					continue
				}
				if k, ok := intConst(c.Call.Args[0]); ok {
					h.TxTypes = append(h.TxTypes, txTypeName(p, k))
				}
				h.Routers = append(h.Routers, routerOf(fn))
			}
			if len(*mi.Referrers()) > 0 {
				if _, ok := (*mi.Referrers())[0].(*ssa.Store); ok {
					h.Routers = append(h.Routers, "ext")
				}
			}
		})
	}
	for _, h := range byType {
		handlerCache = append(handlerCache, h)
	}
	sort.Slice(handlerCache, func(i, j int) bool { return handlerCache[i].Name < handlerCache[j].Name })
	if len(handlerCache) < 30 {
		fail("only %d registered handler types found (expected about 39): handler enumeration broken", len(handlerCache))
	}
	return handlerCache
}

// routerOf: internal routers are filled by functions named EnableInternal*; everything else registers on the public router.
// (Used for reporting only; no rule depends on the name.)
func routerOf(fn *ssa.Function) string {
	if strings.Contains(fn.Name(), "Internal") {
		return "internal"
	}
	return "action"
}

var txTypeNames map[int64]string

func txTypeName(p *Program, k int64) string {
	if txTypeNames == nil {
		txTypeNames = map[int64]string{}
		for _, pk := range p.AllPkgs {
			if !inRepoPkg(pk.Types) {
				continue
			}
			sc := pk.Types.Scope()
			for _, n := range sc.Names() {
				c, ok := sc.Lookup(n).(*types.Const)
				if !ok {
					continue
				}
				if nt := namedOf(c.Type()); nt == nil || tname(nt) != "action.Type" {
					continue
				}
				if v, ok := constInt64(c); ok {
					if _, dup := txTypeNames[v]; !dup {
						txTypeNames[v] = n
					}
				}
			}
		}
	}
	if n, ok := txTypeNames[k]; ok {
		return n
	}
	return "type#" + itoa(k)
}

func constInt64(c *types.Const) (int64, bool) {
	return int64FromConst(c.Val())
}

// handlerBody: same-package functions reachable from fn through static calls (the run* function and its helpers),
// including closures.
func handlerBody(fn *ssa.Function) []*ssa.Function {
	if fn == nil {
		return nil
	}
	pk := fnPkg(fn)
	seen := map[*ssa.Function]bool{}
	var order []*ssa.Function
	var walk func(f *ssa.Function)
	walk = func(f *ssa.Function) {
		if f == nil || seen[f] || f.Blocks == nil || fnPkg(f) != pk {
			return
		}
		seen[f] = true
		order = append(order, f)
		allInstrs(f, func(ins ssa.Instruction) {
			if sc := staticCallee(ins); sc != nil {
				walk(sc)
			}
			if mc, ok := ins.(*ssa.MakeClosure); ok {
				if g, ok := mc.Fn.(*ssa.Function); ok {
					walk(g)
				}
			}
		})
	}
	walk(fn)
	return order
}

// msgObjects: allocs (or pointer parameters) of action.Msg implementers that are the receiver of an Unmarshal call
// inside fn. Returns alloc value -> message type.
func msgObjects(p *Program, fn *ssa.Function) map[ssa.Value]types.Type {
	res := map[ssa.Value]types.Type{}
	allInstrs(fn, func(ins ssa.Instruction) {
		c, ok := ins.(*ssa.Call)
		if !ok {
			return
		}
		sc := c.Call.StaticCallee()
		if sc == nil || sc.Name() != "Unmarshal" || sc.Signature.Recv() == nil || len(c.Call.Args) < 2 {
			return
		}
		if !implementsMsg(p, sc.Signature.Recv().Type()) {
			return
		}
		recv := c.Call.Args[0]
		pa := pathOf(recv)
		if len(pa.Fields) == 0 {
			res[pa.Root] = sc.Signature.Recv().Type()
		}
	})
	return res
}

var msgIface *types.Interface

func implementsMsg(p *Program, t types.Type) bool {
	if msgIface == nil {
		o := p.AllPkgs[Mod+"/action"].Types.Scope().Lookup("Msg")
		if o == nil {
			fail("action.Msg missing")
		}
		msgIface = o.Type().Underlying().(*types.Interface)
	}
	return types.Implements(t, msgIface) || types.Implements(types.NewPointer(t), msgIface)
}
