package main

// C07.shared: memory of singleton objects written on the mempool path and read on the consensus path.
// P-SELECTOR: discipline of selector methods (WithPrefixType, WithHeight, WithPrefix ...) that mutate a shared store and return it.

import (
	"fmt"
	"go/types"
	"sort"
	"strings"

	"golang.org/x/tools/go/ssa"
)

// singletonTypes: named struct types reachable from the fields of app.context through pointer/struct fields
// (the node's one-per-process objects), excluding the storage layer (check and deliver are two instances).
func singletonTypes(p *Program) map[string]bool {
	res := map[string]bool{}
	co := p.AllPkgs[Mod+"/app"].Types.Scope().Lookup("context")
	if co == nil {
		fail("type app.context missing")
	}
	hasWithState := func(t types.Type) bool {
		ms := p.SSA.MethodSets.MethodSet(types.NewPointer(t))
		for i := 0; i < ms.Len(); i++ {
			if ms.At(i).Obj().Name() == "WithState" {
				return true
			}
		}
		return false
	}
	var walk func(t types.Type, depth int, parentIsStore bool)
	walk = func(t types.Type, depth int, parentIsStore bool) {
		if depth > 4 {
			return
		}
		switch x := t.(type) {
		case *types.Pointer:
			walk(x.Elem(), depth, parentIsStore)
			return
		case *types.Named:
			if !inRepoPkg(x.Obj().Pkg()) {
				return
			}
			pk := x.Obj().Pkg().Path()
			if pk == Mod+"/storage" || pk == Mod+"/config" || pk == Mod+"/log" {
				return
			}
			st, ok := x.Underlying().(*types.Struct)
			if !ok {
				return
			}
			// a store (object with WithState / holding a state pointer) or an object a store points to (option/cache object)
			isStore := hasWithState(x)
			for i := 0; i < st.NumFields() && !isStore; i++ {
				if isStateLike(st.Field(i).Type()) {
					isStore = true
				}
			}
			if !isStore && !parentIsStore && depth > 0 {
				return
			}
			n := tname(x)
			if res[n] {
				return
			}
			res[n] = true
			if !isStore && depth > 0 {
				return // plain object pointed to by a store: do not descend further (its sub-records are data)
			}
			for i := 0; i < st.NumFields(); i++ {
				if _, isPtr := st.Field(i).Type().(*types.Pointer); isPtr {
					walk(st.Field(i).Type(), depth+1, isStore)
				}
			}
		}
	}
	st := co.Type().Underlying().(*types.Struct)
	for i := 0; i < st.NumFields(); i++ {
		walk(st.Field(i).Type(), 0, false)
	}
	// stores of external apps: registered in the context's ExtStores map as data.ExtStore values
	ext := 0
	for fn := range p.Fns {
		if !inRepo(fn) || fn.Blocks == nil {
			continue
		}
		allInstrs(fn, func(ins ssa.Instruction) {
			if mi, ok := ins.(*ssa.MakeInterface); ok && tname(mi.Type()) == "data.ExtStore" {
				ext++
				walk(mi.X.Type(), 0, false)
			}
		})
	}
	if ext == 0 {
		fail("no external store registration (conversion to data.ExtStore) found")
	}
	delete(res, "app.context")
	return res
}

type fieldSite struct {
	Fn  *ssa.Function
	Ins ssa.Instruction
}

// fieldWrites / fieldReads over a set of functions, for singleton types, base object not locally allocated.
func singletonFieldAccess(p *Program, fns map[*ssa.Function]bool, singles map[string]bool) (writes, reads map[string][]fieldSite) {
	writes, reads = map[string][]fieldSite{}, map[string][]fieldSite{}
	key := func(fa *ssa.FieldAddr) string {
		n := namedOf(fa.X.Type())
		if n == nil || !singles[tname(n)] {
			return ""
		}
		if isLocalAddr(fa.X) {
			return ""
		}
		return tname(n) + "." + fieldName(fa.X.Type(), fa.Field)
	}
	for fn := range fns {
		if fn.Blocks == nil {
			continue
		}
		allInstrs(fn, func(ins ssa.Instruction) {
			switch x := ins.(type) {
			case *ssa.Store:
				if fa, ok := x.Addr.(*ssa.FieldAddr); ok {
					if k := key(fa); k != "" {
						writes[k] = append(writes[k], fieldSite{fn, ins})
					}
				}
				// element of a slice/array/map held in a field
				if ia, ok := x.Addr.(*ssa.IndexAddr); ok {
					if ld, ok := ia.X.(*ssa.UnOp); ok {
						if fa, ok := ld.X.(*ssa.FieldAddr); ok {
							if k := key(fa); k != "" {
								writes[k] = append(writes[k], fieldSite{fn, ins})
							}
						}
					}
				}
			case *ssa.MapUpdate:
				if ld, ok := x.Map.(*ssa.UnOp); ok {
					if fa, ok := ld.X.(*ssa.FieldAddr); ok {
						if k := key(fa); k != "" {
							writes[k] = append(writes[k], fieldSite{fn, ins})
						}
					}
				}
			case *ssa.Call:
				if calleeName(x) == "builtin:delete" {
					if ld, ok := x.Call.Args[0].(*ssa.UnOp); ok {
						if fa, ok := ld.X.(*ssa.FieldAddr); ok {
							if k := key(fa); k != "" {
								writes[k] = append(writes[k], fieldSite{fn, ins})
							}
						}
					}
				}
			case *ssa.UnOp:
				if fa, ok := x.X.(*ssa.FieldAddr); ok {
					if k := key(fa); k != "" {
						reads[k] = append(reads[k], fieldSite{fn, ins})
					}
				}
			}
		})
	}
	return
}

// selectorMethods: methods of singleton types that store into receiver fields and return the receiver (With*).
// Returns method -> fields it writes.
func selectorMethods(p *Program, singles map[string]bool) map[*ssa.Function][]string {
	res := map[*ssa.Function][]string{}
	for fn := range p.Fns {
		if !inRepo(fn) || fn.Blocks == nil || fn.Signature.Recv() == nil || len(fn.Params) == 0 {
			continue
		}
		n := namedOf(fn.Signature.Recv().Type())
		if n == nil || !singles[tname(n)] {
			continue
		}
		if _, isPtr := fn.Signature.Recv().Type().(*types.Pointer); !isPtr {
			continue
		}
		// returns the receiver on every return
		retRecv := fn.Signature.Results().Len() == 1
		for _, ret := range returnsOf(fn) {
			if len(ret.Results) != 1 || ret.Results[0] != ssa.Value(fn.Params[0]) {
				retRecv = false
			}
		}
		if !retRecv {
			continue
		}
		var fields []string
		allInstrs(fn, func(ins ssa.Instruction) {
			if st, ok := ins.(*ssa.Store); ok {
				if fa, ok := st.Addr.(*ssa.FieldAddr); ok && fa.X == ssa.Value(fn.Params[0]) {
					fields = append(fields, fieldName(fa.X.Type(), fa.Field))
				}
			}
		})
		if len(fields) > 0 {
			sort.Strings(fields)
			res[fn] = uniq(fields)
		}
	}
	return res
}

func isStateLike(t types.Type) bool {
	s := tname(t)
	return s == "*storage.State" || s == "storage.Store" || s == "*storage.ChainState" || strings.HasPrefix(s, "storage.")
}

func checkShared(r *Run) {
	checkSharedFrom(r, "C07.shared", "CheckTx", r.P.Roots()["check"], "written on the mempool path, read on the consensus path",
		"a mempool check can change what consensus execution computes", nil)
	singles := singletonTypes(r.P)
	cons, _ := r.P.Reach(r.P.ConsensusRoots()...)
	checkSelectorDiscipline(r, selectorMethods(r.P, singles), cons)
}

// checkSharedFrom: fields of one-per-node objects written on a path reachable from `root` and read on the consensus path.
func checkSharedFrom(r *Run, rule, rootName string, root *ssa.Function, construct, consequence string, cleared func(key string) string) {
	p := r.P
	singles := singletonTypes(p)
	r.Extra["singleton_types"] = len(singles)
	if len(singles) < 20 {
		fail("only %d singleton types found from app.context", len(singles))
	}
	ck, _ := p.Reach(root)
	cons, _ := p.Reach(p.ConsensusRoots()...)
	w, _ := singletonFieldAccess(p, ck, singles)
	_, rd := singletonFieldAccess(p, cons, singles)
	sels := selectorMethods(p, singles)
	selFields := map[string]bool{} // T.f written by a selector method
	for m, fs := range sels {
		n := namedOf(m.Signature.Recv().Type())
		for _, f := range fs {
			selFields[tname(n)+"."+f] = true
		}
	}
	var keys []string
	for k := range w {
		if len(rd[k]) > 0 {
			keys = append(keys, k)
		}
	}
	sort.Strings(keys)
	for _, k := range keys {
		sites := w[k]
		// field type
		ft := fieldTypeOf(p, k)
		// writers that are selector methods only?
		onlySel := true
		var nonSel []string
		for _, s := range sites {
			top := topFn(s.Fn)
			if _, ok := sels[top]; !ok {
				onlySel = false
				nonSel = append(nonSel, fname(s.Fn)+" at "+p.ipos(s.Ins))
			}
		}
		sort.Strings(nonSel)
		nonSel = uniq(nonSel)
		switch {
		case ft != nil && isStateLike(ft) && onlySel:
			r.OK(rule, k, "state pointer", "written only by WithState-style selector methods; every consensus use is re-aimed first (C07.aim)")
		case onlySel || selFields[k]:
			r.OK(rule, k, "selector field", "written only by selector methods that return the receiver; uses are checked by the selector discipline (C07.selector)")
		case cleared != nil && cleared(k) != "":
			r.OK(rule, k, "per-transaction field", cleared(k))
		default:
			why, ok := sharedExempt[k]
			if ok {
				// the exemption holds only while every write is guarded by `field == nil`
				guarded := true
				for _, s := range sites {
					fa := writtenFieldAddr(s.Ins)
					if fa == nil {
						guarded = false
						continue
					}
					edges := condEdges(s.Fn, func(cond ssa.Value, _ *ssa.If) int {
						return nilCond(cond, func(v ssa.Value) bool {
							ld, ok := v.(*ssa.UnOp)
							if !ok {
								return false
							}
							f2, ok := ld.X.(*ssa.FieldAddr)
							return ok && f2.Field == fa.Field && samePath(f2.X, fa.X)
						})
					})
					if len(edges) == 0 || reachWithout(s.Fn, edges)[s.Ins.Block()] {
						guarded = false
					}
				}
				if guarded {
					r.OK(rule, k, "exempt shared field", why)
					continue
				}
			}
			detail := fmt.Sprintf("field %s of a one-per-node object is written on a path reachable from %s (%s) and read on the consensus path (%d reads, e.g. %s): %s",
				k, rootName, strings.Join(firstN(nonSel, 3), "; "), len(rd[k]), fname(rd[k][0].Fn), consequence)
			r.Viol(rule, k, construct, detail, p.ipos(sites[0].Ins), nil)
		}
	}
	r.Floor(rule, 15)
}

// memo fields: lazily computed from the object's own (immutable after decoding) fields, assigned only while nil.
// writtenFieldAddr: the FieldAddr whose field (or the map/slice held in it) the instruction writes.
func writtenFieldAddr(ins ssa.Instruction) *ssa.FieldAddr {
	switch x := ins.(type) {
	case *ssa.Store:
		if fa, ok := x.Addr.(*ssa.FieldAddr); ok {
			return fa
		}
	case *ssa.MapUpdate:
		if ld, ok := x.Map.(*ssa.UnOp); ok {
			if fa, ok := ld.X.(*ssa.FieldAddr); ok {
				return fa
			}
		}
	}
	return nil
}

var sharedExempt = map[string]string{
	"data/fees.FeeOption.minimalFee": "memo of 10^(Decimal-MinFeeDecimal) of the same object, assigned only while nil",
	"data/ons.Options.firstLevel":    "memo set built from FirstLevelDomains of the same object, assigned only while nil",
	"data/ons.Options.protocols":     "constant protocol set, assigned only while nil",
}

func firstN(s []string, n int) []string {
	if len(s) > n {
		return s[:n]
	}
	return s
}

func fieldTypeOf(p *Program, key string) types.Type {
	i := strings.LastIndex(key, ".")
	tn, fn := key[:i], key[i+1:]
	j := strings.LastIndex(tn, ".")
	pk := p.AllPkgs[Mod+"/"+tn[:j]]
	if pk == nil {
		return nil
	}
	o := pk.Types.Scope().Lookup(tn[j+1:])
	if o == nil {
		return nil
	}
	st, ok := o.Type().Underlying().(*types.Struct)
	if !ok {
		return nil
	}
	for k := 0; k < st.NumFields(); k++ {
		if st.Field(k).Name() == fn {
			return st.Field(k).Type()
		}
	}
	return nil
}

// checkSelectorDiscipline: a value obtained from a selector call (x.WithPrefixType(k)) denotes the shared object x itself;
// it must be used before any other selector call on the same object changes the selection.
func checkSelectorDiscipline(r *Run, sels map[*ssa.Function][]string, fns map[*ssa.Function]bool) {
	checkSelectorDisciplineAs(r, "C07.selector", sels, fns)
}

func checkSelectorDisciplineAs(r *Run, rule string, sels map[*ssa.Function][]string, fns map[*ssa.Function]bool) {
	p := r.P
	n := 0
	for _, fn := range sortedFns(fns) {
		if fn.Blocks == nil {
			continue
		}
		// selector calls in fn, excluding WithState (covered by the aim rule: re-aiming with the same state is idempotent)
		type selCall struct {
			c      *ssa.Call
			m      *ssa.Function
			base   ssa.Value
			fields []string
		}
		var calls []selCall
		allInstrs(fn, func(ins ssa.Instruction) {
			c, ok := ins.(*ssa.Call)
			if !ok {
				return
			}
			sc := c.Call.StaticCallee()
			if sc == nil {
				return
			}
			fs, ok := sels[sc]
			if !ok || sc.Name() == "WithState" {
				return
			}
			calls = append(calls, selCall{c, sc, c.Call.Args[0], fs})
		})
		if len(calls) < 2 {
			n += len(calls)
			continue
		}
		// base identity: the underlying shared object (strip chained selector calls)
		baseOf := func(v ssa.Value) string {
			for d := 0; d < 8; d++ {
				c, ok := v.(*ssa.Call)
				if !ok {
					break
				}
				sc := c.Call.StaticCallee()
				if sc == nil {
					break
				}
				if _, isSel := sels[sc]; !isSel {
					break
				}
				v = c.Call.Args[0]
			}
			pa := pathOf(v)
			return fmt.Sprintf("%p.%s", pa.Root, pa.FieldString())
		}
		for _, a := range calls {
			n++
			// uses of a's result value (directly or through variables/phis) as receiver/argument of a call
			uses := valueUses(a.c)
			for _, b := range calls {
				if b.c == a.c || baseOf(b.base) != baseOf(a.base) {
					continue
				}
				// different selection of an overlapping field?
				overlap := false
				for _, f := range a.fields {
					for _, g := range b.fields {
						if f == g {
							overlap = true
						}
					}
				}
				if !overlap || sameArgs(a.c, b.c) {
					continue
				}
				// b executes after a and before a use of a's value
				for _, u := range uses {
					if u == ssa.Instruction(b.c) {
						continue // chained: a's result is b's receiver
					}
					if instrBetween(a.c, b.c, u) {
						r.Viol(rule, fname(fn), fmt.Sprintf("stale selection: result of %s used after %s on the same store", a.m.Name(), b.m.Name()),
							fmt.Sprintf("%s returns the shared store itself; the value obtained at %s is used at %s after %s at %s re-selected the same store, so the use operates on the later selection",
								fname(a.m), p.ipos(a.c), p.ipos(u), fname(b.m), p.ipos(b.c)), p.ipos(u), nil)
					}
				}
			}
		}
	}
	r.Extra["selector_calls_checked"] = n
	if n > 0 {
		r.OK(rule, "", fmt.Sprintf("%d selector calls checked", n), "no value obtained from a selector call is used after another selection on the same store (except those reported)")
	}
}

// valueUses: instructions that use v or a variable/phi holding v as an operand of a call (receiver or argument).
func valueUses(v ssa.Value) []ssa.Instruction {
	seen := map[ssa.Value]bool{}
	var res []ssa.Instruction
	var walk func(x ssa.Value, d int)
	walk = func(x ssa.Value, d int) {
		if seen[x] || d > 6 || x.Referrers() == nil {
			return
		}
		seen[x] = true
		for _, u := range *x.Referrers() {
			switch y := u.(type) {
			case ssa.CallInstruction:
				res = append(res, u)
			case *ssa.Phi:
				walk(y, d+1)
			case *ssa.Store:
				if a, ok := y.Addr.(*ssa.Alloc); ok && y.Val == x {
					for _, lu := range *a.Referrers() {
						if ld, ok := lu.(*ssa.UnOp); ok {
							walk(ld, d+1)
						}
					}
				}
			case *ssa.MakeClosure:
				// captured: uses inside the closure are not ordered relative to this function's calls; skip
			}
		}
	}
	walk(v, 0)
	return res
}

func sameArgs(a, b *ssa.Call) bool {
	if len(a.Call.Args) != len(b.Call.Args) {
		return false
	}
	for i := 1; i < len(a.Call.Args); i++ {
		ca, oka := a.Call.Args[i].(*ssa.Const)
		cb, okb := b.Call.Args[i].(*ssa.Const)
		if oka && okb {
			if ca.Value == nil || cb.Value == nil || ca.Value.ExactString() != cb.Value.ExactString() {
				return false
			}
			continue
		}
		if !samePath(a.Call.Args[i], b.Call.Args[i]) {
			return false
		}
	}
	return true
}

// instrBetween: there is an execution in which a, then b, then u run (b between a and u), without a re-executing in between.
func instrBetween(a, b, u ssa.Instruction) bool {
	isA := func(i ssa.Instruction) bool { return i == a }
	if !pathReaches(a.Parent(), a, func(i ssa.Instruction) bool { return i == b }, isA) {
		return false
	}
	return pathReaches(a.Parent(), b, func(i ssa.Instruction) bool { return i == u }, isA)
}
