package main

// Dissolving new helper functions into their callers before any rule looks at the program.
//
// The rules are written against the functions the repository has today. A behaviour-preserving commit that extracts part
// of a handler into a new helper (or splits a function in two) moves guards, sinks and the values between them into
// different functions; intraprocedural rules would then see a sink without its guard. To make the rules indifferent to
// that, every repository function that is NOT in the list of function names the rules were written against
// (known_funcs.txt, regenerated with `olint fnlist`) is inlined, at SSA level, into each of its static call sites
// (transitively, bounded). Inlining preserves behaviour, so this changes no verdict about what the code does; it only
// restores the shape the rules expect. Functions in the list are never inlined, so the unchanged tree is analysed exactly
// as written. The inliner itself lives in the vendored go/ssa package (olint_inline.go, added file) because it needs the
// package's unexported constructors; the result is checked with go/ssa's own sanity checker and a function whose inlined
// form fails that check makes the run UNDECIDED instead of being analysed in a broken form.

import (
	"bytes"
	_ "embed"
	"fmt"
	"os"
	"sort"
	"strings"

	"golang.org/x/tools/go/ssa"
)

//go:embed known_funcs.txt
var knownFuncsTxt string

var knownFuncs = func() map[string]bool {
	m := map[string]bool{}
	for _, l := range strings.Split(knownFuncsTxt, "\n") {
		if l = strings.TrimSpace(l); l != "" {
			m[l] = true
		}
	}
	return m
}()

func isNewHelper(fn *ssa.Function) bool {
	if fn == nil || fn.Blocks == nil || !inRepo(fn) || fn.Parent() != nil || fn.Synthetic != "" {
		return false
	}
	if fn.Name() == "init" || strings.HasPrefix(fn.Name(), "init#") {
		return false
	}
	return !knownFuncs[fname(fn)]
}

// inlineNewHelpers mutates the SSA of repository functions in place. It returns a human-readable report.
func (p *Program) inlineNewHelpers() []string {
	if len(knownFuncs) == 0 || os.Getenv("OLINT_NO_INLINE") != "" {
		return nil
	}
	var report []string
	var fns []*ssa.Function
	for fn := range p.Fns {
		if fn.Blocks != nil && inRepo(fn) && fn.Synthetic == "" {
			fns = append(fns, fn) // (method-value and interface wrappers keep calling the function they wrap)
		}
	}
	sort.Slice(fns, func(i, j int) bool { return fname(fns[i]) < fname(fns[j]) })
	// callees first: new helpers before known functions, so that a helper's own helper calls are dissolved before it is copied
	sort.SliceStable(fns, func(i, j int) bool { return isNewHelper(fns[i]) && !isNewHelper(fns[j]) })
	touched := map[*ssa.Function]int{}
	for pass := 0; pass < 4; pass++ {
		changed := false
		for _, g := range fns {
			for budget := 60; budget > 0; budget-- {
				var site *ssa.Call
				for _, b := range g.Blocks {
					for _, ins := range b.Instrs {
						c, ok := ins.(*ssa.Call)
						if !ok {
							continue
						}
						h := c.Call.StaticCallee()
						if h == nil || h == g || !isNewHelper(h) || !ssa.CanInline(g, c) {
							continue
						}
						n := 0
						for _, hb := range h.Blocks {
							n += len(hb.Instrs)
						}
						if n > 1500 {
							continue
						}
						site = c
						break
					}
					if site != nil {
						break
					}
				}
				if site == nil {
					break
				}
				h := site.Call.StaticCallee()
				if !ssa.InlineCall(g, site) {
					break
				}
				touched[g]++
				changed = true
				report = append(report, fmt.Sprintf("%s inlined into %s", fname(h), fname(g)))
			}
		}
		if !changed {
			break
		}
	}
	var ts []*ssa.Function
	for g := range touched {
		ts = append(ts, g)
	}
	sort.Slice(ts, func(i, j int) bool { return fname(ts[i]) < fname(ts[j]) })
	for _, g := range ts {
		var buf bytes.Buffer
		if !ssa.FinishInlined(g, &buf) {
			fail("inlining new helper functions into %s produced ill-formed SSA: %s", fname(g), strings.TrimSpace(buf.String()))
		}
	}
	// helpers that are no longer called statically and are not used as values are not analysed on their own any more
	if len(touched) > 0 {
		still := map[*ssa.Function]bool{}
		for _, g := range fns {
			for _, b := range g.Blocks {
				for _, ins := range b.Instrs {
					if ci, ok := ins.(ssa.CallInstruction); ok {
						if h := ci.Common().StaticCallee(); h != nil && isNewHelper(h) {
							still[h] = true
						}
					}
					for _, op := range ins.Operands(nil) {
						if f, ok := (*op).(*ssa.Function); ok && isNewHelper(f) {
							if ci, isCall := ins.(ssa.CallInstruction); !isCall || ci.Common().Value != ssa.Value(f) {
								still[f] = true
							}
						}
					}
				}
			}
		}
		for _, h := range fns {
			if !isNewHelper(h) || still[h] {
				continue
			}
			if h.Signature.Recv() != nil && h.Object() != nil && h.Object().Exported() {
				continue // may be reached through an interface
			}
			wasCalled := false
			for _, l := range report {
				if strings.HasPrefix(l, fname(h)+" inlined into ") {
					wasCalled = true
				}
			}
			if wasCalled {
				delete(p.Fns, h)
				p.Dissolved = append(p.Dissolved, fname(h))
			}
		}
	}
	sort.Strings(p.Dissolved)
	return report
}
