package main

// C08 Crash-restart equivalence: structural necessary conditions.

import (
	"go/token"
	"sort"
	"strings"

	"golang.org/x/tools/go/ssa"
)

func init() {
	register(&propertyDef{
		ID:    "C08",
		Title: "Crash-restart equivalence (structural part)",
		Explain: "Decides: (durable) the versioned tree is written to disk (SaveVersion / DeleteVersion* / LoadVersionForOverwriting) only inside ChainState's own methods, and ChainState.Commit is reachable from the ABCI hooks only through Commit - nothing of a block reaches disk before; " +
			"(info) the height and hash reported by Info are ChainState.Version / Hash, which only Commit (from SaveVersion's results) and the database loader (from the loaded tree) write; " +
			"(reload) every option setter that the genesis path (setupState) calls on a one-per-node object and whose target fields are read by a consensus hook is also called on the restart path of Prepare, on every path to its successful return, with a value read from the governance store; " +
			"(volatile) the internal transaction queue is only filled from BeginBlock and only emptied from EndBlock.",
		NotDecided: "replay convergence itself (equality of hashes after a restart), Tendermint's handshake, per-block rebuilds of derived caches (validator queue: C10; reward calculator: C13.schedule; EVM object cache: C17.cache)",
		Run:        runC08,
	})
}

func runC08(r *Run) {
	p := r.P
	roots := p.Roots()

	// ---- durable
	n := 0
	for _, fn := range sortedFns(p.Fns) {
		if fn.Blocks == nil || !inRepo(fn) {
			continue
		}
		pp := fnPkg(fn).Path()
		if strings.HasSuffix(pp, "_test") || strings.Contains(pp, "/cmd/") {
			continue
		}
		fn := fn
		allInstrs(fn, func(ins ssa.Instruction) {
			name := calleeName(ins)
			if !strings.Contains(name, "iavl.MutableTree).") {
				return
			}
			m := name[strings.LastIndex(name, ".")+1:]
			switch {
			case m == "SaveVersion", strings.HasPrefix(m, "DeleteVersion"), m == "LoadVersionForOverwriting":
			default:
				return
			}
			recvTree := ins.(ssa.CallInstruction).Common().Args[0]
			owner := fn.Signature.Recv() != nil && strings.HasSuffix(tname(fn.Signature.Recv().Type()), "storage.ChainState")
			if !owner && !strings.HasSuffix(pathOf(recvTree).FieldString(), "Delivered") {
				r.Info("C08.durable", fname(fn), "disk write "+m+" on another tree", "not the chain-state tree (node-local key-value store)")
				return
			}
			n++
			r.Check(owner, "C08.durable", fname(fn), "disk write "+m+" belongs to ChainState", "called from a method of storage.ChainState",
				"the versioned tree is written to disk outside ChainState: part of a block can be durable before Commit (a crash then restarts from a state no replica ever had)", p.ipos(ins))
		})
	}
	if n < 3 {
		fail("C08.durable: only %d disk-write sites of the versioned tree found (expected >= 4)", n)
	}
	// the only caller of ChainState.Commit is State.Commit, whose call sites are the Commit hook or act on the internal queue's own (memory) state
	csCommit := p.MustFn("(*storage.ChainState).Commit")
	stCommit := p.MustFn("(*storage.State).Commit")
	commitRoot := roots["commit"]
	inCommitHook := map[*ssa.Function]bool{}
	for _, f := range handlerBody(commitRoot) {
		inCommitHook[f] = true
	}
	nSites := 0
	for _, fn := range sortedFns(p.Fns) {
		if fn.Blocks == nil || !inRepo(fn) || strings.HasSuffix(fnPkg(fn).Path(), "_test") || strings.Contains(fnPkg(fn).Path(), "/cmd/") {
			continue
		}
		fn := fn
		allInstrs(fn, func(ins ssa.Instruction) {
			switch staticCallee(ins) {
			case csCommit:
				nSites++
				r.Check(fn == stCommit, "C08.durable", fname(fn), "ChainState.Commit is called by State.Commit only", "single owner", "the tree is committed to disk by another function than State.Commit", p.ipos(ins))
			case stCommit:
				nSites++
				recv := ins.(ssa.CallInstruction).Common().Args[0]
				okv := inCommitHook[fn] || isQueueState(recv) || fnPkg(fn).Path() == Mod+"/app" && (strings.Contains(fname(fn), "setupState") || strings.Contains(fname(fn), "chainInitializer"))
				r.Check(okv, "C08.durable", fname(fn), "State.Commit outside the Commit hook acts on the internal queue's memory state (or genesis)", "commit hook / queue state / InitChain", "the chain state is committed to disk in the middle of a block: a crash afterwards restarts from a state no replica ever had", p.ipos(ins))
			}
		})
	}
	if nSites < 4 {
		fail("C08.durable: only %d commit call sites found", nSites)
	}

	// ---- info
	info := roots["info"]
	if info == nil {
		fail("C08.info: Info hook not found")
	}
	okInfo := true
	nF := 0
	for _, fn := range handlerBody(info) {
		allInstrs(fn, func(ins ssa.Instruction) {
			st, ok := ins.(*ssa.Store)
			if !ok {
				return
			}
			fs := pathOf(st.Addr).FieldString()
			want := ""
			switch {
			case strings.HasSuffix(fs, "LastBlockHeight"):
				want = "Version"
			case strings.HasSuffix(fs, "LastBlockAppHash"):
				want = "Hash"
			default:
				return
			}
			nF++
			if !valueFromChainStateField(p, st.Val, want, 0) {
				okInfo = false
			}
		})
	}
	r.Check(okInfo && nF == 2, "C08.info", fname(info), "Info reports ChainState.Version / ChainState.Hash", "LastBlockHeight = chainstate.Version, LastBlockAppHash = chainstate.Hash", "Info reports another height or hash than the last committed one: Tendermint's handshake replays the wrong blocks after a restart", p.pos(info.Pos()))
	for _, field := range []string{"Version", "Hash"} {
		var writers []string
		for _, fn := range sortedFns(p.Fns) {
			if fn.Blocks == nil || !inRepo(fn) || strings.HasSuffix(fnPkg(fn).Path(), "_test") {
				continue
			}
			allInstrs(fn, func(ins ssa.Instruction) {
				st, ok := ins.(*ssa.Store)
				if !ok {
					return
				}
				fa, ok := st.Addr.(*ssa.FieldAddr)
				if !ok || !strings.HasSuffix(tname(derefT(fa.X.Type())), "storage.ChainState") || fieldName(derefT(fa.X.Type()), fa.Field) != field {
					return
				}
				fromTree := derivesFrom(st.Val, func(y ssa.Value) bool {
					c, ok := y.(*ssa.Call)
					if !ok {
						return false
					}
					nm := calleeName(c)
					return strings.Contains(nm, "iavl.MutableTree).SaveVersion") || strings.HasSuffix(nm, "iavl.MutableTree)."+field) || strings.HasSuffix(nm, "iavl.ImmutableTree)."+field)
				})
				_, isConst := st.Val.(*ssa.Const)
				w := fname(fn)
				if !fromTree && !(isConst && strings.HasPrefix(w, "storage.NewChainState")) {
					w += " (NOT from the tree)"
				}
				writers = append(writers, w)
			})
		}
		sort.Strings(writers)
		okW := len(writers) > 0
		for _, w := range writers {
			if strings.Contains(w, "NOT from the tree") || !(strings.Contains(w, "storage.ChainState).") || strings.HasPrefix(w, "storage.")) {
				okW = false
			}
		}
		r.Check(okW, "C08.info", "storage.ChainState."+field, "written only by ChainState itself from the tree", strings.Join(writers, ", "), "ChainState."+field+" is written outside ChainState or from a value that is not the tree's: writers = "+strings.Join(writers, ", "), "")
	}

	// ---- reload
	setup := p.MustFn("(*app.App).setupState")
	prep := p.MustFn("(*app.App).Prepare")
	consensusReads := map[fieldID]bool{}
	for _, rn := range []string{"check", "deliver", "begin", "end", "commit"} {
		reach, _ := p.Reach(roots[rn])
		for fn := range reach {
			if fn.Blocks == nil || !inRepo(fn) {
				continue
			}
			allInstrs(fn, func(ins ssa.Instruction) {
				u, ok := ins.(*ssa.UnOp)
				if !ok {
					return
				}
				if fa, ok := u.X.(*ssa.FieldAddr); ok {
					t := derefT(fa.X.Type())
					consensusReads[fieldID(strings.TrimPrefix(tname(t), "*")+"."+fieldName(t, fa.Field))] = true
				}
			})
		}
	}
	// restart branch of Prepare
	restart := boolEdgesOf(prep, "(*data/governance.Store).InitialChain", false)
	if len(restart) == 0 {
		fail("C08.reload: the restart branch of Prepare (InitialChain() == false) was not found")
	}
	var restartEdge *Edge
	for i := range restart {
		// the second test (currencies etc.), i.e. the one that is not followed by the test-environment registration
		restartEdge = &restart[i]
	}
	nSet := 0
	seenSetter := map[*ssa.Function]bool{}
	allInstrs(setup, func(ins ssa.Instruction) {
		c, ok := ins.(*ssa.Call)
		if !ok {
			return
		}
		sc := c.Call.StaticCallee()
		if sc == nil || !inRepo(sc) || sc.Signature.Recv() == nil || seenSetter[sc] {
			return
		}
		// receiver is a one-per-node object reached from app.Context
		if !strings.Contains(pathOf(c.Call.Args[0]).FieldString(), "Context") && !derivesFrom(c.Call.Args[0], func(y ssa.Value) bool { return strings.Contains(pathOf(y).FieldString(), "Context") }) {
			return
		}
		fromGenesisOptions := false
		for _, a := range c.Call.Args[1:] {
			if derivesFrom(a, func(y ssa.Value) bool {
				fs := pathOf(y).FieldString()
				return strings.Contains(fs, "Governance.") || strings.HasSuffix(fs, "Currencies") || strings.Contains(fs, "Currencies.")
			}) {
				fromGenesisOptions = true
			}
		}
		if !fromGenesisOptions {
			return
		}
		targets := setterTargets(sc)
		if len(targets) == 0 {
			return
		}
		var read []string
		for f := range targets {
			if consensusReads[f] {
				read = append(read, string(f))
			}
		}
		seenSetter[sc] = true
		if len(read) == 0 {
			r.Info("C08.reload", fname(sc), "genesis-time setter", "its target fields are not read by a consensus hook: no restart obligation")
			return
		}
		sort.Strings(read)
		nSet++
		// Prepare calls the same setter on the restart branch, before every successful return reachable through it
		var call *ssa.Call
		allInstrs(prep, func(j ssa.Instruction) {
			if cc, ok := j.(*ssa.Call); ok && cc.Call.StaticCallee() == sc {
				call = cc
			}
		})
		okv := call != nil
		why := "Prepare never calls it"
		if okv {
			fromGov := false
			for _, a := range call.Call.Args[1:] {
				if derivesFrom(a, func(y ssa.Value) bool {
					cc, ok := y.(*ssa.Call)
					return ok && strings.HasPrefix(calleeName(cc), "(*data/governance.Store).Get")
				}) {
					fromGov = true
				}
			}
			if !fromGov {
				okv, why = false, "Prepare does not pass a value read from the governance store"
			}
			start := restartEdge.To().Instrs[0]
			// a call inside a loop over the stored collection: the loop itself is what every path must pass
			barrierBlock := call.Block()
			if hdr := loopHeaderOf(call.Block()); hdr != nil {
				barrierBlock = hdr
			}
			for j := range reachFromInstr(start, nil, func(i ssa.Instruction) bool { return i == ssa.Instruction(call) || i.Block() == barrierBlock }) {
				if ret, isRet := j.(*ssa.Return); isRet && returnMayBeSuccess(ret) {
					okv, why = false, "a successful return of Prepare is reachable on the restart branch without the call"
				}
			}
			if start != ssa.Instruction(call) && !reachFromInstr(start, nil, nil)[call] {
				okv, why = false, "the call is not on the restart branch"
			}
		}
		r.Check(okv, "C08.reload", fname(sc), "the genesis-time copy of "+strings.Join(read, ", ")+" is rebuilt on restart", "Prepare calls the setter on the restart branch with a governance-store value before every successful return",
			"setupState fills "+strings.Join(read, ", ")+" (read by the consensus hooks) but "+why+": a restarted node runs with an empty or stale copy and diverges from the nodes that never stopped", p.ipos(c))
	})
	if nSet < 4 {
		fail("C08.reload: only %d genesis-time setters with consensus-read targets found (expected 4)", nSet)
	}

	// ---- volatile
	tset := p.MustFn("(*data/transactions.TransactionStore).Set")
	tdel := p.MustFn("(*data/transactions.TransactionStore).Delete")
	for _, rn := range []string{"check", "deliver", "commit"} {
		reach, _ := p.Reach(roots[rn])
		r.Check(!reach[tset] && !reach[tdel], "C08.volatile", fname(roots[rn]), "the internal transaction queue is untouched by this hook", "queue writes unreachable", "the internal queue (not persisted) is changed outside BeginBlock/EndBlock: its content after a crash depends on where the crash happened", p.pos(roots[rn].Pos()))
	}
	rb, _ := p.Reach(roots["begin"])
	re, _ := p.Reach(roots["end"])
	isAdd := func(n string) bool {
		return strings.HasPrefix(n, "(*data/transactions.TransactionStore).Add") || n == fname(tset)
	}
	isDel := func(n string) bool { return strings.HasPrefix(n, "(*data/transactions.TransactionStore).Delete") }
	nQ := 0
	for _, fn := range sortedFns(p.Fns) {
		if fn.Blocks == nil || !inRepo(fn) || strings.HasSuffix(fnPkg(fn).Path(), "_test") || fnPkg(fn).Path() == Mod+"/data/transactions" {
			continue
		}
		adds, dels := false, false
		var at ssa.Instruction
		allInstrs(fn, func(ins ssa.Instruction) {
			n := calleeName(ins)
			if isAdd(n) {
				adds, at = true, ins
			}
			if isDel(n) {
				dels, at = true, ins
			}
		})
		if !adds && !dels {
			continue
		}
		top := topFn(fn)
		nQ++
		switch {
		case adds && dels:
			r.Viol("C08.volatile", fname(fn), "queue producer or consumer", "the function both fills and drains the internal queue", p.ipos(at), nil)
		case adds:
			r.Check(rb[top] || rb[fn], "C08.volatile", fname(fn), "the internal queue is filled from BeginBlock", "producer reachable from the block beginner", "the internal queue (memory only) is filled outside BeginBlock: its content after a crash depends on where the crash happened", p.ipos(at))
		case dels:
			r.Check(re[top] || re[fn], "C08.volatile", fname(fn), "the internal queue is drained from EndBlock", "consumer reachable from the block ender", "the internal queue is drained outside EndBlock", p.ipos(at))
		}
	}
	if nQ < 4 {
		fail("C08.volatile: only %d queue producers/consumers found (expected 6)", nQ)
	}
	checkPerBlockRebuild(r)
	r.Floor("C08.", 20)
}

func valueFromChainStateField(p *Program, v ssa.Value, field string, depth int) bool {
	if depth > 3 {
		return false
	}
	ok := false
	derivesFrom(v, func(y ssa.Value) bool {
		pa := pathOf(y)
		if strings.HasSuffix(pa.FieldString(), "chainstate."+field) {
			ok = true
			return true
		}
		// the field of a ChainState object read anywhere (e.g. inside a ChainState method returning it)
		if ld, isLd := y.(*ssa.UnOp); isLd && ld.Op == token.MUL {
			if fa, isFA := ld.X.(*ssa.FieldAddr); isFA && fieldName(fa.X.Type(), fa.Field) == field {
				if n := namedOf(derefT(fa.X.Type())); n != nil && tname(n) == "storage.ChainState" {
					ok = true
					return true
				}
			}
		}
		// through a same-package getter returning the field
		if c, isC := y.(*ssa.Call); isC {
			if sc := c.Call.StaticCallee(); sc != nil && inRepo(sc) && sc.Blocks != nil {
				_, idx := tupleSource(v)
				for _, ret := range returnsOf(sc) {
					for i, res := range ret.Results {
						if idx >= 0 && i != idx {
							continue
						}
						if valueFromChainStateField(p, res, field, depth+1) {
							ok = true
						}
					}
				}
			}
		}
		return ok
	})
	return ok
}

// setterTargets: fields written by fn and its repository callees (depth 3).
func setterTargets(fn *ssa.Function) map[fieldID]bool {
	res := map[fieldID]bool{}
	seen := map[*ssa.Function]bool{}
	var walk func(f *ssa.Function, d int)
	walk = func(f *ssa.Function, d int) {
		if f == nil || seen[f] || f.Blocks == nil || !inRepo(f) || d > 3 {
			return
		}
		seen[f] = true
		allInstrs(f, func(ins ssa.Instruction) {
			for _, w := range writtenFields0(ins) {
				// only writes into objects that outlive the call (not locals)
				var base ssa.Value
				switch x := ins.(type) {
				case *ssa.Store:
					base = x.Addr
				case *ssa.MapUpdate:
					base = x.Map
				}
				if base != nil {
					if _, isAlloc := pathOf(base).Root.(*ssa.Alloc); isAlloc {
						continue
					}
				}
				res[w] = true
			}
			if sc := staticCallee(ins); sc != nil {
				walk(sc, d+1)
			}
		})
	}
	walk(fn, 0)
	return res
}

// loopHeaderOf: if b lies in a loop, the block of that loop that is entered from outside.
func loopHeaderOf(b *ssa.BasicBlock) *ssa.BasicBlock {
	fwd := reachFrom(b, nil)
	inLoop := map[*ssa.BasicBlock]bool{}
	for x := range fwd {
		if x == b {
			continue
		}
		if reachFrom(x, nil)[b] {
			inLoop[x] = true
		}
	}
	// b itself is in the loop iff one of its successors reaches b
	self := false
	for _, s := range b.Succs {
		if s == b || reachFrom(s, nil)[b] {
			self = true
		}
	}
	if !self {
		return nil
	}
	inLoop[b] = true
	for x := range inLoop {
		for _, pr := range x.Preds {
			if !inLoop[pr] {
				return x
			}
		}
	}
	return nil
}

// checkPerBlockRebuild: an in-memory table of a one-per-node object that BeginBlock re-creates is re-created on every
// path of the function that refills it (a conditional reset keeps the previous block's content on some paths, which a
// restarted node does not have).
func checkPerBlockRebuild(r *Run) { checkPerBlockRebuildAs(r, "C08.rebuild", "") }

// checkPerBlockRebuildAs: rule name and optional receiver type filter (C10 re-uses the rule for the validator store).
func checkPerBlockRebuildAs(r *Run, rule, onlyType string) {
	p := r.P
	roots := p.Roots()
	reach, _ := p.Reach(roots["begin"])
	if re, _ := p.Reach(roots["end"]); re != nil {
		for f := range re {
			reach[f] = true
		}
	}
	singles := singletonTypes(p)
	n := 0
	rebuilders := map[*ssa.Function]string{}
	for _, fn := range sortedFns(reach) {
		if fn.Blocks == nil || !inRepo(fn) || fn.Signature.Recv() == nil || len(fn.Params) == 0 {
			continue
		}
		rt := derefT(fn.Signature.Recv().Type())
		if !singles[tname(rt)] && !singles[strings.TrimPrefix(tname(rt), "*")] {
			continue
		}
		if onlyType != "" && strings.TrimPrefix(tname(rt), "*") != onlyType {
			continue
		}
		fn := fn
		recv := fn.Params[0]
		allInstrs(fn, func(ins ssa.Instruction) {
			st, ok := ins.(*ssa.Store)
			if !ok {
				return
			}
			pa := pathOf(st.Addr)
			if pa.Root != ssa.Value(recv) || len(pa.Fields) != 1 {
				return
			}
			switch st.Val.(type) {
			case *ssa.MakeMap, *ssa.MakeSlice:
			default:
				return
			}
			// a nil-guarded lazy initialisation is not a reset
			lazy := condEdges(fn, func(cond ssa.Value, _ *ssa.If) int {
				return nilCond(cond, func(y ssa.Value) bool {
					pb := pathOf(y)
					return pb.Root == pa.Root && pb.FieldString() == pa.FieldString()
				})
			})
			if len(lazy) > 0 && !reachWithout(fn, lazy)[st.Block()] {
				return
			}
			n++
			rebuilders[fn] = pa.FieldString()
			first := fn.Blocks[0].Instrs[0]
			bad := false
			if first != ssa.Instruction(st) {
				for i2 := range reachFromInstr(first, nil, func(i ssa.Instruction) bool { return i == ssa.Instruction(st) }) {
					if _, isRet := i2.(*ssa.Return); isRet {
						bad = true
					}
				}
			}
			r.Check(!bad, rule, fname(fn), pa.FieldString()+" is re-created on every path", "no return before the reset",
				"the per-block table "+pa.FieldString()+" is reset on some paths of "+fname(fn)+" only: on the other paths a running node keeps the previous block's content, a restarted node starts empty, and their results differ from that block on", p.ipos(st))
		})
	}
	checkHookMapsRecreated(r, rule, onlyType)
	checkRebuildersCalled(r, rule, rebuilders, reach)
	if n < 2 {
		fail("%s: only %d per-block resets found", rule, n)
	}
}
