package main

// C20 Domain names.

import (
	"go/token"
	"strings"

	"golang.org/x/tools/go/ssa"
)

const (
	fnDomGet     = "(*data/ons.DomainStore).Get"
	fnDomSet     = "(*data/ons.DomainStore).Set"
	fnDomExists  = "(*data/ons.DomainStore).Exists"
	fnDomDelSub  = "(*data/ons.DomainStore).DeleteASubdomain"
	fnDomDelSubs = "(*data/ons.DomainStore).DeleteAllSubdomains"
	fnPoolAdd    = "(*data/fees.Store).AddToPool"
)

func init() {
	register(&propertyDef{
		ID:    "C20",
		Title: "Domain names: exclusive ownership, owner-only changes, paid transfers",
		Explain: "Decides on every path of the seven ONS handlers (deliver side): every write or deletion of a domain record in update, sale, renew and delete-sub lies behind the equality of the stored owner and the message's owner field; " +
			"create writes only on the not-exists edge, sub-domain creation only past the parent-owner equality, and debits the message's owner; purchase is admitted only on sale or expired, debits the buyer and credits the stored owner " +
			"with one sale-price datum behind sale <= offering, and resets the record to the buyer only after both debits succeeded; renew/create/purchase compute the expiry extension from the same payment field that is debited; " +
			"send debits the sender and credits the stored beneficiary with one coin.",
		NotDecided: "exclusivity over histories, the exact expiry arithmetic (integer division of big numbers), name syntax rules",
		Run:        runC20,
	})
}

func runC20(r *Run) {
	p := r.P
	dom := func(f string) VPred { return recF(f, fnDomGet) }
	ownerEq := func(msgField string) GuardSpec {
		return eqG("stored owner == msg."+msgField, true, dom("Owner"), msgF(p, msgField))
	}
	why := "someone who is not the current owner can change or delete the domain"

	upd := p.deliverEntry("DOMAIN_UPDATE")
	r.guardOb("C20.owner", upd, "Domains.Set", callsTo(fnDomSet), ownerEq("Owner"), why)
	sale := p.deliverEntry("DOMAIN_SELL")
	r.guardOb("C20.owner", sale, "Domains.Set", callsTo(fnDomSet), ownerEq("OwnerAddress"), why)
	ren := p.deliverEntry("DOMAIN_RENEW")
	r.guardOb("C20.owner", ren, "Domains.Set / payment", callsTo(fnDomSet, fnBalMinus, fnPoolAdd), ownerEq("Owner"), why)
	del := p.deliverEntry("DOMAIN_DELETE_SUB")
	r.guardOb("C20.owner", del, "sub-domain deletion", callsTo(fnDomDelSub, fnDomDelSubs), ownerEq("Owner"), "a stranger can delete someone's sub-domains")

	// create
	cr := p.deliverEntry("DOMAIN_CREATE")
	r.guardOb("C20.create", cr, "Domains.Set", callsTo(fnDomSet),
		boolCallG("domain does not exist", false, []string{fnDomExists}, nil, func(v ssa.Value) bool {
			// the submitted name, possibly normalised (C20.name checks that the stored name is normalised the same way)
			return derivesFrom(v, msgF(p, "Name"))
		}), "an existing name can be overwritten (second owner)")
	r.guardOb("C20.create", cr, "Domains.Set", callsTo(fnDomSet),
		errCallG("debit of msg.Owner succeeded", []string{fnBalMinus}, nil, msgF(p, "Owner"), coinFromMsg(p, "BuyingPrice")), "a domain is created without the price being paid by its owner")
	// use of the parent record (sub-domain branch) only past the parent-owner equality
	r.guardOb("C20.create", cr, "use of parent.ExpireHeight", func(fn *ssa.Function, ins ssa.Instruction) bool {
		u, ok := ins.(*ssa.UnOp)
		return ok && u.Op == token.MUL && dom("ExpireHeight")(u)
	}, eqG("parent owner == msg.Owner", true, dom("Owner"), msgF(p, "Owner")), "a sub-domain can be created under someone else's domain")
	// the new record's owner and the expiry
	if nd := firstCall(cr, "data/ons.NewDomain"); nd != nil {
		r.Check(msgF(p, "Owner")(nd.Call.Args[0]), "C20.create", fname(cr), "new record owned by msg.Owner (the payer)", "NewDomain(msg.Owner, ...)",
			"the created record's owner is not the address that paid", p.ipos(nd))
		exp := nd.Call.Args[5]
		okExp := derivesFrom(exp, func(y ssa.Value) bool {
			if dom("ExpireHeight")(y) {
				return true
			}
			c, ok := y.(*ssa.Call)
			return ok && calleeName(c) == "action/ons.calculateExpiry" && msgF(p, "BuyingPrice.Value")(c.Call.Args[0])
		})
		r.Check(okExp, "C20.expiry", fname(cr), "expiry from calculateExpiry(msg.BuyingPrice.Value, ...) or the parent's expiry",
			"the expiry derives from the paid amount (or the parent for a sub-name)", "the expiry of a created name does not derive from the amount that is debited", p.ipos(nd))
	} else {
		r.Viol("C20.create", fname(cr), "NewDomain", "no NewDomain call in the create handler", p.pos(cr.Pos()), nil)
	}
	checkExpiryFn(r, "action/ons.calculateExpiry", true)
	checkExpiryFn(r, "action/ons.calculateRenewal", false)

	// renew: extension from the same price field; debit subject
	r.argCheck("C20.renew", ren, fnBalMinus, 1, "msg.Owner", msgF(p, "Owner"), "someone else pays the renewal")
	r.argCheck("C20.renew", ren, fnBalMinus, 2, "coin from msg.BuyingPrice", coinFromMsg(p, "BuyingPrice"), "debited amount differs from the priced amount")
	if c := firstCall(ren, "(*data/ons.Domain).AddToExpire"); c != nil {
		r.Check(derivesFrom(c.Call.Args[1], func(y ssa.Value) bool {
			cc, ok := y.(*ssa.Call)
			return ok && calleeName(cc) == "action/ons.calculateRenewal" && msgF(p, "BuyingPrice.Value")(cc.Call.Args[0])
		}), "C20.expiry", fname(ren), "extension = calculateRenewal(msg.BuyingPrice.Value, PerBlockFees)",
			"the extension derives from the amount that is debited", "the renewal extension does not derive from the debited amount", p.ipos(c))
		r.guardOb("C20.renew", ren, "AddToExpire", callsTo("(*data/ons.Domain).AddToExpire"),
			errCallG("debit succeeded", []string{fnBalMinus}), "expiry is extended without payment")
	} else {
		r.Viol("C20.expiry", fname(ren), "AddToExpire", "renew no longer extends the expiry through Domain.AddToExpire", p.pos(ren.Pos()), nil)
	}

	// purchase
	pu := p.deliverEntry("DOMAIN_PURCHASE")
	onSaleOrExpired := &AnyGuard{Name: "on sale or expired", Alts: []GuardSpec{
		cmpG("OnSaleFlag", dom("OnSaleFlag"), token.EQL, func(v ssa.Value) bool { c, ok := boolConst(v); return ok && c }),
		&EdgeGuard{Name: "OnSaleFlag", Classify: func(_ *Program, _ *ssa.Function, cond ssa.Value, _ *ssa.If) int {
			return boolCond(cond, func(v ssa.Value) bool { return dom("OnSaleFlag")(v) })
		}},
		boolCallG("IsExpired(State.Version())", true, []string{"(*data/ons.Domain).IsExpired"}, nil, func(v ssa.Value) bool {
			c, ok := v.(*ssa.Call)
			return ok && (calleeName(c) == "(storage.State).Version" || calleeName(c) == "(*storage.State).Version")
		}),
		cmpG("version > ExpireHeight", func(v ssa.Value) bool {
			c, ok := v.(*ssa.Call)
			return ok && (calleeName(c) == "(storage.State).Version" || calleeName(c) == "(*storage.State).Version")
		}, token.GTR, dom("ExpireHeight")),
	}}
	r.guardOb("C20.purchase", pu, "Domains.Set / ResetAfterSale", callsTo(fnDomSet, "(*data/ons.Domain).ResetAfterSale"), onSaleOrExpired,
		"a name that is neither on sale nor expired can be taken from its owner")
	// sale datum
	isSale := func(v ssa.Value) bool {
		return derivesFrom(v, func(y ssa.Value) bool { return dom("SalePrice")(y) })
	}
	var debitSale, creditSale *ssa.Call
	for _, c := range allCalls(pu, fnBalMinus) {
		if isSale(c.Call.Args[2]) {
			debitSale = c
		}
	}
	for _, c := range allCalls(pu, fnBalAdd) {
		if isSale(c.Call.Args[2]) {
			creditSale = c
		}
	}
	okPair := debitSale != nil && creditSale != nil && samePath(debitSale.Call.Args[2], creditSale.Call.Args[2]) &&
		msgF(p, "Buyer")(debitSale.Call.Args[1]) && dom("Owner")(creditSale.Call.Args[1])
	pos := p.pos(pu.Pos())
	if creditSale != nil {
		pos = p.ipos(creditSale)
	}
	r.Check(okPair, "C20.purchase", fname(pu), "buyer debited and stored owner credited with one sale-price datum",
		"debit(msg.Buyer, sale) and credit(domain.Owner, sale) use the same coin built from domain.SalePrice",
		"the sale price is not moved from the buyer to the stored owner with one datum (e.g. credited to the buyer, or different amounts)", pos)
	if debitSale != nil && creditSale != nil {
		g := boolCallG("sale <= offering", true, []string{"(data/balance.Coin).LessThanEqualCoin"},
			func(v ssa.Value) bool { return isSale(v) },
			func(v ssa.Value) bool {
				return derivesFrom(v, func(y ssa.Value) bool { return msgF(p, "Offering.Value")(y) })
			})
		r.guardOb("C20.purchase", pu, "sale-price transfer", func(fn *ssa.Function, ins ssa.Instruction) bool {
			return ins == ssa.Instruction(debitSale) || ins == ssa.Instruction(creditSale)
		}, g, "a name can be bought for less than its asking price")
		checkSaleNotExpired(r, pu, creditSale)
		r.guardOb("C20.purchase", pu, "credit to the previous owner", func(fn *ssa.Function, ins ssa.Instruction) bool { return ins == ssa.Instruction(creditSale) },
			errCallG("buyer debit succeeded", []string{fnBalMinus}, nil, msgF(p, "Buyer")), "the seller is paid although the buyer could not be debited")
	}
	// record reset only after every debit on the path succeeded; new owner = buyer
	r.guardOb("C20.purchase", pu, "ResetAfterSale / Domains.Set", callsTo("(*data/ons.Domain).ResetAfterSale", fnDomSet),
		errCallG("debit of msg.Buyer succeeded", []string{fnBalMinus}, nil, msgF(p, "Buyer")), "ownership moves although the buyer did not pay")
	r.argCheck("C20.purchase", pu, "(*data/ons.Domain).ResetAfterSale", 1, "msg.Buyer", msgF(p, "Buyer"), "the name goes to someone else than the payer")
	// sub-domains cannot be purchased
	r.guardOb("C20.purchase", pu, "Domains.Set", callsTo(fnDomSet),
		boolCallG("not a sub-domain", false, []string{"(data/ons.Name).IsSub"}), "a sub-name can be bought away from under its parent's owner")
	// extension derives from the offering
	if c := firstCall(pu, "(*data/ons.Domain).ResetAfterSale"); c != nil {
		r.Check(derivesFrom(c.Call.Args[3], func(y ssa.Value) bool { return msgF(p, "Offering.Value")(y) || msgF(p, "Offering")(y) }),
			"C20.expiry", fname(pu), "extension derives from msg.Offering", "the blocks bought derive from the offered amount", "the purchase extension does not derive from the offered amount", p.ipos(c))
	}

	// send to domain
	sd := p.deliverEntry("DOMAIN_SEND")
	r.argCheck("C20.send", sd, fnBalMinus, 1, "msg.From", msgF(p, "From"), "someone else than the sender is debited")
	r.argCheck("C20.send", sd, fnBalAdd, 1, "domain.Beneficiary", dom("Beneficiary"), "funds sent to a name do not reach its beneficiary")
	if d, c := firstCall(sd, fnBalMinus), firstCall(sd, fnBalAdd); d != nil && c != nil {
		r.Check(samePath(d.Call.Args[2], c.Call.Args[2]) && coinFromMsg(p, "Amount")(d.Call.Args[2]), "C20.send", fname(sd), "one coin debited and credited",
			"debit and credit use the same coin built from msg.Amount", "the credited amount differs from the debited one", p.ipos(c))
		r.guardOb("C20.send", sd, "credit", callsTo(fnBalAdd), errCallG("debit succeeded", []string{fnBalMinus}), "the beneficiary is credited although the sender was not debited")
	}
	// sub-domain scans: the handlers' callbacks never stop the walk, and the scanned key range is exactly the parent's prefix
	for _, e := range []*ssa.Function{ren, upd} {
		for _, c := range allCalls(e, "(*data/ons.DomainStore).IterateSubDomain") {
			cl := closureOf(c.Call.Args[2])
			r.Check(cl != nil && callbackNeverStops(cl), "C20.subdomains", fname(e), "sub-domain callback never stops the walk",
				"every sub-domain of the name is visited", "the walk over the sub-domains can stop early: later sub-domains keep their old expiry / activation", p.ipos(c))
		}
	}
	das := p.MustFn(fnDomDelSubs)
	for _, c := range allCalls(das, "(*data/ons.DomainStore).IterateSubDomain") {
		cl := closureOf(c.Call.Args[2])
		r.Check(cl != nil && callbackNeverStops(cl), "C20.subdomains", fname(das), "deletion callback never stops the walk",
			"every sub-domain is deleted", "DeleteAllSubdomains can stop early and leave sub-domains behind under the new owner", p.ipos(c))
	}
	isd := p.MustFn("(*data/ons.DomainStore).IterateSubDomain")
	if ir := firstCallIn(isd, "(*storage.State).IterateRange"); ir != nil {
		start, end := ir.Call.Args[1], ir.Call.Args[2]
		okRange := false
		if rc, ok := end.(*ssa.Call); ok && calleeName(rc) == "storage.Rangefix" {
			// end = Rangefix(string(start)): the argument is the start key itself
			okRange = derivesFrom(rc.Call.Args[0], func(y ssa.Value) bool { return y == start }) ||
				samePath(unwrapConv(rc.Call.Args[0]), start)
		}
		startOK := derivesFrom(start, func(y ssa.Value) bool {
			c, ok := y.(*ssa.BinOp)
			if !ok || c.Op != token.ADD {
				return false
			}
			k, isC := c.X.(*ssa.Const)
			return isC && k.Value != nil && strings.Contains(k.Value.String(), ".") && derivesFrom(c.Y, func(z ssa.Value) bool { return z == ssa.Value(isd.Params[1]) })
		})
		r.Check(okRange && startOK, "C20.subdomains", fname(isd), "range = [prefix + key(\".\"+parent), Rangefix(same key))",
			"the scanned range is exactly the keys below \".parent\"", "the sub-domain range does not end at the range-fix of its own start key (names that merely end with the parent's text are swept in)", p.ipos(ir))
	} else {
		r.Viol("C20.subdomains", fname(isd), "range scan", "IterateSubDomain no longer uses State.IterateRange", p.pos(isd.Pos()), nil)
	}
	checkOptionsValidated(r, "C20.options", "ValidateONS", 2)
	checkDomainNameRoutes(r)
	checkGuardedSub(r, "C20.price", "/action/ons", 1)
	r.Floor("C20.", 30)
}

// callbackNeverStops: every return of the iteration callback is the constant false.
func callbackNeverStops(cl *ssa.Function) bool {
	for _, ret := range returnsOf(cl) {
		if len(ret.Results) != 1 {
			return false
		}
		if k, isC := boolConst(ret.Results[0]); !isC || k {
			return false
		}
	}
	return true
}

// checkExpiryFn: the helper rejects a payment below the base, and divides (payment - base) / perBlock with big.Int.Div.
func checkExpiryFn(r *Run, name string, hasBase bool) {
	p := r.P
	fn := p.MustFn(name)
	var div *ssa.Call
	allInstrs(fn, func(ins ssa.Instruction) {
		if c, ok := ins.(*ssa.Call); ok && (calleeName(c) == "(*math/big.Int).Div" || calleeName(c) == "(*math/big.Int).Quo") {
			div = c
		}
	})
	if div == nil {
		r.Viol("C20.expiry", fname(fn), "floor division", "no big.Int.Div in "+name, p.pos(fn.Pos()), nil)
		return
	}
	last := len(fn.Params) - 1
	numOK := derivesFrom(div.Call.Args[1], func(y ssa.Value) bool { return y == ssa.Value(fn.Params[0]) })
	denOK := derivesFrom(div.Call.Args[2], func(y ssa.Value) bool { return y == ssa.Value(fn.Params[last]) })
	if hasBase {
		numOK = numOK && derivesFrom(div.Call.Args[1], func(y ssa.Value) bool {
			c, ok := y.(*ssa.Call)
			return ok && calleeName(c) == "(*math/big.Int).Sub"
		}) && derivesFrom(div.Call.Args[1], func(y ssa.Value) bool { return y == ssa.Value(fn.Params[1]) })
	}
	r.Check(numOK && denOK, "C20.expiry", fname(fn), "blocks = (payment - base) / per-block price",
		"the number of blocks is the floor quotient of the payment (minus the base price) by the per-block price",
		"the expiry helper no longer divides the payment (minus base) by the per-block price", p.ipos(div))
	// payment below the threshold is rejected
	g := cmpG("payment >= threshold", func(v ssa.Value) bool {
		c, ok := v.(*ssa.Call)
		return ok && calleeName(c) == "(*math/big.Int).Cmp" && derivesFrom(c.Call.Args[0], func(y ssa.Value) bool { return y == ssa.Value(fn.Params[0]) })
	}, token.GEQ, constIs(0))
	// the same test written from the threshold's side: threshold.Cmp(payment) <= 0
	g2 := cmpG("threshold <= payment", func(v ssa.Value) bool {
		c, ok := v.(*ssa.Call)
		return ok && calleeName(c) == "(*math/big.Int).Cmp" && derivesFrom(c.Call.Args[1], func(y ssa.Value) bool { return y == ssa.Value(fn.Params[0]) }) &&
			!derivesFrom(c.Call.Args[0], func(y ssa.Value) bool { return y == ssa.Value(fn.Params[0]) })
	}, token.LEQ, constIs(0))
	edges := append(g.Edges(p, fn), g2.Edges(p, fn)...)
	ok := len(edges) > 0
	for _, ret := range returnsOf(fn) {
		if errMayBeNil(ret) && reachWithout(fn, edges)[ret.Block()] {
			ok = false
		}
	}
	_ = strings.TrimSpace
	r.Check(ok, "C20.expiry", fname(fn), "payment below the minimum is rejected", "a nil error only when the payment reaches the minimum",
		"a payment below the minimum yields a (negative or huge) number of blocks instead of an error", p.pos(fn.Pos()))
}
