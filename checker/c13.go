package main

// C13 Block rewards stay within the pulled amount and the yearly schedule: structural necessary conditions.

import (
	"go/token"
	"sort"
	"strings"

	"golang.org/x/tools/go/ssa"
)

func init() {
	register(&propertyDef{
		ID:    "C13",
		Title: "Block rewards within the pulled amount and the yearly schedule",
		Explain: "Decides the structural part: (floor) every reward share credited in the block-reward hook is an integer quotient with nothing added; (powers) the numerator power of each validator share and the divisor come from the same source, the commit votes of the block, never from the validator store; " +
			"(consume) every amount credited to a validator or to the delegation pool is added to the consumed total, which ConsumeRewards receives on every path after a successful PullRewards; (cap) after the schedule has burnt out PullRewards caps the amount by the rewards pool; " +
			"(schedule) the per-block amount is (year supply - TillLastCycle) / forecast blocks, with the persisted cycle snapshot (not the live counter), and TillLastCycle is written only at the last block of a cycle from the updated year counter; " +
			"(withdraw) WithdrawRewards adds to the withdrawn total only behind the successful debit of the matured balance, same validator and amount; (dump) state dump and load are the identity on the matured-balance and withdrawn tables (each list is filled from the iterated record of its own key prefix and loaded through the matching adder).",
		NotDecided: "the numeric bound credited <= pulled <= year supply left (needs the sum of powers <= total power at run time); restart independence of the forecast (block-store times are runtime data)",
		Run:        runC13,
	})
}

func runC13(r *Run) {
	p := r.P
	vs := valueStoring(p)
	checkFloorIn(r, vs, "C13.floor", []string{"app.handleBlockRewards", "app.handleDelegationRewards"}, 2)

	hb := p.MustFn("app.handleBlockRewards")
	// ---- powers
	fromVotes := func(v ssa.Value) bool {
		return derivesFrom(v, func(y ssa.Value) bool { return strings.HasSuffix(pathOf(y).FieldString(), "Validator.Power") })
	}
	fromStore := func(v ssa.Value) bool {
		return derivesFrom(v, func(y ssa.Value) bool {
			pa := pathOf(y)
			if !strings.HasSuffix(pa.FieldString(), "Power") || strings.HasSuffix(pa.FieldString(), "Validator.Power") {
				return false
			}
			s, _ := tupleSource(pa.Root)
			c, ok := s.(*ssa.Call)
			return ok && calleeName(c) == "(*identity.ValidatorStore).Get"
		})
	}
	// the map of per-validator powers: values stored into it
	mapFromVotes := func(v ssa.Value) bool {
		lk, ok := v.(*ssa.Lookup)
		if !ok {
			return false
		}
		good, n := true, 0
		allInstrs(hb, func(ins ssa.Instruction) {
			if mu, ok := ins.(*ssa.MapUpdate); ok && mu.Map == lk.X {
				n++
				if !fromVotes(mu.Value) || fromStore(mu.Value) {
					good = false
				}
			}
		})
		return good && n > 0
	}
	nShare := 0
	for _, c := range allCalls(hb, "app.getRewardForValidator") {
		nShare++
		num := c.Call.Args[1]
		okNum := (mapFromVotes(num) || fromVotes(num)) && !fromStore(num)
		div := c.Call.Args[0]
		okDiv := derivesFromAccumulated(hb, div, fromVotes) && !fromStore(div)
		r.Check(okNum && okDiv, "C13.powers", fname(hb), "share #"+itoa(int64(nShare))+": numerator power and total power both come from the commit votes", "validator power from LastCommitInfo votes; total = sum over the same votes (+ delegation pool)",
			"the validator's share is computed with a power from another source than the total it is divided by (the validator store changes at once, the commit votes two blocks later): the shares can add up to more than the pulled amount", p.ipos(c))
	}
	if nShare < 2 {
		fail("C13.powers: %d share computations found (expected 2)", nShare)
	}

	// ---- consume
	pull := firstCallIn(hb, "(*data/rewards.RewardCumulativeStore).PullRewards")
	cons := firstCallIn(hb, "(*data/rewards.RewardCumulativeStore).ConsumeRewards")
	okCons := pull != nil && cons != nil
	if okCons {
		errEdges := invertEdges((&CallGuard{Name: "pull", Callees: []string{"(*data/rewards.RewardCumulativeStore).PullRewards"}, ErrOnly: true}).Edges(p, hb))
		for ins := range reachFromInstr(pull, errEdges, func(i ssa.Instruction) bool { return i == ssa.Instruction(cons) }) {
			if _, isRet := ins.(*ssa.Return); isRet {
				okCons = false
			}
		}
	}
	r.Check(okCons, "C13.consume", fname(hb), "the consumed total is booked on every path after a successful pull", "ConsumeRewards reached before every return once PullRewards succeeded", "a path credits rewards without booking them against the year's supply: later blocks pull from a supply that is already spent", p.pos(hb.Pos()))
	// each credited amount feeds the consumed total
	total := func(v ssa.Value) bool {
		return cons != nil && derivesFromAccumulated(hb, cons.Call.Args[1], func(y ssa.Value) bool { return y == v })
	}
	for _, c := range allCalls(hb, "(*data/rewards.RewardStore).AddToAddress") {
		amt := c.Call.Args[3]
		r.Check(total(amt), "C13.consume", fname(hb), "the amount credited to a validator is part of the consumed total", "totalConsumed = totalConsumed.Plus(amount) with the credited datum", "a validator is credited an amount that is not added to the consumed total", p.ipos(c))
	}
	if dc := firstCallIn(hb, "app.handleDelegationRewards"); dc != nil {
		okD := cons != nil && derivesFromAccumulated(hb, cons.Call.Args[1], func(y ssa.Value) bool {
			return strings.HasSuffix(pathOf(y).FieldString(), "DelegationRewards") && derivesFrom(y, func(z ssa.Value) bool { return z == ssa.Value(dc) })
		})
		r.Check(okD, "C13.consume", fname(hb), "the delegation pool's share is part of the consumed total", "totalConsumed.Plus(delegationResp.DelegationRewards)", "the delegators' rewards are not booked against the year's supply", p.ipos(dc))
	}

	// ---- cap
	pr := p.MustFn("(*data/rewards.RewardCumulativeStore).PullRewards")
	okCap := false
	allInstrs(pr, func(ins ssa.Instruction) {
		st, ok := ins.(*ssa.Store)
		if !ok {
			return
		}
		// *amount = *poolAmt
		ld, isLd := st.Val.(*ssa.UnOp)
		if !isLd || ld.X != ssa.Value(pr.Params[2]) {
			return
		}
		// reached only on burnedout && pool < amount
		b1 := boolEdgesOf(pr, "(*data/rewards.RewardCalculator).Burnedout", true)
		b2 := boolEdgesOf(pr, "(*data/balance.Amount).LessThan", true)
		if len(b1) > 0 && len(b2) > 0 && !reachWithout(pr, b2)[st.Block()] {
			// and that edge is not optional: the true edge of the comparison leads to the store
			okCap = true
		}
	})
	r.Check(okCap, "C13.cap", fname(pr), "after burn-out the amount is capped by the rewards pool", "burnedout && pool < amount => amount = pool", "PullRewards can hand out more than the rewards pool holds once the schedule is over", p.pos(pr.Pos()))

	// ---- schedule
	calc := p.MustFn("(*data/rewards.RewardCalculator).Calculate")
	mn := firstCallIn(calc, fnAmountMinus)
	okSch := mn != nil
	if okSch {
		sub := mn.Call.Args[1]
		okSch = derivesFrom(sub, func(y ssa.Value) bool { return strings.HasSuffix(pathOf(y).FieldString(), "TillLastCycle") }) &&
			!derivesFrom(sub, func(y ssa.Value) bool { return strings.HasSuffix(pathOf(y).FieldString(), "Distributed") }) &&
			derivesFrom(mn.Call.Args[0], func(y ssa.Value) bool { return strings.HasSuffix(pathOf(y).FieldString(), "YearBlockRewardShares") })
	}
	r.Check(okSch, "C13.schedule", fname(calc), "year supply left = year share - the persisted cycle snapshot", "YearBlockRewardShares[year].Minus(Years[year].TillLastCycle)", "the per-block amount is computed from the live year counter (or another figure) instead of the snapshot taken at the last cycle end: a node that recomputes it in the middle of a cycle (restart) pays a different amount than the others", p.pos(calc.Pos()))
	ay := p.MustFn("(*data/rewards.RewardCumulativeStore).addYearDistributedRewards")
	okTL, nTL := true, 0
	allInstrs(ay, func(ins ssa.Instruction) {
		st, ok := ins.(*ssa.Store)
		if !ok || !strings.HasSuffix(pathOf(st.Addr).FieldString(), "TillLastCycle") {
			return
		}
		nTL++
		guard := condEdges(ay, func(cond ssa.Value, _ *ssa.If) int {
			return boolCond(cond, func(y ssa.Value) bool { return y == ssa.Value(ay.Params[3]) })
		})
		if len(guard) == 0 || reachWithout(ay, guard)[st.Block()] || !derivesFrom(st.Val, func(y ssa.Value) bool { return strings.HasSuffix(pathOf(y).FieldString(), "Distributed") }) {
			okTL = false
		}
	})
	r.Check(okTL && nTL == 1, "C13.schedule", fname(ay), "the cycle snapshot is taken only at the last block of a cycle, from the year counter", "if lastInCycle { TillLastCycle = Distributed }", "TillLastCycle is written outside the cycle end or from another value: the next cycle's amount is computed from a wrong base", p.pos(ay.Pos()))

	// ---- withdraw
	w := p.MustFn("(*data/rewards.RewardCumulativeStore).WithdrawRewards")
	m1, a1 := firstCallIn(w, "(*data/rewards.RewardCumulativeStore).minusRewardsBalance"), firstCallIn(w, "(*data/rewards.RewardCumulativeStore).addWithdrawnRewards")
	okW := m1 != nil && a1 != nil
	if okW {
		okW = paramIs(w, 1)(m1.Call.Args[1]) && paramIs(w, 2)(m1.Call.Args[2]) && paramIs(w, 1)(a1.Call.Args[1]) && paramIs(w, 2)(a1.Call.Args[2])
		e := (&CallGuard{Name: "minus", Callees: []string{"(*data/rewards.RewardCumulativeStore).minusRewardsBalance"}, ErrOnly: true}).Edges(p, w)
		okW = okW && len(e) > 0 && !reachWithout(w, e)[a1.Block()]
	}
	r.Check(okW, "C13.withdraw", fname(w), "withdrawn total grows only behind the successful debit of the matured balance", "minusRewardsBalance (error-checked) then addWithdrawnRewards, same validator and amount", "a withdrawal can be booked without (or with another amount than) the reduction of the matured balance: more than what matured can be withdrawn", p.pos(w.Pos()))

	// ---- dump / load agreement
	ds := p.MustFn("(*data/rewards.RewardCumulativeStore).dumpState")
	sep := constString(p, Mod+"/storage", "DB_PREFIX")
	want := map[string]string{"balance" + sep: "MaturedBalances", "withdrawn" + sep: "WithdrawnAmounts"}
	nDump := 0
	for _, c := range allCalls(ds, "(*data/rewards.RewardCumulativeStore).iterate") {
		k, isK := c.Call.Args[1].(*ssa.Const)
		cl := closureOf(c.Call.Args[2])
		if !isK || cl == nil {
			continue
		}
		list, known := want[strings.Trim(k.Value.ExactString(), "\"")]
		if !known {
			continue
		}
		nDump++
		// the appended record is {addr param, amt param} and goes into the right list
		okRec, okList := false, false
		allInstrs(cl, func(ins ssa.Instruction) {
			st, ok := ins.(*ssa.Store)
			if !ok {
				return
			}
			fs := pathOf(st.Addr).FieldString()
			if strings.HasSuffix(fs, "Amount") && st.Val == ssa.Value(cl.Params[1]) {
				okRec = true
			}
			if strings.HasSuffix(fs, list) {
				okList = true
			}
			for other := range map[string]bool{"MaturedBalances": true, "WithdrawnAmounts": true} {
				if other != list && strings.HasSuffix(fs, other) {
					okList = false
				}
			}
		})
		r.Check(okRec && okList, "C13.dump", fname(cl), "the dump of "+list+" is the iterated record of its own key prefix", "Amount = the callback's amount, appended to "+list, "the state dump writes another figure (e.g. balance + withdrawn) or another list than what the loader adds back: a chain started from the dump credits rewards that were already withdrawn", p.pos(cl.Pos()))
	}
	if nDump != 2 {
		r.Viol("C13.dump", fname(ds), "two dumped tables", "the matured-balance and withdrawn tables are no longer dumped from their key prefixes", p.pos(ds.Pos()), nil)
	}
	for key, fn := range map[string]string{"balance": "getBalanceKey", "withdrawn": "getWithdrawnKey"} {
		f := p.MustFn("(*data/rewards.RewardCumulativeStore)." + fn)
		found := false
		allInstrs(f, func(ins ssa.Instruction) {
			if bo, ok := ins.(*ssa.BinOp); ok {
				if k, isK := bo.Y.(*ssa.Const); isK && k.Value != nil && strings.Trim(k.Value.ExactString(), "\"") == key {
					found = true
				}
			}
		})
		r.Check(found, "C13.dump", fname(f), "record key uses the prefix the dump iterates", "<prefix>"+key+sep+"<validator>", "the key layout no longer matches the prefix the state dump scans", p.pos(f.Pos()))
	}
	ls := p.MustFn("(*data/rewards.RewardCumulativeStore).loadState")
	for list, adder := range map[string]string{"MaturedBalances": "(*data/rewards.RewardCumulativeStore).AddMaturedBalance", "WithdrawnAmounts": "(*data/rewards.RewardCumulativeStore).addWithdrawnRewards"} {
		c := firstCallIn(ls, adder)
		okL := c != nil
		if okL {
			for _, a := range c.Call.Args[1:] {
				if !derivesFrom(a, func(y ssa.Value) bool { return strings.HasSuffix(pathOf(y).FieldString(), list) }) {
					okL = false
				}
			}
		}
		r.Check(okL, "C13.dump", fname(ls), list+" is loaded through its own adder", adder+"(element.Address, element.Amount)", "the loader books "+list+" into another table than the one it was dumped from", p.pos(ls.Pos()))
	}
	checkCycleAligned(r)
	checkConsumeAlwaysBooks(r)
	checkDumpLoadFields(r, "C13.dump", "(*data/rewards.RewardStore).dumpState", "(*data/rewards.RewardStore).loadState")
	checkDumpLoadFields(r, "C13.dump", "(*data/rewards.RewardCumulativeStore).dumpState", "(*data/rewards.RewardCumulativeStore).loadState")
	checkIntervalIndexSiblings(r)
	r.Floor("C13.", 16)
}

// derivesFromAccumulated: v derives from pred, also through in-place accumulation on a big.Int / Amount object
// (x.Add(x, y), x = x.Plus(y)) anywhere in fn.
func derivesFromAccumulated(fn *ssa.Function, v ssa.Value, pred func(ssa.Value) bool) bool {
	if derivesFrom(v, pred) {
		return true
	}
	// objects v derives from
	roots := map[ssa.Value]bool{}
	derivesFrom(v, func(y ssa.Value) bool {
		roots[y] = true
		return false
	})
	found := false
	allInstrs(fn, func(ins ssa.Instruction) {
		c, ok := ins.(*ssa.Call)
		if !ok || found {
			return
		}
		switch calleeName(c) {
		case "(*math/big.Int).Add", fnAmountPlus:
			if roots[c.Call.Args[0]] || roots[ssa.Value(c)] {
				for _, a := range c.Call.Args[1:] {
					if derivesFrom(a, pred) {
						found = true
					}
				}
			}
		}
	})
	return found
}

// checkCycleAligned: every block-store height the reward calculator reads is a constant or aligned to the calculation
// cycle ((h-1)/cycle*cycle+1 and offsets of it by the cycle): a node that recomputes in the middle of a cycle then
// reads the same blocks as the nodes that computed at its first block.
func checkCycleAligned(r *Run) {
	p := r.P
	n := 0
	for _, fn := range sortedFns(p.Fns) {
		if fn.Blocks == nil || fnPkg(fn) == nil || fnPkg(fn).Path() != Mod+"/data/rewards" || fn.Signature.Recv() == nil || !strings.HasSuffix(tname(fn.Signature.Recv().Type()), "RewardCalculator") {
			continue
		}
		fn := fn
		allInstrs(fn, func(ins ssa.Instruction) {
			c, ok := ins.(*ssa.Call)
			if !ok || !strings.HasSuffix(calleeName(c), "BlockStore).LoadBlockMeta") {
				return
			}
			n++
			h := c.Call.Args[1]
			okv := false
			if _, isK := intConst(h); isK {
				okv = true
			} else {
				// aligned: passes through x/cycle*cycle
				okv = derivesFrom(h, func(y ssa.Value) bool {
					mul, ok := y.(*ssa.BinOp)
					if !ok || mul.Op != token.MUL {
						return false
					}
					for _, pair := range [][2]ssa.Value{{mul.X, mul.Y}, {mul.Y, mul.X}} {
						if q, ok := pair[0].(*ssa.BinOp); ok && q.Op == token.QUO && samePath(q.Y, pair[1]) {
							return true
						}
					}
					return false
				})
			}
			r.Check(okv, "C13.schedule", fname(fn), "block time read at a cycle-aligned height", "constant height or (x / cycle) * cycle + offset", "the calculator reads block times at a height that depends on where inside a cycle it is asked: a node restarted in the middle of a cycle forecasts another number of blocks and pays another per-block amount than the others", p.ipos(c))
		})
	}
	if n < 3 {
		fail("C13.schedule: only %d block-store reads in the reward calculator (expected 3)", n)
	}
}

// exprShape: canonical shape of an integer expression: operators, constants and the names of the record fields it reads;
// everything else is a wildcard. Commutative operators are ordered.
func exprShape(v ssa.Value, depth int) string {
	if depth > 12 {
		return "?"
	}
	switch x := v.(type) {
	case *ssa.Const:
		if k, ok := intConst(x); ok {
			return itoa(k)
		}
	case *ssa.Convert:
		return exprShape(x.X, depth+1)
	case *ssa.ChangeType:
		return exprShape(x.X, depth+1)
	case *ssa.BinOp:
		if x.Op == token.ADD || x.Op == token.MUL {
			// associative and commutative: flatten and order the operands
			var terms []string
			var flat func(v ssa.Value, d int)
			flat = func(v ssa.Value, d int) {
				if b, ok := v.(*ssa.BinOp); ok && b.Op == x.Op && d < 8 {
					flat(b.X, d+1)
					flat(b.Y, d+1)
					return
				}
				if c, ok := v.(*ssa.Convert); ok {
					if b, ok := c.X.(*ssa.BinOp); ok && b.Op == x.Op && d < 8 {
						flat(b.X, d+1)
						flat(b.Y, d+1)
						return
					}
				}
				terms = append(terms, exprShape(v, depth+1))
			}
			flat(x, 0)
			sort.Strings(terms)
			return "(" + x.Op.String() + " " + strings.Join(terms, " ") + ")"
		}
		return "(" + x.Op.String() + " " + exprShape(x.X, depth+1) + " " + exprShape(x.Y, depth+1) + ")"
	case *ssa.UnOp:
		if x.Op == token.MUL {
			if fs := pathOf(x).Fields; len(fs) > 0 {
				last := fs[len(fs)-1]
				if last == "LastIndex" || last == "LastHeight" {
					return "F:" + last
				}
			}
		}
	}
	return "?"
}

// checkIntervalIndexSiblings: the reward store computes "the interval index of a height" in several places; the state dump
// must use the same expression as the key builder (a dump taken with another rounding matures a chunk twice after import).
func checkIntervalIndexSiblings(r *Run) {
	p := r.P
	gk := p.MustFn("(*data/rewards.RewardStore).generateKey")
	ref := ""
	allInstrs(gk, func(ins ssa.Instruction) {
		c, ok := ins.(*ssa.Call)
		if ok && calleeName(c) == "strconv.FormatInt" {
			ref = exprShape(c.Call.Args[0], 0)
		}
	})
	if !strings.Contains(ref, "F:LastIndex") {
		fail("C13.dump: the interval index expression of generateKey was not recognised (%s)", ref)
	}
	ds := p.MustFn("(*data/rewards.RewardStore).dumpState")
	got := ""
	allInstrs(ds, func(ins ssa.Instruction) {
		st, ok := ins.(*ssa.Store)
		if ok && strings.HasSuffix(pathOf(st.Addr).FieldString(), "LastIndex") {
			got = exprShape(st.Val, 0)
		}
	})
	r.Check(got == ref, "C13.dump", fname(ds), "the dumped interval index is computed like the key builder's", ref,
		"the state dump computes the current interval index with another expression ("+got+") than generateKey ("+ref+"): at some heights the imported chain matures a reward chunk a second time", p.pos(ds.Pos()))
}
