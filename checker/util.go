package main

import (
	"go/constant"
	"go/types"
	"strconv"

	"golang.org/x/tools/go/ssa"
)

func itoa(k int64) string { return strconv.FormatInt(k, 10) }

func int64FromConst(v constant.Value) (int64, bool) {
	if v == nil || v.Kind() != constant.Int {
		return 0, false
	}
	return constant.Int64Val(v)
}

// returnsOf lists the Return instructions of fn.
func returnsOf(fn *ssa.Function) []*ssa.Return {
	var res []*ssa.Return
	for _, b := range fn.Blocks {
		if len(b.Instrs) == 0 || b == fn.Recover {
			continue
		}
		if r, ok := b.Instrs[len(b.Instrs)-1].(*ssa.Return); ok {
			res = append(res, r)
		}
	}
	return res
}

// errMayBeNil: the return's error result is not provably non-nil.
func errMayBeNil(r *ssa.Return) bool {
	for _, v := range r.Results {
		if isErrorType(v.Type()) {
			return !errNonNilAt(v, r.Block())
		}
	}
	return true
}

func paramNamed(fn *ssa.Function, i int) *ssa.Parameter {
	if i < len(fn.Params) {
		return fn.Params[i]
	}
	return nil
}

// constValue: the int64 value of a package-level constant.
func constValue(p *Program, pkgPath, name string) int64 {
	pk := p.AllPkgs[pkgPath]
	if pk == nil {
		fail("package %s not loaded", pkgPath)
	}
	o := pk.Types.Scope().Lookup(name)
	if o == nil {
		fail("constant %s.%s missing", pkgPath, name)
	}
	c, ok := o.(*types.Const)
	if !ok {
		fail("%s.%s is not a constant", pkgPath, name)
	}
	v, ok := int64FromConst(c.Val())
	if !ok {
		fail("%s.%s is not an integer constant", pkgPath, name)
	}
	return v
}
