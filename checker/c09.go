package main

// C09 The layered state store behaves like a transactional, versioned map: structural rules over package storage.

import (
	"fmt"
	"go/constant"
	"go/token"
	"go/types"
	"strings"

	"golang.org/x/tools/go/ssa"
)

func init() {
	register(&propertyDef{
		ID:    "C09",
		Title: "The layered state store behaves like a transactional, versioned map",
		Explain: "Decides, on every path of the storage layer: (order) State.Get/Exists consult session, then block cache, then tree, each later layer only on the miss/absent edge of the earlier; " +
			"(tombstone) a value taken from an overlay is returned as present only past a not-tombstone test; (overlay) Set/Delete of both overlays always record the value / the tombstone and append the key " +
			"to the ordered key list on first write; (replay) session Commit and the block-cache iterator walk the ordered key list (never the map), hand every recorded entry on, and State.Write turns tombstones " +
			"into removals, everything else into sets, and never stops early; (commit) State.Commit = Write, fresh cache, no session, tree commit; Discard touches nothing; (purity) read operations have no write effect " +
			"apart from gas; (versions) tree versions are saved/deleted only by ChainState.Commit/ClearFrom under the rotation guards.",
		NotDecided: "IAVL's own behaviour, the exhaustive operation-sequence semantics, root-hash equality",
		Run:        runC09,
	})
}

// fieldOf: v is (a load of) field `field` of a struct named `typ` (tname form); returns the base.
func isFieldLoad(v ssa.Value, typ, field string) bool {
	v = unwrapIface(v)
	if u, ok := v.(*ssa.UnOp); ok && u.Op == token.MUL {
		v = u.X
	}
	fa, ok := v.(*ssa.FieldAddr)
	if !ok {
		if f, ok := v.(*ssa.Field); ok {
			n := namedOf(f.X.Type())
			return n != nil && tname(n) == typ && fieldName(f.X.Type(), f.Field) == field
		}
		return false
	}
	n := namedOf(fa.X.Type())
	return n != nil && tname(n) == typ && fieldName(fa.X.Type(), fa.Field) == field
}

func isFieldAddr(v ssa.Value, typ, field string) bool {
	fa, ok := v.(*ssa.FieldAddr)
	if !ok {
		return false
	}
	n := namedOf(fa.X.Type())
	return n != nil && tname(n) == typ && fieldName(fa.X.Type(), fa.Field) == field
}

var tombstoneVal string

func (p *Program) tombstone() string {
	if tombstoneVal == "" {
		pk := p.AllPkgs[Mod+"/storage"]
		c, ok := pk.Types.Scope().Lookup("TOMBSTONE").(*types.Const)
		if !ok {
			fail("storage.TOMBSTONE missing")
		}
		tombstoneVal = constant.StringVal(c.Val())
	}
	return tombstoneVal
}

// isTombstoneBytes: v is []byte(TOMBSTONE) (possibly through a local).
func isTombstoneBytes(p *Program, v ssa.Value) bool {
	return derivesFrom(v, func(y ssa.Value) bool {
		c, ok := y.(*ssa.Const)
		return ok && c.Value != nil && c.Value.Kind() == constant.String && constant.StringVal(c.Value) == p.tombstone()
	})
}

// tombstoneTest: v is a boolean that is true iff `subject` is the tombstone: bytes.Equal(subject, []byte(TOMBSTONE)),
// or a call of a repo helper whose result is such a test of its parameter. Returns the tested subject.
func tombstoneTest(p *Program, v ssa.Value, depth int) (ssa.Value, bool) {
	c, ok := v.(*ssa.Call)
	if !ok {
		return nil, false
	}
	if calleeName(c) == "bytes.Equal" {
		a, b := c.Call.Args[0], c.Call.Args[1]
		if isTombstoneBytes(p, b) {
			return a, true
		}
		if isTombstoneBytes(p, a) {
			return b, true
		}
		return nil, false
	}
	sc := c.Call.StaticCallee()
	if sc == nil || !inRepo(sc) || sc.Blocks == nil || depth > 2 {
		return nil, false
	}
	rets := returnsOf(sc)
	if len(rets) != 1 || len(rets[0].Results) != 1 {
		return nil, false
	}
	sub, ok := tombstoneTest(p, rets[0].Results[0], depth+1)
	if !ok {
		return nil, false
	}
	prm, ok := pathOf(sub).Root.(*ssa.Parameter)
	if !ok || len(pathOf(sub).Fields) != 0 {
		return nil, false
	}
	for i, q := range sc.Params {
		if q == prm && i < len(c.Call.Args) {
			return c.Call.Args[i], true
		}
	}
	return nil, false
}

func runC09(r *Run) {
	p := r.P
	checkStateRead(r, p.MustFn(fnStateGet), false)
	checkStateRead(r, p.MustFn(fnStateEx), true)
	for _, t := range []string{"sessionCache", "cacheSession"} {
		checkOverlayType(r, t)
	}
	checkSessionCommit(r)
	checkCacheIterate(r)
	checkStateWrite(r)
	checkStateCommit(r)
	checkSessionOps(r)
	checkPurity(r)
	checkVersions(r)
	checkReopenLoadsAll(r)
	// the write routing rule of C06 is a clause of this property as well
	for _, name := range []string{fnStateSet, fnStateDel} {
		checkOverlayWriteAs(r, p.MustFn(name), "C09.route")
	}
	checkBeginFresh(r)
	r.Floor("C09.", 40)
}

func checkOverlayWriteAs(r *Run, fn *ssa.Function, prefix string) {
	sub := &Run{P: r.P, Property: r.Property, floors: map[string]int{}, FnsSeen: r.FnsSeen, Extra: map[string]interface{}{}}
	checkOverlayWrite(sub, fn)
	for _, o := range sub.Obls {
		o.Rule = strings.Replace(o.Rule, "C06.overlay", prefix, 1)
		r.Obls = append(r.Obls, o)
	}
}

// layerCalls: calls in fn whose receiver is loaded from State.<field>.
func layerCalls(fn *ssa.Function, field string) []*ssa.Call {
	var res []*ssa.Call
	allInstrs(fn, func(ins ssa.Instruction) {
		c, ok := ins.(*ssa.Call)
		if !ok {
			return
		}
		args := callArgs(c)
		if len(args) > 0 && isFieldLoad(args[0], "storage.State", field) {
			res = append(res, c)
		}
	})
	return res
}

// checkStateRead: layering order and tombstone translation in State.Get / State.Exists.
func checkStateRead(r *Run, fn *ssa.Function, isExists bool) {
	p := r.P
	name := fname(fn)
	sess := layerCalls(fn, "txSession")
	cache := layerCalls(fn, "cache")
	tree := layerCalls(fn, "cs")
	r.Check(len(sess) > 0 && len(cache) > 0 && len(tree) > 0, "C09.order.layers", name, "three layers consulted",
		"session, block cache and tree are all consulted", "a layer is never consulted (session/cache/tree)", p.pos(fn.Pos()))
	if len(sess) == 0 || len(cache) == 0 || len(tree) == 0 {
		return
	}
	// primary lookups: the first call on each layer in dominance order
	first := func(cs []*ssa.Call) *ssa.Call {
		best := cs[0]
		for _, c := range cs[1:] {
			if dominatesInstr(c, best) {
				best = c
			}
		}
		return best
	}
	s0, c0 := first(sess), first(cache)
	// miss edges
	missEdges := func(c *ssa.Call) []Edge {
		sig := c.Call.Signature()
		if sig.Results().Len() == 1 && isBoolType(sig.Results().At(0).Type()) {
			// Exists: miss = false
			return condEdges(fn, func(cond ssa.Value, _ *ssa.If) int {
				return -boolCond(cond, func(v ssa.Value) bool { return v == ssa.Value(c) })
			})
		}
		// Get: miss = err != nil
		es := condEdges(fn, func(cond ssa.Value, _ *ssa.If) int {
			return -nilCond(cond, func(v ssa.Value) bool {
				src, idx := tupleSource(v)
				return src == ssa.Value(c) && idx == 1
			})
		})
		// ... or the (value, error) pair is handed to a same-package helper that reports the miss as a boolean result
		if oh := overlayHelperOf(c); oh != nil {
			es = append(es, condEdges(fn, func(cond ssa.Value, _ *ssa.If) int {
				k := -1
				pol := boolCond(cond, func(v ssa.Value) bool {
					src, idx := tupleSource(v)
					if src == ssa.Value(oh.call) && idx >= 0 && isBoolType(v.Type()) {
						k = idx
						return true
					}
					return false
				})
				if pol == 0 || k < 0 {
					return 0
				}
				switch {
				case oh.flagMeansMiss(k, true):
					return pol
				case oh.flagMeansMiss(k, false):
					return -pol
				}
				return 0
			})...)
		}
		return es
	}
	sessNil := condEdges(fn, func(cond ssa.Value, _ *ssa.If) int {
		return nilCond(cond, func(v ssa.Value) bool { return isFieldLoad(v, "storage.State", "txSession") })
	})
	sessNonNil := condEdges(fn, func(cond ssa.Value, _ *ssa.If) int {
		return -nilCond(cond, func(v ssa.Value) bool { return isFieldLoad(v, "storage.State", "txSession") })
	})
	// session call only under txSession != nil
	live := reachWithout(fn, sessNonNil)
	okS := len(sessNonNil) > 0
	for _, c := range sess {
		if live[c.Block()] {
			okS = false
		}
	}
	r.Check(okS, "C09.order.session-nil", name, "session consulted only when open",
		"every use of txSession is behind the != nil edge", "txSession is used without the nil test", p.ipos(s0))
	// cache primary lookup only via (no session) or (session miss)
	e1 := append(append([]Edge{}, sessNil...), missEdges(s0)...)
	live = reachWithout(fn, e1)
	r.Check(len(e1) > 0 && !live[c0.Block()], "C09.order.session-first", name, "block cache after session",
		"the block cache is consulted only when no session is open or the session missed",
		"the block cache is consulted before/without the session overlay: a session write is shadowed by an older block-level value", p.ipos(c0))
	// tree only via cache miss
	e2 := missEdges(c0)
	live = reachWithout(fn, e2)
	okT := len(e2) > 0
	for _, c := range tree {
		if live[c.Block()] {
			okT = false
		}
	}
	r.Check(okT, "C09.order.cache-first", name, "tree after block cache",
		"the committed tree is consulted only on the miss edge of the block cache",
		"the committed tree is consulted although the block cache has an entry (a block-level write or delete is ignored)", p.ipos(tree[0]))

	// tombstone translation: on the hit side of each overlay, a return that reports presence must be behind a not-tombstone test
	for li, c := range []*ssa.Call{s0, c0} {
		layer := []string{"session", "block cache"}[li]
		hit := invertEdges(missEdges(c))
		if len(hit) == 0 {
			r.Viol("C09.tombstone", name, layer+" hit edge", "no hit edge recognised", p.ipos(c), nil)
			continue
		}
		// region after the hit edge
		region := map[*ssa.BasicBlock]bool{}
		for _, h := range hit {
			for b := range reachFrom(h.To(), nil) {
				region[b] = true
			}
		}
		// not-tombstone pass edges (any tombstone test inside the function)
		notTomb := condEdges(fn, func(cond ssa.Value, _ *ssa.If) int {
			return -boolCond(cond, func(v ssa.Value) bool { _, ok := tombstoneTest(p, v, 0); return ok })
		})
		ok := true
		bad := ""
		for _, ret := range returnsOf(fn) {
			if !region[ret.Block()] {
				continue
			}
			// reachable from the hit edge without passing a not-tombstone edge?
			reach := map[*ssa.BasicBlock]bool{}
			for _, h := range hit {
				for b := range reachFrom(h.To(), notTomb) {
					reach[b] = true
				}
			}
			if !reach[ret.Block()] {
				continue // behind a not-tombstone edge
			}
			// returned value itself encodes the test (Exists: return !isTombstone(v)) or reports absence
			v := ret.Results[0]
			if isExists {
				if cst, isC := boolConst(v); isC && !cst {
					continue
				}
				if derivesFromCond(v, func(y ssa.Value) bool { _, ok := tombstoneTest(p, y, 0); return ok }) {
					continue
				}
			} else {
				if isNilConst(v) {
					continue // absent
				}
				// on a later layer's value (fallthrough to the tree) - not this overlay's value
				if !derivesFrom(v, func(y ssa.Value) bool { src, _ := tupleSource(y); return src == ssa.Value(c) }) {
					continue
				}
				// the value comes out of the helper, which hands out a found value only past its own not-tombstone test
				if oh := overlayHelperOf(c); oh != nil {
					if src, j := tupleSource(v); src == ssa.Value(oh.call) && j >= 0 && oh.translatesTombstone(p, j) {
						continue
					}
				}
			}
			ok = false
			bad = p.ipos(ret)
		}
		r.Check(ok, "C09.tombstone", name, layer+" value checked for the deletion marker",
			"a value found in the overlay is reported present only past a not-tombstone test",
			"a key deleted earlier in the same block/session is reported as present (the deletion marker is returned as its value)", bad)
	}
}

func invertEdges(es []Edge) []Edge {
	var res []Edge
	for _, e := range es {
		res = append(res, Edge{e.From, 1 - e.Succ, e.Pred})
	}
	return res
}

// checkOverlayType: Set/Delete/Get/Exists of sessionCache and cacheSession.
func checkOverlayType(r *Run, typ string) {
	p := r.P
	full := "storage." + typ
	set := p.MustFn("(*storage." + typ + ").Set")
	del := p.MustFn("(*storage." + typ + ").Delete")
	for _, fn := range []*ssa.Function{set, del} {
		name := fname(fn)
		isDel := fn == del
		// MapUpdate on store with key from the key parameter; value = dat / tombstone; executed on all paths
		var upd *ssa.MapUpdate
		allInstrs(fn, func(ins ssa.Instruction) {
			if mu, ok := ins.(*ssa.MapUpdate); ok && isFieldLoad(mu.Map, full, "store") {
				upd = mu
			}
		})
		if upd == nil {
			r.Viol("C09.overlay.record", name, "store[key] = value", "no write to the overlay map", p.pos(fn.Pos()), nil)
			continue
		}
		keyOK := pathOf(upd.Key).Root == ssa.Value(fn.Params[1])
		valOK := false
		if isDel {
			valOK = isTombstoneBytes(p, upd.Value)
		} else {
			valOK = pathOf(upd.Value).Root == ssa.Value(fn.Params[2]) && len(pathOf(upd.Value).Fields) == 0
		}
		allPaths := true
		for _, ret := range returnsOf(fn) {
			if !dominatesInstr(upd, ret) {
				allPaths = false
			}
		}
		what := "store[key] = value"
		if isDel {
			what = "store[key] = TOMBSTONE"
		}
		r.Check(keyOK && valOK && allPaths, "C09.overlay.record", name, what,
			"recorded for the key parameter on every path",
			fmt.Sprintf("the overlay does not always record %s for the key parameter (keyOK=%v valueOK=%v allPaths=%v): a write or delete can be lost or resurrect an older value", what, keyOK, valOK, allPaths), p.ipos(upd))
		// ordered key list: append to keys unless already recorded
		var appendBlk *ssa.BasicBlock
		allInstrs(fn, func(ins ssa.Instruction) {
			if st, ok := ins.(*ssa.Store); ok && isFieldAddr(st.Addr, full, "keys") {
				if c, ok := st.Val.(*ssa.Call); ok && calleeName(c) == "builtin:append" {
					if derivesFrom(c.Call.Args[1], func(y ssa.Value) bool { return y == ssa.Value(fn.Params[1]) }) {
						appendBlk = st.Block()
					}
				}
			}
		})
		if appendBlk == nil {
			r.Viol("C09.overlay.keys", name, "keys = append(keys, key)", "the key is not appended to the ordered key list", p.pos(fn.Pos()), nil)
			continue
		}
		// edges on which the key is known to be recorded already: done[key] is true
		doneHit := condEdges(fn, func(cond ssa.Value, _ *ssa.If) int {
			return boolCond(cond, func(v ssa.Value) bool {
				src, idx := tupleSource(v)
				lk, ok := src.(*ssa.Lookup)
				if !ok || !isFieldLoad(lk.X, full, "done") {
					return false
				}
				return idx <= 0 // the value component (or a plain lookup)
			})
		})
		// without the done-hit edges and without passing the append block, no return is reachable
		removed := append([]Edge{}, doneHit...)
		for i := range appendBlk.Succs {
			removed = append(removed, Edge{appendBlk, i, nil})
		}
		live := reachWithout(fn, removed)
		ok := len(doneHit) > 0
		for _, ret := range returnsOf(fn) {
			if live[ret.Block()] && ret.Block() != appendBlk {
				ok = false
			}
		}
		r.Check(ok, "C09.overlay.keys", name, "first write appends the key to the ordered list",
			"a return is reachable only through the append or through the edge on which done[key] is already true",
			"a first write can skip the ordered key list: the entry is never replayed at commit (or order depends on the map)", p.ipos(appendBlk.Instrs[0]))
		// done[key] = true recorded with the append
		doneSet := false
		for _, ins := range appendBlk.Instrs {
			if mu, ok := ins.(*ssa.MapUpdate); ok && isFieldLoad(mu.Map, full, "done") {
				if c, isC := boolConst(mu.Value); isC && c {
					doneSet = true
				}
			}
		}
		r.Check(doneSet, "C09.overlay.keys", name, "done[key] = true with the append",
			"the key is marked recorded where it is appended", "the key is appended without being marked: it would be appended again (replayed twice, later value wins over order)", p.ipos(appendBlk.Instrs[0]))
	}
}

// loopBodyMustPass: inside the index loop whose element load is `elem`, the latch (next iteration) and the loop exit are
// reachable from the body start only through `through` or via one of the `allowed` edges.
func loopSkips(body *ssa.BasicBlock, through *ssa.BasicBlock, allowed []Edge) bool {
	removed := append([]Edge{}, allowed...)
	for i := range through.Succs {
		removed = append(removed, Edge{through, i, nil})
	}
	// header = the predecessor of body that is a loop header (has an If)
	for _, h := range body.Preds {
		if reachableAfter(body, h, removed) || anyEdgeTo(body, h, removed) {
			if through == body {
				return false
			}
			return true
		}
	}
	return false
}

func anyEdgeTo(from, to *ssa.BasicBlock, removed []Edge) bool {
	rm := map[Edge]bool{}
	for _, e := range removed {
		rm[e] = true
	}
	for i, s := range from.Succs {
		if s == to && !rm[Edge{from, i, nil}] {
			return true
		}
	}
	return false
}

func hasMapRange(fn *ssa.Function) *ssa.Range {
	var res *ssa.Range
	allInstrs(fn, func(ins ssa.Instruction) {
		if rg, ok := ins.(*ssa.Range); ok {
			if _, isMap := rg.X.Type().Underlying().(*types.Map); isMap {
				res = rg
			}
		}
	})
	return res
}

// checkSessionCommit: cacheSession.Commit replays the ordered key list into the parent.
func checkSessionCommit(r *Run) {
	p := r.P
	fn := p.MustFn("(*storage.cacheSession).Commit")
	name := fname(fn)
	rg := hasMapRange(fn)
	r.Check(rg == nil, "C09.replay.ordered", name, "iterates the ordered key list",
		"no range over a map: the session is replayed in first-write order", "session commit ranges over the map: replay order (and so the root hash) depends on Go's map iteration order", p.pos(fn.Pos()))
	var setCall *ssa.Call
	allInstrs(fn, func(ins ssa.Instruction) {
		if c, ok := ins.(*ssa.Call); ok {
			if sc := c.Call.StaticCallee(); sc != nil && sc.Name() == "Set" && len(c.Call.Args) == 3 && isFieldLoad(c.Call.Args[0], "storage.cacheSession", "parent") {
				setCall = c
			}
		}
	})
	if setCall == nil {
		r.Viol("C09.replay.forward", name, "parent.Set(k, v)", "no write to the parent cache", p.pos(fn.Pos()), nil)
		return
	}
	kp, vp := pathOf(setCall.Call.Args[1]), setCall.Call.Args[2]
	keyOK := isFieldLoad(kp.Root, "storage.cacheSession", "keys") || (len(kp.Fields) > 0 && strings.HasPrefix(kp.String(), "param:c.keys"))
	valOK := false
	if src, idx := tupleSource(vp); idx <= 0 {
		if lk, ok := src.(*ssa.Lookup); ok && isFieldLoad(lk.X, "storage.cacheSession", "store") && samePath(lk.Index, setCall.Call.Args[1]) {
			valOK = true
		}
	}
	r.Check(keyOK && valOK, "C09.replay.forward", name, "parent.Set(keys[i], store[keys[i]])",
		"each element of the ordered key list is written to the parent with the session's value for that key",
		fmt.Sprintf("the parent is not written with (keys[i], store[keys[i]]) (key: %s)", kp.String()), p.ipos(setCall))
	// no element is skipped except on the lookup-miss edge
	body := elemLoadBlock(fn, "storage.cacheSession", "keys")
	if body == nil {
		r.Viol("C09.replay.complete", name, "loop over keys", "no index loop over the ordered key list found", p.pos(fn.Pos()), nil)
		return
	}
	miss := condEdges(fn, func(cond ssa.Value, _ *ssa.If) int {
		return -boolCond(cond, func(v ssa.Value) bool {
			src, idx := tupleSource(v)
			lk, ok := src.(*ssa.Lookup)
			return ok && idx == 1 && isFieldLoad(lk.X, "storage.cacheSession", "store")
		})
	})
	skips := loopSkips(body, setCall.Block(), miss)
	r.Check(!skips, "C09.replay.complete", name, "every recorded key is forwarded",
		"the next iteration is reachable only through parent.Set (or the impossible lookup miss)", "an element of the key list can be skipped without being written to the parent: a session write is lost at CommitTxSession", p.ipos(setCall))
	// success return only after the loop is exhausted: the true return is not inside the loop body region
	for _, ret := range returnsOf(fn) {
		if c, isC := boolConst(ret.Results[0]); isC && c {
			inLoop := reachFrom(body, nil)[ret.Block()] && reachableAfter(ret.Block(), body, nil)
			r.Check(!inLoop, "C09.replay.complete", name, "returns true after the whole list", "true is returned after the loop", "true is returned from inside the loop", p.ipos(ret))
		}
	}
}

// elemLoadBlock: the block that loads an element of field `field` (slice) of typ by a non-constant index.
func elemLoadBlock(fn *ssa.Function, typ, field string) *ssa.BasicBlock {
	var res *ssa.BasicBlock
	allInstrs(fn, func(ins ssa.Instruction) {
		if ia, ok := ins.(*ssa.IndexAddr); ok && res == nil {
			if _, isC := intConst(ia.Index); !isC && isFieldLoad(ia.X, typ, field) {
				res = ia.Block()
			}
		}
	})
	return res
}

// checkCacheIterate: sessionCache.Iterate hands every recorded entry to the callback in key-list order.
func checkCacheIterate(r *Run) {
	p := r.P
	fn := p.MustFn("(*storage.sessionCache).Iterate")
	name := fname(fn)
	r.Check(hasMapRange(fn) == nil, "C09.replay.ordered", name, "iterates the ordered key list",
		"no range over a map", "the block cache is iterated in map order: State.Write replays the block in a run-dependent order (root hash differs between nodes)", p.pos(fn.Pos()))
	var cb *ssa.Call
	allInstrs(fn, func(ins ssa.Instruction) {
		if c, ok := ins.(*ssa.Call); ok && c.Call.Value == ssa.Value(fn.Params[1]) {
			cb = c
		}
	})
	if cb == nil {
		r.Viol("C09.replay.forward", name, "fn(k, v)", "the callback is never invoked", p.pos(fn.Pos()), nil)
		return
	}
	kp := pathOf(cb.Call.Args[0])
	keyOK := strings.HasPrefix(kp.String(), "param:c.keys")
	valOK := false
	if src, idx := tupleSource(cb.Call.Args[1]); idx <= 0 {
		if lk, ok := src.(*ssa.Lookup); ok && isFieldLoad(lk.X, "storage.sessionCache", "store") && samePath(lk.Index, cb.Call.Args[0]) {
			valOK = true
		}
	}
	r.Check(keyOK && valOK, "C09.replay.forward", name, "fn(keys[i], store[keys[i]])",
		"the callback receives each key of the ordered list with its recorded value", "the callback does not receive (keys[i], store[keys[i]]) ("+kp.String()+")", p.ipos(cb))
	body := elemLoadBlock(fn, "storage.sessionCache", "keys")
	if body == nil {
		r.Viol("C09.replay.complete", name, "loop over keys", "no index loop over the ordered key list found", p.pos(fn.Pos()), nil)
		return
	}
	miss := condEdges(fn, func(cond ssa.Value, _ *ssa.If) int {
		return -boolCond(cond, func(v ssa.Value) bool {
			src, idx := tupleSource(v)
			lk, ok := src.(*ssa.Lookup)
			return ok && idx == 1 && isFieldLoad(lk.X, "storage.sessionCache", "store")
		})
	})
	r.Check(!loopSkips(body, cb.Block(), miss), "C09.replay.complete", name, "every recorded key is handed on",
		"the next iteration is reachable only through the callback", "an entry of the block cache can be skipped: a block-level write never reaches the tree", p.ipos(cb))
	// early exit only when the callback asks for it
	stopEdges := condEdges(fn, func(cond ssa.Value, _ *ssa.If) int {
		return boolCond(cond, func(v ssa.Value) bool { return v == ssa.Value(cb) })
	})
	removed := append([]Edge{}, stopEdges...)
	early := false
	for _, ret := range returnsOf(fn) {
		if reachFrom(body, removed)[ret.Block()] && ret.Block() != body {
			// a return reachable from the body without the callback's stop edge: must be the loop exit (not in the loop)
			if reachableAfter(ret.Block(), body, nil) {
				early = true
			}
			// loop-exit return: reached via header; fine
			if !loopExitOnly(body, ret.Block(), removed) {
				early = true
			}
		}
	}
	r.Check(!early, "C09.replay.complete", name, "stops early only on the callback's request",
		"the only early exit is the callback returning true", "iteration can stop early without the callback asking for it", p.pos(fn.Pos()))
}

// loopExitOnly: every path from body to ret (avoiding removed edges) passes through the loop header (a pred of body).
func loopExitOnly(body, ret *ssa.BasicBlock, removed []Edge) bool {
	rm := append([]Edge{}, removed...)
	for _, h := range body.Preds {
		for i := range h.Succs {
			rm = append(rm, Edge{h, i, nil})
		}
	}
	return !reachFrom(body, rm)[ret]
}

// checkStateWrite: the callback handed to the block-cache iterator.
func checkStateWrite(r *Run) {
	p := r.P
	fn := p.MustFn(fnStateWr)
	name := fname(fn)
	// the iterate call and its closure
	var it *ssa.Call
	var cl *ssa.Function
	allInstrs(fn, func(ins ssa.Instruction) {
		c, ok := ins.(*ssa.Call)
		if !ok || !c.Call.IsInvoke() || c.Call.Method.Name() != "Iterate" {
			return
		}
		it = c
		cl = closureOf(c.Call.Args[0])
	})
	if it == nil || cl == nil {
		r.Viol("C09.write.iterate", name, "cache.GetIterable().Iterate(closure)", "State.Write does not iterate the block cache with a closure", p.pos(fn.Pos()), nil)
		return
	}
	src := derivesFrom(it.Call.Value, func(y ssa.Value) bool { return isFieldLoad(y, "storage.State", "cache") })
	r.Check(src, "C09.write.iterate", name, "iterates the block cache", "the iterated store derives from State.cache", "State.Write iterates something else than the block cache", p.ipos(it))
	// a method value (s.flushEntry) arrives as a synthetic bound-method wrapper: look at the method it wraps
	off := 0
	if cl.Synthetic != "" {
		var inner *ssa.Function
		allInstrs(cl, func(ins ssa.Instruction) {
			if sc := staticCallee(ins); sc != nil && sc.Blocks != nil && inRepo(sc) {
				inner = sc
			}
		})
		if inner != nil && len(inner.Params) == len(cl.Params)+1 {
			cl, off = inner, 1
		}
	}
	cname := fname(cl)
	key, val := cl.Params[off], cl.Params[off+1]
	tombTrue := condEdges(cl, func(cond ssa.Value, _ *ssa.If) int {
		return boolCond(cond, func(v ssa.Value) bool {
			sub, ok := tombstoneTest(p, v, 0)
			return ok && pathOf(sub).Root == ssa.Value(val)
		})
	})
	tombFalse := invertEdges(tombTrue)
	var dels, sets []*ssa.Call
	allInstrs(cl, func(ins ssa.Instruction) {
		if c, ok := ins.(*ssa.Call); ok {
			switch calleeName(c) {
			case fnCSDel:
				dels = append(dels, c)
			case fnCSSet:
				sets = append(sets, c)
			}
		}
	})
	okD := len(dels) > 0 && len(tombTrue) > 0
	for _, c := range dels {
		if reachWithout(cl, tombTrue)[c.Block()] || pathOf(c.Call.Args[1]).Root != ssa.Value(key) {
			okD = false
		}
	}
	r.Check(okD, "C09.write.tombstone", cname, "tombstone -> tree removal",
		"cs.Delete(key) is reachable only on the tombstone edge", "the tree removal is missing or not tied to the tombstone test of the iterated value", p.pos(cl.Pos()))
	okS := len(sets) > 0 && len(tombFalse) > 0
	for _, c := range sets {
		if reachWithout(cl, tombFalse)[c.Block()] || pathOf(c.Call.Args[1]).Root != ssa.Value(key) || pathOf(c.Call.Args[2]).Root != ssa.Value(val) {
			okS = false
		}
	}
	r.Check(okS, "C09.write.set", cname, "value -> tree set",
		"cs.Set(key, value) is reachable only on the not-tombstone edge", "a tombstone can be stored as a value in the tree, or the set does not use the iterated key/value", p.pos(cl.Pos()))
	// every iterated entry is applied: no path through the callback avoids both the removal and the set
	isApply := func(i ssa.Instruction) bool {
		c, ok := i.(*ssa.Call)
		return ok && (calleeName(c) == fnCSDel || calleeName(c) == fnCSSet)
	}
	skipped := ""
	if first := cl.Blocks[0].Instrs[0]; !isApply(first) {
		for i2 := range reachFromInstr(first, nil, isApply) {
			if _, isRet := i2.(*ssa.Return); isRet {
				skipped = p.ipos(i2)
			}
		}
	}
	r.Check(skipped == "", "C09.write.every", cname, "every overlay entry reaches the tree", "each path of the callback passes cs.Delete or cs.Set",
		"the callback can return (at "+skipped+") without applying the entry: a write that was visible during the block is silently dropped at commit (the key keeps its previous committed value)", skipped)
	// never stops early
	never := true
	for _, ret := range returnsOf(cl) {
		if c, isC := boolConst(ret.Results[0]); !isC || c {
			never = false
		}
	}
	r.Check(never, "C09.write.complete", cname, "callback never stops the iteration",
		"every return of the callback is the constant false", "the callback can return true: the rest of the block's writes would be dropped at commit", p.pos(cl.Pos()))
}

func checkStateCommit(r *Run) {
	p := r.P
	fn := p.MustFn(fnStateCmt)
	name := fname(fn)
	var wr, cmt, fresh *ssa.Call
	var cacheStore, sessStore *ssa.Store
	allInstrs(fn, func(ins ssa.Instruction) {
		switch x := ins.(type) {
		case *ssa.Call:
			switch calleeName(x) {
			case fnStateWr:
				wr = x
			case fnCSCommit:
				cmt = x
			case "storage.NewSessionedDirectStorage", "storage.NewSessionCache":
				fresh = x
			}
		case *ssa.Store:
			if isFieldAddr(x.Addr, "storage.State", "cache") {
				cacheStore = x
			}
			if isFieldAddr(x.Addr, "storage.State", "txSession") {
				sessStore = x
			}
		}
	})
	r.Check(wr != nil && cmt != nil && dominatesInstr(wr, cmt), "C09.commit.order", name, "Write before tree commit",
		"State.Write dominates ChainState.Commit", "the tree is committed without (or before) replaying the block cache", p.pos(fn.Pos()))
	r.Check(cacheStore != nil && fresh != nil && derivesFrom(cacheStore.Val, func(y ssa.Value) bool { return y == ssa.Value(fresh) }) && wr != nil && dominatesInstr(wr, cacheStore),
		"C09.commit.fresh-cache", name, "fresh block cache after Write",
		"the block cache is replaced by a new one after the replay", "the block cache is not replaced after commit: the next block replays this block's writes again", p.pos(fn.Pos()))
	r.Check(sessStore != nil && isNilConst(sessStore.Val), "C09.commit.no-session", name, "txSession = nil",
		"no session survives a commit", "a session survives the block commit", p.pos(fn.Pos()))
	if cmt != nil {
		okRet := true
		for _, ret := range returnsOf(fn) {
			for _, v := range ret.Results {
				if src, _ := tupleSource(v); src != ssa.Value(cmt) {
					okRet = false
				}
			}
		}
		r.Check(okRet, "C09.commit.result", name, "returns the tree's hash and version", "results are those of ChainState.Commit", "State.Commit does not return ChainState.Commit's hash/version", p.pos(fn.Pos()))
	}
}

func checkSessionOps(r *Run) {
	p := r.P
	// Discard: no calls at all, stores nil
	d := p.MustFn(fnDiscardTx)
	calls := 0
	nilStore := false
	allInstrs(d, func(ins ssa.Instruction) {
		if _, ok := ins.(ssa.CallInstruction); ok {
			calls++
		}
		if st, ok := ins.(*ssa.Store); ok && isFieldAddr(st.Addr, "storage.State", "txSession") && isNilConst(st.Val) {
			nilStore = true
		}
	})
	r.Check(calls == 0 && nilStore, "C09.discard", fname(d), "drops the overlay without touching anything",
		"DiscardTxSession only forgets the session", "DiscardTxSession calls into a store (a discarded session's writes could become visible)", p.pos(d.Pos()))
	// Begin: txSession = cache.BeginSession()
	b := p.MustFn(fnBeginTx)
	okB := false
	allInstrs(b, func(ins ssa.Instruction) {
		if st, ok := ins.(*ssa.Store); ok && isFieldAddr(st.Addr, "storage.State", "txSession") {
			if derivesFrom(st.Val, func(y ssa.Value) bool {
				c, ok := y.(*ssa.Call)
				return ok && c.Call.IsInvoke() && c.Call.Method.Name() == "BeginSession" && isFieldLoad(c.Call.Value, "storage.State", "cache")
			}) {
				okB = true
			}
		}
	})
	r.Check(okB, "C09.begin", fname(b), "session opened on the block cache", "txSession = cache.BeginSession()", "the session is not opened on this State's block cache", p.pos(b.Pos()))
	// CommitTxSession: txSession.Commit() then nil
	c := p.MustFn(fnCommitTx)
	var sc *ssa.Call
	var ns *ssa.Store
	allInstrs(c, func(ins ssa.Instruction) {
		if x, ok := ins.(*ssa.Call); ok && x.Call.IsInvoke() && x.Call.Method.Name() == "Commit" && isFieldLoad(x.Call.Value, "storage.State", "txSession") {
			sc = x
		}
		if st, ok := ins.(*ssa.Store); ok && isFieldAddr(st.Addr, "storage.State", "txSession") && isNilConst(st.Val) {
			ns = st
		}
	})
	r.Check(sc != nil && ns != nil && dominatesInstr(sc, ns), "C09.commit-session", fname(c), "session replayed, then dropped",
		"txSession.Commit() precedes txSession = nil", "CommitTxSession does not replay the session before dropping it", p.pos(c.Pos()))
	// BeginSession of sessionCache creates a session whose parent is the receiver and whose maps are fresh
	bs := p.MustFn("(*storage.sessionCache).BeginSession")
	okP := false
	allInstrs(bs, func(ins ssa.Instruction) {
		if st, ok := ins.(*ssa.Store); ok && isFieldAddr(st.Addr, "storage.cacheSession", "parent") && st.Val == ssa.Value(bs.Params[0]) {
			okP = true
		}
	})
	r.Check(okP, "C09.begin", fname(bs), "session parent is the cache", "parent = receiver", "the new session's parent is not the cache it was opened on", p.pos(bs.Pos()))
	checkSessionFresh(r, "C09.begin")
}

// writeEffects: does fn (transitively, repo-internal static + VTA callees inside package storage and iavl writes) write storage state?
func checkPurity(r *Run) {
	p := r.P
	p.CG()
	readers := []string{
		fnStateGet, fnStateEx, "(*storage.State).GetVersioned", "(*storage.State).GetAtHeight", "(*storage.State).Iterate", "(*storage.State).IterateRange",
		"(*storage.State).GetPrevious", "(storage.State).Version", "(storage.State).RootHash",
		"(*storage.ChainState).Get", "(*storage.ChainState).Exists", "(*storage.ChainState).GetVersioned", "(*storage.ChainState).Iterate", "(*storage.ChainState).IterateRange",
		"(*storage.sessionCache).Get", "(*storage.sessionCache).Exists", "(*storage.sessionCache).Iterate",
		"(*storage.cacheSession).Get", "(*storage.cacheSession).Exists",
		"(*storage.GasStore).Get", "(*storage.GasStore).Exists",
	}
	storageTypes := map[string]bool{"storage.State": true, "storage.ChainState": true, "storage.sessionCache": true, "storage.cacheSession": true, "storage.GasStore": true}
	iavlWrites := map[string]bool{}
	for _, m := range []string{"Set", "Remove", "SaveVersion", "DeleteVersion", "LoadVersionForOverwriting", "Rollback"} {
		iavlWrites["(*github.com/tendermint/iavl.MutableTree)."+m] = true
	}
	for _, rn := range readers {
		fn := p.Fn(rn)
		if fn == nil {
			fail("anchor symbol missing: %s", rn)
		}
		// callback parameters are the caller's business: exclude effects of invoking fn's own func-typed params
		seen := map[*ssa.Function]bool{}
		var bad []string
		var walk func(f *ssa.Function, depth int)
		walk = func(f *ssa.Function, depth int) {
			if f == nil || seen[f] || f.Blocks == nil || depth > 8 {
				return
			}
			seen[f] = true
			allInstrs(f, func(ins ssa.Instruction) {
				switch x := ins.(type) {
				case *ssa.Store:
					if fa, ok := x.Addr.(*ssa.FieldAddr); ok {
						if n := namedOf(fa.X.Type()); n != nil && storageTypes[tname(n)] {
							if _, isAlloc := pathOf(fa.X).Root.(*ssa.Alloc); !isAlloc {
								bad = append(bad, fmt.Sprintf("store to %s.%s in %s", tname(n), fieldName(fa.X.Type(), fa.Field), fname(f)))
							}
						}
					}
				case *ssa.MapUpdate:
					pa := pathOf(x.Map)
					if len(pa.Fields) > 0 {
						if _, isParam := pa.Root.(*ssa.Parameter); isParam {
							bad = append(bad, "map update "+pa.String()+" in "+fname(f))
						}
					}
				case ssa.CallInstruction:
					n := calleeName(x)
					if iavlWrites[n] {
						bad = append(bad, "call "+n+" in "+fname(f))
					}
					// a callback supplied by the caller (parameter / captured variable) is the caller's business
					switch pathOf(x.Common().Value).Root.(type) {
					case *ssa.Parameter, *ssa.FreeVar:
						if !x.Common().IsInvoke() {
							return
						}
					}
					for _, c := range p.SiteCallees(x) {
						if pk := fnPkg(c); pk != nil && pk.Path() == Mod+"/storage" {
							walk(c, depth+1)
						}
					}
				}
			})
		}
		walk(fn, 0)
		r.Check(len(bad) == 0, "C09.purity", rn, "read operation has no write effect",
			"no store to a storage struct field, no overlay map update, no tree mutation reachable (gas counter excepted)",
			"a read operation writes storage state: "+strings.Join(bad, "; ")+" (reads would influence the root hash / later reads)", p.pos(fn.Pos()))
	}
}

func checkVersions(r *Run) {
	p := r.P
	allowed := map[string]map[string]bool{
		"(*github.com/tendermint/iavl.MutableTree).SaveVersion":               {"(*storage.ChainState).Commit": true},
		"(*github.com/tendermint/iavl.MutableTree).DeleteVersion":             {"(*storage.ChainState).Commit": true},
		"(*github.com/tendermint/iavl.MutableTree).LoadVersionForOverwriting": {"(*storage.ChainState).ClearFrom": true},
		"(*github.com/tendermint/iavl.MutableTree).Set":                       {"(*storage.ChainState).Set": true},
		"(*github.com/tendermint/iavl.MutableTree).Remove":                    {"(*storage.ChainState).Delete": true},
		"(*github.com/tendermint/iavl.MutableTree).Rollback":                  {},
	}
	n := 0
	for _, fn := range sortedFns(p.Fns) {
		if !inRepo(fn) || fn.Blocks == nil {
			continue
		}
		pk := fnPkg(fn)
		// only the node's storage paths matter: tools under cmd/ that open their own trees are not the node
		if strings.Contains(pk.Path(), "/cmd/") || strings.HasSuffix(pk.Path(), "/storage") == false && !strings.Contains(pk.Path(), Mod) {
			continue
		}
		allInstrs(fn, func(ins ssa.Instruction) {
			cn := calleeName(ins)
			al, ok := allowed[cn]
			if !ok {
				return
			}
			if strings.Contains(pk.Path(), "/cmd/") {
				return
			}
			// only the chain-state tree (ChainState.Delivered); other IAVL trees (job stores, wallets) are node-local databases
			recv := pathOf(callArgs(ins)[0])
			isChainTree := false
			for _, f := range recv.Fields {
				if f == "Delivered" {
					isChainTree = true
				}
			}
			if !isChainTree {
				r.Info("C09.versions.who", fname(fn), "call on another tree: "+recv.String(), "not the chain-state tree")
				return
			}
			n++
			r.Check(al[fname(topFn(fn))], "C09.versions.who", fname(fn), "call "+strings.TrimPrefix(cn, "(*github.com/tendermint/iavl.MutableTree)."),
				"tree mutation from its single owner in package storage", "the IAVL tree is mutated outside ChainState's owner method: versions or contents can change outside Commit", p.ipos(ins))
		})
	}
	if n < 4 {
		fail("only %d IAVL mutation sites found", n)
	}
	// rotation guards inside ChainState.Commit
	fn := p.MustFn(fnCSCommit)
	name := fname(fn)
	var dv []*ssa.Call
	var sv *ssa.Call
	allInstrs(fn, func(ins ssa.Instruction) {
		if c, ok := ins.(*ssa.Call); ok {
			switch calleeName(c) {
			case "(*github.com/tendermint/iavl.MutableTree).DeleteVersion":
				dv = append(dv, c)
			case "(*github.com/tendermint/iavl.MutableTree).SaveVersion":
				sv = c
			}
		}
	})
	if sv == nil {
		r.Viol("C09.versions.save", name, "SaveVersion", "ChainState.Commit does not save a version", p.pos(fn.Pos()), nil)
		return
	}
	// Version/Hash fields assigned from SaveVersion results
	for _, f := range []struct {
		field string
		idx   int
	}{{"Version", 1}, {"Hash", 0}} {
		ok := false
		allInstrs(fn, func(ins ssa.Instruction) {
			if st, isS := ins.(*ssa.Store); isS && isFieldAddr(st.Addr, "storage.ChainState", f.field) {
				if src, idx := tupleSource(st.Val); src == ssa.Value(sv) && idx == f.idx {
					ok = true
				}
			}
		})
		r.Check(ok, "C09.versions.save", name, f.field+" = SaveVersion result",
			"the reported "+f.field+" is what the tree saved", "ChainState."+f.field+" is not assigned from SaveVersion's result", p.pos(fn.Pos()))
	}
	rot := func(field string) func(ssa.Value) bool {
		return func(v ssa.Value) bool { return strings.HasSuffix(pathOf(v).FieldString(), "ChainStateRotation."+field) }
	}
	relGuard := func(what func(ssa.Value) bool, op token.Token, k int64) []Edge {
		return condEdges(fn, func(cond ssa.Value, _ *ssa.If) int {
			v, flip := stripNot(cond)
			bo, ok := v.(*ssa.BinOp)
			if !ok {
				return 0
			}
			c, isC := intConst(bo.Y)
			if !isC || c != k || !what(bo.X) {
				return 0
			}
			pol := 0
			if bo.Op == op {
				pol = 1
			} else if bo.Op == negate(op) {
				pol = -1
			}
			if flip {
				pol = -pol
			}
			return pol
		})
	}
	isRelease := func(v ssa.Value) bool {
		// release = LastVersion - recent (a Sub whose operands load those fields), possibly re-assigned
		return derivesFrom(v, func(y ssa.Value) bool { return strings.HasSuffix(pathOf(y).FieldString(), "ChainStateRotation.recent") })
	}
	relPos := relGuard(isRelease, token.GTR, 0)
	for i, c := range dv {
		live := reachWithout(fn, relPos)
		r.Check(len(relPos) > 0 && !live[c.Block()], "C09.versions.rotation", name, fmt.Sprintf("DeleteVersion#%d only when a version left the recent window", i),
			"guarded by release > 0", "an old version can be deleted although it is still inside the 'recent' window", p.ipos(c))
		// which deletion is it: the plain one (argument = release) or the cycle one (argument = release - cycles*every)
		usesCycles := derivesFrom(c.Call.Args[1], rot("cycles"))
		if usesCycles {
			g1 := relGuard(rot("cycles"), token.NEQ, 0)
			g2 := relGuard(rot("every"), token.NEQ, 0)
			l1 := reachWithout(fn, g1)
			l2 := reachWithout(fn, g2)
			r.Check(len(g1) > 0 && !l1[c.Block()], "C09.versions.rotation", name, fmt.Sprintf("DeleteVersion#%d (epoch) only when cycles != 0", i),
				"guarded by cycles != 0", "epoch versions are deleted although cycles == 0 means keep them for ever", p.ipos(c))
			r.Check(len(g2) > 0 && !l2[c.Block()], "C09.versions.rotation", name, fmt.Sprintf("DeleteVersion#%d (epoch) only when every != 0", i),
				"guarded by every != 0", "epoch deletion runs with every == 0", p.ipos(c))
		} else {
			// guarded by every == 0 || release % every != 0: the call must be unreachable when both alternatives' pass edges are removed
			g := append(relGuard(rot("every"), token.EQL, 0), condEdges(fn, func(cond ssa.Value, _ *ssa.If) int {
				v, flip := stripNot(cond)
				bo, ok := v.(*ssa.BinOp)
				if !ok {
					return 0
				}
				rem, ok := bo.X.(*ssa.BinOp)
				if !ok || rem.Op != token.REM || !rot("every")(rem.Y) {
					return 0
				}
				k, isC := intConst(bo.Y)
				if !isC || k != 0 {
					return 0
				}
				pol := 0
				if bo.Op == token.NEQ {
					pol = 1
				} else if bo.Op == token.EQL {
					pol = -1
				}
				if flip {
					pol = -pol
				}
				return pol
			})...)
			live := reachWithout(fn, g)
			r.Check(len(g) >= 2 && !live[c.Block()], "C09.versions.rotation", name, fmt.Sprintf("DeleteVersion#%d (recent) spares epoch versions", i),
				"guarded by every == 0 || release %% every != 0", "a version that is an epoch (release %% every == 0) can be deleted by the recent-window rotation", p.ipos(c))
		}
	}
}

// overlayHelper: the (value, error) results of an overlay lookup are passed straight to a same-package helper.
type overlayHelper struct {
	call           *ssa.Call // the helper call
	h              *ssa.Function
	valIdx, errIdx int // parameter positions of the looked-up value and of the lookup error
}

func overlayHelperOf(c *ssa.Call) *overlayHelper {
	refs := c.Referrers()
	if refs == nil {
		return nil
	}
	var res *overlayHelper
	for _, r := range *refs {
		ex, ok := r.(*ssa.Extract)
		if !ok || ex.Referrers() == nil {
			continue
		}
		for _, u := range *ex.Referrers() {
			hc, ok := u.(*ssa.Call)
			if !ok {
				continue
			}
			h := hc.Call.StaticCallee()
			if h == nil || h.Blocks == nil || h.Pkg != c.Parent().Pkg {
				continue
			}
			if res == nil || res.call != hc {
				res = &overlayHelper{call: hc, h: h, valIdx: -1, errIdx: -1}
			}
			for i, a := range hc.Call.Args {
				if a == ssa.Value(ex) {
					if ex.Index == 1 {
						res.errIdx = i
					} else {
						res.valIdx = i
					}
				}
			}
		}
	}
	if res == nil || res.errIdx < 0 || res.errIdx >= len(res.h.Params) {
		return nil
	}
	return res
}

// flagMeansMiss: every return of the helper whose k-th result may be val lies behind the "lookup error != nil" edge.
func (oh *overlayHelper) flagMeansMiss(k int, val bool) bool {
	prm := oh.h.Params[oh.errIdx]
	missE := condEdges(oh.h, func(cond ssa.Value, _ *ssa.If) int {
		return -nilCond(cond, func(v ssa.Value) bool { return v == ssa.Value(prm) })
	})
	if len(missE) == 0 {
		return false
	}
	live := reachWithout(oh.h, missE)
	n := 0
	for _, ret := range returnsOf(oh.h) {
		if k >= len(ret.Results) {
			return false
		}
		if cst, isC := boolConst(ret.Results[k]); isC && cst != val {
			continue
		}
		n++
		if live[ret.Block()] {
			return false
		}
	}
	return n > 0
}

// translatesTombstone: every return of the helper whose j-th result is not nil lies behind a not-tombstone test of the
// looked-up value (or on the miss side).
func (oh *overlayHelper) translatesTombstone(p *Program, j int) bool {
	if oh.valIdx < 0 || oh.valIdx >= len(oh.h.Params) {
		return false
	}
	vprm := oh.h.Params[oh.valIdx]
	eprm := oh.h.Params[oh.errIdx]
	pass := condEdges(oh.h, func(cond ssa.Value, _ *ssa.If) int {
		if pol := -boolCond(cond, func(v ssa.Value) bool { x, ok := tombstoneTest(p, v, 0); return ok && x == ssa.Value(vprm) }); pol != 0 {
			return pol
		}
		return -nilCond(cond, func(v ssa.Value) bool { return v == ssa.Value(eprm) })
	})
	if len(pass) == 0 {
		return false
	}
	live := reachWithout(oh.h, pass)
	for _, ret := range returnsOf(oh.h) {
		if j >= len(ret.Results) {
			return false
		}
		if isNilConst(ret.Results[j]) {
			continue
		}
		if live[ret.Block()] {
			return false
		}
	}
	return true
}
