package main

// C16 EVM state adapter: journal discipline and position-table consistency (structural necessary conditions).

import (
	"go/token"
	"go/types"
	"os"
	"sort"
	"strings"

	"golang.org/x/tools/go/ssa"
)

const vmPkg = Mod + "/vm"

func init() {
	register(&propertyDef{
		ID:    "C16",
		Title: "EVM state adapter: journal discipline",
		Explain: "Decides the part of adapter/reference equivalence that is visible in the shape of the code: (revert-pure) no revert method of a journal entry reaches journal.append/addDirty (an undo that journals leaves the address dirty after a complete revert); " +
			"(record-use) every datum recorded in a journal entry is read by its revert (prev* fields) or by revert/dirtied; (journalled-write) every function of package vm that writes a field some revert restores - directly, through an unexported setter or through the account's balance methods - " +
			"does so with a journal entry whose revert restores that field appended before or on every path after the write, unless it is a revert, the commit/reset phase, a cache fill or acts on a freshly built object; " +
			"(indexmap) every function that removes an element of a position-indexed slice other than at its tail re-assigns the partner map for the shifted elements; (create) CreateAccount carries the previous live balance over with a set (not an add) on every path with a previous object; " +
			"(accesslist) reverting a slot never removes the address entry; (empty) empty() is true only behind nonce == 0, zero balance and the empty code hash; (snapshot) Snapshot records the journal length, RevertToSnapshot unwinds to that index and truncates the revision stack.",
		NotDecided: "equality of return data, gas, logs and storage with go-ethereum's state for all programs (numeric behaviour of an interpreter); SSTORE gas, refund arithmetic",
		Run:        runC16,
	})
}

type fieldID string

// writtenField: if ins writes (assigns, updates an element or a map entry of) a struct field, its identity "Type.field".
func writtenFields(ins ssa.Instruction) []fieldID {
	res := writtenFields0(ins)
	for i, f := range res {
		if g, ok := c16Groups[f]; ok {
			res[i] = g
		}
	}
	return res
}

func writtenFields0(ins ssa.Instruction) []fieldID {
	fieldOfAddr := func(v ssa.Value) (fieldID, bool) {
		fa, ok := v.(*ssa.FieldAddr)
		if !ok {
			return "", false
		}
		st := fa.X.Type()
		if pt, ok := st.Underlying().(*types.Pointer); ok {
			st = pt.Elem()
		}
		return fieldID(strings.TrimPrefix(tname(st), "*") + "." + fieldName(st, fa.Field)), true
	}
	// the container value loaded from a field: s.logs, so.dirtyStorage ...
	fieldOfLoaded := func(v ssa.Value) (fieldID, bool) {
		for i := 0; i < 4; i++ {
			switch x := v.(type) {
			case *ssa.UnOp:
				if x.Op == token.MUL {
					if f, ok := fieldOfAddr(x.X); ok {
						return f, true
					}
					v = x.X
					continue
				}
			case *ssa.IndexAddr:
				v = x.X
				continue
			case *ssa.FieldAddr:
				if f, ok := fieldOfAddr(x); ok {
					return f, true
				}
			}
			break
		}
		return "", false
	}
	switch x := ins.(type) {
	case *ssa.Store:
		if f, ok := fieldOfAddr(x.Addr); ok {
			return []fieldID{f}
		}
		if ia, ok := x.Addr.(*ssa.IndexAddr); ok {
			if f, ok := fieldOfLoaded(ia.X); ok {
				return []fieldID{f}
			}
		}
		// element field: s.dirties[i].changes
		if fa, ok := x.Addr.(*ssa.FieldAddr); ok {
			if ia, ok := fa.X.(*ssa.IndexAddr); ok {
				if f, ok := fieldOfLoaded(ia.X); ok {
					return []fieldID{f}
				}
			}
		}
	case *ssa.MapUpdate:
		if f, ok := fieldOfLoaded(x.Map); ok {
			return []fieldID{f}
		}
	case *ssa.Call:
		if b, ok := x.Call.Value.(*ssa.Builtin); ok && b.Name() == "delete" {
			if f, ok := fieldOfLoaded(x.Call.Args[0]); ok {
				return []fieldID{f}
			}
		}
		// the account's balance methods write EthAccount.Coins
		switch calleeName(x) {
		case "(*data/balance.EthAccount).SetBalance", "(*data/balance.EthAccount).AddBalance", "(*data/balance.EthAccount).SubBalance":
			return []fieldID{"data/balance.EthAccount.Coins"}
		}
	}
	return nil
}

// commit / reset phase, constructors and cache fills (the reference implementation does not journal these either)
var c16Exempt = map[string]string{
	"(*vm.CommitStateDB).Finalise":              "commit phase",
	"(*vm.CommitStateDB).Finalise$1":            "commit phase epilogue",
	"(*vm.CommitStateDB).Reset":                 "block reset",
	"(*vm.CommitStateDB).clearJournalAndRefund": "journal reset",
	"(*vm.CommitStateDB).Prepare":               "per-transaction reset of the access list",
	"(*vm.CommitStateDB).Copy":                  "copy constructor",
	"vm.CopyCommitStateDB":                      "copy constructor",
	"(*vm.stateObject).deepCopy":                "copy constructor",
	"vm.newStateObject":                         "constructor",
	"vm.NewCommitStateDB":                       "constructor",
	"vm.newAccessList":                          "constructor",
	"(*vm.accessList).Copy":                     "copy constructor",
	"vm.newJournal":                             "constructor",
	"(*vm.stateObject).commitState":             "commit phase",
	"(*vm.stateObject).commitCode":              "commit phase",
	"(*vm.CommitStateDB).deleteStateObject":     "commit phase",
	"(*vm.CommitStateDB).updateStateObject":     "commit phase",
	"(*vm.CommitStateDB).getStateObject":        "cache fill: loading an account into the live set is not a state change",
	"(*vm.stateObject).GetCommittedState":       "cache fill: caching the committed slot value is not a state change",
	"(*vm.journal).append":                      "the journal itself",
	"(*vm.journal).revert":                      "the journal itself",
	"(*vm.journal).addDirty":                    "the journal itself",
	"(*vm.journal).substractDirty":              "the journal itself",
	"(*vm.journal).deleteDirty":                 "the journal itself",
	"(*vm.journal).dirty":                       "the journal itself",
}

// logical fields: several struct fields that together hold one journalled datum
var c16Groups = map[fieldID]fieldID{
	"vm.stateEntry.stateObject": "object table", "vm.stateEntry.address": "object table", "vm.CommitStateDB.stateObjects": "object table", "vm.CommitStateDB.addressToObjectIndex": "object table",
	"vm.stateObject.dirtyStorage": "dirty storage", "vm.stateObject.keyToDirtyStorageIndex": "dirty storage", "vm.State.Value": "dirty storage", "vm.State.Key": "dirty storage",
	"vm.CommitStateDB.preimages": "preimages", "vm.CommitStateDB.hashToPreimageIndex": "preimages",
	"vm.accessList.addresses": "access list", "vm.accessList.slots": "access list",
	"vm.CommitStateDB.logs": "logs", "vm.CommitStateDB.logSize": "logs",
	"vm.stateObject.code": "code", "vm.stateObject.dirtyCode": "code", "data/balance.EthAccount.CodeHash": "code",
}

type journalModel struct {
	p        *Program
	entries  []*types.Named                 // journal entry types
	revert   map[*types.Named]*ssa.Function // T.revert
	dirtied  map[*types.Named]*ssa.Function
	restores map[*types.Named]map[fieldID]bool // fields T.revert writes (through unjournalled vm callees)
	vmFns    []*ssa.Function
	callers  map[*ssa.Function][]ssa.CallInstruction
}

func vmBody(fn *ssa.Function, visit func(*ssa.Function)) { vmBodySkip(fn, nil, visit) }

func vmBodySkip(fn *ssa.Function, skip func(*ssa.Function) bool, visit func(*ssa.Function)) {
	seen := map[*ssa.Function]bool{}
	var walk func(f *ssa.Function)
	walk = func(f *ssa.Function) {
		if f == nil || seen[f] || f.Blocks == nil || fnPkg(f) == nil || fnPkg(f).Path() != vmPkg {
			return
		}
		if skip != nil && f != fn && skip(f) {
			return
		}
		seen[f] = true
		visit(f)
		allInstrs(f, func(ins ssa.Instruction) {
			if sc := staticCallee(ins); sc != nil {
				walk(sc)
			}
			if mc, ok := ins.(*ssa.MakeClosure); ok {
				if g, ok := mc.Fn.(*ssa.Function); ok {
					walk(g)
				}
			}
		})
	}
	walk(fn)
}

func buildJournalModel(p *Program) *journalModel {
	m := &journalModel{p: p, revert: map[*types.Named]*ssa.Function{}, dirtied: map[*types.Named]*ssa.Function{}, restores: map[*types.Named]map[fieldID]bool{}, callers: map[*ssa.Function][]ssa.CallInstruction{}}
	pk := p.AllPkgs[vmPkg]
	if pk == nil {
		fail("package vm not loaded")
	}
	sc := pk.Types.Scope()
	for _, n := range sc.Names() {
		tn, ok := sc.Lookup(n).(*types.TypeName)
		if !ok {
			continue
		}
		named, ok := tn.Type().(*types.Named)
		if !ok {
			continue
		}
		if _, isStruct := named.Underlying().(*types.Struct); !isStruct {
			continue
		}
		var rv, dt *ssa.Function
		ms := p.SSA.MethodSets.MethodSet(named)
		for i := 0; i < ms.Len(); i++ {
			switch ms.At(i).Obj().Name() {
			case "revert":
				rv = p.SSA.MethodValue(ms.At(i))
			case "dirtied":
				dt = p.SSA.MethodValue(ms.At(i))
			}
		}
		if rv != nil && dt != nil && rv.Blocks != nil && len(rv.Params) == 2 {
			m.entries = append(m.entries, named)
			m.revert[named], m.dirtied[named] = rv, dt
		}
	}
	sort.Slice(m.entries, func(i, j int) bool { return m.entries[i].Obj().Name() < m.entries[j].Obj().Name() })
	if len(m.entries) < 10 {
		fail("C16: only %d journal entry types found (expected 13)", len(m.entries))
	}
	for _, t := range m.entries {
		set := map[fieldID]bool{}
		vmBodySkip(m.revert[t], func(f *ssa.Function) bool { _, ex := c16Exempt[fname(f)]; return ex }, func(f *ssa.Function) {
			allInstrs(f, func(ins ssa.Instruction) {
				for _, w := range writtenFields(ins) {
					set[w] = true
				}
			})
		})
		m.restores[t] = set
		if os.Getenv("OLINT_C16_DEBUG") != "" {
			var fs []string
			for f := range set {
				fs = append(fs, string(f))
			}
			sort.Strings(fs)
			println("RESTORES", t.Obj().Name(), strings.Join(fs, ", "))
		}
	}
	for _, fn := range sortedFns(p.Fns) {
		if fn.Blocks != nil && fnPkg(fn) != nil && fnPkg(fn).Path() == vmPkg {
			m.vmFns = append(m.vmFns, fn)
			allInstrs(fn, func(ins ssa.Instruction) {
				if c, ok := ins.(ssa.CallInstruction); ok {
					if sc := c.Common().StaticCallee(); sc != nil && fnPkg(sc) != nil && fnPkg(sc).Path() == vmPkg {
						m.callers[sc] = append(m.callers[sc], c)
					}
				}
			})
		}
	}
	return m
}

// appendedEntry: ins is journal.append(T{...}); returns T.
func (m *journalModel) appendedEntry(ins ssa.Instruction) *types.Named {
	ts := m.appendedEntries(ins)
	if len(ts) == 1 {
		return ts[0]
	}
	return nil
}

// appendedEntries: the entry types an append may receive (several when the entry is chosen by a branch first).
func (m *journalModel) appendedEntries(ins ssa.Instruction) []*types.Named {
	c, ok := ins.(*ssa.Call)
	if !ok || calleeName(c) != "(*vm.journal).append" {
		return nil
	}
	var res []*types.Named
	var walk func(v ssa.Value, d int) bool
	walk = func(v ssa.Value, d int) bool {
		switch x := resolveLoad(v).(type) {
		case *ssa.MakeInterface:
			n, _ := x.X.Type().(*types.Named)
			if n == nil {
				return false
			}
			res = append(res, n)
			return true
		case *ssa.Phi:
			if d > 3 {
				return false
			}
			for _, e := range x.Edges {
				if !walk(e, d+1) {
					return false
				}
			}
			return len(x.Edges) > 0
		}
		return false
	}
	if !walk(c.Call.Args[1], 0) {
		return nil
	}
	return res
}

func runC16(r *Run) {
	p := r.P
	m := buildJournalModel(p)

	// ---- revert-pure and record-use
	for _, t := range m.entries {
		rv := m.revert[t]
		bad := ""
		vmBody(rv, func(f *ssa.Function) {
			allInstrs(f, func(ins ssa.Instruction) {
				switch calleeName(ins) {
				case "(*vm.journal).append", "(*vm.journal).addDirty", "(*vm.journal).dirty":
					bad = fname(f) + " calls " + calleeName(ins) + " at " + p.ipos(ins)
				}
			})
		})
		r.Check(bad == "", "C16.revert-pure", fname(rv), "undoing "+t.Obj().Name()+" does not journal", "no journal.append / addDirty reachable from the revert method",
			"the undo path journals again ("+bad+"): the address' dirty counter is bumped while it is being unwound, it stays dirty after a complete revert and the position table of journal.dirties goes stale (index out of range in a later call)", p.pos(rv.Pos()))
		st := t.Underlying().(*types.Struct)
		for i := 0; i < st.NumFields(); i++ {
			fnm := st.Field(i).Name()
			readIn := func(f *ssa.Function) bool {
				found := false
				allInstrs(f, func(ins ssa.Instruction) {
					switch x := ins.(type) {
					case *ssa.Field:
						if x.Field == i && types.Identical(x.X.Type(), t) {
							found = true
						}
					case *ssa.FieldAddr:
						if pt, ok := x.X.Type().Underlying().(*types.Pointer); ok && x.Field == i && types.Identical(pt.Elem(), t) {
							found = true
						}
					}
				})
				return found
			}
			okv := readIn(rv) || (!strings.HasPrefix(fnm, "prev") && readIn(m.dirtied[t]))
			r.Check(okv, "C16.record-use", fname(rv), t.Obj().Name()+"."+fnm+" is used when the entry is undone", "read by revert (or, for the address, by dirtied)",
				"the journal entry records "+fnm+" but its revert never reads it: the previous value is not what is restored", p.pos(rv.Pos()))
		}
	}

	// ---- journalled-write
	journalled := map[fieldID]bool{}
	for _, t := range m.entries {
		for f := range m.restores[t] {
			journalled[f] = true
		}
	}
	isRevert := map[*ssa.Function]bool{}
	for _, t := range m.entries {
		vmBody(m.revert[t], func(f *ssa.Function) {
			if f == m.revert[t] {
				isRevert[f] = true
			}
		})
	}
	// commit / reset phase, constructors and cache fills (the reference implementation does not journal these either)
	exempt := func(f *ssa.Function) bool {
		if isRevert[f] {
			return true
		}
		_, ok := c16Exempt[fname(f)]
		return ok
	}
	// fresh object: the written object is built in the same function (not yet visible to anybody)
	fresh := func(fn *ssa.Function, ins ssa.Instruction) bool {
		var base ssa.Value
		switch x := ins.(type) {
		case *ssa.Store:
			base = x.Addr
		case *ssa.MapUpdate:
			base = x.Map
		case *ssa.Call:
			if len(x.Call.Args) > 0 {
				base = x.Call.Args[0]
			}
		}
		if base == nil {
			return false
		}
		root := pathOf(base).Root
		if _, ok := root.(*ssa.Alloc); ok {
			return true
		}
		if c, ok := root.(*ssa.Call); ok {
			n := calleeName(c)
			return n == "vm.newStateObject" || n == "vm.newJournal" || n == "vm.newAccessList" || strings.HasSuffix(n, "NewAccountWithAddress")
		}
		if e, ok := root.(*ssa.Extract); ok {
			if c, ok := e.Tuple.(*ssa.Call); ok {
				return strings.HasSuffix(calleeName(c), "NewAccountWithAddress")
			}
		}
		return false
	}
	type need struct {
		fn    *ssa.Function
		at    ssa.Instruction
		field fieldID
		via   string
	}
	covered := func(n need) bool {
		var suitD func(ins ssa.Instruction, depth int) bool
		suitD = func(ins ssa.Instruction, depth int) bool {
			ts := m.appendedEntries(ins)
			if len(ts) > 0 {
				for _, t := range ts {
					if !m.restores[t][n.field] {
						return false
					}
				}
				return true
			}
			// a helper of package vm that appends such an entry on every path
			sc := staticCallee(ins)
			if sc == nil || depth > 1 || sc.Blocks == nil || fnPkg(sc) == nil || fnPkg(sc).Path() != vmPkg {
				return false
			}
			inner := func(i ssa.Instruction) bool { return suitD(i, depth+1) }
			has := false
			allInstrs(sc, func(i ssa.Instruction) {
				if inner(i) {
					has = true
				}
			})
			if !has {
				return false
			}
			first := sc.Blocks[0].Instrs[0]
			return inner(first) || pathToExitAvoiding(sc, first, inner) == nil
		}
		suit := func(ins ssa.Instruction) bool { return suitD(ins, 0) }
		any := false
		allInstrs(n.fn, func(ins ssa.Instruction) {
			if suit(ins) {
				any = true
			}
		})
		if !any {
			return false
		}
		// the change flag of the access list: the entry is appended by the caller when the callee reports a change
		if c, ok := n.at.(*ssa.Call); ok {
			switch calleeName(c) {
			case "(*vm.accessList).AddAddress", "(*vm.accessList).AddSlot":
				return pathReaches(n.fn, n.at, suit, nil)
			}
		}
		// every path from the entry to the write passes such an append, or every path from the write to an exit does
		first := n.fn.Blocks[0].Instrs[0]
		before := !suit(first) && (first == n.at || pathReaches(n.fn, first, func(i ssa.Instruction) bool { return i == n.at }, suit))
		if !before {
			return true
		}
		return pathToExitAvoiding(n.fn, n.at, suit) == nil
	}
	nOb := 0
	var work []need
	for _, fn := range m.vmFns {
		if exempt(fn) {
			continue
		}
		allInstrs(fn, func(ins ssa.Instruction) {
			for _, f := range writtenFields(ins) {
				if journalled[f] && !fresh(fn, ins) {
					work = append(work, need{fn, ins, f, ""})
				}
			}
		})
	}
	seenNeed := map[string]bool{}
	for depth := 0; len(work) > 0 && depth < 5; depth++ {
		var next []need
		for _, n := range work {
			key := fname(n.fn) + "|" + string(n.field) + "|" + p.ipos(n.at)
			if seenNeed[key] {
				continue
			}
			seenNeed[key] = true
			if covered(n) {
				nOb++
				r.OK("C16.journalled-write", fname(n.fn), "write of "+string(n.field)+n.via+" is journalled", "an entry whose revert restores the field is appended before, or on every path after, the write")
				continue
			}
			// an unexported helper hands the obligation to its callers
			callers := m.callers[n.fn]
			publicAPI := n.fn.Object() != nil && n.fn.Object().Exported() && n.fn.Signature.Recv() != nil && strings.HasSuffix(tname(n.fn.Signature.Recv().Type()), "vm.CommitStateDB")
			if len(callers) == 0 || publicAPI {
				nOb++
				r.Viol("C16.journalled-write", fname(n.fn), "write of "+string(n.field)+n.via+" is journalled",
					"the field is restored by a journal entry's revert, but this write is made without such an entry being appended on the path: a RevertToSnapshot does not undo it", p.ipos(n.at), nil)
				continue
			}
			for _, c := range callers {
				cf := c.Parent()
				if exempt(cf) || fresh(cf, c) {
					continue
				}
				next = append(next, need{cf, c, n.field, " (through " + fname(n.fn) + ")"})
			}
		}
		work = next
	}
	if nOb < 15 {
		fail("C16.journalled-write: only %d journalled writes found (expected >= 20)", nOb)
	}
	checkRevertScalars(r, m)
	checkIndexMaps(r, m)
	checkAdapterSpecifics(r)
	checkSuicideZeroes(r, "C16.suicide")
	checkRemoveAccount(r, "C16.suicide")
	checkIntrinsicGas(r, "C16.gas")
	checkDirtyCount(r, "C16.dirtycount")
	checkAccessListFlags(r)
}

// ---------------------------------------------------------------------------------------------
// C16.indexmap

func checkIndexMaps(r *Run, m *journalModel) {
	p := r.P
	// discover the position tables: M[k] = len(S) - 1 with S and M fields of the same object
	type pair struct{ slice, mp fieldID }
	pairs := map[pair]bool{}
	loadedField := func(v ssa.Value) (fieldID, bool) {
		u, ok := v.(*ssa.UnOp)
		if !ok || u.Op != token.MUL {
			return "", false
		}
		fa, ok := u.X.(*ssa.FieldAddr)
		if !ok {
			return "", false
		}
		st := fa.X.Type()
		if pt, ok := st.Underlying().(*types.Pointer); ok {
			st = pt.Elem()
		}
		return fieldID(strings.TrimPrefix(tname(st), "*") + "." + fieldName(st, fa.Field)), true
	}
	for _, fn := range m.vmFns {
		allInstrs(fn, func(ins ssa.Instruction) {
			mu, ok := ins.(*ssa.MapUpdate)
			if !ok {
				return
			}
			mf, ok := loadedField(mu.Map)
			if !ok {
				return
			}
			derivesFrom(mu.Value, func(y ssa.Value) bool {
				c, ok := y.(*ssa.Call)
				if !ok || calleeName(c) != "builtin:len" {
					return false
				}
				if sf, ok := loadedField(c.Call.Args[0]); ok {
					if _, isSlice := c.Call.Args[0].Type().Underlying().(*types.Slice); isSlice {
						pairs[pair{sf, mf}] = true
					}
				}
				return false
			})
		})
	}
	if len(pairs) < 4 {
		fail("C16.indexmap: only %d slice/position-map pairs discovered (expected 5)", len(pairs))
	}
	partner := map[fieldID][]fieldID{}
	for pr := range pairs {
		partner[pr.slice] = append(partner[pr.slice], pr.mp)
	}
	n := 0
	for _, fn := range m.vmFns {
		fn := fn
		// removal other than at the tail: append(S[:i], S[i+1:]...) or S[i-1] = S[i]
		removed := map[fieldID]ssa.Instruction{}
		allInstrs(fn, func(ins ssa.Instruction) {
			switch x := ins.(type) {
			case *ssa.Call:
				if calleeName(x) == "builtin:copy" && len(x.Call.Args) == 2 {
					// copy(S[i:], S[i+1:])
					d, ok1 := x.Call.Args[0].(*ssa.Slice)
					sr, ok2 := x.Call.Args[1].(*ssa.Slice)
					if ok1 && ok2 && sr.Low != nil {
						f1, okA := loadedField(d.X)
						f2, okB := loadedField(sr.X)
						if okA && okB && f1 == f2 {
							removed[f1] = ins
						}
					}
					return
				}
				if calleeName(x) != "builtin:append" || len(x.Call.Args) != 2 {
					return
				}
				s1, ok1 := x.Call.Args[0].(*ssa.Slice)
				s2, ok2 := x.Call.Args[1].(*ssa.Slice)
				if !ok1 || !ok2 || s2.Low == nil {
					return
				}
				f1, okA := loadedField(s1.X)
				f2, okB := loadedField(s2.X)
				if okA && okB && f1 == f2 {
					removed[f1] = ins
				}
			case *ssa.Store:
				ia, ok := x.Addr.(*ssa.IndexAddr)
				if !ok {
					return
				}
				f, okF := loadedField(ia.X)
				if !okF {
					return
				}
				// S[i-1] = S[i]
				if bo, isB := ia.Index.(*ssa.BinOp); isB && bo.Op == token.SUB {
					if src, isL := x.Val.(*ssa.UnOp); isL {
						if ia2, isI := src.X.(*ssa.IndexAddr); isI {
							if f2, ok2 := loadedField(ia2.X); ok2 && f2 == f {
								removed[f] = ins
							}
						}
					}
				}
			}
		})
		for sf, at := range removed {
			for _, mf := range partner[sf] {
				n++
				// a re-assignment of the partner map with a position taken from a loop variable
				reassigned := false
				allInstrs(fn, func(ins ssa.Instruction) {
					mu, ok := ins.(*ssa.MapUpdate)
					if !ok {
						return
					}
					if f, ok := loadedField(mu.Map); !ok || f != mf {
						return
					}
					if derivesFrom(mu.Value, func(y ssa.Value) bool { _, isPhi := y.(*ssa.Phi); return isPhi }) {
						reassigned = true
					}
				})
				r.Check(reassigned, "C16.indexmap", fname(fn), "removal from the middle of "+string(sf)+" re-indexes "+string(mf), "the shifted elements get their new position in the partner map",
					"an element is removed from the middle of the slice but the positions recorded in "+string(mf)+" for the elements behind it are left one too large: the next lookup returns the wrong entry or indexes past the end (panic in DeliverTx)", p.ipos(at))
			}
		}
	}
	if n < 3 {
		fail("C16.indexmap: only %d middle-removal sites (expected 3)", n)
	}
}

// ---------------------------------------------------------------------------------------------
// adapter specifics

func checkAdapterSpecifics(r *Run) {
	p := r.P
	// CreateAccount: carry-over of the live balance with a set
	ca := p.MustFn("(*vm.CommitStateDB).CreateAccount")
	co := firstCallIn(ca, "(*vm.CommitStateDB).createObject")
	if co == nil {
		r.Viol("C16.create", fname(ca), "createObject call", "CreateAccount no longer calls createObject", p.pos(ca.Pos()), nil)
	} else {
		fromRes := func(i int) VPred {
			return func(v ssa.Value) bool {
				return derivesFrom(v, func(y ssa.Value) bool {
					e, ok := y.(*ssa.Extract)
					return ok && e.Tuple == ssa.Value(co) && e.Index == i
				})
			}
		}
		var setter *ssa.Call
		addUsed := false
		allInstrs(ca, func(ins ssa.Instruction) {
			c, ok := ins.(*ssa.Call)
			if !ok {
				return
			}
			switch calleeName(c) {
			case "(*vm.stateObject).SetBalance", "(*vm.stateObject).setBalance":
				if fromRes(0)(c.Call.Args[0]) && fromRes(1)(c.Call.Args[1]) {
					setter = c
				}
			case "(*vm.stateObject).AddBalance":
				if fromRes(1)(c.Call.Args[1]) {
					addUsed = true
				}
			}
		})
		okv := setter != nil && !addUsed
		if okv {
			// on every path on which a previous object exists the setter is executed before returning
			edges := condEdges(ca, func(cond ssa.Value, _ *ssa.If) int {
				return -nilCond(cond, func(y ssa.Value) bool {
					e, ok := y.(*ssa.Extract)
					return ok && e.Tuple == ssa.Value(co) && e.Index == 1
				})
			})
			if len(edges) == 0 {
				okv = false
			}
			for _, e := range edges {
				// from the "prev != nil" successor no return is reachable without the setter
				start := e.To()
				reach := reachFrom(start, nil)
				_ = reach
				if setter.Block() != start && !setter.Block().Dominates(start) {
					for _, ret := range returnsOf(ca) {
						if reachFrom(start, nil)[ret.Block()] && !blockPathMustPass(start, ret.Block(), setter.Block()) {
							okv = false
						}
					}
				}
			}
		}
		r.Check(okv, "C16.create", fname(ca), "the new object's balance is set to the previous live balance", "newObj.SetBalance(prev balance) on every path with a previous object; no AddBalance",
			"CreateAccount does not carry the previous object's live balance over with a set (dropped, conditional, or added on top of the balance the fresh object already loaded from the store): value disappears or is doubled when a contract is created at a funded address", p.pos(ca.Pos()))
	}

	// accessList.DeleteSlot never removes the address entry
	ds := p.MustFn("(*vm.accessList).DeleteSlot")
	delAddr := false
	marks := false
	allInstrs(ds, func(ins ssa.Instruction) {
		for _, f := range writtenFields(ins) {
			if f != "access list" {
				continue
			}
			if w0 := writtenFields0(ins); len(w0) == 0 || w0[0] != "vm.accessList.addresses" {
				continue
			}
			if c, ok := ins.(*ssa.Call); ok {
				if b, isB := c.Call.Value.(*ssa.Builtin); isB && b.Name() == "delete" {
					delAddr = true
				}
			}
			if mu, ok := ins.(*ssa.MapUpdate); ok {
				if k, isK := intConst(mu.Value); isK && k == -1 {
					marks = true
				}
			}
		}
	})
	r.Check(!delAddr && marks, "C16.accesslist", fname(ds), "undoing a slot keeps the address warm", "addresses[address] = -1, never delete(addresses, address)",
		"DeleteSlot removes the address entry (or no longer marks it slot-less): the address' own journal entry is undone separately, so a rolled-back slot makes a warm address cold and later accesses are priced differently from the reference", p.pos(ds.Pos()))
	da := p.MustFn("(*vm.accessList).DeleteAddress")
	delOK := false
	allInstrs(da, func(ins ssa.Instruction) {
		if c, ok := ins.(*ssa.Call); ok {
			if b, isB := c.Call.Value.(*ssa.Builtin); isB && b.Name() == "delete" {
				delOK = true
			}
		}
	})
	r.Check(delOK, "C16.accesslist", fname(da), "undoing an address removes it", "delete(addresses, address)", "DeleteAddress no longer removes the entry", p.pos(da.Pos()))

	// empty(): true only behind the three tests
	em := p.MustFn("(*vm.stateObject).empty")
	tests := map[string]func(cond ssa.Value) int{
		"nonce == 0": func(cond ssa.Value) int {
			v, flip := stripNot(cond)
			bo, ok := v.(*ssa.BinOp)
			if !ok || (bo.Op != token.EQL && bo.Op != token.NEQ) {
				return 0
			}
			k, isK := intConst(bo.Y)
			if !isK || k != 0 || !strings.HasSuffix(pathOf(bo.X).FieldString(), "Sequence") {
				return 0
			}
			pol := +1
			if bo.Op == token.NEQ {
				pol = -1
			}
			if flip {
				pol = -pol
			}
			return pol
		},
		"zero balance": func(cond ssa.Value) int {
			if pol := boolCond(cond, func(y ssa.Value) bool { c, ok := y.(*ssa.Call); return ok && calleeName(c) == "vm.IsZeroAmount" }); pol != 0 {
				return pol
			}
			// a nil balance counts as zero
			return nilCond(cond, func(y ssa.Value) bool {
				c, ok := y.(*ssa.Call)
				return ok && strings.HasSuffix(calleeName(c), "EthAccount).Balance")
			})
		},
		"empty code hash": func(cond ssa.Value) int {
			return boolCond(cond, func(y ssa.Value) bool {
				c, ok := y.(*ssa.Call)
				if !ok || calleeName(c) != "bytes.Equal" {
					return false
				}
				isHash := func(v ssa.Value) bool { return strings.HasSuffix(pathOf(v).FieldString(), "CodeHash") }
				isEmpty := func(v ssa.Value) bool {
					g, ok := pathOf(v).Root.(*ssa.Global)
					return ok && g.Name() == "emptyCodeHash"
				}
				return (isHash(c.Call.Args[0]) && isEmpty(c.Call.Args[1])) || (isHash(c.Call.Args[1]) && isEmpty(c.Call.Args[0]))
			})
		},
	}
	accountNil := func(cond ssa.Value) int {
		return nilCond(cond, func(y ssa.Value) bool { return strings.HasSuffix(pathOf(y).FieldString(), "account") })
	}
	var names []string
	for n := range tests {
		names = append(names, n)
	}
	sort.Strings(names)
	for _, name := range names {
		edges := condEdges(em, func(c ssa.Value, _ *ssa.If) int { return tests[name](c) })
		// the account == nil escape is allowed to answer true without the tests
		edges = append(edges, condEdges(em, func(c ssa.Value, _ *ssa.If) int { return accountNil(c) })...)
		okv := !boolResultMayBeTrueWithout(em, edges, func(v ssa.Value) bool { return tests[name](v) > 0 })
		r.Check(okv, "C16.empty", fname(em), "empty() is true only behind "+name, "the true result is unreachable without the test (or the nil-account escape)",
			"an account is considered empty although "+name+" does not hold: Finalise deletes a live account (or EIP-158 clearing differs from the reference)", p.pos(em.Pos()))
	}

	// IsZeroAmount decides on the whole number (Cmp / Sign), not on a 64-bit view of it
	iz := p.MustFn("vm.IsZeroAmount")
	fullWidth := func(v ssa.Value) int {
		x, flip := stripNot(v)
		bo, ok := x.(*ssa.BinOp)
		if !ok || (bo.Op != token.EQL && bo.Op != token.NEQ) {
			return 0
		}
		c, ok := bo.X.(*ssa.Call)
		k, isK := intConst(bo.Y)
		if !ok || !isK || k != 0 {
			return 0
		}
		good := false
		switch calleeName(c) {
		case "(*math/big.Int).Sign":
			good = c.Call.Args[0] == ssa.Value(iz.Params[0])
		case "(*math/big.Int).Cmp":
			if z, isC := c.Call.Args[1].(*ssa.Call); isC && calleeName(z) == "math/big.NewInt" {
				if kk, isKK := intConst(z.Call.Args[0]); isKK && kk == 0 {
					good = c.Call.Args[0] == ssa.Value(iz.Params[0])
				}
			}
		}
		if !good {
			return 0
		}
		pol := +1
		if bo.Op == token.NEQ {
			pol = -1
		}
		if flip {
			pol = -pol
		}
		return pol
	}
	izEdges := condEdges(iz, func(c ssa.Value, _ *ssa.If) int { return fullWidth(c) })
	okIZ := !boolResultMayBeTrueWithout(iz, izEdges, func(v ssa.Value) bool { return fullWidth(v) > 0 })
	r.Check(okIZ, "C16.empty", fname(iz), "zero means the whole number is zero", "true only behind Cmp(amount, 0) == 0 / Sign() == 0",
		"IsZeroAmount answers true for a non-zero amount (e.g. it looks at the low 64 bits only): an account holding k*2^64 counts as empty, a zero-value call touches it and Finalise deletes it together with its balance", p.pos(iz.Pos()))

	// Snapshot / RevertToSnapshot
	sn := p.MustFn("(*vm.CommitStateDB).Snapshot")
	okS := false
	allInstrs(sn, func(ins ssa.Instruction) {
		st, ok := ins.(*ssa.Store)
		if !ok {
			return
		}
		if fa, ok := st.Addr.(*ssa.FieldAddr); ok && strings.HasSuffix(pathOf(fa).FieldString(), "journalIndex") {
			if c, ok := st.Val.(*ssa.Call); ok && calleeName(c) == "(*vm.journal).length" {
				okS = true
			}
		}
	})
	r.Check(okS, "C16.snapshot", fname(sn), "a revision records the current journal length", "journalIndex = journal.length()", "Snapshot does not record the journal length: RevertToSnapshot unwinds too much or too little", p.pos(sn.Pos()))
	rs := p.MustFn("(*vm.CommitStateDB).RevertToSnapshot")
	rvc := firstCallIn(rs, "(*vm.journal).revert")
	okR := rvc != nil && strings.HasSuffix(pathOf(rvc.Call.Args[2]).FieldString(), "journalIndex")
	// the position of the revision whose journal index is used
	var revIdx ssa.Value
	if okR {
		derivesFrom(rvc.Call.Args[2], func(y ssa.Value) bool {
			if ia, ok := y.(*ssa.IndexAddr); ok && strings.HasSuffix(pathOf(ia.X).FieldString(), "validRevisions") {
				revIdx = ia.Index
			}
			return false
		})
	}
	trunc := false
	allInstrs(rs, func(ins ssa.Instruction) {
		st, ok := ins.(*ssa.Store)
		if !ok {
			return
		}
		if strings.HasSuffix(pathOf(st.Addr).FieldString(), "validRevisions") {
			if sl, ok := st.Val.(*ssa.Slice); ok && sl.High != nil && sl.Low == nil && revIdx != nil && sl.High == revIdx {
				trunc = true
			}
		}
	})
	r.Check(okR && trunc, "C16.snapshot", fname(rs), "unwinds to the recorded index and drops the invalidated revisions", "journal.revert(s, validRevisions[idx].journalIndex); validRevisions = validRevisions[:idx]",
		"RevertToSnapshot does not unwind to the revision's journal index or keeps invalidated revisions", p.pos(rs.Pos()))
	jr := p.MustFn("(*vm.journal).revert")
	truncE := false
	allInstrs(jr, func(ins ssa.Instruction) {
		st, ok := ins.(*ssa.Store)
		if !ok {
			return
		}
		if strings.HasSuffix(pathOf(st.Addr).FieldString(), "entries") {
			if sl, ok := st.Val.(*ssa.Slice); ok && sl.High != nil && sl.Low == nil {
				if _, isP := sl.High.(*ssa.Parameter); isP {
					truncE = true
				}
			}
		}
	})
	r.Check(truncE, "C16.snapshot", fname(jr), "the journal is truncated to the snapshot", "entries = entries[:snapshot]", "journal.revert leaves undone entries in the journal (they would be undone twice)", p.pos(jr.Pos()))
}

// blockPathMustPass: every path from `from` to `to` passes through block `via`.
func blockPathMustPass(from, to, via *ssa.BasicBlock) bool {
	if from == via || to == via {
		return true
	}
	seen := map[*ssa.BasicBlock]bool{via: true}
	var stack []*ssa.BasicBlock
	stack = append(stack, from)
	for len(stack) > 0 {
		b := stack[len(stack)-1]
		stack = stack[:len(stack)-1]
		if seen[b] {
			continue
		}
		seen[b] = true
		if b == to {
			return false
		}
		stack = append(stack, b.Succs...)
	}
	return true
}

// boolResultMayBeTrueWithout: can fn return true when the given pass edges are removed and every value for which
// isTest holds (the test itself used as a value of the short-circuit expression) is taken to be false?
func boolResultMayBeTrueWithout(fn *ssa.Function, edges []Edge, isTest func(ssa.Value) bool) bool {
	live := reachWithout(fn, edges)
	deadEdge := func(from, to *ssa.BasicBlock) bool {
		for _, ed := range edges {
			if ed.From == from && ed.To() == to && ed.Pred == nil {
				// dead only if no other edge from `from` leads to `to`
				other := false
				for i, s := range from.Succs {
					if s == to && i != ed.Succ {
						other = true
					}
				}
				return !other
			}
		}
		return false
	}
	seen := map[ssa.Value]bool{}
	var may func(v ssa.Value) bool
	may = func(v ssa.Value) bool {
		if k, ok := boolConst(v); ok {
			return k
		}
		if isTest(v) {
			return false
		}
		if seen[v] {
			return false
		}
		seen[v] = true
		if phi, ok := v.(*ssa.Phi); ok {
			for i, e := range phi.Edges {
				pred := phi.Block().Preds[i]
				if !live[pred] || deadEdge(pred, phi.Block()) {
					continue
				}
				if may(e) {
					return true
				}
			}
			return false
		}
		return true
	}
	for _, ret := range returnsOf(fn) {
		if live[ret.Block()] && may(ret.Results[0]) {
			return true
		}
	}
	return false
}

// checkRevertScalars: a counter or flag that a revert restores on some path is restored on every path of that revert,
// except the no-op escapes (object or table entry not found).
func checkRevertScalars(r *Run, m *journalModel) {
	p := r.P
	isBasicField := func(ins ssa.Instruction) (fieldID, bool) {
		st, ok := ins.(*ssa.Store)
		if !ok {
			return "", false
		}
		fa, ok := st.Addr.(*ssa.FieldAddr)
		if !ok {
			return "", false
		}
		if _, isBasic := st.Val.Type().Underlying().(*types.Basic); !isBasic {
			return "", false
		}
		w := writtenFields0(ins)
		if len(w) == 0 {
			return "", false
		}
		_ = fa
		return w[0], true
	}
	// raw basic fields written anywhere inside a vm function (with its vm callees, exempt ones excluded)
	memo := map[*ssa.Function]map[fieldID]bool{}
	var writes func(f *ssa.Function) map[fieldID]bool
	writes = func(f *ssa.Function) map[fieldID]bool {
		if w, ok := memo[f]; ok {
			return w
		}
		res := map[fieldID]bool{}
		memo[f] = res
		vmBodySkip(f, func(g *ssa.Function) bool { _, ex := c16Exempt[fname(g)]; return ex }, func(g *ssa.Function) {
			allInstrs(g, func(ins ssa.Instruction) {
				if fld, ok := isBasicField(ins); ok {
					res[fld] = true
				}
			})
		})
		return res
	}
	n := 0
	for _, t := range m.entries {
		rv := m.revert[t]
		all := writes(rv)
		var fields []string
		for f := range all {
			fields = append(fields, string(f))
		}
		sort.Strings(fields)
		for _, fs := range fields {
			f := fieldID(fs)
			n++
			// escapes: "not found" edges
			escapes := condEdges(rv, func(cond ssa.Value, _ *ssa.If) int {
				if pol := boolCond(cond, func(y ssa.Value) bool {
					e, ok := y.(*ssa.Extract)
					if !ok || e.Index != 1 {
						return false
					}
					_, isLk := e.Tuple.(*ssa.Lookup)
					return isLk
				}); pol != 0 {
					return -pol // the not-found edge
				}
				return nilCond(cond, func(y ssa.Value) bool { _, isPtr := y.Type().Underlying().(*types.Pointer); return isPtr })
			})
			barrier := func(ins ssa.Instruction) bool {
				if fld, ok := isBasicField(ins); ok && fld == f {
					return true
				}
				if sc := staticCallee(ins); sc != nil && fnPkg(sc) != nil && fnPkg(sc).Path() == vmPkg && sc.Blocks != nil {
					if _, ex := c16Exempt[fname(sc)]; !ex && writes(sc)[f] {
						return true
					}
				}
				return false
			}
			first := rv.Blocks[0].Instrs[0]
			bad := false
			if !barrier(first) {
				for ins := range reachFromInstr(first, escapes, barrier) {
					if _, isRet := ins.(*ssa.Return); isRet {
						bad = true
					}
				}
			}
			r.Check(!bad, "C16.revert-complete", fname(rv), string(f)+" is restored on every path of the undo", "no return without writing it, except when the object / entry is not found",
				"undoing "+t.Obj().Name()+" restores "+string(f)+" on some paths only: after a revert through the other path the counter / flag keeps the value of the undone operation", p.pos(rv.Pos()))
		}
	}
	if n < 5 {
		fail("C16.revert-complete: only %d scalar fields restored by reverts (expected >= 6)", n)
	}
}
