package main

// C11 Stake lifecycle.

import (
	"fmt"
	"go/token"
	"strings"

	"golang.org/x/tools/go/ssa"
)

const (
	fnIsFrozen     = "(*data/evidence.EvidenceStore).IsFrozenValidator"
	fnDelegStake   = "(*data/delegation.DelegationStore).Stake"
	fnDelegUnstake = "(*data/delegation.DelegationStore).Unstake"
	fnDelegWithdr  = "(*data/delegation.DelegationStore).Withdraw"
	fnDelegAdd     = "(*data/delegation.DelegationStore).AddToAddress"
	fnDelegMinus   = "(*data/delegation.DelegationStore).MinusFromAddress"
	fnHandleStake  = "(*identity.ValidatorStore).HandleStake"
	fnHandleUnst   = "(*identity.ValidatorStore).HandleUnstake"
	fnBalMinus     = "(*data/balance.Store).MinusFromAddress"
	fnBalAdd       = "(*data/balance.Store).AddToAddress"
)

func init() {
	register(&propertyDef{
		ID:    "C11",
		Title: "Stake lifecycle: unstaked funds unlock only after maturity, exactly once",
		Explain: "Decides on every path of the three staking handlers (DeliverTx side) and of the delegation store: no stake/unstake/withdraw effect without the not-frozen edge for the message's validator; " +
			"Unstake is scheduled at header height + the configured maturity; the balance debit guards the stake record, the bounded-amount debit (error-checked) guards the balance credit, all with the message's own addresses and amount; " +
			"Withdraw debits the bounded record only; Unstake moves exactly the debited amount into the maturity list of the given height; the block-end maturity step credits each entry's own amount to its own address from a fresh read and then clears the block's list; " +
			"the three effective-amount records are always updated together with the same keys and amount; the validator record moves by the same amount; postponed unstakes are applied to every validator.",
		NotDecided: "the arithmetic statement 'sum withdrawn <= staked - penalties' over histories; sign/currency validation of the amounts (C02)",
		Run:        runC11,
	})
}

// firstCall: the (single) call to name inside fn and same-package helpers; fails the rule instance if absent.
func firstCall(fn *ssa.Function, name string) *ssa.Call {
	var res *ssa.Call
	for _, f := range handlerBody(fn) {
		allInstrs(f, func(ins ssa.Instruction) {
			if c, ok := ins.(*ssa.Call); ok && calleeName(c) == name && res == nil {
				res = c
			}
		})
	}
	return res
}

func allCalls(fn *ssa.Function, name string) []*ssa.Call {
	var res []*ssa.Call
	for _, f := range handlerBody(fn) {
		allInstrs(f, func(ins ssa.Instruction) {
			if c, ok := ins.(*ssa.Call); ok && calleeName(c) == name {
				res = append(res, c)
			}
		})
	}
	return res
}

// argCheck records that argument i (receiver = 0) of every call to callee inside entry satisfies pred.
func (r *Run) argCheck(rule string, entry *ssa.Function, callee string, i int, what string, pred VPred, consequence string) {
	p := r.P
	calls := allCalls(entry, callee)
	short := callee[strings.LastIndex(callee, ".")+1:]
	construct := fmt.Sprintf("%s argument %d is %s", short, i, what)
	if len(calls) == 0 {
		r.Viol(rule, fname(entry), construct, "no call to "+callee+" found in the handler", p.pos(entry.Pos()), nil)
		return
	}
	for _, c := range calls {
		args := callArgs(c)
		ok := i < len(args) && pred(args[i])
		got := "?"
		if i < len(args) {
			got = pathOf(args[i]).String()
		}
		r.Check(ok, rule, fname(entry), construct, "argument is "+got,
			fmt.Sprintf("argument %d of %s is %s, not %s: %s", i, short, got, what, consequence), p.ipos(c))
	}
}

// coinOf: a balance.Coin built from the message field (ToCoin / ToCoinWithBase / NewCoinFromAmount of it).
func coinFromMsg(p *Program, field string) VPred {
	f := msgF(p, field)
	return func(v ssa.Value) bool {
		// the message's amount itself (through conversions), or a sum containing it, on every alternative of v
		return everyAlternative(v, func(x ssa.Value) bool {
			return derivesFromStop(x, func(y ssa.Value) bool { return f(y) }, isSubtractiveOp)
		})
	}
}

func runC11(r *Run) {
	p := r.P
	stake := p.deliverEntry("STAKE")
	unstake := p.deliverEntry("UNSTAKE")
	withdraw := p.deliverEntry("WITHDRAW")

	notFrozen := boolCallG("not frozen(msg.ValidatorAddress)", false, []string{fnIsFrozen}, nil, msgF(p, "ValidatorAddress"))
	frozenWhy := "a frozen (guilty) validator's stake could still be changed or withdrawn"
	checkLivePredicates(r, "C11.frozen", fnIsFrozen)
	r.guardOb("C11.frozen", stake, "stake effects", callsTo(fnBalMinus, fnDelegStake, fnHandleStake), notFrozen, frozenWhy)
	r.guardOb("C11.frozen", unstake, "unstake effects", callsTo(fnDelegUnstake, fnHandleUnst), notFrozen, frozenWhy)
	r.guardOb("C11.frozen", withdraw, "withdraw effects", callsTo(fnDelegWithdr, fnBalAdd), notFrozen, frozenWhy)

	// stake: debit(msg.StakeAddress, coin(msg.Stake)) succeeded before the stake record grows
	r.guardOb("C11.stake.paid", stake, "Delegators.Stake / HandleStake", callsTo(fnDelegStake, fnHandleStake),
		errCallG("balance debit of msg.StakeAddress succeeded", []string{fnBalMinus}, nil, msgF(p, "StakeAddress"), coinFromMsg(p, "Stake")),
		"stake could be recorded without the staker's balance being debited")
	r.argCheck("C11.stake.datum", stake, fnDelegStake, 1, "msg.ValidatorAddress", msgF(p, "ValidatorAddress"), "stake is recorded for another validator")
	r.argCheck("C11.stake.datum", stake, fnDelegStake, 2, "msg.StakeAddress", msgF(p, "StakeAddress"), "stake is recorded for another delegator than the one debited")
	r.argCheck("C11.stake.datum", stake, fnDelegStake, 3, "msg.Stake.Value", msgF(p, "Stake.Value"), "the recorded stake differs from the amount debited")

	// unstake
	r.argCheck("C11.unstake.datum", unstake, fnDelegUnstake, 1, "msg.ValidatorAddress", msgF(p, "ValidatorAddress"), "stake of another validator is unstaked")
	r.argCheck("C11.unstake.datum", unstake, fnDelegUnstake, 2, "msg.StakeAddress", msgF(p, "StakeAddress"), "another delegator's stake is unstaked")
	r.argCheck("C11.unstake.datum", unstake, fnDelegUnstake, 3, "msg.Stake.Value", msgF(p, "Stake.Value"), "amount differs from the message")
	r.argCheck("C11.unstake.maturity", unstake, fnDelegUnstake, 4, "header height + StakingOptions.MaturityTime", func(v ssa.Value) bool {
		bo, ok := v.(*ssa.BinOp)
		if !ok || bo.Op != token.ADD {
			return false
		}
		isH := func(x ssa.Value) bool {
			return derivesFrom(x, func(y ssa.Value) bool {
				if c, ok := y.(*ssa.Call); ok && strings.HasSuffix(calleeName(c), "abci/types.Header).GetHeight") {
					return true
				}
				return headerHeight(y)
			})
		}
		isM := recF("MaturityTime", "(*data/governance.Store).GetStakingOptions")
		return (isH(bo.X) && isM(bo.Y)) || (isH(bo.Y) && isM(bo.X))
	}, "unstaked funds unlock at the wrong height (before the maturity period elapsed)")
	r.guardOb("C11.unstake.order", unstake, "HandleUnstake", callsTo(fnHandleUnst),
		errCallG("Delegators.Unstake succeeded", []string{fnDelegUnstake}), "validator power drops although the delegation record refused the unstake")
	// the identity.Unstake record handed to HandleUnstake carries the same validator and amount
	if c := firstCall(unstake, fnHandleUnst); c != nil {
		okA := derivesFrom(c.Call.Args[1], func(y ssa.Value) bool { return msgF(p, "Stake.Value")(y) })
		okV := derivesFrom(c.Call.Args[1], func(y ssa.Value) bool { return msgF(p, "ValidatorAddress")(y) })
		r.Check(okA && okV, "C11.unstake.datum", fname(unstake), "HandleUnstake receives msg.ValidatorAddress and msg.Stake.Value",
			"the validator record moves by the unstaked amount", "the validator record is not reduced by the message's validator/amount: recorded stake diverges from the delegators' locked sum", p.ipos(c))
	}

	// withdraw
	r.argCheck("C11.withdraw.datum", withdraw, fnDelegWithdr, 1, "msg.ValidatorAddress", msgF(p, "ValidatorAddress"), "wrong validator")
	r.argCheck("C11.withdraw.datum", withdraw, fnDelegWithdr, 2, "msg.StakeAddress", msgF(p, "StakeAddress"), "another delegator's matured funds are withdrawn")
	r.argCheck("C11.withdraw.datum", withdraw, fnDelegWithdr, 3, "msg.Stake.Value", msgF(p, "Stake.Value"), "amount differs from the message")
	r.guardOb("C11.withdraw.paid", withdraw, "balance credit", callsTo(fnBalAdd),
		errCallG("Delegators.Withdraw succeeded", []string{fnDelegWithdr}), "the balance is credited although the bounded (matured) amount could not be debited")
	r.argCheck("C11.withdraw.datum", withdraw, fnBalAdd, 1, "msg.StakeAddress", msgF(p, "StakeAddress"), "withdrawn funds are credited to someone else")
	r.argCheck("C11.withdraw.datum", withdraw, fnBalAdd, 2, "coin built from msg.Stake", coinFromMsg(p, "Stake"), "credited amount differs from the debited bounded amount")

	checkDelegationStore(r)
	checkPostponed(r)
	checkAddressRoles(r, "C11.roles")
	checkDelegationDumpLoad(r)
	checkDumpLoadFields(r, "C11.dumpload", "(*data/delegation.DelegationStore).DumpState", "(*data/delegation.DelegationStore).LoadState")
	r.Floor("C11.", 40)
}

func paramIs(fn *ssa.Function, i int) VPred {
	return func(v ssa.Value) bool {
		pa := pathOf(v)
		return i < len(fn.Params) && pa.Root == ssa.Value(fn.Params[i]) && len(pa.Fields) == 0
	}
}

func checkDelegationStore(r *Run) {
	p := r.P
	pre := "(*data/delegation.DelegationStore)."
	// Withdraw: bounded record only, error-checked
	w := p.MustFn(fnDelegWithdr)
	getB := firstCallIn(w, pre+"GetDelegatorBoundedAmount")
	setB := firstCallIn(w, pre+"SetDelegatorBoundedAmount")
	minus := firstCallIn(w, "(*data/balance.Amount).Minus")
	okW := getB != nil && setB != nil && minus != nil
	if okW {
		okW = paramIs(w, 2)(getB.Call.Args[1]) && paramIs(w, 2)(setB.Call.Args[1]) &&
			derivesFrom(minus.Call.Args[0], func(y ssa.Value) bool { s, i := tupleSource(y); return s == ssa.Value(getB) && i == 0 }) &&
			derivesFrom(minus.Call.Args[1], func(y ssa.Value) bool { return y == ssa.Value(w.Params[3]) }) &&
			derivesFrom(setB.Call.Args[2], func(y ssa.Value) bool { s, i := tupleSource(y); return s == ssa.Value(minus) && i == 0 })
	}
	r.Check(okW, "C11.store.withdraw", fname(w), "bounded[delegator] -= amount",
		"Withdraw reads the delegator's bounded (matured) record, subtracts the amount with Amount.Minus and writes the result back under the same key",
		"Withdraw does not debit exactly the delegator's bounded record by the given amount (e.g. debits the effective amount or another key): funds still locked could be withdrawn", p.pos(w.Pos()))
	if setB != nil && minus != nil {
		g := &CallGuard{Name: "Minus succeeded", Callees: []string{"(*data/balance.Amount).Minus"}, ErrOnly: true}
		edges := g.Edges(p, w)
		r.Check(len(edges) > 0 && !reachWithout(w, edges)[setB.Block()], "C11.store.withdraw", fname(w), "write behind the Minus error check",
			"the bounded record is written only when the subtraction did not go negative", "the bounded record can be written although Minus reported insufficient funds", p.ipos(setB))
	}
	// other writers of the bounded / effective records inside Withdraw are forbidden
	for _, bad := range []string{pre + "SetDelegatorEffectiveAmount", pre + "SetValidatorAmount", pre + "SetValidatorDelegationAmount", fnDelegMinus} {
		r.Check(firstCallIn(w, bad) == nil, "C11.store.withdraw", fname(w), "does not touch "+strings.TrimPrefix(bad, pre),
			"only the bounded record moves", "Withdraw also changes locked stake records", p.pos(w.Pos()))
	}

	// Unstake: effective -= coin (error-checked), then maturity list of `height` gets {delegator, coin, height}
	u := p.MustFn(fnDelegUnstake)
	mn := firstCallIn(u, fnDelegMinus)
	gm := firstCallIn(u, pre+"GetMatureAmounts")
	sm := firstCallIn(u, pre+"SetMatureAmounts")
	okU := mn != nil && gm != nil && sm != nil
	if okU {
		okU = paramIs(u, 1)(mn.Call.Args[1]) && paramIs(u, 2)(mn.Call.Args[2]) && paramIs(u, 3)(mn.Call.Args[3]) &&
			paramIs(u, 4)(gm.Call.Args[1]) && paramIs(u, 4)(sm.Call.Args[1])
	}
	r.Check(okU, "C11.store.unstake", fname(u), "effective -= amount; mature[height] += entry",
		"Unstake debits the three effective records with its own parameters and reads/writes the maturity list of the given height",
		"Unstake does not move the amount from the effective records into the maturity list of the given height with its own parameters", p.pos(u.Pos()))
	if mn != nil && sm != nil {
		g := &CallGuard{Name: "MinusFromAddress succeeded", Callees: []string{fnDelegMinus}, ErrOnly: true}
		edges := g.Edges(p, u)
		r.Check(len(edges) > 0 && !reachWithout(u, edges)[sm.Block()], "C11.store.unstake", fname(u), "maturity entry behind the debit's error check",
			"the maturity entry is written only when the locked amount was actually reduced", "a maturity entry can be created although the locked amount was not reduced (unstake of funds that are not there)", p.ipos(sm))
		// the appended entry carries delegator, coin, height
		entryOK := false
		allInstrs(u, func(ins ssa.Instruction) {
			if al, ok := ins.(*ssa.Alloc); ok && tname(al.Type()) == "*data/delegation.MatureData" {
				f := map[string]ssa.Value{}
				for _, ref := range *al.Referrers() {
					if fa, ok := ref.(*ssa.FieldAddr); ok {
						for _, u2 := range *fa.Referrers() {
							if st, ok := u2.(*ssa.Store); ok {
								f[fieldName(fa.X.Type(), fa.Field)] = st.Val
							}
						}
					}
				}
				if f["Address"] != nil && f["Amount"] != nil && f["Height"] != nil &&
					paramIs(u, 2)(f["Address"]) && paramIs(u, 3)(f["Amount"]) && paramIs(u, 4)(f["Height"]) {
					entryOK = true
				}
			}
		})
		r.Check(entryOK, "C11.store.unstake", fname(u), "entry = {delegator, amount, height}",
			"the maturity entry names the delegator, the unstaked amount and the height", "the maturity entry does not carry the unstaking delegator / amount / height", p.pos(u.Pos()))
	}

	// UpdateWithdrawReward
	uw := p.MustFn(pre + "UpdateWithdrawReward")
	gm2 := firstCallIn(uw, pre+"GetMatureAmounts")
	var sets []*ssa.Call
	var setsM []*ssa.Call
	allInstrs(uw, func(ins ssa.Instruction) {
		if c, ok := ins.(*ssa.Call); ok {
			switch calleeName(c) {
			case pre + "SetDelegatorBoundedAmount":
				sets = append(sets, c)
			case pre + "SetMatureAmounts":
				setsM = append(setsM, c)
			}
		}
	})
	okH := gm2 != nil && paramIs(uw, 1)(gm2.Call.Args[1])
	for _, c := range setsM {
		if !paramIs(uw, 1)(c.Call.Args[1]) {
			okH = false
		}
	}
	r.Check(okH && len(setsM) > 0, "C11.store.mature", fname(uw), "reads and clears the list of the given height",
		"the maturity list read and the list reset are those of the height parameter", "the matured list of another height is read or reset", p.pos(uw.Pos()))
	for i, c := range sets {
		// address = element.Address ; amount = Get(element.Address).Plus(element.Amount), all of one element, read inside the loop
		addr := pathOf(c.Call.Args[1])
		okE := strings.HasSuffix(addr.FieldString(), "Address") && len(addr.Indices) == 1
		var idx ssa.Value
		if okE {
			idx = addr.Indices[0]
		}
		plus, _ := c.Call.Args[2].(*ssa.UnOp)
		var plusCall *ssa.Call
		if plus != nil {
			plusCall, _ = plus.X.(*ssa.Call)
		} else if pc, ok := c.Call.Args[2].(*ssa.Call); ok {
			plusCall = pc
		}
		okAmt := false
		if plusCall != nil && strings.HasSuffix(calleeName(plusCall), "Amount).Plus") && idx != nil {
			recv, arg := plusCall.Call.Args[0], plusCall.Call.Args[1]
			ap := pathOf(arg)
			okArg := strings.HasSuffix(ap.FieldString(), "Amount") && len(ap.Indices) == 1 && ap.Indices[0] == idx
			src, ti := tupleSource(recv)
			gc, isCall := src.(*ssa.Call)
			okRecv := isCall && ti == 0 && calleeName(gc) == pre+"GetDelegatorBoundedAmount"
			if okRecv {
				gp := pathOf(gc.Call.Args[1])
				okRecv = strings.HasSuffix(gp.FieldString(), "Address") && len(gp.Indices) == 1 && gp.Indices[0] == idx && gc.Block().Dominates(c.Block()) && inSameLoop(gc, c)
			}
			okAmt = okArg && okRecv
		}
		r.Check(okE && okAmt, "C11.store.mature", fname(uw), fmt.Sprintf("credit#%d: bounded[e.Address] = fresh bounded[e.Address] + e.Amount", i),
			"each maturing entry credits its own amount to its own address on top of a value read in the same iteration",
			"the matured credit is not 'this entry's amount added to a fresh read of this entry's address' (e.g. a per-delegator total or a cached base value): entries of one delegator maturing together are lost or multiplied", p.ipos(c))
	}
	if len(sets) == 0 {
		r.Viol("C11.store.mature", fname(uw), "credit of matured entries", "no SetDelegatorBoundedAmount call", p.pos(uw.Pos()), nil)
	}
	// the reset is reachable on every path where the list was non-empty: it is not inside the loop and not behind an error branch of the loop
	for _, c := range setsM {
		inLoop := false
		for _, s := range sets {
			if inSameLoop(s, c) {
				inLoop = true
			}
		}
		r.Check(!inLoop, "C11.store.mature", fname(uw), "list reset after the loop", "the block's list is cleared once, after all entries were credited",
			"the list reset happens inside the crediting loop", p.ipos(c))
	}

	// AddToAddress / MinusFromAddress: three records, same keys, same amount
	for _, name := range []string{fnDelegAdd, fnDelegMinus} {
		fn := p.MustFn(name)
		type rec struct {
			get, set string
			keys     []int
		}
		recs := []rec{{"GetValidatorAmount", "SetValidatorAmount", []int{1}}, {"GetValidatorDelegationAmount", "SetValidatorDelegationAmount", []int{1, 2}}, {"GetDelegatorEffectiveAmount", "SetDelegatorEffectiveAmount", []int{2}}}
		for _, rc := range recs {
			g := firstCallIn(fn, pre+rc.get)
			s := firstCallIn(fn, pre+rc.set)
			ok := g != nil && s != nil
			if ok {
				for k, pi := range rc.keys {
					if !paramIs(fn, pi)(g.Call.Args[1+k]) || !paramIs(fn, pi)(s.Call.Args[1+k]) {
						ok = false
					}
				}
				val := s.Call.Args[len(s.Call.Args)-1]
				// value = Get(...).Plus(amount) / Minus(amount) result
				ok = ok && derivesFrom(val, func(y ssa.Value) bool { src, i := tupleSource(y); return src == ssa.Value(g) && i == 0 }) &&
					derivesFrom(val, func(y ssa.Value) bool { return y == ssa.Value(fn.Params[3]) })
				if name == fnDelegMinus {
					ok = ok && derivesFrom(val, func(y ssa.Value) bool {
						c, isC := y.(*ssa.Call)
						return isC && calleeName(c) == "(*data/balance.Amount).Minus"
					})
				}
			}
			r.Check(ok, "C11.store.threeway", fname(fn), rc.set+" consistent with "+rc.get,
				"the record is rewritten from its own current value and the amount parameter under the function's own keys",
				"one of the three effective-amount records is not updated from its own value with the same keys/amount: validator total, per-delegation and per-delegator amounts drift apart", p.pos(fn.Pos()))
		}
		if name == fnDelegMinus {
			// every Set is behind the nil-error edge of the Minus that produced its value
			g := &CallGuard{Name: "Minus succeeded", Callees: []string{"(*data/balance.Amount).Minus"}, ErrOnly: true}
			edges := g.Edges(p, fn)
			okG := len(edges) >= 3
			allInstrs(fn, func(ins ssa.Instruction) {
				if c, ok := ins.(*ssa.Call); ok && strings.HasPrefix(calleeName(c), pre+"Set") {
					// the specific Minus feeding this Set
					var feeding []Edge
					for _, e := range edges {
						iff := blockIf(e.From)
						if derivesFrom(iff.Cond, func(y ssa.Value) bool {
							src, _ := tupleSource(y)
							mc, isC := src.(*ssa.Call)
							return isC && derivesFrom(c.Call.Args[len(c.Call.Args)-1], func(z ssa.Value) bool { s2, _ := tupleSource(z); return s2 == ssa.Value(mc) })
						}) {
							feeding = append(feeding, e)
						}
					}
					if len(feeding) == 0 || reachWithout(fn, feeding)[c.Block()] {
						okG = false
					}
				}
			})
			r.Check(okG, "C11.store.threeway", fname(fn), "each write behind its own Minus error check",
				"no record is written with a negative result", "a stake record can be written although its subtraction failed (negative locked amount)", p.pos(fn.Pos()))
		}
	}
	// block end calls the maturity step with the request height
	ge := p.MustFn("(*identity.ValidatorStore).GetEndBlockUpdate")
	if c := firstCallIn(ge, pre+"UpdateWithdrawReward"); c != nil {
		r.Check(derivesFrom(c.Call.Args[1], func(y ssa.Value) bool {
			if gc, ok := y.(*ssa.Call); ok && strings.HasSuffix(calleeName(gc), "RequestEndBlock).GetHeight") {
				return pathOf(gc.Call.Args[0]).Root == ssa.Value(ge.Params[2])
			}
			pa := pathOf(y)
			return pa.Root == ssa.Value(ge.Params[2]) && strings.HasSuffix(pa.FieldString(), "Height")
		}), "C11.store.mature", fname(ge), "UpdateWithdrawReward(req.Height)", "block end matures the list of the block's own height",
			"block end matures another height's list (funds unlock early/late)", p.ipos(c))
	} else {
		r.Viol("C11.store.mature", fname(ge), "UpdateWithdrawReward(req.Height)", "the block-end hook no longer runs the maturity step", p.pos(ge.Pos()), nil)
	}
}

func firstCallIn(fn *ssa.Function, name string) *ssa.Call {
	var res *ssa.Call
	for _, f := range withAnon(fn) {
		allInstrs(f, func(ins ssa.Instruction) {
			if c, ok := ins.(*ssa.Call); ok && calleeName(c) == name && res == nil {
				res = c
			}
		})
	}
	return res
}

// inSameLoop: both instructions lie on a common cycle of the CFG.
func inSameLoop(a, b ssa.Instruction) bool {
	ba, bb := a.Block(), b.Block()
	if ba == bb {
		return reachableAfter(ba, ba, nil)
	}
	return reachableAfter(ba, bb, nil) && reachableAfter(bb, ba, nil)
}

// checkPostponed: delayed (penalty) unstakes are applied to every validator each block.
func checkPostponed(r *Run) {
	p := r.P
	fp := p.MustFn("(*identity.ValidatorStore).fetchPostponedUnstakes")
	var cl *ssa.Function
	var it *ssa.Call
	allInstrs(fp, func(ins ssa.Instruction) {
		if c, ok := ins.(*ssa.Call); ok && calleeName(c) == "(*identity.ValidatorStore).Iterate" {
			it = c
			cl = closureOf(c.Call.Args[1])
		}
	})
	if cl == nil {
		r.Viol("C11.postponed", fname(fp), "iterates all validators", "no Iterate(closure) over the validators found", p.pos(fp.Pos()), nil)
		return
	}
	// the iteration is unconditional: Iterate dominates every return
	un := true
	for _, ret := range returnsOf(fp) {
		if !dominatesInstr(it, ret) {
			un = false
		}
	}
	r.Check(un, "C11.postponed", fname(fp), "scan on every call", "the postponed-unstake scan runs every time (it is rebuilt from persisted records, not from memory)",
		"the scan of persisted postponed unstakes is skipped on some paths (e.g. gated by an in-memory counter that is lost on restart)", p.ipos(it))
	never := true
	for _, ret := range returnsOf(cl) {
		if c, isC := boolConst(ret.Results[0]); !isC || c {
			never = false
		}
	}
	r.Check(never, "C11.postponed", fname(cl), "callback never stops the scan", "every validator is visited",
		"the scan can stop at a validator without a postponed unstake: penalties of validators sorting after it are never applied to the validator record", p.pos(cl.Pos()))
	hu := firstCallIn(cl, fnHandleUnst)
	gd := firstCallIn(cl, "(*identity.ValidatorStore).GetDelayUnstake")
	r.Check(hu != nil && gd != nil && derivesFrom(hu.Call.Args[1], func(y ssa.Value) bool { s, i := tupleSource(y); return s == ssa.Value(gd) && i == 0 }),
		"C11.postponed", fname(cl), "HandleUnstake(persisted record)", "the persisted postponed unstake is what is applied", "the applied unstake is not the persisted record", p.pos(cl.Pos()))
	// Setup calls it on every BeginBlock
	su := p.MustFn("(*identity.ValidatorStore).Setup")
	c := firstCallIn(su, "(*identity.ValidatorStore).fetchPostponedUnstakes")
	okS := c != nil
	if okS {
		for _, ret := range returnsOf(su) {
			if !dominatesInstr(c, ret) {
				okS = false
			}
		}
	}
	r.Check(okS, "C11.postponed", fname(su), "Setup applies postponed unstakes on every path", "BeginBlock always applies them", "Setup can skip the postponed unstakes", p.pos(su.Pos()))
}
