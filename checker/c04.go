package main

// C04 Only authentically signed, untampered transactions are admitted or executed.

import (
	"fmt"
	"go/token"
	"go/types"
	"reflect"
	"strings"

	"golang.org/x/tools/go/ssa"
)

func init() {
	register(&propertyDef{
		ID:    "C04",
		Title: "Only authentically signed, untampered transactions are admitted or executed",
		Explain: "Decides, for every registered handler and on every path: (gate) CheckTx/DeliverTx invoke the handler's Process* only on the err==nil edge of its Validate; " +
			"(basic) ValidateBasic's loop continues/succeeds only past len(signatures)==len(signers), address(pubkey_i)==signer_i and VerifyBytes(data, sig_i) with one index i; " +
			"(handler) every Validate returns a nil error only past ValidateBasic(tx.RawBytes(), msg.Signers(), tx.Signatures) with msg unmarshalled from tx.Data (OLVM: EIP-155 sender recovery, chain id, memo==nonce); " +
			"(cover) every field of RawTx/Fee is serialised into the signed bytes and SignedTx adds only Signatures; (verify) every key algorithm's VerifyBytes returns the result of a cryptographic primitive over (msg, sig) and derives its address from the key.",
		NotDecided: "cryptographic soundness of the primitives, malleability of encodings, that JSON unmarshalling is injective",
		Run:        runC04,
	})
}

func validateInvoke(fn *ssa.Function) []*ssa.Call {
	var res []*ssa.Call
	allInstrs(fn, func(ins ssa.Instruction) {
		if c, ok := ins.(*ssa.Call); ok && isHandlerMethodCall(c, "Validate") {
			res = append(res, c)
		}
	})
	return res
}

func runC04(r *Run) {
	p := r.P
	p.initTxIface()
	roots := p.Roots()

	// ---------------- C04.gate
	for _, role := range []string{"check", "deliver"} {
		fn := roots[role]
		name := fname(fn)
		exec := "ProcessCheck"
		if role == "deliver" {
			exec = "ProcessDeliver"
		}
		var execCalls, feeCalls []*ssa.Call
		allInstrs(fn, func(ins ssa.Instruction) {
			if c, ok := ins.(*ssa.Call); ok {
				if isHandlerMethodCall(c, exec) {
					execCalls = append(execCalls, c)
				}
				if isHandlerMethodCall(c, "ProcessFee") {
					feeCalls = append(feeCalls, c)
				}
			}
		})
		if len(execCalls) == 0 {
			fail("no %s invoke found in %s", exec, name)
		}
		vcalls := validateInvoke(fn)
		for i, ec := range append(execCalls, feeCalls...) {
			var edges []Edge
			for _, vc := range vcalls {
				if vc.Call.Value != ec.Call.Value {
					continue // a different handler value
				}
				edges = append(edges, condEdges(fn, func(cond ssa.Value, _ *ssa.If) int {
					return nilCond(cond, func(v ssa.Value) bool {
						src, idx := tupleSource(v)
						return src == ssa.Value(vc) && idx == 1
					})
				})...)
			}
			guarded := len(edges) > 0 && !reachWithout(fn, edges)[ec.Block()]
			what := exec
			if i >= len(execCalls) {
				what = "ProcessFee"
			}
			r.Check(guarded, "C04.gate."+role, name, what+" guarded by Validate",
				"the handler step runs only on the err == nil edge of handler.Validate on the same handler value",
				what+" is reachable without a successful handler.Validate: a transaction executes without its signatures being checked", p.ipos(ec))
		}
		// same transaction object everywhere
		checkSameTx(r, fn, role)
	}

	// ---------------- C04.basic
	checkValidateBasic(r)

	// ---------------- C04.handler
	hs := p.Handlers()
	for _, h := range hs {
		checkHandlerValidate(r, h)
	}
	r.Floor("C04.handler.sig-guard", 34)
	r.Extra["handlers"] = handlerSummary(hs)

	// ---------------- C04.cover
	checkCover(r)

	// ---------------- C04.verify
	checkVerify(r)
	checkKeySize(r)
}

func handlerSummary(hs []*Handler) []string {
	var s []string
	for _, h := range hs {
		s = append(s, fmt.Sprintf("%s types=%v routers=%v", h.Name, h.TxTypes, h.Routers))
	}
	return s
}

// checkSameTx: the handler is routed by, validated with and executed on the same deserialised transaction object.
func checkSameTx(r *Run, fn *ssa.Function, role string) {
	p := r.P
	name := fname(fn)
	// the tx object: alloc of action.SignedTx passed to Deserialize together with msg.Tx
	var txObj ssa.Value
	allInstrs(fn, func(ins ssa.Instruction) {
		c, ok := ins.(*ssa.Call)
		if !ok || !strings.HasSuffix(calleeName(c), "serialize.Serializer).Deserialize") {
			return
		}
		for _, a := range c.Call.Args {
			pa := pathOf(a)
			if al, ok := pa.Root.(*ssa.Alloc); ok && tname(al.Type()) == "*action.SignedTx" {
				txObj = al
			}
		}
	})
	if txObj == nil {
		r.Viol("C04.gate."+role+".same-tx", name, "transaction object", "no SignedTx object deserialised from the request bytes was recognised", p.pos(fn.Pos()), nil)
		return
	}
	allInstrs(fn, func(ins ssa.Instruction) {
		c, ok := ins.(*ssa.Call)
		if !ok {
			return
		}
		n := calleeName(c)
		var which string
		var args []ssa.Value
		switch {
		case n == "invoke:(action.Router).Handler":
			which, args = "Router.Handler(tx.Type)", c.Call.Args[:1]
		case isHandlerMethodCall(c, "Validate"):
			which, args = "Validate(tx)", c.Call.Args[1:2]
		case isHandlerMethodCall(c, "ProcessCheck"), isHandlerMethodCall(c, "ProcessDeliver"):
			which, args = "Process(tx.RawTx)", c.Call.Args[1:2]
		case isHandlerMethodCall(c, "ProcessFee"):
			which, args = "ProcessFee(tx)", c.Call.Args[1:2]
		default:
			return
		}
		for _, a := range args {
			pa := pathOf(a)
			r.Check(pa.Root == txObj, "C04.gate."+role+".same-tx", name, which,
				"argument is (a field of) the transaction object deserialised from the request bytes",
				"argument does not come from the deserialised transaction object ("+pa.String()+"): the verified and the executed content could differ", p.ipos(c))
		}
	})
}

// ---------------------------------------------------------------------------------------------

func checkValidateBasic(r *Run) {
	p := r.P
	fn := p.MustFn("action.ValidateBasic")
	name := fname(fn)
	if len(fn.Params) != 3 {
		fail("action.ValidateBasic: unexpected signature")
	}
	data, signers, sigs := fn.Params[0], fn.Params[1], fn.Params[2]

	var successRets []*ssa.Return
	for _, ret := range returnsOf(fn) {
		if errMayBeNil(ret) {
			successRets = append(successRets, ret)
		}
	}
	if len(successRets) == 0 {
		fail("ValidateBasic has no success return")
	}
	// (a) length equality guards every success return
	lenOf := func(v ssa.Value, of ssa.Value) bool {
		c, ok := v.(*ssa.Call)
		return ok && calleeName(c) == "builtin:len" && len(c.Call.Args) == 1 && pathOf(c.Call.Args[0]).Root == of && len(pathOf(c.Call.Args[0]).Fields) == 0
	}
	lenEdges := condEdges(fn, func(cond ssa.Value, _ *ssa.If) int {
		v, flip := stripNot(cond)
		bo, ok := v.(*ssa.BinOp)
		if !ok || (bo.Op != token.EQL && bo.Op != token.NEQ) {
			return 0
		}
		if !((lenOf(bo.X, sigs) && lenOf(bo.Y, signers)) || (lenOf(bo.X, signers) && lenOf(bo.Y, sigs))) {
			return 0
		}
		pol := 1
		if bo.Op == token.NEQ {
			pol = -1
		}
		if flip {
			pol = -pol
		}
		return pol
	})
	live := reachWithout(fn, lenEdges)
	okLen := len(lenEdges) > 0
	for _, ret := range successRets {
		if live[ret.Block()] {
			okLen = false
		}
	}
	r.Check(okLen, "C04.basic.count", name, "len(signatures) == len(signers)",
		"the nil return is unreachable once the equal-length edge is removed",
		"ValidateBasic can succeed with a different number of signatures than required signers (a signer can be dropped)", p.pos(fn.Pos()))

	// (b),(c): locate the per-signer loop: the IndexAddr on signatures with a non-constant index
	var sigIdx *ssa.IndexAddr
	allInstrs(fn, func(ins ssa.Instruction) {
		if ia, ok := ins.(*ssa.IndexAddr); ok && pathOf(ia.X).Root == ssa.Value(sigs) {
			if _, isConst := intConst(ia.Index); !isConst && sigIdx == nil {
				sigIdx = ia
			}
		}
	})
	if sigIdx == nil {
		r.Viol("C04.basic.loop", name, "per-signer loop", "no indexed access signatures[i] found", p.pos(fn.Pos()), nil)
		return
	}
	idx := sigIdx.Index
	bodyStart := sigIdx.Block()

	// guards inside the loop
	// handler value h: result #0 of GetHandler on signatures[i].Signer
	isSigField := func(v ssa.Value, field string) bool {
		pa := pathOf(v)
		if pa.Root != ssa.Value(sigs) || len(pa.Fields) < 2 || pa.Fields[0] != "[*]" || pa.Fields[1] != field {
			return false
		}
		return usesIndex(v, idx)
	}
	var getH *ssa.Call
	allInstrs(fn, func(ins ssa.Instruction) {
		if c, ok := ins.(*ssa.Call); ok && calleeName(c) == "(data/keys.PublicKey).GetHandler" && isSigField(c.Call.Args[0], "Signer") {
			getH = c
		}
	})
	if getH == nil {
		r.Viol("C04.basic.key", name, "signatures[i].Signer.GetHandler()", "the public key handler is not derived from signatures[i].Signer", p.pos(fn.Pos()), nil)
		return
	}
	isH := func(v ssa.Value) bool {
		src, i := tupleSource(v)
		return src == ssa.Value(getH) && i == 0
	}
	hErrEdges := condEdges(fn, func(cond ssa.Value, _ *ssa.If) int {
		return nilCond(cond, func(v ssa.Value) bool {
			src, i := tupleSource(v)
			return src == ssa.Value(getH) && i == 1
		})
	})
	isHAddr := func(x ssa.Value) bool {
		cc, ok := unwrapConv(x).(*ssa.Call)
		return ok && cc.Call.IsInvoke() && cc.Call.Method.Name() == "Address" && isH(cc.Call.Value)
	}
	isSigner := func(x ssa.Value) bool {
		pa := pathOf(x)
		return pa.Root == ssa.Value(signers) && usesIndexOrRange(x, idx, signers)
	}
	// any of the repository's equality idioms (Address.Equal, bytes.Equal, bytes.Compare ==/!= 0), either operand order
	addrG := eqG("address(pubkey_i) == signer_i", true, isHAddr, isSigner)
	addrEdges := condEdges(fn, func(cond ssa.Value, iff *ssa.If) int { return addrG.Classify(p, fn, cond, iff) })
	verEdges := condEdges(fn, func(cond ssa.Value, _ *ssa.If) int {
		return boolCond(cond, func(v ssa.Value) bool {
			c, ok := v.(*ssa.Call)
			if !ok || !c.Call.IsInvoke() || c.Call.Method.Name() != "VerifyBytes" || !isH(c.Call.Value) {
				return false
			}
			return pathOf(c.Call.Args[0]).Root == ssa.Value(data) && len(pathOf(c.Call.Args[0]).Fields) == 0 && isSigField(c.Call.Args[1], "Signed")
		})
	})
	loopGuard := func(rule, construct, okMsg, badMsg string, edges []Edge) {
		ok := len(edges) > 0
		if ok {
			reach := reachFrom(bodyStart, edges)
			// from the loop body, neither the next iteration (re-entering bodyStart through a cycle) nor a success return
			for _, ret := range successRets {
				if reach[ret.Block()] {
					ok = false
				}
			}
			// cycle back into bodyStart
			for _, pr := range bodyStart.Preds {
				if reach[pr] && pr != bodyStart {
					// is the edge pr->bodyStart itself removed?
					removed := false
					for _, e := range edges {
						if e.From == pr && e.To() == bodyStart {
							removed = true
						}
					}
					if !removed && reachableAfter(bodyStart, pr, edges) {
						ok = false
					}
				}
			}
		}
		r.Check(ok, rule, name, construct, okMsg, badMsg, p.ipos(sigIdx))
	}
	loopGuard("C04.basic.key", "GetHandler error", "an unusable public key ends the loop with an error", "the loop continues or succeeds with an invalid public key", hErrEdges)
	loopGuard("C04.basic.address", "address(pubkey_i) == signer_i",
		"each iteration proceeds only on the true edge of Address().Equal(signer_i) with key and signer taken at the same index",
		"an iteration can proceed although the key's address differs from the required signer (any key can sign for any account)", addrEdges)
	loopGuard("C04.basic.verify", "VerifyBytes(data, signatures[i].Signed)",
		"each iteration proceeds only on the true edge of VerifyBytes over the data parameter and the signature at the same index",
		"an iteration can proceed without a successful VerifyBytes(data, sig_i) (unsigned or tampered content is accepted)", verEdges)
}

// reachableAfter: is `target` reachable from start (exclusive, at least one edge) with the edges removed?
func reachableAfter(start, target *ssa.BasicBlock, removed []Edge) bool {
	var starts []rstate
	rm := map[Edge]bool{}
	for _, e := range removed {
		rm[e] = true
	}
	for i, s := range start.Succs {
		if !rm[Edge{start, i, nil}] {
			starts = append(starts, rstate{b: s, from: start})
		}
	}
	if len(starts) == 0 {
		return false
	}
	return reachCore(starts, 0, removed, nil)[target]
}

func unwrapConv(v ssa.Value) ssa.Value {
	for {
		switch x := v.(type) {
		case *ssa.ChangeType:
			v = x.X
		case *ssa.Convert:
			v = x.X
		case *ssa.MakeInterface:
			v = x.X
		default:
			return v
		}
	}
}

// usesIndex: the access path of v goes through an element selected by exactly this index value.
func usesIndex(v ssa.Value, idx ssa.Value) bool {
	for _, i := range pathOf(v).Indices {
		if i == idx {
			return true
		}
	}
	return false
}

// usesIndexOrRange: as usesIndex; a `for i, s := range xs` loop yields s = *&xs[i] with the same phi as i.
func usesIndexOrRange(v ssa.Value, idx ssa.Value, of ssa.Value) bool {
	return usesIndex(v, idx)
}

// ---------------------------------------------------------------------------------------------

func checkHandlerValidate(r *Run, h *Handler) {
	p := r.P
	fn := h.Validate
	if fn == nil || fn.Blocks == nil {
		r.Viol("C04.handler.sig-guard", h.Name, "Validate", "handler has no Validate body", h.RegSite, nil)
		return
	}
	name := fname(fn)
	txParam := fn.Params[len(fn.Params)-1] // (recv, ctx, signedTx)
	msgs := msgObjects(p, fn)
	for _, b := range handlerBody(fn) {
		for k, v := range msgObjects(p, b) {
			msgs[k] = v
		}
	}
	isOLVM := false
	argShape := func(c *ssa.Call) (bool, string) {
		if calleeName(c) != "action.ValidateBasic" {
			return false, ""
		}
		a0, a1, a2 := c.Call.Args[0], c.Call.Args[1], c.Call.Args[2]
		// a0 = (*RawTx).RawBytes(&tx.RawTx)
		rb, ok := a0.(*ssa.Call)
		if !ok || calleeName(rb) != "(*action.RawTx).RawBytes" {
			return false, "first argument is not tx.RawBytes()"
		}
		pa := pathOf(rb.Call.Args[0])
		if !isTxParamPath(pa, c.Parent(), txParam) || pa.FieldString() != "RawTx" {
			return false, "RawBytes() is not taken from the SignedTx parameter (" + pa.String() + ")"
		}
		// a1 = msg.Signers() with msg unmarshalled from tx.Data
		sc, ok := a1.(*ssa.Call)
		if !ok || sc.Call.StaticCallee() == nil || sc.Call.StaticCallee().Name() != "Signers" {
			return false, "second argument is not msg.Signers()"
		}
		mroot := pathOf(sc.Call.Args[0])
		if len(mroot.Fields) != 0 {
			return false, "Signers() receiver is not the message object"
		}
		okMsg := false
		if prm, isP := mroot.Root.(*ssa.Parameter); isP && c.Parent() != fn {
			// helper: every call site inside the handler passes a message unmarshalled from tx.Data
			acts := actualsOf(prm, handlerBody(fn))
			okMsg = len(acts) > 0
			for _, a := range acts {
				pa := pathOf(a)
				if len(pa.Fields) != 0 || !msgFromTxData(p, pa.Root, instrFn(a), txParam) {
					okMsg = false
				}
			}
		} else {
			okMsg = msgFromTxData(p, mroot.Root, c.Parent(), txParam)
		}
		if !okMsg {
			return false, "the message whose Signers() are checked is not unmarshalled from tx.Data"
		}
		// a2 = tx.Signatures
		p2 := pathOf(a2)
		if !isTxParamPath(p2, c.Parent(), txParam) || p2.FieldString() != "Signatures" {
			return false, "third argument is not tx.Signatures (" + p2.String() + ")"
		}
		return true, ""
	}
	var shapeProblems []string
	g := &CallGuard{Name: "ValidateBasic", Callees: []string{"action.ValidateBasic", "(*action/olvm.Transaction).validateSigner"},
		ArgOK: func(c *ssa.Call) bool {
			if calleeName(c) == "(*action/olvm.Transaction).validateSigner" {
				isOLVM = true
				return true
			}
			ok, why := argShape(c)
			if !ok {
				shapeProblems = append(shapeProblems, why+" at "+p.ipos(c))
			}
			return ok
		}}
	edges := g.Edges(p, fn)
	live := reachWithout(fn, edges)
	nsucc := 0
	guarded := len(edges) > 0
	var badRet *ssa.Return
	for _, ret := range returnsOf(fn) {
		if !errMayBeNil(ret) {
			continue
		}
		nsucc++
		if live[ret.Block()] {
			guarded = false
			badRet = ret
		}
	}
	pos := p.pos(fn.Pos())
	if badRet != nil {
		pos = p.ipos(badRet)
	}
	detail := "a return with a nil error is reachable without passing the nil-edge of ValidateBasic(tx.RawBytes(), msg.Signers(), tx.Signatures)"
	if len(shapeProblems) > 0 {
		detail += "; rejected candidates: " + strings.Join(shapeProblems, "; ")
	}
	r.Check(guarded && nsucc > 0, "C04.handler.sig-guard", name, "Validate succeeds only past the signature check",
		"every nil-error return is unreachable once the success edge of the signature check is removed", detail, pos)
	if isOLVM {
		checkOLVMValidate(r, fn)
	}
}

// actualsOf: the actual arguments bound to parameter prm at the static call sites inside the given functions.
func actualsOf(prm *ssa.Parameter, body []*ssa.Function) []ssa.Value {
	callee := prm.Parent()
	idx := -1
	for i, q := range callee.Params {
		if q == prm {
			idx = i
		}
	}
	var res []ssa.Value
	for _, f := range body {
		allInstrs(f, func(ins ssa.Instruction) {
			if sc := staticCallee(ins); sc == callee && idx >= 0 {
				args := ins.(ssa.CallInstruction).Common().Args
				if idx < len(args) {
					res = append(res, args[idx])
				}
			}
		})
	}
	return res
}

func instrFn(v ssa.Value) *ssa.Function {
	if v.Parent() != nil {
		return v.Parent()
	}
	return nil
}

func isTxParamPath(pa APath, fn *ssa.Function, txParam *ssa.Parameter) bool {
	if pa.Root == ssa.Value(txParam) {
		return true
	}
	// inside a helper: the helper's own parameter of type SignedTx bound to the caller's parameter is accepted
	if prm, ok := pa.Root.(*ssa.Parameter); ok && prm.Parent() == fn {
		t := tname(prm.Type())
		return t == "action.SignedTx" || t == "*action.SignedTx"
	}
	return false
}

// msgFromTxData: root is an alloc/param that receives Unmarshal(x) with x = tx.Data of the SignedTx parameter.
func msgFromTxData(p *Program, root ssa.Value, fn *ssa.Function, txParam *ssa.Parameter) bool {
	ok := false
	allInstrs(fn, func(ins ssa.Instruction) {
		c, isCall := ins.(*ssa.Call)
		if !isCall {
			return
		}
		sc := c.Call.StaticCallee()
		if sc == nil || sc.Name() != "Unmarshal" || len(c.Call.Args) < 2 {
			return
		}
		if pathOf(c.Call.Args[0]).Root != root {
			return
		}
		pd := pathOf(c.Call.Args[1])
		if isTxParamPath(pd, fn, txParam) && (pd.FieldString() == "RawTx.Data" || pd.FieldString() == "Data") {
			ok = true
		}
	})
	return ok
}

// checkOLVMValidate: the EIP-155 variant.
func checkOLVMValidate(r *Run, validate *ssa.Function) {
	p := r.P
	vs := p.MustFn("(*action/olvm.Transaction).validateSigner")
	name := fname(vs)
	var successRets []*ssa.Return
	for _, ret := range returnsOf(vs) {
		if errMayBeNil(ret) {
			successRets = append(successRets, ret)
		}
	}
	guardAll := func(rule, construct, okMsg, badMsg string, edges []Edge) {
		live := reachWithout(vs, edges)
		ok := len(edges) > 0 && len(successRets) > 0
		for _, ret := range successRets {
			if live[ret.Block()] {
				ok = false
			}
		}
		r.Check(ok, rule, name, construct, okMsg, badMsg, p.pos(vs.Pos()))
	}
	var sender, withSig *ssa.Call
	allInstrs(vs, func(ins ssa.Instruction) {
		if c, ok := ins.(*ssa.Call); ok {
			switch calleeName(c) {
			case "invoke:(github.com/ethereum/go-ethereum/core/types.Signer).Sender":
				sender = c
			case "(*github.com/ethereum/go-ethereum/core/types.Transaction).WithSignature":
				withSig = c
			}
		}
	})
	if sender == nil || withSig == nil {
		r.Viol("C04.handler.olvm", name, "EIP-155 sender recovery", "Signer.Sender / Transaction.WithSignature not found in validateSigner", p.pos(vs.Pos()), nil)
		return
	}
	errNil := func(call *ssa.Call) []Edge {
		return condEdges(vs, func(cond ssa.Value, _ *ssa.If) int {
			return nilCond(cond, func(v ssa.Value) bool {
				src, i := tupleSource(v)
				return src == ssa.Value(call) && i == 1
			})
		})
	}
	guardAll("C04.handler.olvm", "Sender(ethTx) error", "success only when the sender was recovered", "validateSigner can succeed when sender recovery failed", errNil(sender))
	guardAll("C04.handler.olvm", "WithSignature error", "success only when the signature bytes were accepted", "validateSigner can succeed when the signature could not be attached", errNil(withSig))
	// signature bytes come from signedTx.Signatures[0].Signed and the eth tx from signedTx.RawTx
	sigArg := pathOf(withSig.Call.Args[2])
	r.Check(strings.HasSuffix(sigArg.FieldString(), "Signatures.[0].Signed"), "C04.handler.olvm", name, "signature bytes = signedTx.Signatures[0].Signed",
		"the recovered signature is the transaction's own", "the signature handed to WithSignature is not signedTx.Signatures[0].Signed ("+sigArg.String()+")", p.ipos(withSig))
	// From == recovered sender
	fromEq := condEdges(vs, func(cond ssa.Value, _ *ssa.If) int {
		return boolCond(cond, func(v ssa.Value) bool {
			c, ok := v.(*ssa.Call)
			if !ok {
				return false
			}
			n := calleeName(c)
			if n != "(data/keys.Address).Equal" && n != "bytes.Equal" {
				return false
			}
			a, b := c.Call.Args[0], c.Call.Args[1]
			isFrom := func(x ssa.Value) bool { return pathOf(x).FieldString() == "From" }
			fromSender := func(x ssa.Value) bool {
				return derivesFrom(x, func(y ssa.Value) bool {
					src, i := tupleSource(y)
					return src == ssa.Value(sender) && i == 0
				})
			}
			return (isFrom(a) && fromSender(b)) || (isFrom(b) && fromSender(a))
		})
	})
	guardAll("C04.handler.olvm", "tx.From == recovered sender", "success only when the payload's From equals the recovered sender",
		"validateSigner can succeed although From differs from the recovered sender (anyone can spend From's funds)", fromEq)
	// chain id
	chainEdges := condEdges(vs, func(cond ssa.Value, _ *ssa.If) int {
		v, flip := stripNot(cond)
		bo, ok := v.(*ssa.BinOp)
		if !ok {
			return 0
		}
		c, ok := bo.X.(*ssa.Call)
		if !ok || calleeName(c) != "(*math/big.Int).Cmp" {
			return 0
		}
		k, ok := intConst(bo.Y)
		if !ok || k != 0 {
			return 0
		}
		isChain := func(x ssa.Value) bool {
			cc, ok := x.(*ssa.Call)
			return ok && strings.HasSuffix(calleeName(cc), "types.Transaction).ChainId")
		}
		isMsgChain := func(x ssa.Value) bool { return pathOf(x).FieldString() == "ChainID" }
		if !((isChain(c.Call.Args[0]) && isMsgChain(c.Call.Args[1])) || (isChain(c.Call.Args[1]) && isMsgChain(c.Call.Args[0]))) {
			return 0
		}
		pol := 0
		switch bo.Op {
		case token.EQL:
			pol = 1
		case token.NEQ:
			pol = -1
		}
		if flip {
			pol = -pol
		}
		return pol
	})
	guardAll("C04.handler.olvm", "chain id equality", "success only when the signed chain id equals the payload's", "validateSigner can succeed with a mismatching chain id", chainEdges)

	// memo == nonce in Validate
	vname := fname(validate)
	memoEdges := condEdges(validate, func(cond ssa.Value, _ *ssa.If) int {
		v, flip := stripNot(cond)
		bo, ok := v.(*ssa.BinOp)
		if !ok || (bo.Op != token.EQL && bo.Op != token.NEQ) {
			return 0
		}
		isNonce := func(x ssa.Value) bool { return pathOf(x).FieldString() == "Nonce" }
		fromMemo := func(x ssa.Value) bool {
			return derivesFrom(x, func(y ssa.Value) bool { return strings.HasSuffix(pathOf(y).FieldString(), "Memo") })
		}
		if !((isNonce(bo.X) && fromMemo(bo.Y)) || (isNonce(bo.Y) && fromMemo(bo.X))) {
			return 0
		}
		pol := 1
		if bo.Op == token.NEQ {
			pol = -1
		}
		if flip {
			pol = -pol
		}
		return pol
	})
	live := reachWithout(validate, memoEdges)
	ok := len(memoEdges) > 0
	for _, ret := range returnsOf(validate) {
		if errMayBeNil(ret) && live[ret.Block()] {
			ok = false
		}
	}
	r.Check(ok, "C04.handler.olvm", vname, "memo == nonce", "Validate succeeds only when the (signed) nonce equals the memo the replay key is built from",
		"OLVM Validate can succeed with memo != nonce (the memo is not covered by the EIP-155 signature)", p.pos(validate.Pos()))
}

// ---------------------------------------------------------------------------------------------

func structOf(p *Program, pkg, name string) *types.Struct {
	pk := p.AllPkgs[Mod+"/"+pkg]
	if pk == nil {
		fail("package %s not loaded", pkg)
	}
	o := pk.Types.Scope().Lookup(name)
	if o == nil {
		fail("type %s.%s missing", pkg, name)
	}
	s, ok := o.Type().Underlying().(*types.Struct)
	if !ok {
		fail("type %s.%s is not a struct", pkg, name)
	}
	return s
}

func jsonName(tag string) string {
	v, _ := reflect.StructTag(tag).Lookup("json")
	return strings.Split(v, ",")[0]
}

func checkCover(r *Run) {
	p := r.P
	raw := structOf(p, "action", "RawTx")
	have := map[string]bool{}
	for i := 0; i < raw.NumFields(); i++ {
		f := raw.Field(i)
		have[f.Name()] = true
		jn := jsonName(raw.Tag(i))
		r.Check(f.Exported() && jn != "-", "C04.cover.field", "action.RawTx", "field "+f.Name(),
			"the field is exported and serialised into the signed bytes", "the field is not part of the JSON-serialised (signed) bytes", p.pos(f.Pos()))
	}
	for _, want := range []string{"Type", "Data", "Fee", "Memo"} {
		r.Check(have[want], "C04.cover.component", "action.RawTx", "component "+want, "present in RawTx", "RawTx no longer carries "+want, "")
	}
	fee := structOf(p, "action", "Fee")
	for i := 0; i < fee.NumFields(); i++ {
		f := fee.Field(i)
		jn := jsonName(fee.Tag(i))
		r.Check(f.Exported() && jn != "-", "C04.cover.field", "action.Fee", "field "+f.Name(),
			"serialised into the signed bytes", "fee field is not part of the signed bytes", p.pos(f.Pos()))
	}
	amt := structOf(p, "action", "Amount")
	for i := 0; i < amt.NumFields(); i++ {
		f := amt.Field(i)
		jn := jsonName(amt.Tag(i))
		r.Check(f.Exported() && jn != "-", "C04.cover.field", "action.Amount", "field "+f.Name(),
			"serialised into the signed bytes", "amount field is not part of the signed bytes", p.pos(f.Pos()))
	}
	st := structOf(p, "action", "SignedTx")
	for i := 0; i < st.NumFields(); i++ {
		f := st.Field(i)
		ok := (f.Embedded() && tname(f.Type()) == "action.RawTx") || f.Name() == "Signatures"
		r.Check(ok, "C04.cover.signedtx", "action.SignedTx", "field "+f.Name(),
			"SignedTx = embedded RawTx + Signatures", "SignedTx carries a field outside the signed RawTx: handlers could act on unsigned content", p.pos(f.Pos()))
	}
	// RawBytes serialises the whole receiver through the NETWORK (JSON) serializer
	rb := p.MustFn("(*action.RawTx).RawBytes")
	okWhole, okChan := false, false
	allInstrs(rb, func(ins ssa.Instruction) {
		c, ok := ins.(*ssa.Call)
		if !ok {
			return
		}
		n := calleeName(c)
		if n == "serialize.GetSerializer" {
			if k, ok := intConst(c.Call.Args[0]); ok && serializerIsJSON(p, k) {
				okChan = true
			}
		}
		if strings.HasSuffix(n, "serialize.Serializer).Serialize") {
			if pa := pathOf(c.Call.Args[0]); pa.Root == ssa.Value(rb.Params[0]) && len(pa.Fields) == 0 {
				okWhole = true
			}
		}
	})
	r.Check(okWhole, "C04.cover.rawbytes", fname(rb), "serialises the whole receiver",
		"RawBytes passes the receiver itself to the serializer", "RawBytes does not serialise the whole RawTx (a copy or a projection is signed instead)", p.pos(rb.Pos()))
	r.Check(okChan, "C04.cover.rawbytes", fname(rb), "JSON serializer", "RawBytes uses a channel that GetSerializer maps to the JSON strategy",
		"RawBytes does not use a JSON-strategy serializer", p.pos(rb.Pos()))
}

// serializerIsJSON: GetSerializer(k) returns *jsonStrategy (read from its SSA switch).
func serializerIsJSON(p *Program, k int64) bool {
	gs := p.MustFn("serialize.GetSerializer")
	res := serializerFor(gs, k)
	return res == "*serialize.jsonStrategy"
}

// serializerFor evaluates GetSerializer's switch for a constant channel: follows If (param == const) edges.
func serializerFor(gs *ssa.Function, k int64) string {
	b := gs.Blocks[0]
	for steps := 0; steps < 64; steps++ {
		last := b.Instrs[len(b.Instrs)-1]
		switch t := last.(type) {
		case *ssa.If:
			bo, ok := t.Cond.(*ssa.BinOp)
			if !ok || bo.Op != token.EQL {
				return "?"
			}
			c, ok := intConst(bo.Y)
			if !ok {
				return "?"
			}
			if c == k {
				b = b.Succs[0]
			} else {
				b = b.Succs[1]
			}
		case *ssa.Jump:
			b = b.Succs[0]
		case *ssa.Return:
			if len(t.Results) != 1 {
				return "?"
			}
			v := t.Results[0]
			if phi, ok := v.(*ssa.Phi); ok {
				_ = phi
				return "?"
			}
			if mi, ok := v.(*ssa.MakeInterface); ok {
				return tname(mi.X.Type())
			}
			return "?"
		default:
			return "?"
		}
	}
	return "?"
}

// ---------------------------------------------------------------------------------------------

var cryptoVerifyPrims = map[string]bool{
	"(github.com/tendermint/tendermint/crypto/ed25519.PubKeyEd25519).VerifyBytes":     true,
	"(github.com/tendermint/tendermint/crypto/secp256k1.PubKeySecp256k1).VerifyBytes": true,
	"github.com/ethereum/go-ethereum/crypto.VerifySignature":                          true,
	"(*github.com/btcsuite/btcd/btcec.Signature).Verify":                              true,
	"crypto/ed25519.Verify":   true,
	"crypto/ecdsa.Verify":     true,
	"crypto/ecdsa.VerifyASN1": true,
}

func checkVerify(r *Run) {
	p := r.P
	pk := p.AllPkgs[Mod+"/data/keys"]
	if pk == nil {
		fail("package data/keys not loaded")
	}
	io := pk.Types.Scope().Lookup("PublicKeyHandler")
	if io == nil {
		fail("keys.PublicKeyHandler missing")
	}
	iface := io.Type().Underlying().(*types.Interface)
	n := 0
	for _, name := range pk.Types.Scope().Names() {
		tn, ok := pk.Types.Scope().Lookup(name).(*types.TypeName)
		if !ok || types.IsInterface(tn.Type()) {
			continue
		}
		if !types.Implements(tn.Type(), iface) && !types.Implements(types.NewPointer(tn.Type()), iface) {
			continue
		}
		n++
		ms := p.SSA.MethodSets.MethodSet(types.NewPointer(tn.Type()))
		var vb, ad *ssa.Function
		for i := 0; i < ms.Len(); i++ {
			switch ms.At(i).Obj().Name() {
			case "VerifyBytes":
				vb = p.SSA.MethodValue(ms.At(i))
			case "Address":
				ad = p.SSA.MethodValue(ms.At(i))
			}
		}
		// pointer method set yields wrappers for value methods; resolve to the declared function
		vb, ad = declared(p, vb), declared(p, ad)
		tn2 := "data/keys." + name
		if vb == nil || vb.Blocks == nil {
			r.Viol("C04.verify.primitive", tn2, "VerifyBytes", "no body", "", nil)
			continue
		}
		// every return is either constant false or derives from a crypto primitive fed with both parameters
		okAll := true
		why := ""
		for _, ret := range returnsOf(vb) {
			v := ret.Results[0]
			if c, isC := boolConst(v); isC {
				if c {
					okAll = false
					why = "returns the constant true"
				}
				continue
			}
			prim := findPrimitive(p, v, vb, 0)
			if prim == "" {
				okAll = false
				why = "the returned value does not derive from a cryptographic verification primitive over (msg, sig)"
			}
		}
		// address derivation
		addrFromKey, addrVoid := false, false
		if ad != nil && ad.Blocks != nil {
			addrFromKey, addrVoid = true, true
			for _, ret := range returnsOf(ad) {
				v := ret.Results[0]
				if isNilConst(v) {
					addrFromKey = false
					continue
				}
				addrVoid = false
				recv := ad.Params[0]
				if !derivesFrom(v, func(y ssa.Value) bool { return y == ssa.Value(recv) }) {
					addrFromKey = false
				}
			}
		}
		switch {
		case okAll:
			r.OK("C04.verify.primitive", tn2, "VerifyBytes", "every true result is the result of a cryptographic verification primitive applied to the message and the signature")
		case addrVoid:
			// a stub key type whose Address() is the constant nil can only ever stand for the empty signer address
			r.Viol("C04.verify.primitive", tn2, "VerifyBytes accepts everything (stub key type, Address() == nil)",
				"VerifyBytes "+why+"; the type's Address() is the constant nil, so it signs only for an empty signer address", p.pos(vb.Pos()), nil)
		default:
			r.Viol("C04.verify.primitive", tn2, "VerifyBytes accepts signatures without verification for a key type with real addresses",
				"VerifyBytes "+why+" and Address() yields real account addresses: any byte string is accepted as that account's signature", p.pos(vb.Pos()), nil)
		}
		if ad != nil && ad.Blocks != nil && !(addrVoid && !okAll) {
			r.Check(addrFromKey, "C04.verify.address", tn2, "Address",
				"the address is computed from the key material", "Address() does not derive from the key (constant or nil): the signer binding address(pubkey)==signer is void for this key type", p.pos(ad.Pos()))
		}
	}
	if n < 4 {
		fail("only %d PublicKeyHandler implementations found (expected 4)", n)
	}
}

func declared(p *Program, f *ssa.Function) *ssa.Function {
	if f == nil {
		return nil
	}
	if f.Synthetic != "" && f.Object() != nil {
		if d := p.SSA.FuncValue(f.Object().(*types.Func)); d != nil {
			return d
		}
	}
	return f
}

// findPrimitive: v derives from a call to a crypto verification primitive whose arguments derive from the
// msg and sig parameters of fn (params 1 and 2), possibly through one repo helper that itself satisfies this.
func findPrimitive(p *Program, v ssa.Value, fn *ssa.Function, depth int) string {
	found := ""
	msgP, sigP := fn.Params[1], fn.Params[2]
	derivesFrom(v, func(y ssa.Value) bool {
		c, ok := y.(*ssa.Call)
		if !ok {
			return false
		}
		n := calleeName(c)
		usesBoth := func() bool {
			um, us := false, false
			for _, a := range callArgs(c) {
				if derivesFrom(a, func(z ssa.Value) bool { return z == ssa.Value(msgP) }) {
					um = true
				}
				if derivesFrom(a, func(z ssa.Value) bool { return z == ssa.Value(sigP) }) {
					us = true
				}
			}
			return um && us
		}
		if cryptoVerifyPrims[n] && usesBoth() {
			found = n
			return true
		}
		if sc := c.Call.StaticCallee(); sc != nil && inRepo(sc) && sc.Blocks != nil && depth < 2 && usesBoth() && len(sc.Params) >= 3 {
			// helper with (recv, msg, sig, ...) shape: its returns must satisfy the rule w.r.t. its own params 1,2
			all := true
			for _, ret := range returnsOf(sc) {
				if len(ret.Results) != 1 {
					all = false
					continue
				}
				if cst, isC := boolConst(ret.Results[0]); isC {
					if cst {
						all = false
					}
					continue
				}
				if findPrimitive(p, ret.Results[0], sc, depth+1) == "" {
					all = false
				}
			}
			if all {
				found = "via " + fname(sc)
				return true
			}
		}
		return false
	})
	return found
}
