package main

// C03 No unauthorised debit: structural necessary conditions.

import (
	"go/types"
	"sort"
	"strings"

	"golang.org/x/tools/go/ssa"
)

func init() {
	register(&propertyDef{
		ID:         "C03",
		Title:      "No unauthorised debit",
		Explain:    "probe",
		NotDecided: "",
		Run:        runC03,
	})
}

func addressish(t types.Type) bool {
	switch tname(t) {
	case "data/keys.Address", "action.Address":
		return true
	}
	return false
}

// signerFields: the message fields a message type's Signers() method returns (top-level field names).
func signerFields(p *Program, msgT types.Type) []string {
	var fn *ssa.Function
	for _, t := range []types.Type{msgT, types.NewPointer(msgT)} {
		ms := p.SSA.MethodSets.MethodSet(t)
		for i := 0; i < ms.Len(); i++ {
			if ms.At(i).Obj().Name() == "Signers" {
				fn = p.SSA.MethodValue(ms.At(i))
			}
		}
		if fn != nil {
			break
		}
	}
	if fn == nil || fn.Blocks == nil {
		return nil
	}
	// synthetic pointer wrapper: descend to the value method
	if fn.Synthetic != "" {
		allInstrs(fn, func(ins ssa.Instruction) {
			if sc := staticCallee(ins); sc != nil && sc.Name() == "Signers" {
				fn = sc
			}
		})
	}
	set := map[string]bool{}
	recv := fn.Params[0]
	allInstrs(fn, func(ins ssa.Instruction) {
		st, ok := ins.(*ssa.Store)
		if !ok || !addressish(st.Val.Type()) {
			return
		}
		derivesFrom(st.Val, func(y ssa.Value) bool {
			pa := pathOf(y)
			if pa.Root == ssa.Value(recv) && len(pa.Fields) > 0 {
				set[pa.Fields[0]] = true
			}
			// value receiver spilled into a local
			if a, isA := pa.Root.(*ssa.Alloc); isA && len(pa.Fields) > 0 {
				for _, ref := range *a.Referrers() {
					if s2, ok := ref.(*ssa.Store); ok && s2.Addr == ssa.Value(a) && s2.Val == ssa.Value(recv) {
						set[pa.Fields[0]] = true
					}
				}
			}
			return false
		})
	})
	var res []string
	for f := range set {
		res = append(res, f)
	}
	sort.Strings(res)
	return res
}

func runC03(r *Run) {
	p := r.P
	vs := valueStoring(p)
	seenEntry := map[*ssa.Function]bool{}
	nSub := 0
	for _, h := range p.Handlers() {
		entry := runFnOf(h.Deliver)
		if entry == nil || seenEntry[entry] {
			continue
		}
		seenEntry[entry] = true
		body := handlerBody(entry)
		var msgT types.Type
		for _, fn := range body {
			for _, t := range msgObjects(p, fn) {
				msgT = t
			}
		}
		var signers []string
		if msgT != nil {
			mt := msgT
			if pt, ok := mt.(*types.Pointer); ok {
				mt = pt.Elem()
			}
			signers = signerFields(p, mt)
		}
		isSigner := func(f string) bool {
			for _, s := range signers {
				if s == f {
					return true
				}
			}
			return false
		}
		signerV := func(v ssa.Value) bool {
			pa := pathOf(v)
			return isMsgRoot(p, pa.Root) && len(pa.Fields) > 0 && isSigner(pa.Fields[0])
		}
		msgDerived := func(v ssa.Value) bool {
			return derivesFrom(v, func(y ssa.Value) bool { pa := pathOf(y); return isMsgRoot(p, pa.Root) && len(pa.Fields) > 0 })
		}
		for _, fn := range body {
			fn := fn
			allInstrs(fn, func(ins ssa.Instruction) {
				sc := staticCallee(ins)
				idx, ok := vs[sc]
				if sc == nil || !ok {
					return
				}
				// debits and plain writes of an amount; pure credits need no authority
				need := false
				for _, i := range idx {
					ro := roleOf(sc, i, 0)
					if ro.debit || !ro.credit {
						need = true
					}
				}
				if !need {
					return
				}
				c := ins.(ssa.CallInstruction).Common()
				for j, a := range c.Args {
					if j == 0 || !addressish(a.Type()) {
						continue
					}
					nSub++
					construct := "subject " + itoa(int64(j)) + " of " + fname(sc) + " (" + pathOf(a).String() + ") is covered by the signature"
					switch {
					case sameQuantity(a, signerV):
						r.OK("C03.subject", h.Name, construct, "a field returned by Signers(): "+strings.Join(signers, ","))
					case !msgDerived(a):
						r.OK("C03.subject", h.Name, construct, "a protocol address (pool / option), not chosen by the transaction")
					default:
						// a message-chosen account: every path to the call must pass an equality between a signer field and
						// the account (or a field of the record looked up by it)
						subj := a
						g := eqG("signer owns the debited record", true, VPred(signerV), func(v ssa.Value) bool {
							return derivesFrom(v, func(y ssa.Value) bool { return samePath(y, subj) }) || samePath(v, subj)
						})
						m := &MustPass{P: p, Scope: samePkgScope(entry), Guard: g, IsSink: func(f *ssa.Function, i2 ssa.Instruction) bool { return i2 == ins }}
						exposed := m.Exposed(entry)
						guarded := len(exposed) == 0 && m.Sinks > 0
						if !guarded && fn == entry {
							// the transaction is atomic: a comparison after the call protects as well, provided no successful
							// return is reachable from the call without it
							edges := g.Edges(p, entry)
							guarded = len(edges) > 0
							for i2 := range reachFromInstr(ins, edges, nil) {
								if ret, isRet := i2.(*ssa.Return); isRet && returnMayBeSuccess(ret) {
									guarded = false
								}
							}
						}
						shape := " [ownership comparison skipped on some path]"
						if len(g.Edges(p, entry)) == 0 {
							shape = " [no ownership comparison at all]"
						}
						if guarded {
							r.OK("C03.subject", h.Name, construct, "behind an ownership comparison with a signer field on every path")
						} else {
							r.Viol("C03.subject", h.Name, "subject "+itoa(int64(j))+" of "+fname(sc)+" is covered by the signature"+shape,
								"the debited / rewritten account "+pathOf(a).String()+" is chosen by the message, is not among Signers() ("+strings.Join(signers, ",")+") and some path reaches the call without an ownership comparison against a signer: somebody else's record is reduced", p.ipos(ins), nil)
						}
					}
				}
			})
		}
	}
	if nSub < 25 {
		fail("C03.subject: only %d debit subjects found (expected >= 30)", nSub)
	}
	checkFeePayer(r)
	checkHookDebits(r, vs)
	checkBtcDelta(r, "C03.btcdelta")
}

func signatureSigner(v ssa.Value) bool {
	fs := pathOf(v).FieldString()
	return strings.HasSuffix(fs, "Signatures.Signer") || strings.HasSuffix(fs, "Signatures.Signer.Data") || strings.Contains(fs, "Signatures") && strings.HasSuffix(fs, "Signer")
}

// C03.feepayer: the account charged by the fee step is the address of a public key that signed (ValidateBasic binds
// Signatures[i] to Signers()[i]: C04.basic), or the stake account of the validator whose key signed.
func checkFeePayer(r *Run) {
	p := r.P
	for _, name := range []string{"action.BasicFeeHandling", "action.StakingPayerFeeHandling"} {
		fn := p.MustFn(name)
		calls := allCalls(fn, fnBalMinus)
		if len(calls) == 0 {
			r.Viol("C03.feepayer", name, "fee debit", "no debit of the payer found", p.pos(fn.Pos()), nil)
			continue
		}
		for _, c := range calls {
			sub := c.Call.Args[1]
			fromSig := derivesFrom(sub, signatureSigner)
			other := derivesFrom(sub, func(y ssa.Value) bool {
				par, ok := y.(*ssa.Parameter)
				if !ok {
					return false
				}
				// any parameter other than ctx (stores) and the signed transaction
				return par != fn.Params[0] && tname(par.Type()) != "action.SignedTx"
			}) || derivesFrom(sub, func(y ssa.Value) bool {
				// any part of the signed transaction other than its signatures (memo, payload, fee)
				pa := pathOf(y)
				par, ok := pa.Root.(*ssa.Parameter)
				return ok && tname(par.Type()) == "action.SignedTx" && len(pa.Fields) > 0 && !strings.Contains(pa.FieldString(), "Signatures")
			})
			okv := fromSig && !other
			if name == "action.StakingPayerFeeHandling" {
				okv = okv && recF("StakeAddress", "(*identity.ValidatorStore).Get")(sub)
			}
			r.Check(okv, "C03.feepayer", name, "the charged account derives from a signing key", "address of Signatures[i].Signer (or that validator's stake account)",
				"the fee is charged to an account that is not derived from a signature of the transaction", p.ipos(c))
		}
	}
	// every fee step delegates to one of the three fee functions (or charges nothing)
	n := 0
	seen := map[*ssa.Function]bool{}
	vs := valueStoring(p)
	for _, h := range p.Handlers() {
		if h.Fee == nil || seen[h.Fee] {
			continue
		}
		seen[h.Fee] = true
		n++
		bad := ""
		for _, f := range handlerBody(h.Fee) {
			allInstrs(f, func(ins ssa.Instruction) {
				if sc := staticCallee(ins); sc != nil {
					if _, isVS := vs[sc]; isVS {
						bad = fname(sc)
					}
				}
			})
		}
		r.Check(bad == "", "C03.feepayer", h.Name, "fee step moves value only through the shared fee functions", "no direct balance call in ProcessFee", "ProcessFee calls "+bad+" directly: its payer is not covered by the fee-payer rule", p.pos(h.Fee.Pos()))
	}
	if n < 30 {
		fail("C03.feepayer: only %d fee steps", n)
	}
}

// C03.hooks: outside transaction handlers, the block hooks debit only pools and the validator found guilty.
func checkHookDebits(r *Run, vs map[*ssa.Function][]int) {
	p := r.P
	roots := p.Roots()
	inHandler := map[*ssa.Function]bool{}
	for _, h := range p.Handlers() {
		for _, f := range []*ssa.Function{h.Deliver, h.Check, h.Fee, h.Validate} {
			for _, g := range handlerBody(f) {
				inHandler[g] = true
			}
		}
	}
	n := 0
	for _, rn := range []string{"begin", "end"} {
		reach, _ := p.Reach(roots[rn])
		for _, fn := range sortedFns(reach) {
			if inHandler[fn] || fn.Blocks == nil {
				continue
			}
			if pp := fnPkg(fn).Path(); strings.HasPrefix(pp, Mod+"/data/") {
				continue // the value-storing API's own internals
			}
			fn := fn
			allInstrs(fn, func(ins ssa.Instruction) {
				sc := staticCallee(ins)
				idx, ok := vs[sc]
				if sc == nil || !ok {
					return
				}
				deb := false
				for _, i := range idx {
					if roleOf(sc, i, 0).debit {
						deb = true
					}
				}
				if !deb {
					return
				}
				n++
				c := ins.(ssa.CallInstruction).Common()
				var subs []ssa.Value
				for j, a := range c.Args {
					if j > 0 && addressish(a.Type()) {
						subs = append(subs, a)
					}
				}
				construct := "debit by " + fname(sc)
				if len(subs) == 0 {
					r.OK("C03.hooks", fname(fn), construct, "a pool without account argument")
					return
				}
				// the accused validator: record loaded under the request's MaliciousAddress (the verdict guard is C19.tally's)
				accused := true
				for _, s := range subs {
					if !derivesFrom(s, func(y ssa.Value) bool { return strings.HasSuffix(pathOf(y).FieldString(), "MaliciousAddress") }) {
						accused = false
					}
				}
				protocolAddr := func(y ssa.Value) bool {
					cc, ok := y.(*ssa.Call)
					if !ok {
						return false
					}
					n := calleeName(cc)
					return strings.HasPrefix(n, "(*data/governance.Store).Get") && (strings.Contains(n, "Pool") || strings.Contains(n, "Option"))
				}
				fromOptions := true
				for _, s := range subs {
					if !derivesFrom(s, protocolAddr) {
						fromOptions = false
					}
				}
				switch {
				case accused:
					r.OK("C03.hooks", fname(fn), construct, "the validator named by the allegation request being executed (verdict guard: C19.tally)")
				case fromOptions:
					r.OK("C03.hooks", fname(fn), construct, "a protocol address taken from options / pool list")
				default:
					r.Viol("C03.hooks", fname(fn), construct, "a block hook debits "+pathOf(subs[0]).String()+", which is neither a pool nor the validator found guilty: an account loses value without having signed anything", p.ipos(ins), nil)
				}
			})
		}
	}
	if n < 2 {
		fail("C03.hooks: %d hook debits found (expected 2)", n)
	}
}
