package main

// Guard tables: a small vocabulary to state "in handler H every call of S is reachable only past guard G" and to
// evaluate it with the interprocedural must-pass engine over the handler body.

import (
	"fmt"
	"go/token"
	"strings"

	"golang.org/x/tools/go/ssa"
)

// VPred is a predicate over SSA values (used for argument constraints).
type VPred func(v ssa.Value) bool

// msgF: the value is field `field` (dot path, suffix match on the last components) of a message object
// (an action.Msg implementer unmarshalled from the transaction payload in the same function) or of a *Msg parameter.
func msgF(p *Program, field string) VPred {
	return func(v ssa.Value) bool {
		pa := pathOf(v)
		fs := pa.FieldString()
		if fs != field && !strings.HasSuffix(fs, "."+field) {
			return false
		}
		return isMsgRoot(p, pa.Root)
	}
}

func isMsgRoot(p *Program, root ssa.Value) bool {
	switch x := root.(type) {
	case *ssa.Alloc:
		return implementsMsg(p, x.Type())
	case *ssa.Parameter:
		return implementsMsg(p, x.Type())
	}
	return false
}

// anyMsgField: any field of a message object.
func anyMsgField(p *Program) VPred {
	return func(v ssa.Value) bool { return isMsgRoot(p, pathOf(v).Root) }
}

// recF: field `field` of a record obtained from a call to one of the named functions (or of a parameter with that type name).
func recF(field string, callees ...string) VPred {
	okRoot := func(root ssa.Value) bool { return false }
	okRoot = func(root ssa.Value) bool {
		src, _ := tupleSource(root)
		c, ok := src.(*ssa.Call)
		if !ok {
			if ex, isEx := root.(*ssa.Extract); isEx {
				c, ok = ex.Tuple.(*ssa.Call)
			}
		}
		if !ok {
			// a record taken from one of several accepted lookups (proposal from the passed or the failed store)
			if phi, isPhi := root.(*ssa.Phi); isPhi && len(phi.Edges) > 0 {
				for _, e := range phi.Edges {
					if e == ssa.Value(phi) {
						continue
					}
					pe := pathOf(e)
					if len(pe.Fields) != 0 || !okRoot(pe.Root) {
						return false
					}
				}
				return true
			}
			return false
		}
		n := calleeName(c)
		for _, w := range callees {
			if n == w {
				return true
			}
		}
		return len(callees) == 0
	}
	return func(v ssa.Value) bool {
		pa := pathOf(v)
		fs := pa.FieldString()
		if fs != field && !strings.HasSuffix(fs, "."+field) {
			return false
		}
		return okRoot(pa.Root)
	}
}

func anyV(v ssa.Value) bool { return true }

// headerHeight: ctx.Header.Height (or a local copy).
func headerHeight(v ssa.Value) bool {
	return strings.HasSuffix(pathOf(v).FieldString(), "Header.Height")
}

// ---------------------------------------------------------------------------------------------
// guards

// boolCallG: guard = call of one of `names` whose bool result equals want; args[i] (receiver = 0) must satisfy preds[i] when non-nil.
func boolCallG(label string, want bool, names []string, preds ...VPred) *CallGuard {
	return &CallGuard{Name: label, Callees: names, Want: want, ArgOK: argsOK(preds)}
}

// errCallG: guard = call of one of `names` returned a nil error.
func errCallG(label string, names []string, preds ...VPred) *CallGuard {
	return &CallGuard{Name: label, Callees: names, Want: true, ErrOnly: true, ArgOK: argsOK(preds)}
}

func argsOK(preds []VPred) func(*ssa.Call) bool {
	if len(preds) == 0 {
		return nil
	}
	return func(c *ssa.Call) bool {
		args := callArgs(c)
		for i, pr := range preds {
			if pr == nil {
				continue
			}
			if i >= len(args) || !pr(args[i]) {
				return false
			}
		}
		return true
	}
}

// eqG: equality of two byte-string data (addresses): Address.Equal / bytes.Equal / bytes.Compare(..)==0, with a matching a or b
// on either side. want = true: the guard is "equal".
func eqG(label string, want bool, a, b VPred) *EdgeGuard {
	return &EdgeGuard{Name: label, Classify: func(p *Program, fn *ssa.Function, cond ssa.Value, _ *ssa.If) int {
		v, flip := stripNot(cond)
		v = resolveLoad(v)
		pol := 0
		match := func(x, y ssa.Value) bool { return (a(x) && b(y)) || (a(y) && b(x)) }
		switch x := v.(type) {
		case *ssa.Call:
			n := calleeName(x)
			if (n == "(data/keys.Address).Equal" || n == "bytes.Equal" || n == "(action.Address).Equal") && len(x.Call.Args) == 2 && match(x.Call.Args[0], x.Call.Args[1]) {
				pol = 1
			}
		case *ssa.BinOp:
			// bytes.Compare(a,b) ==/!= 0  or string(a) == string(b)
			if c, ok := x.X.(*ssa.Call); ok && calleeName(c) == "bytes.Compare" {
				if k, isC := intConst(x.Y); isC && k == 0 && match(c.Call.Args[0], c.Call.Args[1]) {
					if x.Op == token.EQL {
						pol = 1
					} else if x.Op == token.NEQ {
						pol = -1
					}
				}
			} else if (x.Op == token.EQL || x.Op == token.NEQ) && match(x.X, x.Y) {
				pol = 1
				if x.Op == token.NEQ {
					pol = -1
				}
			}
		}
		if pol == 0 {
			return 0
		}
		if flip {
			pol = -pol
		}
		if !want {
			pol = -pol
		}
		return pol
	}}
}

// cmpG: relation between a value and a constant / another value: lhs OP rhs must hold on the pass edge.
// rhs may be a constant (rhsConst non-nil) or a predicate.
func cmpG(label string, lhs VPred, op token.Token, rhs VPred) *EdgeGuard {
	return &EdgeGuard{Name: label, Classify: func(p *Program, fn *ssa.Function, cond ssa.Value, _ *ssa.If) int {
		v, flip := stripNot(cond)
		bo, ok := v.(*ssa.BinOp)
		if !ok {
			return 0
		}
		var actual token.Token
		switch {
		case lhs(bo.X) && rhs(bo.Y):
			actual = bo.Op
		case lhs(bo.Y) && rhs(bo.X):
			actual = mirror(bo.Op)
		default:
			return 0
		}
		pol := relPolarity(actual, op)
		if flip {
			pol = -pol
		}
		return pol
	}}
}

// relPolarity: given the comparison actually written (actual) and the relation wanted, +1 if wanted holds on the true edge,
// -1 if it holds on the false edge, 0 if neither edge implies it.
func relPolarity(actual, want token.Token) int {
	if actual == want {
		return 1
	}
	if negate(actual) == want {
		return -1
	}
	// implications: x < k implies x <= k and x != k ; x > k implies x >= k and x != k ; x == k implies <= and >=
	implies := func(a, b token.Token) bool {
		switch a {
		case token.LSS:
			return b == token.LEQ || b == token.NEQ
		case token.GTR:
			return b == token.GEQ || b == token.NEQ
		case token.EQL:
			return b == token.LEQ || b == token.GEQ
		}
		return false
	}
	if implies(actual, want) {
		return 1
	}
	if implies(negate(actual), want) {
		return -1
	}
	return 0
}

func constIs(k int64) VPred {
	return func(v ssa.Value) bool { c, ok := intConst(v); return ok && c == k }
}

func anyConst(v ssa.Value) bool { _, ok := v.(*ssa.Const); return ok }

// fieldSuffix: the value's access path ends with the given field path.
func fieldSuffix(suffix string) VPred {
	return func(v ssa.Value) bool {
		fs := pathOf(v).FieldString()
		return fs == suffix || strings.HasSuffix(fs, "."+suffix)
	}
}

// allG: conjunction - every component guard must be passed (evaluated one by one by guardOb).
type allG struct {
	Name  string
	Parts []GuardSpec
}

func (g *allG) String() string                            { return g.Name }
func (g *allG) Edges(p *Program, fn *ssa.Function) []Edge { return nil }

// ---------------------------------------------------------------------------------------------
// sinks

type SinkPred func(fn *ssa.Function, ins ssa.Instruction) bool

func callsTo(names ...string) SinkPred {
	set := map[string]bool{}
	for _, n := range names {
		set[n] = true
	}
	return func(fn *ssa.Function, ins ssa.Instruction) bool {
		if _, ok := ins.(ssa.CallInstruction); !ok {
			return false
		}
		return set[calleeName(ins)]
	}
}

// callsToWith: as callsTo with argument constraints.
func callsToWith(names []string, preds ...VPred) SinkPred {
	base := callsTo(names...)
	ok := argsOK(preds)
	return func(fn *ssa.Function, ins ssa.Instruction) bool {
		if !base(fn, ins) {
			return false
		}
		c, isCall := ins.(*ssa.Call)
		return isCall && (ok == nil || ok(c))
	}
}

// successReturns: returns whose leading bool result is not the constant false (handler success).
func successReturns(entry *ssa.Function) SinkPred {
	return func(fn *ssa.Function, ins ssa.Instruction) bool {
		if fn != entry {
			return false
		}
		ret, ok := ins.(*ssa.Return)
		if !ok || len(ret.Results) == 0 {
			return false
		}
		return returnMayBeSuccess(ret)
	}
}

// ---------------------------------------------------------------------------------------------
// evaluation

// samePkgScope: descend into functions of the same package as entry (the handler's run function and its helpers).
func samePkgScope(entry *ssa.Function) func(*ssa.Function) bool {
	pk := fnPkg(entry)
	return func(f *ssa.Function) bool { return fnPkg(f) == pk }
}

// guardOb evaluates one obligation; records ok / violation. Returns the number of sink sites seen.
func (r *Run) guardOb(rule string, entry *ssa.Function, sinkDesc string, sink SinkPred, g GuardSpec, consequence string) int {
	p := r.P
	if entry == nil || entry.Blocks == nil {
		fail("guard table: entry function missing for rule %s (%s)", rule, sinkDesc)
	}
	if all, ok := g.(*allG); ok {
		n := 0
		for _, part := range all.Parts {
			n = r.guardOb(rule, entry, sinkDesc, sink, part, consequence)
		}
		return n
	}
	m := &MustPass{P: p, Scope: samePkgScope(entry), IsSink: sink, Guard: g}
	exposed := m.Exposed(entry)
	construct := sinkDesc + " behind " + g.String()
	if m.Sinks == 0 {
		r.Info(rule, fname(entry), construct, "no such sink in this handler (vacuous)")
		return 0
	}
	if len(exposed) == 0 {
		r.OK(rule, fname(entry), construct, fmt.Sprintf("all %d sink site(s) are reachable only past the guard's pass edge", m.Sinks))
		return m.Sinks
	}
	s := exposed[0]
	r.Viol(rule, fname(entry), construct,
		fmt.Sprintf("%s is reachable without passing the guard %q: %s", sinkDesc, g.String(), consequence), p.ipos(s.Instr), s.Chain)
	return m.Sinks
}

// handlerDeliver finds the ProcessDeliver function of the handler registered for an action type constant name
// (e.g. "STAKE") or whose type name has the given suffix (ext handlers).
func (p *Program) handlerFor(key string) *Handler {
	for _, h := range p.Handlers() {
		for _, t := range h.TxTypes {
			if t == key {
				return h
			}
		}
	}
	for _, h := range p.Handlers() {
		if strings.HasSuffix(h.Name, "."+key) {
			return h
		}
	}
	fail("no registered handler for %q", key)
	return nil
}

// deliverEntry: the function holding the handler's logic: ProcessDeliver, or the single same-package function it delegates to.
func (p *Program) deliverEntry(key string) *ssa.Function {
	h := p.handlerFor(key)
	return runFnOf(h.Deliver)
}

// runFnOf: if fn only logs and delegates to one same-package function taking (ctx, tx), return that function.
func runFnOf(fn *ssa.Function) *ssa.Function {
	if fn == nil {
		return nil
	}
	var cands []*ssa.Function
	allInstrs(fn, func(ins ssa.Instruction) {
		if sc := staticCallee(ins); sc != nil && fnPkg(sc) == fnPkg(fn) && sc.Signature.Recv() == nil && sc.Blocks != nil {
			cands = append(cands, sc)
		}
	})
	if len(cands) == 1 {
		return cands[0]
	}
	return fn
}

// cmpTruthRel: the relation between x and y that `x.Cmp(y) OP k` asserts (k in -1..1), by the set of Cmp outcomes for
// which the test is true.
func cmpTruthRel(op token.Token, k int64) (token.Token, bool) {
	set := 0
	for i, c := range []int64{-1, 0, 1} {
		t := false
		switch op {
		case token.EQL:
			t = c == k
		case token.NEQ:
			t = c != k
		case token.LSS:
			t = c < k
		case token.LEQ:
			t = c <= k
		case token.GTR:
			t = c > k
		case token.GEQ:
			t = c >= k
		default:
			return 0, false
		}
		if t {
			set |= 1 << uint(i)
		}
	}
	switch set {
	case 1:
		return token.LSS, true
	case 2:
		return token.EQL, true
	case 4:
		return token.GTR, true
	case 3:
		return token.LEQ, true
	case 6:
		return token.GEQ, true
	case 5:
		return token.NEQ, true
	}
	return 0, false
}

// bigCmpG: an edge on which "A rel B" holds for two big numbers / amounts / coins, in any of the ways the repository
// writes such a test: a.Cmp(b) OP k or b.Cmp(a) OP k (k in -1..1, constant on either side of OP), or the Coin
// comparators LessThanCoin / LessThanEqualCoin with the operands in either role.
func bigCmpG(label string, a VPred, rel token.Token, b VPred) *EdgeGuard {
	return &EdgeGuard{Name: label, Classify: func(p *Program, fn *ssa.Function, cond ssa.Value, _ *ssa.If) int {
		v, flip := stripNot(cond)
		v = resolveLoad(v)
		var actual token.Token
		var x, y ssa.Value
		switch t := v.(type) {
		case *ssa.BinOp:
			c, isC := t.X.(*ssa.Call)
			k, isK := intConst(t.Y)
			op := t.Op
			if !isC || !isK {
				c, isC = t.Y.(*ssa.Call)
				k, isK = intConst(t.X)
				op = mirror(t.Op)
			}
			if !isC || !isK || len(c.Call.Args) != 2 {
				return 0
			}
			switch calleeName(c) {
			case "(*math/big.Int).Cmp", "(*math/big.Int).CmpAbs":
			default:
				return 0
			}
			r, ok := cmpTruthRel(op, k)
			if !ok {
				return 0
			}
			actual, x, y = r, c.Call.Args[0], c.Call.Args[1]
		case *ssa.Call:
			if len(t.Call.Args) != 2 {
				return 0
			}
			switch calleeName(t) {
			case "(data/balance.Coin).LessThanCoin":
				actual = token.LSS
			case "(data/balance.Coin).LessThanEqualCoin":
				actual = token.LEQ
			default:
				return 0
			}
			x, y = t.Call.Args[0], t.Call.Args[1]
		default:
			return 0
		}
		switch {
		case a(x) && b(y):
		case a(y) && b(x):
			actual = mirror(actual)
		default:
			return 0
		}
		pol := relPolarity(actual, rel)
		if flip {
			pol = -pol
		}
		return pol
	}}
}
