package main

// Rules added after the third round of seeded changes (each is called from its property's run function).

import (
	"fmt"
	"go/constant"
	"go/token"
	"go/types"
	"os"
	"sort"
	"strings"

	"golang.org/x/tools/go/ssa"
)

// ---- C07.sticky -----------------------------------------------------------------------------------------------------
//
// A store with a selector (WithPrefixType ...) keeps the selection in a field of the one shared object. A consensus-path
// call that uses the store WITHOUT selecting first operates on whatever the previous caller left behind, so its result is
// the same with and without mempool checks only if every function that selects leaves the constructor's default selection
// behind on every exit. The rule discovers the unselected consensus uses; where one exists for (T, f), every function on
// the check / deliver / query paths that calls a selector of (T, f) must, on each exit, have selected the default last, or
// restore the field itself (save + deferred restore).

type stickySel struct {
	T, F string
	sels map[*ssa.Function]bool
	deps map[*ssa.Function]bool
}

func stickySelectors(p *Program, singles map[string]bool) []*stickySel {
	byKey := map[string]*stickySel{}
	for m, fs := range selectorMethods(p, singles) {
		if m.Name() == "WithState" {
			continue
		}
		T := tname(namedOf(m.Signature.Recv().Type()))
		for _, f := range fs {
			ft := fieldTypeOf(p, T+"."+f)
			if ft == nil || isStateLike(ft) {
				continue
			}
			k := T + "." + f
			if byKey[k] == nil {
				byKey[k] = &stickySel{T: T, F: f, sels: map[*ssa.Function]bool{}, deps: map[*ssa.Function]bool{}}
			}
			byKey[k].sels[m] = true
		}
	}
	var res []*stickySel
	for _, s := range byKey {
		// dependents: methods of T reading f from their receiver, or calling a dependent on their receiver
		var meths []*ssa.Function
		for fn := range p.Fns {
			if !inRepo(fn) || fn.Blocks == nil || fn.Signature.Recv() == nil || len(fn.Params) == 0 || s.sels[fn] {
				continue
			}
			if n := namedOf(fn.Signature.Recv().Type()); n == nil || tname(n) != s.T {
				continue
			}
			meths = append(meths, fn)
		}
		for changed := true; changed; {
			changed = false
			for _, fn := range meths {
				if s.deps[fn] {
					continue
				}
				dep := false
				isRecv := func(v ssa.Value) bool {
					return v == ssa.Value(fn.Params[0]) || resolveLoad(v) == ssa.Value(fn.Params[0])
				}
				allInstrs(fn, func(ins ssa.Instruction) {
					switch x := ins.(type) {
					case *ssa.UnOp:
						if fa, ok := x.X.(*ssa.FieldAddr); ok && x.Op == token.MUL && isRecv(fa.X) && fieldName(fa.X.Type(), fa.Field) == s.F {
							dep = true
						}
					case *ssa.Call:
						if sc := x.Call.StaticCallee(); sc != nil && s.deps[sc] && len(x.Call.Args) > 0 && isRecv(x.Call.Args[0]) {
							dep = true
						}
					}
				})
				if dep {
					s.deps[fn] = true
					changed = true
				}
			}
		}
		res = append(res, s)
	}
	sort.Slice(res, func(i, j int) bool { return res[i].T+res[i].F < res[j].T+res[j].F })
	return res
}

// selectedBy: v is (on every incoming value) the result of a selector call of s.
func (s *stickySel) selectedBy(v ssa.Value, depth int) bool {
	if depth > 6 {
		return false
	}
	v = resolveLoad(v)
	switch x := v.(type) {
	case *ssa.Call:
		if sc := x.Call.StaticCallee(); sc != nil {
			if s.sels[sc] {
				return true
			}
			// another selector of the same object (WithState ...) chained after the selection
			if len(x.Call.Args) > 0 && sc.Signature.Recv() != nil && namedOf(sc.Signature.Recv().Type()) != nil && tname(namedOf(sc.Signature.Recv().Type())) == s.T {
				for _, ret := range returnsOf(sc) {
					if len(ret.Results) != 1 || ret.Results[0] != ssa.Value(sc.Params[0]) {
						return false
					}
				}
				return s.selectedBy(x.Call.Args[0], depth+1)
			}
		}
	case *ssa.Phi:
		for _, e := range x.Edges {
			if !s.selectedBy(e, depth+1) {
				return false
			}
		}
		return len(x.Edges) > 0
	}
	return false
}

// selectorCases: constant selector argument -> name of the receiver field copied into s.F.
func (s *stickySel) selectorCases() map[int64]string {
	res := map[int64]string{}
	for m := range s.sels {
		if len(m.Params) < 2 {
			continue
		}
		allInstrs(m, func(ins ssa.Instruction) {
			st, ok := ins.(*ssa.Store)
			if !ok {
				return
			}
			fa, ok := st.Addr.(*ssa.FieldAddr)
			if !ok || fa.X != ssa.Value(m.Params[0]) || fieldName(fa.X.Type(), fa.Field) != s.F {
				return
			}
			src := pathOf(st.Val)
			if src.Root != ssa.Value(m.Params[0]) || len(src.Fields) != 1 {
				return
			}
			// the case constant: the store's block is entered on the true edge of `param == C`
			b := st.Block()
			for d := 0; d < 3 && len(b.Preds) == 1; d++ {
				iff := blockIf(b.Preds[0])
				if iff == nil {
					b = b.Preds[0]
					continue
				}
				bo, isB := iff.Cond.(*ssa.BinOp)
				if isB && bo.Op == token.EQL && bo.X == ssa.Value(m.Params[1]) && b.Preds[0].Succs[0] == b {
					if k, isK := intConst(bo.Y); isK {
						res[k] = src.Fields[0]
					}
				}
				break
			}
		})
	}
	return res
}

// defaultConsts: the selector constants whose field is initialised by the constructor from the same value as s.F.
func (s *stickySel) defaultConsts(p *Program) []int64 {
	cases := s.selectorCases()
	var res []int64
	for fn := range p.Fns {
		if !inRepo(fn) || fn.Blocks == nil {
			continue
		}
		init := map[string]ssa.Value{}
		allInstrs(fn, func(ins ssa.Instruction) {
			st, ok := ins.(*ssa.Store)
			if !ok {
				return
			}
			fa, ok := st.Addr.(*ssa.FieldAddr)
			if !ok {
				return
			}
			a, isA := fa.X.(*ssa.Alloc)
			if !isA || namedOf(a.Type()) == nil || tname(namedOf(a.Type())) != s.T {
				return
			}
			init[fieldName(fa.X.Type(), fa.Field)] = resolveConv(st.Val)
		})
		if init[s.F] == nil {
			continue
		}
		for k, f := range cases {
			if init[f] != nil && init[f] == init[s.F] {
				res = append(res, k)
			}
		}
	}
	sort.Slice(res, func(i, j int) bool { return res[i] < res[j] })
	return res
}

// stickyBase: identity of the shared object a selector/dependent call operates on (chained selections stripped).
func (s *stickySel) stickyBase(v ssa.Value) string {
	for d := 0; d < 8; d++ {
		v = resolveLoad(v)
		c, ok := v.(*ssa.Call)
		if !ok {
			break
		}
		sc := c.Call.StaticCallee()
		if sc == nil || sc.Signature.Recv() == nil || len(c.Call.Args) == 0 {
			break
		}
		if n := namedOf(sc.Signature.Recv().Type()); n == nil || tname(n) != s.T {
			break
		}
		retRecv := sc.Blocks != nil
		for _, ret := range returnsOf(sc) {
			if len(ret.Results) != 1 || ret.Results[0] != ssa.Value(sc.Params[0]) {
				retRecv = false
			}
		}
		if !retRecv {
			break
		}
		v = c.Call.Args[0]
	}
	pa := pathOf(v)
	return fmt.Sprintf("%p.%s", pa.Root, pa.FieldString())
}

// selCallOf: ins is a call of one of s's selectors; returns the call's common part.
func (s *stickySel) selCallOf(ins ssa.Instruction) *ssa.CallCommon {
	c, ok := ins.(ssa.CallInstruction)
	if !ok {
		return nil
	}
	if sc := c.Common().StaticCallee(); sc != nil && s.sels[sc] && len(c.Common().Args) >= 2 {
		return c.Common()
	}
	return nil
}

// selected: the use's receiver is a selector result, or a selection on the same object dominates the use.
func (s *stickySel) selected(use ssa.Instruction, recv ssa.Value) bool {
	if s.selectedBy(recv, 0) {
		return true
	}
	base := s.stickyBase(recv)
	found := false
	allInstrs(use.Parent(), func(ins ssa.Instruction) {
		if cc := s.selCallOf(ins); cc != nil && ins != use && s.stickyBase(cc.Args[0]) == base && dominatesInstr(ins, use) {
			found = true
		}
	})
	return found
}

// stickyExempt: selector fields whose store is not consensus state.
var stickyExempt = map[string]string{
	"data/jobs.JobStore.chain": "node-local job store (its own database, never part of the application hash; C01.local decides what may read it)",
}

func checkStickyDefault(r *Run) {
	p := r.P
	singles := singletonTypes(p)
	cons, _ := p.Reach(p.ConsensusRoots()...)
	probe := os.Getenv("OLINT_STICKY_PROBE") != ""
	nsel, nuse := 0, 0
	for _, s := range stickySelectors(p, singles) {
		key := s.T + "." + s.F
		if why, ok := stickyExempt[key]; ok {
			r.Info("C07.sticky", key, "exempt selector field", why)
			continue
		}
		nsel++
		// methods that select on their own receiver are not dependents: they choose the selection themselves
		for m := range s.deps {
			self := false
			allInstrs(m, func(ins ssa.Instruction) {
				if cc := s.selCallOf(ins); cc != nil && (cc.Args[0] == ssa.Value(m.Params[0]) || resolveLoad(cc.Args[0]) == ssa.Value(m.Params[0])) {
					self = true
				}
			})
			if self {
				delete(s.deps, m)
			}
		}
		// unselected consensus uses
		var unsel []ssa.Instruction
		for _, fn := range sortedFns(cons) {
			if fn.Blocks == nil || s.sels[fn] {
				continue
			}
			if fn.Signature.Recv() != nil && namedOf(fn.Signature.Recv().Type()) != nil && tname(namedOf(fn.Signature.Recv().Type())) == s.T {
				continue // the store's own methods: their callers are the uses
			}
			allInstrs(fn, func(ins ssa.Instruction) {
				c, ok := ins.(ssa.CallInstruction)
				if !ok {
					return
				}
				sc := c.Common().StaticCallee()
				if sc == nil || !s.deps[sc] || len(c.Common().Args) == 0 {
					return
				}
				nuse++
				if !s.selected(ins, c.Common().Args[0]) {
					unsel = append(unsel, ins)
				}
			})
		}
		if probe {
			fmt.Printf("STICKY %s sels=%d deps=%d unselected consensus uses=%d default=%v cases=%v\n", key, len(s.sels), len(s.deps), len(unsel), s.defaultConsts(p), s.selectorCases())
			for _, u := range unsel {
				fmt.Printf("   %s in %s\n", p.ipos(u), fname(u.Parent()))
			}
		}
		if len(unsel) == 0 {
			r.OK("C07.sticky", key, "every consensus use selects first", "each consensus-path call of a method that reads "+s.F+" has a selection on the same store in front of it; nothing depends on the selection left behind")
			continue
		}
		defs := s.defaultConsts(p)
		if len(defs) == 0 {
			// no derivable default: the use is sound only if every function leaves the same selection behind
			left := map[string]string{}
			for _, fn := range sortedFns(p.Fns) {
				if !inRepo(fn) || fn.Blocks == nil || s.sels[fn] {
					continue
				}
				allInstrs(fn, func(ins ssa.Instruction) {
					cc := s.selCallOf(ins)
					if cc == nil {
						return
					}
					base := s.stickyBase(cc.Args[0])
					for i2 := range reachFromInstr(ins, nil, func(i ssa.Instruction) bool {
						c2 := s.selCallOf(i)
						return c2 != nil && s.stickyBase(c2.Args[0]) == base
					}) {
						if _, isRet := i2.(*ssa.Return); isRet {
							k := "a selection chosen at run time"
							if kk, ok := intConst(cc.Args[1]); ok {
								k = "selection " + itoa(kk)
							}
							if left[k] == "" {
								left[k] = fname(fn) + " at " + p.ipos(ins)
							}
							return
						}
					}
				})
			}
			var ks []string
			for k := range left {
				ks = append(ks, k+" ("+left[k]+")")
			}
			sort.Strings(ks)
			for _, u := range unsel {
				r.Check(len(left) <= 1, "C07.sticky", fname(u.Parent()), "a store used without selecting sees one possible selection only", "every function leaves the same selection behind",
					"the call at "+p.ipos(u)+" uses "+key+" as the previous caller left it, and different functions leave different selections behind: "+strings.Join(ks, "; ")+": what it reads or writes depends on which call (a mempool check included) ran last", p.ipos(u))
			}
			continue
		}
		isDef := func(v ssa.Value) bool {
			k, ok := intConst(v)
			if !ok {
				return false
			}
			for _, d := range defs {
				if d == k {
					return true
				}
			}
			return false
		}
		var relying []string
		for _, u := range unsel {
			relying = append(relying, fname(u.Parent())+" at "+p.ipos(u))
		}
		// every selecting function leaves the default behind
		for _, fn := range sortedFns(p.Fns) {
			if !inRepo(fn) || fn.Blocks == nil || s.sels[fn] {
				continue
			}
			var calls []ssa.Instruction
			allInstrs(fn, func(ins ssa.Instruction) {
				if s.selCallOf(ins) != nil {
					calls = append(calls, ins)
				}
			})
			if len(calls) == 0 {
				continue
			}
			// save + deferred restore of the field
			restores := false
			allInstrs(fn, func(ins ssa.Instruction) {
				d, ok := ins.(*ssa.Defer)
				if !ok {
					return
				}
				mc, ok := d.Call.Value.(*ssa.MakeClosure)
				if !ok {
					return
				}
				wr := false
				allInstrs(mc.Fn.(*ssa.Function), func(i2 ssa.Instruction) {
					if st, ok := i2.(*ssa.Store); ok {
						if fa, ok := st.Addr.(*ssa.FieldAddr); ok && fieldName(fa.X.Type(), fa.Field) == s.F && namedOf(fa.X.Type()) != nil && tname(namedOf(fa.X.Type())) == s.T {
							wr = true
						}
					}
				})
				if !wr {
					return
				}
				dom := true
				for _, c := range calls {
					if !dominatesInstr(d, c) {
						dom = false
					}
				}
				if dom {
					restores = true
				}
			})
			if restores {
				r.OK("C07.sticky", fname(fn), "selection saved and restored", "a deferred store puts "+key+" back before the function returns")
				continue
			}
			for _, c := range calls {
				cc := s.selCallOf(c)
				if isDef(cc.Args[1]) {
					continue
				}
				base := s.stickyBase(cc.Args[0])
				// failure edges of writes through this very selection are not followed: a write to the session cannot fail
				var removed []Edge
				if cv, isV := c.(ssa.Value); isV {
					for _, u := range valueUses(cv) {
						uc, ok := u.(*ssa.Call)
						if !ok || uc.Call.StaticCallee() == nil || !s.deps[uc.Call.StaticCallee()] || !writesThroughState(p, uc.Call.StaticCallee()) {
							continue
						}
						removed = append(removed, condEdges(fn, func(cond ssa.Value, _ *ssa.If) int {
							return -nilCond(cond, func(y ssa.Value) bool {
								src, _ := tupleSource(y)
								return isErrorType(y.Type()) && src == ssa.Value(uc)
							})
						})...)
					}
				}
				after := reachFromInstr(c, removed, func(ins ssa.Instruction) bool {
					c2 := s.selCallOf(ins)
					return c2 != nil && isDef(c2.Args[1]) && s.stickyBase(c2.Args[0]) == base
				})
				var exit ssa.Instruction
				for ins := range after {
					if _, isRet := ins.(*ssa.Return); isRet {
						if exit == nil || ins.Pos() < exit.Pos() {
							exit = ins
						}
					}
				}
				arg := "a selection chosen at run time"
				if k, ok := intConst(cc.Args[1]); ok {
					arg = "selection " + itoa(k)
				}
				r.Check(exit == nil, "C07.sticky", fname(fn), arg+" is replaced by the default selection before the function returns",
					"every path from the selection to a return passes a selection of the constructor's default on the same store",
					fmt.Sprintf("%s at %s can be left behind on the shared store (return at %s); %s uses the store without selecting, so what it reads at the next block depends on which call (a mempool check included) ran last",
						arg, p.ipos(c), iposOrNone(p, exit), strings.Join(firstN(relying, 2), ", ")), p.ipos(c))
			}
		}
	}
	r.Extra["sticky_selector_fields"] = nsel
	r.Extra["sticky_consensus_uses"] = nuse
	if nsel < 4 {
		fail("C07.sticky: only %d sticky selector fields found", nsel)
	}
}

func iposOrNone(p *Program, ins ssa.Instruction) string {
	if ins == nil {
		return "-"
	}
	return p.ipos(ins)
}

// writesThroughState: m calls storage.State.Set / Delete directly (a record write through the store's state).
func writesThroughState(p *Program, m *ssa.Function) bool {
	w := false
	allInstrs(m, func(ins ssa.Instruction) {
		if c, ok := ins.(*ssa.Call); ok {
			if n := calleeName(c); n == "(*storage.State).Set" || n == "(*storage.State).Delete" {
				w = true
			}
		}
	})
	return w
}

var _ = types.Typ

// ---- C07.bigalias ---------------------------------------------------------------------------------------------------
//
// *big.Int arithmetic methods write their receiver. A receiver that is not allocated in the same function is somebody
// else's number: Amount.BigInt() is a pointer conversion, so mutating its result rewrites the amount it came from (an
// option object shared by the mempool and consensus paths, a record cached in a store ...).

var bigMutators = map[string]bool{"Add": true, "Sub": true, "Mul": true, "Quo": true, "Div": true, "Mod": true, "Rem": true, "Neg": true, "Abs": true,
	"Exp": true, "Lsh": true, "Rsh": true, "Set": true, "SetInt64": true, "SetUint64": true, "SetString": true, "SetBytes": true, "SetBit": true,
	"And": true, "Or": true, "Xor": true, "Not": true, "Sqrt": true, "QuoRem": true, "DivMod": true, "ModInverse": true, "GCD": true, "SetBits": true}

func isBigIntPtr(t types.Type) bool {
	s := tname(t)
	return s == "*math/big.Int" || s == "*big.Int"
}

// freshBig: v denotes a big.Int allocated in this function (or returned fresh by a constructor).
func freshBig(p *Program, v ssa.Value, depth int) bool {
	if depth > 8 {
		return false
	}
	v = resolveLoad(v)
	switch x := v.(type) {
	case *ssa.Alloc:
		return true
	case *ssa.Call:
		sc := x.Call.StaticCallee()
		if sc == nil {
			return false
		}
		if sc.Pkg != nil && sc.Pkg.Pkg.Path() == "math/big" {
			if sc.Name() == "NewInt" {
				return true
			}
			// methods returning their receiver
			if sc.Signature.Recv() != nil && bigMutators[sc.Name()] && len(x.Call.Args) > 0 {
				return freshBig(p, x.Call.Args[0], depth+1)
			}
			return false
		}
		if inRepo(sc) && sc.Blocks != nil {
			// a repo function all of whose returns are fresh
			rets := returnsOf(sc)
			if len(rets) == 0 {
				return false
			}
			for _, ret := range rets {
				if len(ret.Results) < 1 {
					return false
				}
				rv := resolveConv(ret.Results[0])
				isParam := false
				for k, pa := range sc.Params {
					if rv == ssa.Value(pa) {
						// the callee hands back (a conversion of) its k-th argument
						if k >= len(x.Call.Args) || !freshBig(p, x.Call.Args[k], depth+1) {
							return false
						}
						isParam = true
					}
				}
				if !isParam && !freshBig(p, ret.Results[0], depth+1) {
					return false
				}
			}
			return true
		}
	case *ssa.ChangeType:
		return freshBig(p, x.X, depth+1)
	case *ssa.Convert:
		return freshBig(p, x.X, depth+1)
	case *ssa.Phi:
		for _, e := range x.Edges {
			if e != ssa.Value(x) && !freshBig(p, e, depth+1) {
				return false
			}
		}
		return true
	case *ssa.FieldAddr:
		// a field of a locally allocated struct
		return freshBig(p, x.X, depth+1)
	case *ssa.Parameter:
		// somebody else's accumulator: fresh only if every caller passes a fresh one
		fn := x.Parent()
		idx := -1
		for k, pa := range fn.Params {
			if pa == x {
				idx = k
			}
		}
		sites := staticCallers(p)[fn]
		if idx < 0 || len(sites) == 0 || !isBigIntPtr(x.Type()) {
			return false
		}
		for _, site := range sites {
			if idx >= len(site.Common().Args) || !freshBig(p, site.Common().Args[idx], depth+2) {
				return false
			}
		}
		return true
	}
	return false
}

var staticCallersCache map[*ssa.Function][]ssa.CallInstruction

// staticCallers: statically resolved call sites per callee over the loaded repo functions.
func staticCallers(p *Program) map[*ssa.Function][]ssa.CallInstruction {
	if staticCallersCache != nil {
		return staticCallersCache
	}
	res := map[*ssa.Function][]ssa.CallInstruction{}
	for fn := range p.Fns {
		if !inRepo(fn) || fn.Blocks == nil {
			continue
		}
		allInstrs(fn, func(ins ssa.Instruction) {
			if c, ok := ins.(ssa.CallInstruction); ok {
				if sc := c.Common().StaticCallee(); sc != nil {
					res[sc] = append(res[sc], c)
				}
			}
		})
	}
	staticCallersCache = res
	return res
}

func checkBigAlias(r *Run) {
	p := r.P
	roots := p.Roots()
	fns, _ := p.Reach(roots["check"], roots["deliver"], roots["begin"], roots["end"], roots["commit"])
	probe := os.Getenv("OLINT_BIG_PROBE") != ""
	n := 0
	for _, fn := range sortedFns(fns) {
		if fn.Blocks == nil {
			continue
		}
		allInstrs(fn, func(ins ssa.Instruction) {
			c, ok := ins.(ssa.CallInstruction)
			if !ok {
				return
			}
			sc := c.Common().StaticCallee()
			if sc == nil || sc.Pkg == nil || sc.Pkg.Pkg.Path() != "math/big" || sc.Signature.Recv() == nil || !bigMutators[sc.Name()] || !isBigIntPtr(sc.Signature.Recv().Type()) {
				return
			}
			n++
			recv := c.Common().Args[0]
			fresh := freshBig(p, recv, 0)
			if probe && !fresh {
				fmt.Printf("BIGALIAS %s in %s: %s receiver %s\n", p.ipos(ins), fname(fn), sc.Name(), recv.String())
			}
			r.Check(fresh, "C07.bigalias", fname(fn), "big.Int."+sc.Name()+" writes a number allocated for the purpose", "the receiver is allocated in this function (big.NewInt, new(big.Int), a local, a fresh Amount) or handed in fresh by every caller",
				"big.Int."+sc.Name()+" at "+p.ipos(ins)+" writes its receiver, and the receiver is not a fresh number: Amount.BigInt() is a pointer conversion, so the arithmetic rewrites the amount it was taken from (an option object or cached record that the mempool and consensus paths share)", p.ipos(ins))
		})
	}
	if os.Getenv("OLINT_MAP_PROBE") != "" {
		probeMapFields(r)
	}
	r.Extra["bigint_mutations_checked"] = n
	r.Floor("C07.bigalias", 40)
}

// ---- C09.versions.reopen --------------------------------------------------------------------------------------------
//
// Reopening must register every saved version of the tree: GetVersioned / GetPrevious answer only for versions the
// MutableTree knows, and only Load / LoadVersion enumerate the saved roots (LazyLoadVersion registers the one it loads).
func checkReopenLoadsAll(r *Run) {
	p := r.P
	fn := p.MustFn("(*storage.ChainState).loadDB")
	const mt = "(*github.com/tendermint/iavl.MutableTree)."
	var tree ssa.Value
	allInstrs(fn, func(ins ssa.Instruction) {
		if st, ok := ins.(*ssa.Store); ok && isFieldAddr(st.Addr, "storage.ChainState", "Delivered") {
			tree = resolveLoad(st.Val)
		}
	})
	okv := tree != nil
	how := "no assignment to ChainState.Delivered in loadDB"
	if okv {
		var load ssa.Instruction
		lazy := ""
		allInstrs(fn, func(ins ssa.Instruction) {
			c, isC := ins.(*ssa.Call)
			if !isC || len(c.Call.Args) == 0 || resolveLoad(c.Call.Args[0]) != tree {
				return
			}
			switch calleeName(c) {
			case mt + "Load", mt + "LoadVersion":
				load = c
			case mt + "LazyLoadVersion":
				lazy = p.ipos(c)
			}
		})
		switch {
		case load == nil && lazy != "":
			okv, how = false, "the tree is loaded with LazyLoadVersion at "+lazy+", which registers only the version it loads"
		case load == nil:
			okv, how = false, "the tree assigned to ChainState.Delivered is never loaded with Load / LoadVersion"
		default:
			for _, ret := range returnsOf(fn) {
				if !dominatesInstr(load, ret) {
					okv, how = false, "Load / LoadVersion is skipped on a path to the return at "+p.ipos(ret)
				}
			}
		}
	}
	r.Check(okv, "C09.versions.reopen", fname(fn), "the reopened tree knows every saved version", "MutableTree.Load / LoadVersion on the tree that becomes ChainState.Delivered, on every path",
		how+": after a restart versioned reads (GetVersioned, GetPrevious) of versions saved before the restart return nothing although the versions are still on disk", p.pos(fn.Pos()))
}

// ---- C11.roles ------------------------------------------------------------------------------------------------------
//
// The delegation ledger is keyed by (validator, delegator). A call that passes the two addresses in the wrong order reads
// or writes somebody else's entry (usually an empty one), and still type-checks: both are keys.Address. The role of a
// parameter is taken from its name, the role of an argument from where the value comes from (a field or parameter whose
// name says which of the two it is); a call is reported only when both are known and disagree.

func addrRoleOfName(name string) string {
	l := strings.ToLower(name)
	switch {
	case strings.Contains(l, "validator") && !strings.Contains(l, "delegat") && !strings.Contains(l, "stake"):
		return "validator"
	case (strings.Contains(l, "delegat") || strings.Contains(l, "stakeaddr") || l == "staker") && !strings.Contains(l, "validator"):
		return "delegator"
	}
	return ""
}

func isKeysAddress(t types.Type) bool { return tname(t) == "data/keys.Address" }

// addrRoleOfValue: the role the value's origin names, "" when unknown.
func addrRoleOfValue(v ssa.Value, depth int) string {
	if depth > 4 {
		return ""
	}
	v = resolveLoad(resolveConv(v))
	switch x := v.(type) {
	case *ssa.Parameter:
		return addrRoleOfName(x.Name())
	case *ssa.Phi:
		role := ""
		for i, e := range x.Edges {
			ro := addrRoleOfValue(e, depth+1)
			if i > 0 && ro != role {
				return ""
			}
			role = ro
		}
		return role
	case *ssa.FreeVar:
		return addrRoleOfName(x.Name())
	}
	pa := pathOf(v)
	if len(pa.Fields) == 0 {
		return ""
	}
	last := pa.Fields[len(pa.Fields)-1]
	if ro := addrRoleOfName(last); ro != "" {
		return ro
	}
	if last == "Address" {
		// the Address field of a validator record
		var holder types.Type
		switch y := v.(type) {
		case *ssa.UnOp:
			if fa, ok := y.X.(*ssa.FieldAddr); ok {
				holder = fa.X.Type()
			}
		case *ssa.Field:
			holder = y.X.Type()
		}
		if holder != nil {
			if n := namedOf(holder); n != nil && n.Obj().Name() == "Validator" {
				return "validator"
			}
		}
	}
	return ""
}

func checkAddressRoles(r *Run, rule string) {
	p := r.P
	roots := p.Roots()
	fns, _ := p.Reach(roots["check"], roots["deliver"], roots["begin"], roots["end"], roots["init"])
	probe := os.Getenv("OLINT_ROLE_PROBE") != ""
	n, known := 0, 0
	for _, fn := range sortedFns(fns) {
		if fn.Blocks == nil {
			continue
		}
		allInstrs(fn, func(ins ssa.Instruction) {
			c, ok := ins.(ssa.CallInstruction)
			if !ok {
				return
			}
			sc := c.Common().StaticCallee()
			if sc == nil || !inRepo(sc) || len(sc.Params) != len(c.Common().Args) {
				return
			}
			// callee with both roles among its address parameters
			roles := map[string]int{}
			for _, pa := range sc.Params {
				if isKeysAddress(pa.Type()) {
					if ro := addrRoleOfName(pa.Name()); ro != "" {
						roles[ro]++
					}
				}
			}
			if roles["validator"] == 0 || roles["delegator"] == 0 {
				return
			}
			n++
			for k, pa := range sc.Params {
				if !isKeysAddress(pa.Type()) {
					continue
				}
				want := addrRoleOfName(pa.Name())
				got := addrRoleOfValue(c.Common().Args[k], 0)
				if want == "" || got == "" {
					continue
				}
				known++
				if probe {
					fmt.Printf("ROLE %s in %s: %s(%s) want=%s got=%s\n", p.ipos(ins), fname(fn), sc.Name(), pa.Name(), want, got)
				}
				r.Check(want == got, rule, fname(fn), "call "+sc.Name()+": the "+want+" parameter receives a "+want+" address", "argument origin and parameter name agree on which of (validator, delegator) it is",
					"call of "+fname(sc)+" at "+p.ipos(ins)+" passes a "+got+" address as parameter "+pa.Name()+": the ledger entry of another (validator, delegator) pair is read or written", p.ipos(ins))
			}
		})
	}
	r.Extra["role_typed_calls"] = n
	r.Extra["role_typed_arguments_decided"] = known
	if known < 20 {
		fail("%s: only %d (validator, delegator) arguments could be classified", rule, known)
	}
}

// ---- C11.dumpload ---------------------------------------------------------------------------------------------------
//
// DelegationStore.DumpState / LoadState are siblings: every table the dump fills from a key prefix is written back by the
// loader through the plain setter of the same prefix (key function + Set, no read-modify-write). A loader that books a
// table through an accumulating method adds the imported figures to whatever genesis staking already wrote.
func checkDelegationDumpLoad(r *Run) {
	p := r.P
	const T = "(*data/delegation.DelegationStore)."
	ds, ls := p.MustFn(T+"DumpState"), p.MustFn(T+"LoadState")
	// dump side: list field -> key prefix
	dumped := map[string]string{}
	allInstrs(ds, func(ins ssa.Instruction) {
		c, ok := ins.(*ssa.Call)
		if !ok || len(c.Call.Args) < 3 {
			return
		}
		if n := calleeName(c); n != T+"iterate" && n != T+"iterateVD" {
			return
		}
		k, isK := c.Call.Args[1].(*ssa.Const)
		cl := closureOf(c.Call.Args[2])
		if !isK || cl == nil || k.Value == nil {
			return
		}
		prefix := strings.Trim(k.Value.ExactString(), "\"")
		allInstrs(cl, func(i2 ssa.Instruction) {
			if st, ok := i2.(*ssa.Store); ok {
				if fa, ok := st.Addr.(*ssa.FieldAddr); ok && namedOf(fa.X.Type()) != nil && namedOf(fa.X.Type()).Obj().Name() == "DelegationState" {
					dumped[fieldName(fa.X.Type(), fa.Field)] = prefix
				}
			}
		})
	})
	if len(dumped) < 4 {
		fail("C11.dumpload: only %d dumped delegation tables recognised", len(dumped))
	}
	var lists []string
	for l := range dumped {
		lists = append(lists, l)
	}
	sort.Strings(lists)
	for _, list := range lists {
		prefix := dumped[list]
		fromList := func(v ssa.Value) bool {
			return derivesFrom(v, func(y ssa.Value) bool {
				fs := pathOf(y).FieldString()
				return fs == list || strings.HasSuffix(fs, "."+list) || strings.Contains(fs, list+".")
			})
		}
		var calls []*ssa.Call
		allInstrs(ls, func(ins ssa.Instruction) {
			c, ok := ins.(*ssa.Call)
			if !ok || c.Call.StaticCallee() == nil || !strings.HasPrefix(calleeName(c), T) {
				return
			}
			for _, a := range c.Call.Args[1:] {
				if fromList(a) {
					calls = append(calls, c)
					return
				}
			}
		})
		if len(calls) == 0 {
			r.Viol("C11.dumpload", fname(ls), "table "+list+" is loaded", "DumpState fills "+list+" from key prefix "+prefix+" but LoadState never writes its elements back: the imported chain starts without that table", p.pos(ls.Pos()), nil)
			continue
		}
		for _, c := range calls {
			setter := c.Call.StaticCallee()
			// plain setter: key function with the same prefix, then Set; no Get
			okKey, okSet, reads := false, false, ""
			allInstrs(setter, func(ins ssa.Instruction) {
				c2, ok := ins.(*ssa.Call)
				if !ok || c2.Call.StaticCallee() == nil {
					return
				}
				switch n := calleeName(c2); {
				case n == T+"Set":
					okSet = true
				case n == T+"Get" || (strings.HasPrefix(n, T+"Get") && n != T+"GetState"):
					reads = n
				case strings.HasPrefix(n, T+"get") && strings.HasSuffix(n, "Key"):
					allInstrs(c2.Call.StaticCallee(), func(i3 ssa.Instruction) {
						for _, op := range i3.Operands(nil) {
							if k, isK := (*op).(*ssa.Const); isK && k.Value != nil && strings.HasPrefix(strings.Trim(k.Value.ExactString(), "\""), prefix) {
								okKey = true
							}
						}
					})
				case strings.HasPrefix(n, T):
					reads = n
				}
			})
			r.Check(okKey && okSet && reads == "", "C11.dumpload", fname(ls), "table "+list+" is written back through the setter of its own prefix", "key function with prefix "+prefix+" + Set, nothing read or accumulated",
				"LoadState books "+list+" through "+fname(setter)+" at "+p.ipos(c)+", which is not the plain setter of prefix "+prefix+" (it reads or updates other entries): the imported figures are added to what genesis staking already wrote, or land under another key", p.ipos(c))
		}
	}
}

// ---- <prop>.options -------------------------------------------------------------------------------------------------
//
// A configuration update validates the option object it is about to persist: nothing is written into the object between
// the Validate call and the Set*Options call, and the persisted value is that very object. An assignment of the proposed
// value after the validation means the old options were validated and the new ones are stored unchecked.
func checkOptionsValidated(r *Run, rule string, validator string, floor int) {
	p := r.P
	vfn := p.MustFn("(*data/governance.Store)." + validator)
	n := 0
	for _, site := range staticCallers(p)[vfn] {
		fn := site.Parent()
		if fnPkg(fn) == nil || fnPkg(fn).Path() != Mod+"/action" {
			continue
		}
		c, ok := site.(*ssa.Call)
		if !ok || len(c.Call.Args) < 2 {
			continue
		}
		n++
		obj := resolveLoad(c.Call.Args[1])
		after := reachFromInstr(c, nil, nil)
		late := ""
		persisted := false
		for ins := range after {
			switch x := ins.(type) {
			case *ssa.Store:
				if fa, isF := x.Addr.(*ssa.FieldAddr); isF && resolveLoad(pathRootValue(fa)) == obj {
					if late == "" || p.ipos(ins) < late {
						late = p.ipos(ins)
					}
				}
			case *ssa.Call:
				if sc := x.Call.StaticCallee(); sc != nil && strings.HasPrefix(sc.Name(), "Set") && strings.HasSuffix(sc.Name(), "Options") || sc != nil && sc.Name() == "SetFeeOption" {
					for _, a := range x.Call.Args[1:] {
						if ld, isL := a.(*ssa.UnOp); isL && ld.Op == token.MUL && resolveLoad(ld.X) == obj {
							persisted = true
						}
					}
				}
			}
		}
		r.Check(late == "" && persisted, rule, fname(fn), "the validated option object is the one persisted, unchanged", validator+"(obj) ... Set*Options(*obj) with no write to obj in between",
			func() string {
				if late != "" {
					return "the option object is written at " + late + " after " + validator + " checked it (" + p.ipos(c) + "): the old options are validated, the proposed value is stored unchecked"
				}
				return "the object checked by " + validator + " at " + p.ipos(c) + " is not the one handed to Set*Options"
			}(), p.ipos(c))
	}
	if n < floor {
		fail("%s: only %d update functions call %s (expected at least %d)", rule, n, validator, floor)
	}
}

// pathRootValue: the base object of a (nested) field address.
func pathRootValue(fa *ssa.FieldAddr) ssa.Value {
	v := fa.X
	for {
		switch x := v.(type) {
		case *ssa.FieldAddr:
			v = x.X
			continue
		}
		return v
	}
}

// ---- C08.rebuild (maps) ---------------------------------------------------------------------------------------------
//
// A map held by a one-per-node object and filled by the block hooks is derived state: a restarted node starts with an empty
// one. The running node therefore has to re-create it in the block hooks too, otherwise it keeps entries the restarted node
// never had (and the unconditional-reset rule above has nothing to look at once the reset is gone).
func checkHookMapsRecreated(r *Run, rule, onlyType string) {
	p := r.P
	singles := singletonTypes(p)
	roots := p.Roots()
	hooks, par := p.Reach(roots["begin"], roots["end"])
	if os.Getenv("OLINT_MAP_PROBE") != "" {
		for f := p.Fn("(*data/balance.CurrencySet).Register"); f != nil; f = par[f] {
			fmt.Println("CHAIN", fname(f))
		}
	}
	upd, reset := map[string]string{}, map[string]bool{}
	key := func(v ssa.Value) string {
		fa, ok := v.(*ssa.FieldAddr)
		if !ok {
			return ""
		}
		if n := namedOf(fa.X.Type()); n != nil && singles[tname(n)] && !isLocalAddr(fa.X) {
			return tname(n) + "." + fieldName(fa.X.Type(), fa.Field)
		}
		return ""
	}
	for _, fn := range sortedFns(hooks) {
		if fn.Blocks == nil {
			continue
		}
		allInstrs(fn, func(ins ssa.Instruction) {
			switch x := ins.(type) {
			case *ssa.MapUpdate:
				if ld, ok := x.Map.(*ssa.UnOp); ok {
					if k := key(ld.X); k != "" && upd[k] == "" && !onlyOnFreshReceivers(p, fn, ld.X, hooks) {
						upd[k] = fname(fn) + " at " + p.ipos(ins)
					}
				}
			case *ssa.Store:
				if _, isMk := x.Val.(*ssa.MakeMap); isMk {
					if k := key(x.Addr); k != "" && !lazyInitStore(fn, x) {
						reset[k] = true
					}
				}
			}
		})
	}
	var ks []string
	for k := range upd {
		ks = append(ks, k)
	}
	sort.Strings(ks)
	n := 0
	for _, k := range ks {
		if onlyType != "" && !strings.HasPrefix(k, onlyType+".") {
			continue
		}
		if strings.HasPrefix(k, "vm.") {
			continue // EVM object cache: filled by transactions, emptied by Finalise / Reset (C17.cache)
		}
		n++
		r.Check(reset[k], rule, k, "a map filled by the block hooks is re-created by the block hooks", "a store of a fresh map to the field on the BeginBlock/EndBlock path",
			"the in-memory map "+k+" is filled in the block hooks ("+upd[k]+") but never re-created there: a node that keeps running accumulates entries that a node restarted from disk does not have, and from then on they answer differently", "")
	}
	if n < 2 {
		fail("%s: only %d hook-filled maps found", rule, n)
	}
}

// checkRebuildersCalled: a function that re-creates per-block state is itself run on every path of its callers, up to the
// block hook: a rebuild skipped under a condition on in-memory state keeps the previous block's content on the running node.
func checkRebuildersCalled(r *Run, rule string, rebuilders map[*ssa.Function]string, hooks map[*ssa.Function]bool) {
	p := r.P
	work := sortedFns(func() map[*ssa.Function]bool {
		m := map[*ssa.Function]bool{}
		for f := range rebuilders {
			m[f] = true
		}
		return m
	}())
	seen := map[*ssa.Function]bool{}
	n := 0
	for len(work) > 0 {
		f := work[0]
		work = work[1:]
		if seen[f] {
			continue
		}
		seen[f] = true
		for _, site := range staticCallers(p)[f] {
			g := site.Parent()
			if !hooks[g] || g == f {
				continue
			}
			n++
			first := g.Blocks[0].Instrs[0]
			skipped := ""
			isSite := func(i ssa.Instruction) bool { return i == ssa.Instruction(site) }
			if first != ssa.Instruction(site) {
				for i2 := range reachFromInstr(first, nil, isSite) {
					if _, isRet := i2.(*ssa.Return); isRet {
						skipped = p.ipos(i2)
					}
				}
			}
			if skipped != "" {
				// skipping is a divergence only when the deciding condition reads memory the node itself keeps between
				// blocks; a condition on the block (height, fork parameters, request) is the same on every node
				mem := ""
				for _, b := range g.Blocks {
					iff := blockIf(b)
					if iff == nil {
						continue
					}
					// the If decides when its successors differ in whether the call can still be skipped / reached
					type outcome struct{ skip, call bool }
					var outs []outcome
					for _, sc := range b.Succs {
						if len(sc.Instrs) == 0 {
							continue
						}
						var o outcome
						h := sc.Instrs[0]
						if isSite(h) {
							o.call = true
						} else {
							if _, isRet := h.(*ssa.Return); isRet {
								o.skip = true
							}
							for i2 := range reachFromInstr(h, nil, isSite) {
								if _, isRet := i2.(*ssa.Return); isRet {
									o.skip = true
								}
							}
							if pathReaches(g, h, isSite, nil) {
								o.call = true
							}
						}
						outs = append(outs, o)
					}
					if len(outs) != 2 || outs[0] == outs[1] {
						continue
					}
					if derivesFrom(iff.Cond, func(y ssa.Value) bool {
						ld, ok := y.(*ssa.UnOp)
						if !ok || ld.Op != token.MUL {
							return false
						}
						fa, ok := ld.X.(*ssa.FieldAddr)
						if !ok {
							return false
						}
						nn := namedOf(fa.X.Type())
						return nn != nil && mutableSingletonField(p)[tname(nn)+"."+fieldName(fa.X.Type(), fa.Field)]
					}) {
						mem = p.ipos(iff)
					}
				}
				if mem == "" {
					r.OK(rule, fname(g), "call of "+f.Name()+" ("+rebuilders[f]+") is skipped only by block data", "the deciding condition reads no field the node keeps in memory between blocks")
					continue
				}
				skipped += ", decided at " + mem + " by a field kept in memory between blocks"
			}
			r.Check(skipped == "", rule, fname(g), "call of "+f.Name()+" ("+rebuilders[f]+") runs on every path", "no return of the caller is reachable without the call",
				fname(g)+" can return (at "+skipped+") without calling "+fname(f)+" at "+p.ipos(site)+": the per-block state "+rebuilders[f]+" is then left as the previous block built it, which a node restarted in between does not have", p.ipos(site))
			if skipped == "" {
				if _, ok := rebuilders[g]; !ok {
					rebuilders[g] = rebuilders[f]
				}
				work = append(work, g)
			}
		}
	}
	r.Extra["rebuilder_call_sites"] = n
	if n < 2 {
		fail("%s: only %d call sites of per-block rebuild functions found", rule, n)
	}
}

var mutableSingletonCache map[string]bool

// mutableSingletonField: fields of one-per-node objects written on the consensus path.
func mutableSingletonField(p *Program) map[string]bool {
	if mutableSingletonCache != nil {
		return mutableSingletonCache
	}
	cons, _ := p.Reach(p.ConsensusRoots()...)
	w, _ := singletonFieldAccess(p, cons, singletonTypes(p))
	res := map[string]bool{}
	for k := range w {
		res[k] = true
	}
	mutableSingletonCache = res
	return res
}

// onlyOnFreshReceivers: the field address is based on fn's receiver, and every call of fn from the given scope passes an
// object created on the spot (a constructor result or a local), i.e. not the one-per-node object.
func onlyOnFreshReceivers(p *Program, fn *ssa.Function, addr ssa.Value, scope map[*ssa.Function]bool) bool {
	if fn.Signature.Recv() == nil || len(fn.Params) == 0 || pathOf(addr).Root != ssa.Value(fn.Params[0]) {
		return false
	}
	n := 0
	for _, site := range staticCallers(p)[fn] {
		if !scope[site.Parent()] {
			continue
		}
		n++
		switch x := pathOf(site.Common().Args[0]).Root.(type) {
		case *ssa.Alloc:
		case *ssa.Call:
			if sc := x.Call.StaticCallee(); sc == nil || !strings.HasPrefix(sc.Name(), "New") {
				return false
			}
		default:
			return false
		}
	}
	return n > 0
}

// probeMapFields lists map-typed fields of one-per-node objects updated on the consensus path and where they are reset.
func probeMapFields(r *Run) {
	p := r.P
	singles := singletonTypes(p)
	cons, _ := p.Reach(p.ConsensusRoots()...)
	type info struct{ upd, reset []string }
	m := map[string]*info{}
	get := func(k string) *info {
		if m[k] == nil {
			m[k] = &info{}
		}
		return m[k]
	}
	for _, fn := range sortedFns(cons) {
		if fn.Blocks == nil {
			continue
		}
		allInstrs(fn, func(ins ssa.Instruction) {
			switch x := ins.(type) {
			case *ssa.MapUpdate:
				if ld, ok := x.Map.(*ssa.UnOp); ok {
					if fa, ok := ld.X.(*ssa.FieldAddr); ok {
						if n := namedOf(fa.X.Type()); n != nil && singles[tname(n)] {
							get(tname(n) + "." + fieldName(fa.X.Type(), fa.Field)).upd = append(get(tname(n)+"."+fieldName(fa.X.Type(), fa.Field)).upd, fname(fn))
						}
					}
				}
			case *ssa.Store:
				if _, isMk := x.Val.(*ssa.MakeMap); isMk {
					if fa, ok := x.Addr.(*ssa.FieldAddr); ok {
						if n := namedOf(fa.X.Type()); n != nil && singles[tname(n)] {
							get(tname(n) + "." + fieldName(fa.X.Type(), fa.Field)).reset = append(get(tname(n)+"."+fieldName(fa.X.Type(), fa.Field)).reset, fname(fn))
						}
					}
				}
			}
		})
	}
	var ks []string
	for k := range m {
		ks = append(ks, k)
	}
	sort.Strings(ks)
	for _, k := range ks {
		fmt.Printf("MAPFIELD %s upd=%v reset=%v\n", k, uniq(m[k].upd), uniq(m[k].reset))
	}
}

// ---- C06.onestate ---------------------------------------------------------------------------------------------------
//
// The transaction session lives in the State object the ABCI layer created for the block. A second State made on the
// handler path (NewState, WithGas, WithoutGas copy the cache pointer but not the session) writes past the session: its
// writes survive the discard of a failed transaction.
func checkNoDerivedState(r *Run) {
	p := r.P
	roots := p.Roots()
	fns, _ := p.Reach(roots["deliver"], roots["check"])
	makers := map[string]bool{"storage.NewState": true, "(*storage.State).WithGas": true, "(*storage.State).WithoutGas": true, "(*storage.State).WithGasStore": true}
	for m := range makers {
		if p.Fn(m) == nil {
			fail("anchor symbol missing: %s", m)
		}
	}
	n := 0
	for _, fn := range sortedFns(fns) {
		if fn.Blocks == nil || fn == roots["deliver"] || fn == roots["check"] {
			continue
		}
		if pk := fnPkg(fn); pk != nil && pk.Path() == Mod+"/storage" {
			continue
		}
		n++
		allInstrs(fn, func(ins ssa.Instruction) {
			if c, ok := ins.(ssa.CallInstruction); ok && makers[calleeName(c)] {
				r.Viol("C06.onestate", fname(fn), "call "+calleeName(c), "a transaction handler path creates a second State over the block's cache at "+p.ipos(ins)+": the new object has no transaction session, so stores bound to it write straight into the block cache and their writes survive when the transaction fails and its session is discarded", p.ipos(ins), nil)
			}
		})
	}
	r.Extra["handler_path_functions_scanned_for_state_creation"] = n
	if n < 500 {
		fail("C06.onestate: only %d functions on the transaction paths", n)
	}
	r.OK("C06.onestate", "", itoa(int64(n))+" functions on the CheckTx/DeliverTx paths", "none creates or derives a storage.State (NewState, WithGas, WithoutGas, WithGasStore): every store write goes through the State that holds the transaction session")
}

// ---- <prop>.fresh-session -------------------------------------------------------------------------------------------
//
// Every BeginSession hands out a session object allocated for the occasion, with its own empty overlay. A pooled or
// partially cleared session keeps the writes of the previous (possibly discarded) transaction readable.
func checkSessionFresh(r *Run, rule string) {
	p := r.P
	bs := p.MustFn("(*storage.sessionCache).BeginSession")
	bad := ""
	rets := returnsOf(bs)
	if len(rets) == 0 {
		bad = "no return"
	}
	for _, ret := range rets {
		v := ret.Results[0]
		if mi, ok := v.(*ssa.MakeInterface); ok {
			v = mi.X
		}
		a, ok := v.(*ssa.Alloc)
		if !ok || !a.Heap {
			bad = "the session returned at " + p.ipos(ret) + " is not allocated by this call (a kept or pooled object)"
			continue
		}
		for _, f := range []string{"store", "keys", "done"} {
			fresh := false
			for _, u := range *a.Referrers() {
				fa, ok := u.(*ssa.FieldAddr)
				if !ok || fieldName(fa.X.Type(), fa.Field) != f {
					continue
				}
				for _, u2 := range *fa.Referrers() {
					if st, ok := u2.(*ssa.Store); ok {
						switch y := st.Val.(type) {
						case *ssa.MakeMap, *ssa.MakeSlice:
							fresh = dominatesInstr(st, ret)
						case *ssa.Slice:
							// make([]T, 0, <const>) is a slice of a new array
							if _, isNew := y.X.(*ssa.Alloc); isNew {
								fresh = dominatesInstr(st, ret)
							}
						}
					}
				}
			}
			if !fresh {
				bad = "field " + f + " of the new session is not a fresh empty container"
			}
		}
	}
	r.Check(bad == "", rule, fname(bs), "each session is a new object with its own empty overlay", "every return yields a cacheSession allocated in the call, store/keys/done freshly made",
		"BeginSession: "+bad+": the overlay of an earlier transaction, discarded ones included, stays readable by the transactions after it", p.pos(bs.Pos()))
}

// ---- C04.keysize ----------------------------------------------------------------------------------------------------
//
// A fixed-size key is built from the signer bytes only when there are exactly that many of them. copy() silently truncates,
// so a test on its result (or no test) accepts over-long encodings of the same key: several byte strings then name one signer.
func checkKeySize(r *Run) {
	p := r.P
	n := 0
	for _, name := range []string{"(data/keys.PublicKey).GetHandler", "(data/keys.PrivateKey).GetHandler"} {
		fn := p.MustFn(name)
		allInstrs(fn, func(ins ssa.Instruction) {
			c, ok := ins.(*ssa.Call)
			if !ok {
				return
			}
			b, isB := c.Call.Value.(*ssa.Builtin)
			if !isB || b.Name() != "copy" {
				return
			}
			sl, ok := c.Call.Args[0].(*ssa.Slice)
			if !ok {
				return
			}
			pt, ok := sl.X.Type().Underlying().(*types.Pointer)
			if !ok {
				return
			}
			arr, ok := pt.Elem().Underlying().(*types.Array)
			if !ok {
				return
			}
			src := pathOf(c.Call.Args[1])
			if !strings.HasSuffix(src.FieldString(), "Data") {
				return
			}
			n++
			size := arr.Len()
			edges := condEdges(fn, func(cond ssa.Value, _ *ssa.If) int {
				v, flip := stripNot(cond)
				bo, ok := v.(*ssa.BinOp)
				if !ok || (bo.Op != token.EQL && bo.Op != token.NEQ) {
					return 0
				}
				k, isK := intConst(bo.Y)
				if !isK || k != size {
					return 0
				}
				lc, ok := bo.X.(*ssa.Call)
				if !ok {
					return 0
				}
				if lb, isLB := lc.Call.Value.(*ssa.Builtin); !isLB || lb.Name() != "len" || !samePath(lc.Call.Args[0], c.Call.Args[1]) {
					return 0
				}
				pol := 1
				if bo.Op == token.NEQ {
					pol = -1
				}
				if flip {
					pol = -pol
				}
				return pol
			})
			okv := len(edges) > 0 && !reachWithout(fn, edges)[c.Block()]
			r.Check(okv, "C04.keysize", fname(fn), "a "+itoa(size)+"-byte key is copied only from exactly "+itoa(size)+" bytes", "copy into the key array is reachable only through len(Data) == "+itoa(size),
				"the key array is filled at "+p.ipos(c)+" without an exact length test on the source in front of it: copy truncates, so an over-long encoding is accepted as the key made of its first "+itoa(size)+" bytes and two different signer encodings verify as the same signer", p.ipos(c))
		})
	}
	if n < 4 {
		fail("C04.keysize: only %d fixed-size key copies found", n)
	}
}

// ---- <prop>.btcdelta ------------------------------------------------------------------------------------------------
//
// The bitcoin tracker records a pending process as (ProcessType, ProcessBalance) next to CurrentBalance. The handlers that
// open a process fix the direction: a lock sets ProcessBalance = CurrentBalance + x, a redeem CurrentBalance - x. Every
// later difference of the two fields is a positive amount only in the direction its process type implies, so a site that
// computes ProcessBalance - CurrentBalance must be reachable only for the growing type, and the reverse difference only
// for the shrinking type. (The sign itself is a runtime quantity; the pairing of direction and type guard is structural.)
func checkBtcDelta(r *Run, rule string) {
	p := r.P
	isFieldLoadOf := func(v ssa.Value, f string) (ssa.Value, bool) {
		ld, ok := resolveLoad(v).(*ssa.UnOp)
		if !ok || ld.Op != token.MUL {
			return nil, false
		}
		fa, ok := ld.X.(*ssa.FieldAddr)
		if !ok || fieldName(fa.X.Type(), fa.Field) != f || namedOf(fa.X.Type()) == nil || tname(namedOf(fa.X.Type())) != "data/bitcoin.Tracker" {
			return nil, false
		}
		return fa.X, true
	}
	var fns []*ssa.Function
	for fn := range p.Fns {
		if pk := fnPkg(fn); pk != nil && pk.Path() == Mod+"/action/btc" && fn.Blocks != nil {
			fns = append(fns, fn)
		}
	}
	sort.Slice(fns, func(i, j int) bool { return fname(fns[i]) < fname(fns[j]) })
	// writers: process type constant -> direction
	dir := map[int64]int{}
	for _, fn := range fns {
		d, k, haveK := 0, int64(0), false
		allInstrs(fn, func(ins ssa.Instruction) {
			st, ok := ins.(*ssa.Store)
			if !ok {
				return
			}
			fa, ok := st.Addr.(*ssa.FieldAddr)
			if !ok || namedOf(fa.X.Type()) == nil || tname(namedOf(fa.X.Type())) != "data/bitcoin.Tracker" {
				return
			}
			switch fieldName(fa.X.Type(), fa.Field) {
			case "ProcessBalance":
				if bo, ok := st.Val.(*ssa.BinOp); ok {
					if _, isCB := isFieldLoadOf(bo.X, "CurrentBalance"); isCB {
						switch bo.Op {
						case token.ADD:
							d = +1
						case token.SUB:
							d = -1
						}
					}
				}
			case "ProcessType":
				if c, isC := intConst(st.Val); isC {
					k, haveK = c, true
				}
			}
		})
		if d != 0 && haveK {
			dir[k] = d
		}
	}
	if len(dir) < 2 {
		fail("%s: the handlers that open a lock / redeem process were not recognised (%d)", rule, len(dir))
	}
	n := 0
	for _, fn := range fns {
		allInstrs(fn, func(ins ssa.Instruction) {
			bo, ok := ins.(*ssa.BinOp)
			if !ok || bo.Op != token.SUB {
				return
			}
			_, xp := isFieldLoadOf(bo.X, "ProcessBalance")
			_, yc := isFieldLoadOf(bo.Y, "CurrentBalance")
			_, xc := isFieldLoadOf(bo.X, "CurrentBalance")
			_, yp := isFieldLoadOf(bo.Y, "ProcessBalance")
			d := 0
			switch {
			case xp && yc:
				d = +1
			case xc && yp:
				d = -1
			default:
				return
			}
			n++
			var want []int64
			for k, kd := range dir {
				if kd == d {
					want = append(want, k)
				}
			}
			edges := condEdges(fn, func(cond ssa.Value, _ *ssa.If) int {
				v, flip := stripNot(cond)
				c, ok := v.(*ssa.BinOp)
				if !ok || (c.Op != token.EQL && c.Op != token.NEQ) {
					return 0
				}
				if _, isPT := isFieldLoadOf(c.X, "ProcessType"); !isPT {
					return 0
				}
				k, isK := intConst(c.Y)
				if !isK {
					return 0
				}
				match := false
				for _, w := range want {
					if w == k {
						match = true
					}
				}
				if !match {
					return 0
				}
				pol := 1
				if c.Op == token.NEQ {
					pol = -1
				}
				if flip {
					pol = -pol
				}
				return pol
			})
			what := map[int]string{+1: "ProcessBalance - CurrentBalance", -1: "CurrentBalance - ProcessBalance"}[d]
			okv := len(edges) > 0 && !reachWithout(fn, edges)[bo.Block()]
			r.Check(okv, rule, fname(fn), what+" is computed only for the process type that moves the balance that way", "the difference is reachable only through ProcessType == the type whose opening handler set ProcessBalance on that side of CurrentBalance",
				what+" at "+p.ipos(bo)+" can be reached for a process of the other direction: the difference is then negative, and crediting a negative amount takes the coins from the process owner instead of returning or minting them", p.ipos(bo))
		})
	}
	if n < 2 {
		fail("%s: only %d tracker balance differences found", rule, n)
	}
}

// ---- <prop>.suicide -------------------------------------------------------------------------------------------------
//
// SELFDESTRUCT pays the balance out to the beneficiary before the EVM calls Suicide; the adapter must take it from the dying
// account in the same step (balance := 0 on the object returned by the lookup). Without it the same coins are paid out
// again by every later SELFDESTRUCT or transfer of that account inside the transaction.
func checkSuicideZeroes(r *Run, rule string) {
	p := r.P
	fn := p.MustFn("(*vm.CommitStateDB).Suicide")
	var obj ssa.Value
	allInstrs(fn, func(ins ssa.Instruction) {
		if c, ok := ins.(*ssa.Call); ok && calleeName(c) == "(*vm.CommitStateDB).getStateObject" {
			obj = c
		}
	})
	var zero []ssa.Instruction
	allInstrs(fn, func(ins ssa.Instruction) {
		c, ok := ins.(*ssa.Call)
		if !ok || calleeName(c) != "(*vm.stateObject).SetBalance" || c.Call.Args[0] != obj {
			return
		}
		// the amount is a fresh zero: new(big.Int) never written, or big.NewInt(0)
		switch a := c.Call.Args[1].(type) {
		case *ssa.Alloc:
			written := false
			for _, u := range *a.Referrers() {
				if u != ssa.Instruction(c) {
					written = true
				}
			}
			if !written {
				zero = append(zero, c)
			}
		case *ssa.Call:
			if calleeName(a) == "math/big.NewInt" {
				if k, isK := intConst(a.Call.Args[0]); isK && k == 0 {
					zero = append(zero, c)
				}
			}
		}
	})
	okv := obj != nil
	bad := "the account lookup was not found"
	if okv {
		for _, ret := range returnsOf(fn) {
			if k, isK := boolConst(ret.Results[0]); isK && !k {
				continue
			}
			dom := false
			for _, z := range zero {
				if dominatesInstr(z, ret) {
					dom = true
				}
			}
			if !dom {
				okv, bad = false, "the success return at "+p.ipos(ret)+" is reachable without SetBalance(0) on the looked-up account"
			}
		}
	}
	r.Check(okv, rule, fname(fn), "a self-destructed account's balance is zeroed in the same step", "SetBalance(fresh zero) on the looked-up object dominates every `return true`",
		"Suicide: "+bad+": the EVM has already credited the beneficiary, so the dying account still holds the coins it just paid out and pays them again on the next SELFDESTRUCT or transfer in the transaction", p.pos(fn.Pos()))
}

// ---- C16.dirtycount -------------------------------------------------------------------------------------------------
//
// The journal keeps, per address, the number of live entries that touched it; revert takes one off per undone entry and
// forgets the address at zero. That only works if addDirty adds one on every path (first touch or not): a set-like addDirty
// makes the first reverted entry drop the address, and Finalise then skips the account's earlier, kept changes.
func checkDirtyCount(r *Run, rule string) {
	p := r.P
	isChanges := func(addr ssa.Value) bool {
		fa, ok := addr.(*ssa.FieldAddr)
		return ok && fieldName(fa.X.Type(), fa.Field) == "changes"
	}
	step := func(fn *ssa.Function, op token.Token) []ssa.Instruction {
		var res []ssa.Instruction
		allInstrs(fn, func(ins ssa.Instruction) {
			st, ok := ins.(*ssa.Store)
			if !ok || !isChanges(st.Addr) {
				return
			}
			if bo, isB := st.Val.(*ssa.BinOp); isB && bo.Op == op {
				if k, isK := intConst(bo.Y); isK && k == 1 {
					if ld, isL := bo.X.(*ssa.UnOp); isL && isChanges(ld.X) {
						res = append(res, ins)
					}
				}
			}
			// a new entry created with count 1 is the increment from zero
			if op == token.ADD {
				if k, isK := intConst(st.Val); isK && k == 1 {
					if _, isLocal := st.Addr.(*ssa.FieldAddr).X.(*ssa.Alloc); isLocal {
						res = append(res, ins)
					}
				}
			}
		})
		return res
	}
	add := p.MustFn("(*vm.journal).addDirty")
	incs := step(add, token.ADD)
	isInc := func(i ssa.Instruction) bool {
		for _, x := range incs {
			if x == i {
				return true
			}
		}
		return false
	}
	skipped := ""
	for i2 := range reachFromInstr(add.Blocks[0].Instrs[0], nil, isInc) {
		if _, isRet := i2.(*ssa.Return); isRet {
			skipped = p.ipos(i2)
		}
	}
	if isInc(add.Blocks[0].Instrs[0]) {
		skipped = ""
	}
	r.Check(len(incs) > 0 && skipped == "", rule, fname(add), "the per-address entry count grows by one on every path", "changes++ (or a new entry with count 1) on every path to the return",
		"addDirty can return (at "+skipped+") without adding one to the address's count: the count no longer equals the number of live journal entries, so reverting one entry of an address that was changed before drops it from the dirty list and Finalise does not persist its earlier changes", p.pos(add.Pos()))
	// the revert side, found by role: the functions journal.revert runs (itself and its same-package helpers, two levels)
	rev := p.MustFn("(*vm.journal).revert")
	fns := []*ssa.Function{rev}
	seenF := map[*ssa.Function]bool{rev: true}
	for d, frontier := 0, []*ssa.Function{rev}; d < 2; d++ {
		var next []*ssa.Function
		for _, f := range frontier {
			allInstrs(f, func(ins ssa.Instruction) {
				if g := staticCallee(ins); g != nil && g.Blocks != nil && g.Pkg == rev.Pkg && !seenF[g] {
					if g.Signature.Recv() != nil && strings.HasSuffix(tname(g.Signature.Recv().Type()), "vm.journal") {
						seenF[g] = true
						fns = append(fns, g)
						next = append(next, g)
					}
				}
			})
		}
		frontier = next
	}
	nDec := 0
	for _, f := range fns {
		nDec += len(step(f, token.SUB))
	}
	r.Check(nDec > 0, rule, fname(rev), "reverting an entry takes one off its address's count", "changes-- on the revert path",
		"reverting a journal entry no longer takes one off the address's entry count: the count stops matching the live entries", p.pos(rev.Pos()))
	// an address leaves the dirty list only when its count reached zero
	isCount := func(v ssa.Value) bool {
		return derivesFrom(v, func(y ssa.Value) bool {
			if c, ok := y.(*ssa.Call); ok && calleeName(c) == "(*vm.journal).getDirty" {
				return true
			}
			ld, ok := y.(*ssa.UnOp)
			return ok && ld.Op == token.MUL && isChanges(ld.X)
		})
	}
	nDel := 0
	for _, f := range fns {
		f := f
		zero := condEdges(f, func(cond ssa.Value, _ *ssa.If) int {
			v, flip := stripNot(cond)
			bo, ok := v.(*ssa.BinOp)
			if !ok {
				return 0
			}
			var op token.Token
			if k, isK := intConst(bo.Y); isK && k == 0 && isCount(bo.X) {
				op = bo.Op
			} else if k, isK := intConst(bo.X); isK && k == 0 && isCount(bo.Y) {
				op = mirror(bo.Op)
			} else {
				return 0
			}
			pol := 0
			switch op {
			case token.EQL, token.LEQ:
				pol = 1
			case token.NEQ, token.GTR:
				pol = -1
			}
			if flip {
				pol = -pol
			}
			return pol
		})
		live := reachWithout(f, zero)
		allInstrs(f, func(ins ssa.Instruction) {
			c, ok := ins.(*ssa.Call)
			if !ok || calleeName(c) != "(*vm.journal).deleteDirty" {
				return
			}
			nDel++
			r.Check(len(zero) > 0 && !live[c.Block()], rule, fname(f), "an address leaves the dirty list only when its entry count is zero", "deleteDirty behind a count == 0 test",
				"a reverted entry removes its address from the dirty list although earlier, still live entries of the same address remain: Finalise then skips the address and its surviving changes (nonce bump, gas payment) are never written", p.ipos(c))
		})
	}
	if nDel == 0 {
		r.Viol(rule, fname(rev), "dirty list maintenance on revert", "journal.revert never removes an address from the dirty list: every reverted address stays dirty", p.pos(rev.Pos()), nil)
	}
}

// ---- C02.btcend -----------------------------------------------------------------------------------------------------
//
// Sibling agreement: the handlers that end a bitcoin tracker process (ProcessType = none) must leave no per-process field
// behind. The per-process fields are the tracker fields any of these handlers resets to nil / 0 / empty; each handler has
// to reset all of them (votes left over from a finished process count towards the next one).
func checkBtcProcessEnd(r *Run, rule string) {
	p := r.P
	isTrackerField := func(addr ssa.Value) (string, bool) {
		fa, ok := addr.(*ssa.FieldAddr)
		if !ok || namedOf(fa.X.Type()) == nil || tname(namedOf(fa.X.Type())) != "data/bitcoin.Tracker" {
			return "", false
		}
		return fieldName(fa.X.Type(), fa.Field), true
	}
	isEmpty := func(v ssa.Value) bool {
		switch x := v.(type) {
		case *ssa.Const:
			if x.Value == nil {
				return true
			}
			k, isK := intConst(x)
			return isK && k == 0
		case *ssa.Slice:
			if a, ok := x.X.(*ssa.Alloc); ok {
				if pt, ok := a.Type().Underlying().(*types.Pointer); ok {
					if arr, ok := pt.Elem().Underlying().(*types.Array); ok && arr.Len() == 0 {
						return true
					}
				}
			}
		case *ssa.MakeSlice:
			k, isK := intConst(x.Len)
			return isK && k == 0
		}
		return false
	}
	cleared := map[*ssa.Function]map[string]bool{}
	union := map[string]bool{}
	var enders []*ssa.Function
	for fn := range p.Fns {
		if pk := fnPkg(fn); pk == nil || pk.Path() != Mod+"/action/btc" || fn.Blocks == nil {
			continue
		}
		ends := false
		cl := map[string]bool{}
		allInstrs(fn, func(ins ssa.Instruction) {
			st, ok := ins.(*ssa.Store)
			if !ok {
				return
			}
			f, ok := isTrackerField(st.Addr)
			if !ok {
				return
			}
			if f == "ProcessType" {
				if k, isK := intConst(st.Val); isK && k == 0 {
					ends = true
				}
				return
			}
			if isEmpty(st.Val) {
				cl[f] = true
			}
		})
		if ends {
			enders = append(enders, fn)
			cleared[fn] = cl
			for f := range cl {
				union[f] = true
			}
		}
	}
	if len(enders) < 2 || len(union) < 4 {
		fail("%s: process-ending handlers not recognised (%d handlers, %d fields)", rule, len(enders), len(union))
	}
	sort.Slice(enders, func(i, j int) bool { return fname(enders[i]) < fname(enders[j]) })
	var fields []string
	for f := range union {
		fields = append(fields, f)
	}
	sort.Strings(fields)
	for _, fn := range enders {
		var missing []string
		for _, f := range fields {
			if !cleared[fn][f] {
				missing = append(missing, f)
			}
		}
		r.Check(len(missing) == 0, rule, fname(fn), "ending a tracker process resets every per-process field", strings.Join(fields, ", "),
			fname(fn)+" sets ProcessType to none but leaves "+strings.Join(missing, ", ")+" as they were, while a sibling handler resets them: what is left (votes, owner, amounts) is taken for part of the next process on the same tracker", p.pos(fn.Pos()))
	}
}

// ---- C13.schedule (snapshot on every cycle end) ---------------------------------------------------------------------
//
// The year counter's snapshot (TillLastCycle) is taken inside addYearDistributedRewards at the last block of a cycle. The
// next cycle's per-block amount is computed from it, so the call must happen for every block of a running schedule —
// whatever was consumed, zero included. Only burn-out or a storage error may skip it.
func checkConsumeAlwaysBooks(r *Run) {
	p := r.P
	fn := p.MustFn("(*data/rewards.RewardCumulativeStore).ConsumeRewards")
	var call ssa.Instruction
	allInstrs(fn, func(ins ssa.Instruction) {
		if c, ok := ins.(*ssa.Call); ok && calleeName(c) == "(*data/rewards.RewardCumulativeStore).addYearDistributedRewards" {
			call = c
		}
	})
	okv := call != nil
	how := "addYearDistributedRewards is no longer called"
	if okv {
		allowed := condEdges(fn, func(cond ssa.Value, _ *ssa.If) int {
			// err != nil
			if pol := -nilCond(cond, func(y ssa.Value) bool { return isErrorType(y.Type()) }); pol != 0 {
				return pol
			}
			// burnedout
			return boolCond(cond, func(y ssa.Value) bool {
				if strings.HasSuffix(pathOf(y).FieldString(), "burnedout") {
					return true
				}
				// ... or through a getter whose every return is that field
				if c, ok := y.(*ssa.Call); ok {
					if sc := c.Call.StaticCallee(); sc != nil && sc.Blocks != nil && inRepo(sc) {
						rets := returnsOf(sc)
						all := len(rets) > 0
						for _, ret := range rets {
							if len(ret.Results) != 1 || !strings.HasSuffix(pathOf(ret.Results[0]).FieldString(), "burnedout") {
								all = false
							}
						}
						return all
					}
				}
				return false
			})
		})
		for i2 := range reachFromInstr(fn.Blocks[0].Instrs[0], allowed, func(i ssa.Instruction) bool { return i == call }) {
			if _, isRet := i2.(*ssa.Return); isRet {
				okv, how = false, "the return at "+p.ipos(i2)+" is reachable without the year booking although the schedule is running and no error occurred"
			}
		}
	}
	r.Check(okv, "C13.schedule", fname(fn), "the year counter (and its cycle-end snapshot) is booked for every block of a running schedule", "addYearDistributedRewards on every path except burn-out and storage errors",
		"ConsumeRewards: "+how+": when that block closes a cycle the snapshot TillLastCycle is not taken, and the next cycle computes its per-block amount from a supply that is partly spent already", p.pos(fn.Pos()))
}

// ---- <prop>.dumpfields ----------------------------------------------------------------------------------------------
//
// Sibling agreement on record fields: whatever field of an exported record the state dump fills, the loader must consume
// (read the field, or hand the whole record on). A loader that rebuilds a record from some of its fields silently replaces
// the others by derived values (the reward interval's LastIndex restarting at 1 is how matured chunks mature twice).
func checkDumpLoadFields(r *Run, rule, dumpName, loadName string) {
	p := r.P
	dump, load := p.MustFn(dumpName), p.MustFn(loadName)
	withClosures := func(fn *ssa.Function) []*ssa.Function {
		res := []*ssa.Function{fn}
		for i := 0; i < len(res); i++ {
			res = append(res, res[i].AnonFuncs...)
		}
		return res
	}
	recType := func(t types.Type) *types.Named {
		if pt, ok := t.Underlying().(*types.Pointer); ok {
			t = pt.Elem()
		}
		n, ok := t.(*types.Named)
		if !ok || n.Obj().Pkg() == nil || n.Obj().Pkg() != fnPkg(dump) {
			return nil
		}
		if _, isS := n.Underlying().(*types.Struct); !isS {
			return nil
		}
		return n
	}
	// the state container (result type of the dump) is not a record
	var container *types.Named
	if dump.Signature.Results().Len() > 0 {
		container = recType(dump.Signature.Results().At(0).Type())
	}
	dumped := map[string]map[string]bool{}
	for _, f := range withClosures(dump) {
		allInstrs(f, func(ins ssa.Instruction) {
			st, ok := ins.(*ssa.Store)
			if !ok {
				return
			}
			fa, ok := st.Addr.(*ssa.FieldAddr)
			if !ok {
				return
			}
			n := recType(fa.X.Type())
			if n == nil || n == container {
				return
			}
			if _, isLocal := fa.X.(*ssa.Alloc); !isLocal {
				return
			}
			if dumped[n.Obj().Name()] == nil {
				dumped[n.Obj().Name()] = map[string]bool{}
			}
			dumped[n.Obj().Name()][fieldName(fa.X.Type(), fa.Field)] = true
		})
	}
	read, whole := map[string]map[string]bool{}, map[string]bool{}
	mark := func(n *types.Named, f string) {
		if read[n.Obj().Name()] == nil {
			read[n.Obj().Name()] = map[string]bool{}
		}
		read[n.Obj().Name()][f] = true
	}
	for _, f := range withClosures(load) {
		allInstrs(f, func(ins ssa.Instruction) {
			switch x := ins.(type) {
			case *ssa.Field:
				if n := recType(x.X.Type()); n != nil {
					mark(n, fieldName(x.X.Type(), x.Field))
				}
			case *ssa.FieldAddr:
				if n := recType(x.X.Type()); n != nil {
					for _, u := range *x.Referrers() {
						if ld, ok := u.(*ssa.UnOp); ok && ld.Op == token.MUL {
							mark(n, fieldName(x.X.Type(), x.Field))
						}
					}
				}
			case *ssa.MakeInterface:
				if n := recType(x.X.Type()); n != nil {
					whole[n.Obj().Name()] = true
				}
			case ssa.CallInstruction:
				for _, a := range x.Common().Args {
					if n := recType(a.Type()); n != nil && n != container {
						whole[n.Obj().Name()] = true
					}
				}
			}
		})
	}
	var names []string
	for n := range dumped {
		names = append(names, n)
	}
	sort.Strings(names)
	if len(names) == 0 {
		fail("%s: no dumped record type recognised in %s", rule, dumpName)
	}
	for _, n := range names {
		var missing []string
		if !whole[n] {
			for f := range dumped[n] {
				if !read[n][f] {
					missing = append(missing, f)
				}
			}
		}
		sort.Strings(missing)
		r.Check(len(missing) == 0, rule, fname(load), "record "+n+": every dumped field is consumed by the loader", "the loader reads each field the dump fills, or stores the record whole",
			fname(load)+" never reads "+n+"."+strings.Join(missing, ", "+n+".")+", which "+fname(dump)+" fills: the imported chain replaces it by a derived value, so the loaded state is not the dumped one", p.pos(load.Pos()))
	}
}

// ---- C15.persist ----------------------------------------------------------------------------------------------------
//
// The finality handler adds the witness's vote to the tracker object it read, then hands that object to a settlement
// helper (mint / burn / refund / fail). The vote exists only in that object until it is stored: every helper must store
// the very object it was given on each of its successful returns — a helper that re-reads the tracker by name and stores
// the copy drops the threshold-crossing vote, and the stored tracker never counts as finalised.
func checkVotePersisted(r *Run) {
	p := r.P
	const setName = "(*data/ethereum.TrackerStore).Set"
	if p.Fn(setName) == nil {
		fail("anchor symbol missing: %s", setName)
	}
	memo := map[string]bool{}
	var persists func(fn *ssa.Function, k int, depth int) (bool, string)
	persists = func(fn *ssa.Function, k int, depth int) (bool, string) {
		if fn.Blocks == nil || k >= len(fn.Params) || depth > 3 {
			return false, "body not available"
		}
		key := fmt.Sprintf("%p/%d", fn, k)
		if v, ok := memo[key]; ok {
			return v, ""
		}
		memo[key] = true
		param := fn.Params[k]
		isPersist := func(ins ssa.Instruction) bool {
			c, ok := ins.(*ssa.Call)
			if !ok {
				return false
			}
			if calleeName(c) == setName {
				return len(c.Call.Args) > 1 && resolveLoad(c.Call.Args[1]) == ssa.Value(param)
			}
			if sc := c.Call.StaticCallee(); sc != nil && inRepo(sc) {
				for j, a := range c.Call.Args {
					if resolveLoad(a) == ssa.Value(param) {
						if ok, _ := persists(sc, j, depth+1); ok {
							return true
						}
					}
				}
			}
			return false
		}
		why := ""
		first := fn.Blocks[0].Instrs[0]
		check := func(i2 ssa.Instruction) {
			if ret, isRet := i2.(*ssa.Return); isRet && returnMayBeSuccess(ret) {
				// `return store.Set(param)` is the persisting call itself
				why = "its successful return at " + p.ipos(ret) + " is reachable without storing the tracker it was given"
			}
		}
		if !isPersist(first) {
			check(first)
			for i2 := range reachFromInstr(first, nil, isPersist) {
				check(i2)
			}
		}
		memo[key] = why == ""
		return why == "", why
	}
	h := p.MustFn("action/eth.runCheckFinality")
	var voted ssa.Value
	allInstrs(h, func(ins ssa.Instruction) {
		if c, ok := ins.(*ssa.Call); ok && calleeName(c) == "(*data/ethereum.Tracker).AddVote" {
			voted = resolveLoad(c.Call.Args[0])
		}
	})
	if voted == nil {
		fail("C15.persist: AddVote not found in runCheckFinality")
	}
	n := 0
	allInstrs(h, func(ins ssa.Instruction) {
		c, ok := ins.(*ssa.Call)
		if !ok {
			return
		}
		sc := c.Call.StaticCallee()
		if sc == nil || fnPkg(sc) == nil || fnPkg(sc).Path() != Mod+"/action/eth" {
			return
		}
		for j, a := range c.Call.Args {
			if resolveLoad(a) != voted {
				continue
			}
			n++
			ok, why := persists(sc, j, 0)
			r.Check(ok, "C15.persist", fname(sc), "the settlement helper stores the tracker object that carries the new vote", "TrackerStore.Set(parameter) before every successful return",
				fname(sc)+": "+why+" (called at "+p.ipos(c)+" with the tracker the vote was just added to): the threshold-crossing vote is lost, the stored tracker never counts as finalised and the next report settles it again", p.ipos(c))
		}
	})
	if n < 6 {
		fail("C15.persist: only %d settlement helpers receive the voted tracker (expected 6)", n)
	}
}

// ---- C15.identity ---------------------------------------------------------------------------------------------------
//
// (name) The tracker store derives a record's key from Tracker.TrackerName, so every Tracker the package builds (the
// constructor and the archive copy made by Clean) must carry the name. (decode) The name is the hash of the submitted
// bytes while the Ethereum transaction is what they decode to: the decoding must consume the whole input (rlp.DecodeBytes),
// otherwise one Ethereum transaction has many valid submissions and as many trackers.
func checkTrackerIdentity(r *Run) {
	p := r.P
	n := 0
	for _, fn := range sortedFns(p.Fns) {
		if pk := fnPkg(fn); pk == nil || pk.Path() != Mod+"/data/ethereum" || fn.Blocks == nil {
			continue
		}
		allInstrs(fn, func(ins ssa.Instruction) {
			a, ok := ins.(*ssa.Alloc)
			if !ok || !a.Heap || namedOf(a.Type()) == nil || tname(namedOf(a.Type())) != "data/ethereum.Tracker" || a.Comment != "complit" {
				return
			}
			named, any := false, false
			for _, u := range *a.Referrers() {
				if fa, ok := u.(*ssa.FieldAddr); ok {
					for _, u2 := range *fa.Referrers() {
						if _, isSt := u2.(*ssa.Store); isSt {
							any = true
							if fieldName(fa.X.Type(), fa.Field) == "TrackerName" {
								named = true
							}
						}
					}
				}
			}
			if !any {
				return // an empty literal is a decoding target, filled from stored bytes
			}
			n++
			r.Check(named, "C15.identity", fname(fn), "a tracker built here carries its name", "TrackerName assigned in the composite literal",
				"the Tracker built at "+p.ipos(a)+" has no TrackerName: TrackerStore.Set files it under the zero name, so Exists(name) on that store stays false and the same Ethereum transaction can be submitted again", p.ipos(a))
		})
	}
	if n < 2 {
		fail("C15.identity: only %d Tracker literals found in data/ethereum", n)
	}
	dt := p.MustFn("chains/ethereum.DecodeTransaction")
	strict, lenient := false, ""
	allInstrs(dt, func(ins ssa.Instruction) {
		switch calleeName(ins) {
		case "github.com/ethereum/go-ethereum/rlp.DecodeBytes":
			strict = true
		case "github.com/ethereum/go-ethereum/rlp.Decode", "(*github.com/ethereum/go-ethereum/rlp.Stream).Decode":
			lenient = p.ipos(ins)
		}
	})
	how := "rlp.DecodeBytes is not called"
	if lenient != "" {
		how = "the stream decoder at " + lenient + " stops after the first value and ignores what follows"
	}
	r.Check(strict && lenient == "", "C15.identity", fname(dt), "the submitted bytes are decoded as exactly one transaction", "rlp.DecodeBytes (rejects trailing input)",
		"DecodeTransaction: "+how+": the same Ethereum transaction with bytes appended decodes identically but hashes to another tracker name, so it can be locked (and minted) once per variant", p.pos(dt.Pos()))
}

// ---- C14.goal -------------------------------------------------------------------------------------------------------
//
// "The funding goal is met" is decided in three handlers (create: reject an initial funding that already meets the goal;
// fund: start the vote; withdraw: refuse while the goal is met). The three comparisons must put the boundary (funds ==
// goal) on the same side: the fund handler's comparison is the definition, the others are normalised to "funds REL goal"
// and must be that relation or its negation. A create that accepts funds == goal yields a proposal that is in FUNDING with
// its goal met, which no later transaction can move.
func checkGoalBoundary(r *Run) {
	p := r.P
	isGoal := func(v ssa.Value) bool {
		return derivesFrom(v, func(y ssa.Value) bool { return strings.HasSuffix(pathOf(y).FieldString(), "FundingGoal") })
	}
	// class: true = boundary counts as met (>= or <), false = boundary counts as not met (> or <=)
	type site struct {
		fn   *ssa.Function
		ins  ssa.Instruction
		incl bool
	}
	var sites []site
	flipOp := map[token.Token]token.Token{token.LSS: token.GTR, token.LEQ: token.GEQ, token.GTR: token.LSS, token.GEQ: token.LEQ}
	add := func(fn *ssa.Function, ins ssa.Instruction, x, y ssa.Value, op token.Token) {
		gx, gy := isGoal(x), isGoal(y)
		if gx == gy {
			return
		}
		if gx { // goal OP funds  ->  funds flip(OP) goal
			op = flipOp[op]
		}
		switch op {
		case token.GEQ, token.LSS:
			sites = append(sites, site{fn, ins, true})
		case token.GTR, token.LEQ:
			sites = append(sites, site{fn, ins, false})
		}
	}
	for _, fn := range sortedFns(p.Fns) {
		if pk := fnPkg(fn); pk == nil || pk.Path() != Mod+"/action/governance" || fn.Blocks == nil {
			continue
		}
		allInstrs(fn, func(ins ssa.Instruction) {
			switch x := ins.(type) {
			case *ssa.Call:
				switch calleeName(x) {
				case "(data/balance.Coin).LessThanCoin":
					add(fn, ins, x.Call.Args[0], x.Call.Args[1], token.LSS)
				case "(data/balance.Coin).LessThanEqualCoin":
					add(fn, ins, x.Call.Args[0], x.Call.Args[1], token.LEQ)
				}
			case *ssa.BinOp:
				if _, ok := flipOp[x.Op]; !ok {
					return
				}
				c, isC := x.X.(*ssa.Call)
				k, isK := intConst(x.Y)
				if !isC || !isK || k != 0 || calleeName(c) != "(*math/big.Int).Cmp" {
					return
				}
				add(fn, ins, c.Call.Args[0], c.Call.Args[1], x.Op)
			}
		})
	}
	var def *site
	for i := range sites {
		if sites[i].fn.Name() == "runFundProposal" {
			def = &sites[i]
		}
	}
	if def == nil || len(sites) < 2 {
		fail("C14.goal: goal comparisons not recognised (%d sites, fund handler %v)", len(sites), def != nil)
	}
	for _, s := range sites {
		if s.ins == def.ins {
			continue
		}
		r.Check(s.incl == def.incl, "C14.goal", fname(s.fn), "funds == goal is on the same side as in the fund handler", "comparison normalised to funds REL goal agrees with "+p.ipos(def.ins),
			"the comparison at "+p.ipos(s.ins)+" treats funds == goal differently from the fund handler ("+p.ipos(def.ins)+"): a proposal can then sit in FUNDING with its goal met (or be refused although it is not met), a state no later transaction resolves — the contribution is neither returned nor distributed", p.ipos(s.ins))
	}
}

// ---- C14.total ------------------------------------------------------------------------------------------------------
//
// The fund store maintains a per-proposal total next to the per-funder records. Readers must take the total from that
// record (a point read sees the open transaction and block); a reader that recomputes it by iterating the per-funder
// records sees committed entries only. Structural form: every key builder the writers use is also used by a point reader.
func checkFundTotalRead(r *Run) {
	p := r.P
	const T = "(*data/governance.ProposalFundStore)."
	reaches := func(fn *ssa.Function, names ...string) bool {
		seen := map[*ssa.Function]bool{}
		var walk func(f *ssa.Function, d int) bool
		walk = func(f *ssa.Function, d int) bool {
			if f == nil || f.Blocks == nil || seen[f] || d > 3 {
				return false
			}
			seen[f] = true
			hit := false
			allInstrs(f, func(ins ssa.Instruction) {
				c, ok := ins.(*ssa.Call)
				if !ok {
					return
				}
				n := calleeName(c)
				for _, w := range names {
					if n == T+w {
						hit = true
					}
				}
				if sc := c.Call.StaticCallee(); sc != nil && strings.HasPrefix(fname(sc), T) && walk(sc, d+1) {
					hit = true
				}
			})
			return hit
		}
		return walk(fn, 0)
	}
	usesKey := func(fn *ssa.Function, kb *ssa.Function) bool {
		u := false
		allInstrs(fn, func(ins ssa.Instruction) {
			if c, ok := ins.(*ssa.Call); ok && c.Call.StaticCallee() == kb {
				u = true
			}
		})
		return u
	}
	var builders []*ssa.Function
	for fn := range p.Fns {
		if pk := fnPkg(fn); pk != nil && pk.Path() == Mod+"/data/governance" && fn.Signature.Recv() == nil && strings.HasPrefix(fn.Name(), "assemble") && strings.Contains(fn.Name(), "Funds") {
			builders = append(builders, fn)
		}
	}
	sort.Slice(builders, func(i, j int) bool { return builders[i].Name() < builders[j].Name() })
	n := 0
	for _, kb := range builders {
		written, readBy := "", ""
		for _, fn := range sortedFns(p.Fns) {
			if !strings.HasPrefix(fname(fn), T) || fn.Blocks == nil || !usesKey(fn, kb) {
				continue
			}
			if reaches(fn, "set", "delete") {
				written = fname(fn)
			} else if reaches(fn, "get") {
				readBy = fname(fn)
			}
		}
		if written == "" {
			continue
		}
		n++
		r.Check(readBy != "", "C14.total", kb.Name(), "a maintained record is read where it is maintained", "a non-writing method of the fund store reads the key with get()",
			"the record under "+kb.Name()+" is kept up to date by "+written+" but no reader takes it from there: the figure is recomputed some other way (an iteration sees committed entries only, so a contribution made earlier in the same block is not counted)", p.pos(kb.Pos()))
	}
	if n < 1 {
		fail("C14.total: no maintained fund record recognised")
	}
}

// ---- C16.accesslist (change flags) ----------------------------------------------------------------------------------
//
// The access-list adders report what they changed (address added, slot added). Every reported change must be journalled
// with the entry whose revert undoes exactly that change: a flag that is dropped leaves the addition in place after a
// revert, and the address or slot stays warm (2500 / 2000 gas cheaper than in the reference).
func checkAccessListFlags(r *Run) {
	p := r.P
	kinds := map[string][]string{"(*vm.accessList).AddAddress": {"DeleteAddress"}, "(*vm.accessList).AddSlot": {"DeleteAddress", "DeleteSlot"}}
	// entry type -> which deleter its revert calls
	undo := map[string]string{}
	for fn := range p.Fns {
		if fn.Name() != "revert" || fn.Signature.Recv() == nil || fnPkg(fn) == nil || fnPkg(fn).Path() != Mod+"/vm" || fn.Blocks == nil {
			continue
		}
		allInstrs(fn, func(ins ssa.Instruction) {
			switch n := calleeName(ins); n {
			case "(*vm.accessList).DeleteAddress", "(*vm.accessList).DeleteSlot":
				undo[tname(fn.Signature.Recv().Type())] = strings.TrimPrefix(n, "(*vm.accessList).")
			}
		})
	}
	if len(undo) < 2 {
		fail("C16.accesslist: journal entries undoing access-list changes not recognised (%d)", len(undo))
	}
	n := 0
	for _, fn := range sortedFns(p.Fns) {
		if fnPkg(fn) == nil || fnPkg(fn).Path() != Mod+"/vm" || fn.Blocks == nil {
			continue
		}
		allInstrs(fn, func(ins ssa.Instruction) {
			c, ok := ins.(*ssa.Call)
			if !ok {
				return
			}
			want, isAdder := kinds[calleeName(c)]
			if !isAdder {
				return
			}
			for k, deleter := range want {
				n++
				// the k-th result
				var flag ssa.Value
				if len(want) == 1 {
					flag = c
				} else {
					for _, u := range *c.Referrers() {
						if ex, ok := u.(*ssa.Extract); ok && ex.Index == k {
							flag = ex
						}
					}
				}
				okv := false
				if flag != nil {
					edges := condEdges(fn, func(cond ssa.Value, _ *ssa.If) int {
						return boolCond(cond, func(y ssa.Value) bool { return y == flag })
					})
					// a journal.append of an entry undone by `deleter`, reachable only through the flag's true edge
					allInstrs(fn, func(i2 ssa.Instruction) {
						a, ok := i2.(*ssa.Call)
						if !ok || calleeName(a) != "(*vm.journal).append" {
							return
						}
						mi, ok := a.Call.Args[1].(*ssa.MakeInterface)
						if !ok || undo[tname(mi.X.Type())] != deleter {
							return
						}
						if len(edges) > 0 && !reachWithout(fn, edges)[a.Block()] {
							okv = true
						}
					})
				}
				what := map[string]string{"DeleteAddress": "address", "DeleteSlot": "slot"}[deleter]
				r.Check(okv, "C16.accesslist", fname(fn), "a reported "+what+" addition is journalled", "journal.append(entry whose revert calls "+deleter+") behind the adder's change flag",
					"the "+what+"-added flag of "+calleeName(c)+" at "+p.ipos(c)+" is not turned into a journal entry: after RevertToSnapshot the "+what+" stays in the access list and later accesses are priced warm where the reference prices them cold", p.ipos(c))
			}
		})
	}
	if n < 3 {
		fail("C16.accesslist: only %d adder results found", n)
	}
}

// ---- C20.name -------------------------------------------------------------------------------------------------------
//
// runCreate refuses a name that exists and then stores the new record under the name NewDomain puts into it. The two are
// the same key only if the name travels unchanged (or is changed the same way) on both routes: the set of non-identity
// functions applied between the message field and the existence test must equal the set applied between the message field
// and the stored Name.
func nameTransforms(v ssa.Value, depth int, out map[string]bool) {
	if depth > 10 || v == nil {
		return
	}
	switch x := resolveLoad(v).(type) {
	case *ssa.Call:
		sc := x.Call.StaticCallee()
		if sc != nil && inRepo(sc) && sc.Blocks != nil && len(returnsOf(sc)) == 1 && len(returnsOf(sc)[0].Results) == 1 {
			// identity helper: returns a conversion of one of its parameters
			rv := resolveConv(returnsOf(sc)[0].Results[0])
			for k, pa := range sc.Params {
				if rv == ssa.Value(pa) && k < len(x.Call.Args) {
					nameTransforms(x.Call.Args[k], depth+1, out)
					return
				}
			}
		}
		if _, isB := x.Call.Value.(*ssa.Builtin); !isB {
			out[calleeName(x)] = true
		}
		for _, a := range x.Call.Args {
			if b, ok := a.Type().Underlying().(*types.Basic); ok && b.Info()&types.IsString != 0 || namedOf(a.Type()) != nil && namedOf(a.Type()).Obj().Name() == "Name" {
				nameTransforms(a, depth+1, out)
			}
		}
	case *ssa.Convert:
		nameTransforms(x.X, depth+1, out)
	case *ssa.ChangeType:
		nameTransforms(x.X, depth+1, out)
	case *ssa.Phi:
		for _, e := range x.Edges {
			nameTransforms(e, depth+1, out)
		}
	case *ssa.BinOp:
		out["string concatenation"] = true
	}
}

func checkDomainNameRoutes(r *Run) {
	p := r.P
	rc := p.MustFn("action/ons.runCreate")
	nd := p.MustFn("data/ons.NewDomain")
	ex := firstCallIn(rc, "(*data/ons.DomainStore).Exists")
	mk := firstCallIn(rc, "data/ons.NewDomain")
	if ex == nil || mk == nil {
		fail("C20.name: runCreate no longer calls Exists / NewDomain")
	}
	checked, stored := map[string]bool{}, map[string]bool{}
	nameTransforms(ex.Call.Args[1], 0, checked)
	// the name parameter of NewDomain (the string one)
	for k, pa := range nd.Params {
		if pa.Name() == "name" && k < len(mk.Call.Args) {
			nameTransforms(mk.Call.Args[k], 0, stored)
		}
	}
	found := false
	allInstrs(nd, func(ins ssa.Instruction) {
		if st, ok := ins.(*ssa.Store); ok {
			if fa, ok := st.Addr.(*ssa.FieldAddr); ok && fieldName(fa.X.Type(), fa.Field) == "Name" {
				found = true
				nameTransforms(st.Val, 0, stored)
			}
		}
	})
	if !found {
		fail("C20.name: NewDomain does not assign Domain.Name")
	}
	keys := func(m map[string]bool) string {
		var ks []string
		for k := range m {
			ks = append(ks, k)
		}
		sort.Strings(ks)
		if len(ks) == 0 {
			return "none"
		}
		return strings.Join(ks, ", ")
	}
	r.Check(keys(checked) == keys(stored), "C20.name", fname(rc), "the name tested for existence is the name the record is stored under", "same functions applied on both routes (existence test: "+keys(checked)+"; stored name: "+keys(stored)+")",
		"runCreate tests existence of the name after applying ["+keys(checked)+"] but the record is stored under the name after applying ["+keys(stored)+"]: two submitted names that differ only by that transformation pass the test and overwrite each other's record (owner, beneficiary, expiry)", p.ipos(ex))
}

// ---- C20.price ------------------------------------------------------------------------------------------------------
//
// A raw big.Int subtraction in a handler package produces a count or an amount only if the minuend is at least the
// subtrahend: the subtraction must be reachable only past an ordering test on the very same two operands (a.Cmp(b) < 0
// leads to the error return). A test against another operand (the per-block price instead of the base price) lets a
// negative difference through — a negative number of blocks, an expiry in the past.
func checkGuardedSub(r *Run, rule string, pkgSuffix string, floor int) {
	p := r.P
	n := 0
	operand := func(v ssa.Value) ssa.Value {
		// x.BigInt() -> x
		if c, ok := v.(*ssa.Call); ok && strings.HasSuffix(calleeName(c), ".BigInt") && len(c.Call.Args) == 1 {
			return c.Call.Args[0]
		}
		return v
	}
	for _, fn := range sortedFns(p.Fns) {
		if pk := fnPkg(fn); pk == nil || !strings.HasSuffix(pk.Path(), pkgSuffix) || fn.Blocks == nil {
			continue
		}
		allInstrs(fn, func(ins ssa.Instruction) {
			c, ok := ins.(*ssa.Call)
			if !ok || calleeName(c) != "(*math/big.Int).Sub" {
				return
			}
			n++
			a, b := operand(c.Call.Args[1]), operand(c.Call.Args[2])
			edges := condEdges(fn, func(cond ssa.Value, _ *ssa.If) int {
				v, flip := stripNot(cond)
				bo, ok := v.(*ssa.BinOp)
				if !ok {
					return 0
				}
				cmp, isCmp := bo.X.(*ssa.Call)
				k, isK := intConst(bo.Y)
				if !isCmp || !isK || calleeName(cmp) != "(*math/big.Int).Cmp" {
					return 0
				}
				x, y := operand(cmp.Call.Args[0]), operand(cmp.Call.Args[1])
				pol := 0
				switch {
				case samePath(x, a) && samePath(y, b): // a.Cmp(b)
					switch {
					case bo.Op == token.LSS && k == 0, bo.Op == token.EQL && k == -1:
						pol = -1 // a < b on the true edge: pass edge is the false one
					case bo.Op == token.GEQ && k == 0, bo.Op == token.NEQ && k == -1, bo.Op == token.GTR && k == -1:
						pol = +1
					}
				case samePath(x, b) && samePath(y, a): // b.Cmp(a)
					switch {
					case bo.Op == token.GTR && k == 0, bo.Op == token.EQL && k == 1:
						pol = -1
					case bo.Op == token.LEQ && k == 0, bo.Op == token.NEQ && k == 1, bo.Op == token.LSS && k == 1:
						pol = +1
					}
				}
				if flip {
					pol = -pol
				}
				return pol
			})
			okv := len(edges) > 0 && !reachWithout(fn, edges)[c.Block()]
			r.Check(okv, rule, fname(fn), "a subtraction is reachable only when its minuend is at least its subtrahend", "a.Cmp(b) < 0 leads away from a.Sub(b), tested on the same two operands",
				"the subtraction at "+p.ipos(c)+" is not guarded by an ordering test on its own two operands: when the first is smaller the difference is negative, and the number of blocks / amount derived from it is negative too (an expiry before the purchase, a negative credit)", p.ipos(c))
		})
	}
	if n < floor {
		fail("%s: only %d raw subtractions found in %s", rule, n, pkgSuffix)
	}
}

// ---- C17.gas (refund order) / C17.ledger (full-width balance tests) -------------------------------------------------
func checkRefundOrder(r *Run) {
	p := r.P
	fn := p.MustFn("(*vm.StateTransition).refundGas")
	isGas := func(addr ssa.Value) bool {
		fa, ok := addr.(*ssa.FieldAddr)
		return ok && fieldName(fa.X.Type(), fa.Field) == "gas"
	}
	var bump *ssa.Store
	allInstrs(fn, func(ins ssa.Instruction) {
		if st, ok := ins.(*ssa.Store); ok && isGas(st.Addr) {
			if bo, isB := st.Val.(*ssa.BinOp); isB && bo.Op == token.ADD {
				bump = st
			}
		}
	})
	var pay ssa.CallInstruction
	allInstrs(fn, func(ins ssa.Instruction) {
		if c, ok := ins.(ssa.CallInstruction); ok && c.Common().IsInvoke() && c.Common().Method.Name() == "AddBalance" {
			pay = c
		}
	})
	okv := bump != nil && pay != nil
	how := "the refund addition to st.gas or the pay-back call was not found"
	if okv {
		// every load of st.gas that feeds the paid amount comes after the refund was added
		n := 0
		derivesFrom(pay.Common().Args[1], func(y ssa.Value) bool {
			if ld, ok := y.(*ssa.UnOp); ok && ld.Op == token.MUL && isGas(ld.X) {
				n++
				if !dominatesInstr(bump, ld) {
					okv, how = false, "the amount paid back at "+p.ipos(pay)+" is computed from st.gas as read at "+p.ipos(ld)+", before the refund is added at "+p.ipos(bump)
				}
			}
			return false
		})
		if n == 0 {
			okv, how = false, "the amount paid back does not derive from st.gas"
		}
	}
	r.Check(okv, "C17.gas", fname(fn), "the sender is paid back for the remaining gas including the refund", "st.gas += refund precedes the read of st.gas that prices the pay-back",
		"refundGas: "+how+": UsedGas (and the fee-pool credit) count the refund as unused while the sender is not paid for it, so refund * price coins vanish from the ledger for every transaction that clears storage", p.pos(fn.Pos()))
}

func checkLedgerFullWidth(r *Run) {
	p := r.P
	n := 0
	for _, fn := range sortedFns(p.Fns) {
		if fnPkg(fn) == nil || fnPkg(fn).Path() != Mod+"/data/balance" || fn.Blocks == nil || fn.Signature.Recv() == nil {
			continue
		}
		rt := tname(derefT(fn.Signature.Recv().Type()))
		if !strings.HasSuffix(rt, "NesterAccountKeeper") && !strings.HasSuffix(rt, "EthAccount") {
			continue
		}
		n++
		allInstrs(fn, func(ins ssa.Instruction) {
			switch cn := calleeName(ins); cn {
			case "(*math/big.Int).Int64", "(*math/big.Int).Uint64":
				r.Viol("C17.ledger", fname(fn), "call "+strings.TrimPrefix(cn, "(*math/big.Int)."),
					"the account keeper narrows a balance to 64 bits at "+p.ipos(ins)+": a balance that is a multiple of 2^64 units reads as zero (or as another figure) on the EVM side while the native ledger holds the full amount", p.ipos(ins), nil)
			}
		})
	}
	if n < 8 {
		fail("C17.ledger: only %d keeper/account methods scanned", n)
	}
	r.OK("C17.ledger", "", itoa(int64(n))+" keeper/account methods", "no 64-bit narrowing of a balance (Int64 / Uint64): zero and ordering tests use the full number")
}

// ---- C18.rangepair --------------------------------------------------------------------------------------------------
//
// The option validators test each figure against a (min, max) pair of package constants. The two bounds of one test must
// be the minimum and the maximum of the same option: their names differ only in min/max. A minimum borrowed from another
// option (0 instead of 1 for the per-block fee) admits a value the handlers later divide by.
func boundName(v ssa.Value) string {
	for d := 0; d < 4; d++ {
		switch x := v.(type) {
		case *ssa.UnOp:
			v = x.X
			continue
		case *ssa.Global:
			return x.Name()
		}
		break
	}
	return ""
}

func boundStem(name string) (stem, kind string) {
	l := strings.ToLower(name)
	for _, k := range []string{"min", "max"} {
		if strings.HasPrefix(l, k) {
			return l[3:], k
		}
		if strings.HasSuffix(l, k) {
			return l[:len(l)-3], k
		}
	}
	return "", ""
}

// nearlyEqual: equal up to one inserted, deleted or replaced character (the constants contain a spelling slip).
func nearlyEqual(a, b string) bool {
	if a == b {
		return true
	}
	if len(a) > len(b) {
		a, b = b, a
	}
	if len(b)-len(a) > 1 {
		return false
	}
	i := 0
	for i < len(a) && a[i] == b[i] {
		i++
	}
	if len(a) == len(b) {
		return a[i+1:] == b[i+1:]
	}
	return a[i:] == b[i+1:]
}

func checkRangePairs(r *Run) {
	p := r.P
	n := 0
	for _, fn := range sortedFns(p.Fns) {
		if pk := fnPkg(fn); pk == nil || pk.Path() != Mod+"/data/governance" || fn.Blocks == nil {
			continue
		}
		allInstrs(fn, func(ins ssa.Instruction) {
			c, ok := ins.(*ssa.Call)
			if !ok {
				return
			}
			var lo, hi ssa.Value
			switch calleeName(c) {
			case "(*data/balance.Amount).CheckInRange":
				lo, hi = c.Call.Args[1], c.Call.Args[2]
			case "data/governance.verifyRangeInt64":
				lo, hi = c.Call.Args[1], c.Call.Args[2]
			default:
				return
			}
			ln, hn := boundName(lo), boundName(hi)
			ls, lk := boundStem(ln)
			hs, hk := boundStem(hn)
			if lk == "" || hk == "" {
				return // a bound that is not one of the named min/max constants
			}
			n++
			r.Check(lk == "min" && hk == "max" && nearlyEqual(ls, hs), "C18.rangepair", fname(fn), "range test against "+ln+" / "+hn, "lower bound = the option's min constant, upper bound = the same option's max constant",
				"the range test at "+p.ipos(c)+" takes its bounds from two different options ("+ln+", "+hn+") or in the wrong order: a value outside the option's own range is accepted (a zero per-block fee, a zero divisor of a percentage) and the handlers that divide by it crash", p.ipos(c))
		})
	}
	if n < 15 {
		fail("C18.rangepair: only %d range tests with named bounds found", n)
	}
}

// ---- C18.slice ------------------------------------------------------------------------------------------------------
//
// In the cross-chain parsers (fed with bytes taken from a transaction) every slice expression with a constant upper bound
// needs, on all paths, a length test that implies len(value) >= bound. The implication is decided over linear forms
// (sums of lengths, indices and constants): len(X[lo:]) is len(X) - lo, a test `a < b` gives b - a - 1 >= 0 on its true
// edge and a - b >= 0 on its false edge, and a test discharges the requirement when requirement - test is a non-negative
// constant. Anything the normaliser cannot express stays a symbol, so an insufficient or unrelated test leaves the
// requirement open — it is never assumed.
type linForm struct {
	coef map[string]int64
	k    int64
}

func (a linForm) add(b linForm, sign int64) linForm {
	res := linForm{coef: map[string]int64{}, k: a.k + sign*b.k}
	for s, c := range a.coef {
		res.coef[s] += c
	}
	for s, c := range b.coef {
		res.coef[s] += sign * c
	}
	for s, c := range res.coef {
		if c == 0 {
			delete(res.coef, s)
		}
	}
	return res
}

func linKey(v ssa.Value) string {
	v = resolveLoad(v)
	pa := pathOf(v)
	if len(pa.Fields) > 0 || len(pa.Indices) > 0 {
		return fmt.Sprintf("%p.%s", pa.Root, pa.String())
	}
	return fmt.Sprintf("%p", v)
}

func linOf(v ssa.Value, depth int) linForm {
	if k, ok := intConst(v); ok {
		return linForm{coef: map[string]int64{}, k: k}
	}
	if depth < 8 {
		switch x := v.(type) {
		case *ssa.BinOp:
			switch x.Op {
			case token.ADD:
				return linOf(x.X, depth+1).add(linOf(x.Y, depth+1), +1)
			case token.SUB:
				return linOf(x.X, depth+1).add(linOf(x.Y, depth+1), -1)
			}
		case *ssa.Convert:
			if b, ok := x.X.Type().Underlying().(*types.Basic); ok && b.Info()&types.IsInteger != 0 {
				return linOf(x.X, depth+1)
			}
		case *ssa.Call:
			if b, ok := x.Call.Value.(*ssa.Builtin); ok && b.Name() == "len" {
				arg := resolveLoad(x.Call.Args[0])
				if sl, isSl := arg.(*ssa.Slice); isSl && sl.High == nil && sl.Max == nil {
					if _, isArr := sl.X.Type().Underlying().(*types.Pointer); !isArr {
						base := linForm{coef: map[string]int64{"len:" + linKey(sl.X): 1}}
						if sl.Low != nil {
							return base.add(linOf(sl.Low, depth+1), -1)
						}
						return base
					}
				}
				if c, isC := arg.(*ssa.Const); isC && c.Value != nil && c.Value.Kind() == constant.String {
					return linForm{coef: map[string]int64{}, k: int64(len(constant.StringVal(c.Value)))}
				}
				return linForm{coef: map[string]int64{"len:" + linKey(arg): 1}}
			}
		}
	}
	return linForm{coef: map[string]int64{linKey(v): 1}}
}

// impliedBy: requirement R >= 0 follows from G >= 0 (R - G is a non-negative constant).
func (r linForm) impliedBy(g linForm) bool {
	d := r.add(g, -1)
	return len(d.coef) == 0 && d.k >= 0
}

func checkSliceBounds(r *Run, pkgs ...string) {
	p := r.P
	n := 0
	inPkgs := func(fn *ssa.Function) bool {
		pk := fnPkg(fn)
		if pk == nil {
			return false
		}
		for _, s := range pkgs {
			if pk.Path() == Mod+s {
				return true
			}
		}
		return false
	}
	for _, fn := range sortedFns(p.Fns) {
		if !inPkgs(fn) || fn.Blocks == nil {
			continue
		}
		allInstrs(fn, func(ins ssa.Instruction) {
			sl, ok := ins.(*ssa.Slice)
			if !ok {
				return
			}
			if _, isArr := sl.X.Type().Underlying().(*types.Pointer); isArr {
				return // slicing an array: bounds are compile-time facts
			}
			var need int64 = -1
			if sl.High != nil {
				if k, isK := intConst(sl.High); isK {
					need = k
				}
			}
			if need < 0 && sl.Low != nil {
				if k, isK := intConst(sl.Low); isK && k > 0 {
					need = k
				}
			}
			if need <= 0 {
				return
			}
			n++
			req := linForm{coef: map[string]int64{"len:" + linKey(sl.X): 1}, k: -need}
			if inner, isSl := resolveLoad(sl.X).(*ssa.Slice); isSl && inner.High == nil && inner.Max == nil {
				if _, isArr := inner.X.Type().Underlying().(*types.Pointer); !isArr {
					req = linForm{coef: map[string]int64{"len:" + linKey(inner.X): 1}, k: -need}
					if inner.Low != nil {
						req = req.add(linOf(inner.Low, 0), -1)
					}
				}
			}
			var pass []Edge
			for _, b := range fn.Blocks {
				iff := blockIf(b)
				if iff == nil {
					continue
				}
				cond, flip := stripNot(iff.Cond)
				bo, isB := cond.(*ssa.BinOp)
				if !isB {
					continue
				}
				x, y := linOf(bo.X, 0), linOf(bo.Y, 0)
				one := linForm{coef: map[string]int64{}, k: 1}
				var onTrue, onFalse linForm
				switch bo.Op {
				case token.LSS: // x < y : y-x-1 >= 0 ; else x-y >= 0
					onTrue, onFalse = y.add(x, -1).add(one, -1), x.add(y, -1)
				case token.LEQ:
					onTrue, onFalse = y.add(x, -1), x.add(y, -1).add(one, -1)
				case token.GTR:
					onTrue, onFalse = x.add(y, -1).add(one, -1), y.add(x, -1)
				case token.GEQ:
					onTrue, onFalse = x.add(y, -1), y.add(x, -1).add(one, -1)
				default:
					continue
				}
				if flip {
					onTrue, onFalse = onFalse, onTrue
				}
				if req.impliedBy(onTrue) {
					pass = append(pass, Edge{From: b, Succ: 0})
				}
				if req.impliedBy(onFalse) {
					pass = append(pass, Edge{From: b, Succ: 1})
				}
			}
			okv := len(pass) > 0 && !reachWithout(fn, pass)[sl.Block()]
			r.Check(okv, "C18.slice", fname(fn), "slice up to "+itoa(need)+" behind a sufficient length test", "a test implying len(value) >= "+itoa(need)+" on every path to the slice expression (decided over linear forms)",
				"the slice expression at "+p.ipos(sl)+" needs "+itoa(need)+" elements, and no length test in front of it implies that many: a transaction whose embedded bytes are shorter there makes the parser panic (slice bounds out of range) inside CheckTx/DeliverTx, which closes the application", p.ipos(sl))
		})
	}
	if n < 5 {
		fail("C18.slice: only %d constant-bound slice expressions found in the parser packages", n)
	}
}

// lazyInitStore: the store is reachable only through the "field == nil" edge of a test on the very field it writes: an
// allocate-if-missing, which keeps the existing content, not a reset.
func lazyInitStore(fn *ssa.Function, st *ssa.Store) bool {
	pa := pathOf(st.Addr)
	lazy := condEdges(fn, func(cond ssa.Value, _ *ssa.If) int {
		return nilCond(cond, func(y ssa.Value) bool {
			pb := pathOf(y)
			return pb.Root == pa.Root && pb.FieldString() == pa.FieldString()
		})
	})
	return len(lazy) > 0 && !reachWithout(fn, lazy)[st.Block()]
}

// ---- *.live ---------------------------------------------------------------------------------------------------------
//
// A predicate that guards a handler's effects (frozen, active) must answer from the live layered state: the open
// transaction, the block overlay, then the tree. A read of a committed version (GetVersioned / GetPrevious) does not see
// what earlier transactions or the BeginBlock hook of the same block wrote, so a freeze applied in this block would not
// bind the transactions delivered in it.
func checkLivePredicates(r *Run, rule string, names ...string) {
	p := r.P
	for _, n := range names {
		fn := p.MustFn(n)
		var path []string
		seen := map[*ssa.Function]bool{}
		noEnv := func(ssa.Value) (int64, bool) { return 0, false }
		var walk func(f *ssa.Function, env IntEnv, d int) string
		walk = func(f *ssa.Function, env IntEnv, d int) string {
			if f.Blocks == nil || d > 4 {
				return ""
			}
			// only the instructions that can execute under the constant arguments of this call
			first := f.Blocks[0].Instrs[0]
			feasible := reachUnderEnv(first, env, nil)
			feasible[first] = true
			bad := ""
			allInstrs(f, func(ins ssa.Instruction) {
				if bad != "" || !feasible[ins] {
					return
				}
				c, ok := ins.(*ssa.Call)
				if !ok {
					return
				}
				switch calleeName(c) {
				case "(*storage.State).GetVersioned", "(*storage.State).GetPrevious", "(*storage.ChainState).GetVersioned", "(*storage.ChainState).Get":
					bad = p.ipos(c)
					return
				}
				if g := c.Call.StaticCallee(); g != nil && inRepo(g) && fnPkg(g) != nil && !strings.HasSuffix(fnPkg(g).Path(), "/storage") {
					consts := map[ssa.Value]int64{}
					for i, a := range c.Call.Args {
						if i < len(g.Params) {
							if k, isK := intConst(a); isK {
								consts[g.Params[i]] = k
							} else if k, isK := env(a); isK {
								consts[g.Params[i]] = k
							}
						}
					}
					sub := func(v ssa.Value) (int64, bool) { k, ok := consts[v]; return k, ok }
					if b := walk(g, sub, d+1); b != "" {
						path = append(path, fname(g))
						bad = b
					}
				}
			})
			return bad
		}
		_ = seen
		bad := walk(fn, noEnv, 0)
		r.Check(bad == "", rule, fname(fn), "the guard predicate reads the live state", "no read of a committed version on any path of the predicate",
			"the predicate reads a committed version of the store (at "+bad+"): a record written earlier in the same block (by a transaction or by the BeginBlock hook) is not seen, so the guard lets a transaction through that the current state forbids", bad)
	}
}

// ---- C19.status -----------------------------------------------------------------------------------------------------
//
// The end-of-block election writes each examined validator's active flag whenever it differs from the election outcome.
// The allegation handlers admit reporters and voters by that flag, so the write must not depend on anything else about the
// validator: in particular a validator that lost all its power (and is being deleted) must still be flagged inactive.
// Structural form (as C10.lastactive): whichever way any test of the validator's own power goes, SetValidatorStatus stays
// reachable.
func checkStatusWrite(r *Run) {
	p := r.P
	fn := p.MustFn(fnGetEndBlock)
	call := firstCallIn(fn, "(*data/evidence.EvidenceStore).SetValidatorStatus")
	if call == nil {
		r.Viol("C19.status", fname(fn), "active flag maintenance", "GetEndBlockUpdate no longer writes the validators' active flag", p.pos(fn.Pos()), nil)
		return
	}
	isPower := func(y ssa.Value) bool {
		pa := pathOf(y)
		al, ok := pa.Root.(*ssa.Alloc)
		return ok && tname(al.Type()) == "*identity.Validator" && (pa.FieldString() == "Power" || strings.HasSuffix(pa.FieldString(), ".Power"))
	}
	bad := ""
	for _, pol := range []int{+1, -1} {
		pol := pol
		var at string
		edges := condEdges(fn, func(cond ssa.Value, iff *ssa.If) int {
			if derivesFrom(cond, isPower) {
				at = p.ipos(iff)
				return pol
			}
			return 0
		})
		if len(edges) > 0 && !reachWithout(fn, edges)[call.Block()] {
			bad = at
		}
	}
	r.Check(bad == "", "C19.status", fname(fn), "the active flag is written whatever the validator's power is", "SetValidatorStatus is reachable on both outcomes of every test of validator.Power",
		"the active flag is not updated for some values of the validator's power (test at "+bad+"): a validator that left the set keeps IsActive = true and can still open and vote on allegations", bad)
	// the flag written is the election outcome (computed in this iteration), not a constant
	okArg := false
	if len(call.Call.Args) >= 3 {
		_, isConst := boolConst(call.Call.Args[2])
		okArg = !isConst
	}
	r.Check(okArg, "C19.status", fname(fn), "the flag written is the election outcome", "SetValidatorStatus(addr, elected, height) with the elected flag of this iteration",
		"the active flag written is not the outcome of this block's election", p.ipos(call))
}

// ---- C07.withstate --------------------------------------------------------------------------------------------------
//
// C07.aim treats `x.WithState(s)` as "x now points at s" even where the caller drops the result (most callers do). That
// is an assumption about every WithState method, checked here as sibling agreement: each one aims its receiver in place
// (stores the state into the receiver, or hands it to the WithState of a part of the receiver) and returns the receiver.
// A WithState that returns a re-aimed copy leaves the shared object pointing at the previous state for every caller that
// ignores the result: consensus code then writes into (or reads from) the mempool state.
func checkWithStateInPlace(r *Run, rule string, only ...string) {
	p := r.P
	n := 0
	for _, fn := range sortedFns(p.Fns) {
		if fn.Blocks == nil || !inRepo(fn) || fn.Name() != "WithState" || fn.Signature.Recv() == nil || len(fn.Params) != 2 {
			continue
		}
		if tname(fn.Params[1].Type()) != "*storage.State" {
			continue
		}
		if pk := fnPkg(fn); pk == nil || strings.Contains(pk.Path(), "/test") {
			continue
		}
		if len(only) > 0 {
			keep := false
			for _, o := range only {
				if strings.Contains(fname(fn), o) {
					keep = true
				}
			}
			if !keep {
				continue
			}
		}
		recv, st := fn.Params[0], fn.Params[1]
		if _, isPtr := recv.Type().Underlying().(*types.Pointer); !isPtr {
			continue // a value receiver cannot be aimed in place; its callers necessarily use the result
		}
		n++
		fromState := func(v ssa.Value) bool { return derivesFrom(v, func(y ssa.Value) bool { return y == ssa.Value(st) }) }
		aims := false
		allInstrs(fn, func(ins ssa.Instruction) {
			switch x := ins.(type) {
			case *ssa.Store:
				if pa := pathOf(x.Addr); pa.Root == ssa.Value(recv) && len(pa.Fields) > 0 && fromState(x.Val) {
					aims = true
				}
			case *ssa.MapUpdate:
				if pa := pathOf(x.Map); pa.Root == ssa.Value(recv) && fromState(x.Value) {
					aims = true
				}
			case ssa.CallInstruction:
				c := x.Common()
				args := c.Args
				if c.IsInvoke() {
					args = append([]ssa.Value{c.Value}, args...)
				}
				if len(args) >= 2 && (pathOf(args[0]).Root == ssa.Value(recv) || derivesFrom(args[0], func(y ssa.Value) bool { return y == ssa.Value(recv) })) {
					for _, a := range args[1:] {
						if fromState(a) {
							aims = true
						}
					}
				}
			}
		})
		retOK := true
		for _, ret := range returnsOf(fn) {
			for _, v := range ret.Results {
				pa := pathOf(v)
				if pa.Root != ssa.Value(recv) || len(pa.Fields) != 0 {
					retOK = false
				}
			}
		}
		r.Check(aims && retOK, rule, fname(fn), "WithState aims the receiver in place and returns it", "the state is stored into the receiver (or passed to a part of it) and every return is the receiver",
			"this WithState does not re-aim its receiver in place (or returns another object): callers that drop the result - block hooks, Action(), the EVM adapter - keep using the object aimed at the previous state, so consensus execution reads or writes the mempool state (or a state that is never committed)", p.pos(fn.Pos()))
	}
	if (len(only) == 0 && n < 15) || n == 0 {
		fail("%s: only %d WithState methods found", rule, n)
	}
}
