# Self-test corpus: (file, old, new[, expected occurrence count]) edits on a scratch copy of /repo.
# MUTANTS must be caught by the named rule; REFACTORS must leave the named checks silent.

MUTANTS = []
REFACTORS = []


def M(name, prop, expect, *edits):
    MUTANTS.append({"name": name, "property": prop, "expect": expect, "edits": list(edits)})


def R(name, props, *edits):
    REFACTORS.append({"name": name, "property": props, "edits": list(edits)})


def RP(name, props, patch):
    """a behaviour-preserving change kept as a patch file (written by an independent sub-agent, selftest/benign/)"""
    REFACTORS.append({"name": name, "property": props, "edits": [], "patch": patch})


ALL = ["all"]
CTRL = "app/controller.go"

# ------------------------------------------------------------------ C06
M("deliver-commit-ignores-fee", "C06", "C06.session.commit-guard",
  (CTRL, """		app.Context.stateDB.Finality(response.Events)

		if !(ok && feeOk) {""", """		app.Context.stateDB.Finality(response.Events)

		if !ok {"""))
M("deliver-swap-commit-discard", "C06", "C06.session.commit-guard",
  (CTRL, """		if !(ok && feeOk) {
			app.Context.deliver.DiscardTxSession()
		} else {
			app.Context.deliver.CommitTxSession()
		}
		return result""", """		if !(ok && feeOk) {
			app.Context.deliver.CommitTxSession()
		} else {
			app.Context.deliver.DiscardTxSession()
		}
		return result"""))
M("deliver-drop-discard", "C06", "C06.session.closed",
  (CTRL, """		if !(ok && feeOk) {
			app.Context.deliver.DiscardTxSession()
		} else {
			app.Context.deliver.CommitTxSession()
		}
		return result""", """		if ok && feeOk {
			app.Context.deliver.CommitTxSession()
		}
		return result"""))
M("deliver-code-ignores-fee", "C06", "C06.session.code",
  (CTRL, """		result := ResponseDeliverTx{
			Code:      getCode(ok && feeOk).uint32(),""", """		result := ResponseDeliverTx{
			Code:      getCode(ok).uint32(),"""))
M("deliver-fee-before-session", "C06", "C06.session.fee-inside",
  (CTRL, """		app.Context.deliver.BeginTxSession()

		tx := &action.SignedTx{}

		err := serialize.GetSerializer(serialize.NETWORK).Deserialize(msg.Tx, tx)
		if err != nil {
			app.logger.Errorf("deliverTx failed to deserialize msg: %v, error: %s ", msg, err)
		}
		txCtx := app.Context.Action(&app.header, app.Context.deliver)

		handler := txCtx.Router.Handler(tx.Type)

		gas := txCtx.State.ConsumedGas()

		ok, response := handler.ProcessDeliver(txCtx, tx.RawTx)
		feeOk, feeResponse := handler.ProcessFee(txCtx, *tx, gas, storage.Gas(len(msg.Tx)), storage.Gas(response.GasUsed))
""", """		tx := &action.SignedTx{}

		err := serialize.GetSerializer(serialize.NETWORK).Deserialize(msg.Tx, tx)
		if err != nil {
			app.logger.Errorf("deliverTx failed to deserialize msg: %v, error: %s ", msg, err)
		}
		txCtx := app.Context.Action(&app.header, app.Context.deliver)

		handler := txCtx.Router.Handler(tx.Type)

		gas := txCtx.State.ConsumedGas()

		feeOk, feeResponse := handler.ProcessFee(txCtx, *tx, gas, storage.Gas(len(msg.Tx)), storage.Gas(0))
		app.Context.deliver.BeginTxSession()
		ok, response := handler.ProcessDeliver(txCtx, tx.RawTx)
"""))
M("expire-commit-on-failure", "C06", "C06.session.commit-guard",
  ("app/internalTX.go", """		ok, _ := newExpire.ProcessDeliver(actionctx, rawTx)
		if !ok {
			logger.Error("Failed to Expire : ", txData, "Error : ", err)
			ctx.deliver.DiscardTxSession()
			continue
		}
		ctx.deliver.CommitTxSession()""", """		ok, _ := newExpire.ProcessDeliver(actionctx, rawTx)
		if !ok {
			logger.Error("Failed to Expire : ", txData, "Error : ", err)
		}
		ctx.deliver.CommitTxSession()"""))
M("eth-transition-commit-on-error", "C06", "C06.session.commit-guard",
  (CTRL, """			_, err := event.EthRedeemEngine.Process(t.NextStep(), ctx, transition.Status(t.State))
			if err != nil {
				logger.Error("failed to process eth tracker ProcessTypeRedeem", err)
				continue
			}""", """			_, err := event.EthRedeemEngine.Process(t.NextStep(), ctx, transition.Status(t.State))
			if err != nil {
				logger.Error("failed to process eth tracker ProcessTypeRedeem", err)
			}"""))
M("handler-commits-session", "C06", "C06.bypass.session-api",
  ("action/transfer/send.go", """	return true, action.Response{Events: action.GetEvent(send.Tags(), "send_tx")}
}""", """	ctx.State.CommitTxSession()
	ctx.State.BeginTxSession()
	return true, action.Response{Events: action.GetEvent(send.Tags(), "send_tx")}
}"""))
M("state-set-writes-cache-in-session", "C06", "C06.overlay",
  ("storage/state.go", """func (s *State) Set(key StoreKey, value []byte) error {
	if s.txSession != nil {
		return s.txSession.Set(key, value)
	}
""", """func (s *State) Set(key StoreKey, value []byte) error {
	if s.txSession != nil && len(value) > 0 {
		return s.txSession.Set(key, value)
	}
"""))
M("store-writes-tree-directly", "C06", "C06.bypass.tree-write",
  ("storage/state.go", """func (s *State) Delete(key StoreKey) (bool, error) {

	if s.txSession != nil {
		return s.txSession.Delete(key)
	}""", """func (s *State) Delete(key StoreKey) (bool, error) {

	if s.txSession != nil {
		return s.txSession.Delete(key)
	}
	if !s.cache.Exists(key) {
		return s.cs.Delete(key)
	}"""))

R("deliver-if-else-to-switch", ["C06", "C04", "C05"],
  (CTRL, """		if !(ok && feeOk) {
			app.Context.deliver.DiscardTxSession()
		} else {
			app.Context.deliver.CommitTxSession()
		}
		return result""", """		success := ok && feeOk
		switch {
		case success:
			app.Context.deliver.CommitTxSession()
		default:
			app.Context.deliver.DiscardTxSession()
		}
		return result"""))
R("deliver-early-return-discard", ["C06", "C04", "C05"],
  (CTRL, """		if !(ok && feeOk) {
			app.Context.deliver.DiscardTxSession()
		} else {
			app.Context.deliver.CommitTxSession()
		}
		return result""", """		if !ok {
			app.Context.deliver.DiscardTxSession()
			return result
		}
		if !feeOk {
			app.Context.deliver.DiscardTxSession()
			return result
		}
		app.Context.deliver.CommitTxSession()
		return result"""))

# ------------------------------------------------------------------ C04
M("check-ignores-validate-error", "C04", "C04.gate.check",
  (CTRL, """		ok, err := handler.Validate(txCtx, *tx)
		if err != nil {
			app.logger.Debug("Check Tx invalid: ", err.Error())
			return ResponseCheckTx{
				Code: getCode(ok).uint32(),
				Log:  err.Error(),
			}
		}
""", """		ok, err := handler.Validate(txCtx, *tx)
		if err != nil && !ok {
			app.logger.Debug("Check Tx invalid: ", err.Error())
			return ResponseCheckTx{
				Code: getCode(ok).uint32(),
				Log:  err.Error(),
			}
		}
"""))
M("validatebasic-drop-address-test", "C04", "C04.basic.address",
  ("action/base.go", """		if !h.Address().Equal(s) {
			return errors.Wrap(ErrUnmatchSigner, hex.EncodeToString(h.Address())+","+hex.EncodeToString(s))
		}
""", """		_ = hex.EncodeToString(s)
		_ = errors.New
"""))
M("validatebasic-verify-wrong-index", "C04", "C04.basic.verify",
  ("action/base.go", """		if !h.VerifyBytes(data, signatures[i].Signed) {""", """		if !h.VerifyBytes(data, signatures[0].Signed) {"""))
M("validatebasic-len-le", "C04", "C04.basic.count",
  ("action/base.go", """	if len(signatures) != len(signerAddr) {
		return ErrUnmatchSigner
	}""", """	if len(signatures) < len(signerAddr) {
		return ErrUnmatchSigner
	}"""))
M("validatebasic-verify-continue", "C04", "C04.basic.verify",
  ("action/base.go", """		if !h.VerifyBytes(data, signatures[i].Signed) {
			return ErrInvalidSignature
		}""", """		if !h.VerifyBytes(data, signatures[i].Signed) {
			continue
		}"""))
M("send-validate-signs-data-only", "C04", "C04.handler.sig-guard",
  ("action/transfer/send.go", """	err = action.ValidateBasic(tx.RawBytes(), send.Signers(), tx.Signatures)""",
   """	err = action.ValidateBasic(tx.Data, send.Signers(), tx.Signatures)"""))
M("stake-validate-skips-basic-on-zero-sigs", "C04", "C04.handler.sig-guard",
  ("action/staking/stake.go", """	err = action.ValidateBasic(tx.RawBytes(), st.Signers(), tx.Signatures)
	if err != nil {
		return false, err
	}""", """	if len(tx.Signatures) > 0 {
		err = action.ValidateBasic(tx.RawBytes(), st.Signers(), tx.Signatures)
		if err != nil {
			return false, err
		}
	}"""))
M("rawtx-memo-unsigned", "C04", "C04.cover.field",
  ("action/base.go", """	Memo string  `json:"memo"`""", """	Memo string  `json:"-"`"""))
M("ed25519-verify-true-on-prehash", "C04", "C04.verify.primitive",
  ("data/keys/keys.go", """	required, hash := PreHashRequired(sig)
	if required {
		return k.VerifyPreHashMsg(msg, sig, hash)
	}""", """	required, hash := PreHashRequired(sig)
	if required {
		return hash != nil
	}"""))
M("olvm-from-not-compared", "C04", "C04.handler.olvm",
  ("action/olvm/handler.go", """	if !tx.From.Equal(addr.Bytes()) {
		return errors.New("mismatch sender")
	}
	return nil""", """	if len(addr.Bytes()) == 0 {
		return errors.New("mismatch sender")
	}
	return nil"""))

R("send-validate-helper", ["C04"],
  ("action/transfer/send.go", """	//validate basic signature
	err = action.ValidateBasic(tx.RawBytes(), send.Signers(), tx.Signatures)
	if err != nil {
		return false, err
	}

	err = action.ValidateFee(ctx.FeePool.GetOpt(), tx.Fee)
	if err != nil {
		return false, err
	}

	//validate transaction specific field
	if !send.Amount.IsValid(ctx.Currencies) {""", """	if err := checkSendSig(send, tx); err != nil {
		return false, err
	}

	err = action.ValidateFee(ctx.FeePool.GetOpt(), tx.Fee)
	if err != nil {
		return false, err
	}

	//validate transaction specific field
	if !send.Amount.IsValid(ctx.Currencies) {"""),
  ("action/transfer/send.go", """var _ action.Tx = sendTx{}""", """var _ action.Tx = sendTx{}

func checkSendSig(send *Send, tx action.SignedTx) error {
	raw := tx.RawBytes()
	signers := send.Signers()
	return action.ValidateBasic(raw, signers, tx.Signatures)
}"""))
R("validatebasic-reordered", ["C04"],
  ("action/base.go", """		if !h.Address().Equal(s) {
			return errors.Wrap(ErrUnmatchSigner, hex.EncodeToString(h.Address())+","+hex.EncodeToString(s))
		}

		if !h.VerifyBytes(data, signatures[i].Signed) {
			return ErrInvalidSignature
		}""", """		sig := signatures[i]
		if ok := h.VerifyBytes(data, sig.Signed); !ok {
			return ErrInvalidSignature
		}
		addr := h.Address()
		if addr.Equal(s) == false {
			return errors.Wrap(ErrUnmatchSigner, hex.EncodeToString(h.Address())+","+hex.EncodeToString(s))
		}"""))

# ------------------------------------------------------------------ C05
M("check-drop-replay-return", "C05", "C05.gate.check",
  (CTRL, """			app.logger.Detail(loginfo)
			return ResponseCheckTx{
				Code: CodeNotOK.uint32(),
				Log:  loginfo,
			}
		}""", """			app.logger.Detail(loginfo)
		}"""))
M("deliver-replay-only-when-events", "C05", "C05.gate.deliver",
  (CTRL, """		if cachedResponse, found := app.GetTxFromCache(txHashBytes); found {""",
   """		if cachedResponse, found := app.GetTxFromCache(txHashBytes); found && len(cachedResponse.Events) > 0 {"""))
M("verifycache-never-found", "C05", "C05.lookup.found",
  (CTRL, """	if reply != nil && reply.Height > 0 {
		return true
	}
	return false""", """	if reply != nil && reply.Height > 0 {
		return err != nil
	}
	return false"""))
M("deliver-lookup-wrong-key", "C05", "C05.gate.deliver.key",
  (CTRL, """		if cachedResponse, found := app.GetTxFromCache(txHashBytes); found {""",
   """		if cachedResponse, found := app.GetTxFromCache(app.header.AppHash); found {"""))
M("olvm-drop-nonce-low", "C05", "C05.nonce",
  ("action/olvm/handler.go", """	if msgNonce := ethTx.Nonce(); stNonce > msgNonce {
		return ethcore.ErrNonceTooLow
	}""", """	if msgNonce := ethTx.Nonce(); stNonce > msgNonce+1 {
		return ethcore.ErrNonceTooLow
	}"""))
R("check-replay-helper", ["C05", "C04"],
  (CTRL, """		if app.VerifyCache(msg.Tx) {
			loginfo""", """		seen := app.VerifyCache(msg.Tx)
		if seen == true {
			loginfo"""))

# ------------------------------------------------------------------ C09
ST = "storage/state.go"
SC = "storage/session_cache.go"
M("tombstone-fix-reverted-get", "C09", "C09.tombstone",
  (ST, """			if isTombstone(result) {
				// deleted in this session: reads as absent, like a missing key in the tree
				return nil, nil
			}
""", ""))
M("tombstone-fix-reverted-exists", "C09", "C09.tombstone",
  (ST, """	value, _ := s.rawCache().Get(key)
	return !isTombstone(value)
}""", """	return exist
}"""))
M("get-cache-before-session", "C09", "C09.order.session-first",
  (ST, """func (s *State) Get(key StoreKey) ([]byte, error) {
	if s.txSession != nil {""", """func (s *State) Get(key StoreKey) ([]byte, error) {
	if v, err := s.cache.Get(key); err == nil && !isTombstone(v) {
		return v, nil
	}
	if s.txSession != nil {"""))
M("exists-tree-despite-cache-entry", "C09", "C09.order.cache-first",
  (ST, """	exist := s.cache.Exists(key)
	if !exist {
		// if not existed in cache, check ChainState
		return s.cs.Exists(key)
	}
""", """	exist := s.cache.Exists(key)
	if !exist || s.cs.Exists(key) {
		// if not existed in cache, check ChainState
		return s.cs.Exists(key)
	}
"""))
M("write-stores-tombstone", "C09", "C09.write",
  (ST, """		if bytes.Equal(value, []byte(TOMBSTONE)) {
			_, _ = s.cs.Delete(key)
		} else {
			_ = s.cs.Set(key, value)
		}""", """		if bytes.Equal(value, []byte(TOMBSTONE)) && s.cs.Exists(key) {
			_, _ = s.cs.Delete(key)
		} else {
			_ = s.cs.Set(key, value)
		}"""))
M("commit-keeps-cache", "C09", "C09.commit.fresh-cache",
  (ST, """	s.Write()
	s.cache = NewSessionedDirectStorage(SESSION_CACHE, "state")
	s.txSession = nil
""", """	s.Write()
	s.txSession = nil
"""))
M("session-commit-ranges-map", "C09", "C09.replay.ordered",
  (SC, """	for _, k := range c.keys {
		v, ok := c.store[k]
		if !ok {
			continue
		}
		err = c.parent.Set(StoreKey(k), v)
		if err != nil {
			return false
		}
	}""", """	for k, v := range c.store {
		err = c.parent.Set(StoreKey(k), v)
		if err != nil {
			return false
		}
	}"""))
M("cache-iterate-skips-empty", "C09", "C09.replay.complete",
  (SC, """		v, ok := c.store[k]
		if !ok {
			continue
		}
		if fn([]byte(k), v) {
			return true
		}""", """		v, ok := c.store[k]
		if !ok || len(v) == 0 {
			continue
		}
		if fn([]byte(k), v) {
			return true
		}"""))
M("session-set-no-key-on-overwrite", "C09", "C09.overlay.keys",
  (SC, """func (c *cacheSession) Set(key StoreKey, dat []byte) error {

	c.store[string(key)] = dat
	if d, ok := c.done[string(key)]; !ok || !d {""", """func (c *cacheSession) Set(key StoreKey, dat []byte) error {

	c.store[string(key)] = dat
	if d, ok := c.done[string(key)]; !ok && !d && len(dat) > 0 {"""))
M("discard-commits", "C09", "C09.discard",
  (ST, """func (s *State) DiscardTxSession() {
	s.txSession = nil""", """func (s *State) DiscardTxSession() {
	if s.txSession != nil && s.gc.IsEnough() {
		s.txSession.Commit()
	}
	s.txSession = nil"""))
M("exists-populates-cache", "C09", "C09.purity",
  (ST, """	if !exist {
		// if not existed in cache, check ChainState
		return s.cs.Exists(key)
	}
""", """	if !exist {
		// if not existed in cache, check ChainState
		found := s.cs.Exists(key)
		if found {
			if v, err := s.cs.Get(key); err == nil {
				_ = s.rawCache().Set(key, v)
			}
		}
		return found
	}
"""))
M("handler-deletes-tree-version", "C09", "C09.versions.who",
  ("storage/chainstate.go", """func (state *ChainState) LoadVersion(version int64) (int64, error) {
	return state.Delivered.LoadVersion(version)""", """func (state *ChainState) LoadVersion(version int64) (int64, error) {
	if version > 1 {
		_ = state.Delivered.DeleteVersion(version - 1)
	}
	return state.Delivered.LoadVersion(version)"""))
R("state-get-restructured", ["C09", "C06"],
  (ST, """	// Get the cache first
	result, err := s.cache.Get(key)
	if err == nil {
		if isTombstone(result) {
			// deleted in this block: reads as absent, like a missing key in the tree
			return nil, nil
		}
		// if got result, return directly
		return result, err
	}

	// if didn't get result in cache, get from ChainState
	return s.cs.Get(key)""", """	result, err := s.cache.Get(key)
	switch {
	case err != nil:
		return s.cs.Get(key)
	case bytes.Equal(result, []byte(TOMBSTONE)):
		return nil, nil
	}
	return result, nil"""))
R("session-delete-via-helper", ["C09"],
  (SC, """func (c *cacheSession) Delete(key StoreKey) (bool, error) {

	tombstoneBytes := []byte(TOMBSTONE)
	c.store[string(key)] = tombstoneBytes
	if d, ok := c.done[string(key)]; !ok || !d {
		c.keys = append(c.keys, string(key))
		c.done[string(key)] = true
	}
	return true, nil
}""", """func (c *cacheSession) Delete(key StoreKey) (bool, error) {
	k := string(key)
	c.store[k] = []byte(TOMBSTONE)
	if c.done[k] {
		return true, nil
	}
	c.keys = append(c.keys, k)
	c.done[k] = true
	return true, nil
}"""))

# ------------------------------------------------------------------ C01
M("endblock-drop-sort-lastactive", "C01", "C01.maprange",
  ("identity/validator_set.go", """		sort.Strings(keysLA)

""", """
"""))
M("malicious-drop-sort", "C01", "C01.maprange",
  ("identity/validator_set_allegation.go", """	sort.Strings(addresses)
""", ""))
M("blockrewards-drop-sort", "C01", "C01.maprange",
  (CTRL, """	sort.Strings(kvKeys)
""", """	_ = sort.Strings
"""))
M("allegation-fix-reverted", "C01", "C01.maprange",
  ("identity/validator_set_allegation.go", """	sort.Strings(requestIDs)
""", ""))
M("loadstate-fix-reverted", "C01", "C01.maprange",
  ("data/delegation/store.go", """	sort.Slice(heights, func(i, j int) bool { return heights[i] < heights[j] })
""", ""))
M("rewards-write-in-map-range", "C01", "C01.maprange",
  (CTRL, """	validatorPowerMap := make(map[string]*big.Int)""", """	validatorPowerMap := make(map[string]*big.Int)
	defer func() {
		for addr, pw := range validatorPowerMap {
			_ = rewardMaster.Reward.AddToAddress(keys.Address(addr), lastHeight, balance.NewAmountFromBigInt(pw))
		}
	}()"""))
M("session-iterate-ranges-map", "C01", "C01.ordered-replay",
  ("storage/session_cache.go", """func (c *sessionCache) Iterate(fn func(key []byte, value []byte) bool) (stopped bool) {
	for _, k := range c.keys {
		v, ok := c.store[k]
		if !ok {
			continue
		}
		if fn([]byte(k), v) {""", """func (c *sessionCache) Iterate(fn func(key []byte, value []byte) bool) (stopped bool) {
	for k, v := range c.store {
		if fn([]byte(k), v) {"""))
M("persistent-serializer-msgpack", "C01", "C01.serializer",
  ("serialize/serialize.go", """	case PERSISTENT:
		return &jsonStrategy{}""", """	case PERSISTENT:
		return &msgpackStrategy{}"""))
M("validator-record-wall-clock", "C01", "C01.nodelocal",
  ("identity/validator_set.go", """	vs.lastHeight = req.Header.GetHeight()
	createdTime := req.Header.GetTime()""", """	vs.lastHeight = req.Header.GetHeight()
	createdTime := req.Header.GetTime()
	if createdTime.IsZero() {
		createdTime = time.Now()
	}"""))
M("tracker-set-inside-witness-branch", "C01", "C01.nodelocal.region",
  ("event/eth_lock_transitions.go", """	if tracker.Finalized() {
		tracker.State = ethereum.Finalized
		return nil
	}

	if context.Witnesses.IsETHWitness() {""", """	if tracker.Finalized() {
		tracker.State = ethereum.Finalized
		return nil
	}

	if context.Witnesses.IsETHWitness() {
		if err := context.TrackerStore.WithPrefixType(ethereum.PrefixOngoing).Set(tracker); err != nil {
			context.Logger.Error("failed to checkpoint tracker", err)
		}"""))
M("expire-needs-own-validator-active", "C01", "C01.nodelocal.region",
  ("action/governance/expireVotes.go", """	//Get proposal from active prefix
	proposal, err := ctx.ProposalMasterStore.Proposal.WithPrefixType(active).Get(expireVotes.ProposalID)""",
   """	if !ctx.Validators.IsValidatorAddress(expireVotes.ValidatorAddress) {
		return false, action.Response{}
	}
	//Get proposal from active prefix
	proposal, err := ctx.ProposalMasterStore.Proposal.WithPrefixType(active).Get(expireVotes.ProposalID)"""))
R("malicious-sort-slice-on-keys", ["C01"],
  ("identity/validator_set_allegation.go", """	sort.Strings(addresses)
""", """	sort.Slice(addresses, func(i, j int) bool { return addresses[i] < addresses[j] })
"""))
R("blockrewards-sorted-helper-loop", ["C01"],
  (CTRL, """	kvKeys := make([]string, 0, len(kvMap))
	for k := range kvMap {
		kvKeys = append(kvKeys, k)
	}
	sort.Strings(kvKeys)""", """	kvKeys := []string{}
	for k, pair := range kvMap {
		if len(pair.Key) == 0 {
			continue
		}
		kvKeys = append(kvKeys, k)
	}
	sort.Strings(kvKeys)"""))

# ------------------------------------------------------------------ C07 / C06.memory
M("beginblock-fix-reverted-govern", "C07", "C07.aim",
  (CTRL, """		feeOpt, err := app.Context.govern.WithState(app.Context.deliver).GetFeeOption()""",
   """		feeOpt, err := app.Context.govern.GetFeeOption()"""))
M("beginblock-fix-reverted-proposals", "C07", "C07.aim",
  (CTRL, """		AddInternalTX(app.Context.proposalMaster.WithState(app.Context.deliver), app""", """		AddInternalTX(app.Context.proposalMaster, app"""))
M("managevotes-unaimed", "C07", "C07.aim",
  (CTRL, """	err = ctx.evidenceStore.WithState(ctx.deliver).SetVoteBlock(req.Header.GetHeight(), req.LastCommitInfo.Votes)""",
   """	err = ctx.evidenceStore.SetVoteBlock(req.Header.GetHeight(), req.LastCommitInfo.Votes)"""))
M("endblock-feepool-unaimed", "C07", "C07.aim",
  (CTRL, """		fee, err := app.Context.feePool.WithState(app.Context.deliver).Get([]byte(fees.POOL_KEY))""",
   """		fee, err := app.Context.feePool.Get([]byte(fees.POOL_KEY))"""))
M("rewards-unaimed", "C07", "C07.aim",
  (CTRL, """	rewardMaster := appCtx.rewardMaster.WithState(appCtx.deliver)
	options := rewardMaster.Reward.GetOptions()""", """	rewardMaster := appCtx.rewardMaster
	options := rewardMaster.Reward.GetOptions()"""))
M("rewards-aimed-at-check", "C07", "C07.aim",
  (CTRL, """	delegStore := ctx.netwkDelegators.Deleg.WithState(ctx.deliver)""", """	delegStore := ctx.netwkDelegators.Deleg.WithState(ctx.check)"""))
M("commit-keeps-check-state", "C07", "C07.recreate",
  (CTRL, """		app.Context.check = storage.NewState(app.Context.chainstate).WithGas(gc)
		result := ResponseCommit{""", """		if app.Context.check == nil {
			app.Context.check = storage.NewState(app.Context.chainstate).WithGas(gc)
		}
		result := ResponseCommit{"""))
M("deliver-uses-check-state", "C07", "C07.deliverstate",
  (CTRL, """		txCtx := app.Context.Action(&app.header, app.Context.deliver)

		handler := txCtx.Router.Handler(tx.Type)""", """		txCtx := app.Context.Action(&app.header, app.Context.check)

		handler := txCtx.Router.Handler(tx.Type)"""))
M("olvm-check-runs-vm", "C07", "C07.nowrite",
  ("action/olvm/handler.go", """	ctx.Logger.Detail("Processing OLVM Transaction for CheckTx", rawTx)""",
   """	ctx.Logger.Detail("Processing OLVM Transaction for CheckTx", rawTx)
	if len(rawTx.Data) > txSlotSize {
		return runOLVM(ctx, rawTx)
	}"""))
M("selector-stale-alias", ["C07"], "C07.selector",
  ("action/eth/ext_lock.go", """	if ctx.ETHTrackers.WithPrefixType(ethereum.PrefixOngoing).Exists(name) || ctx.ETHTrackers.WithPrefixType(ethereum.PrefixPassed).Exists(name) {""",
   """	passed := ctx.ETHTrackers.WithPrefixType(ethereum.PrefixPassed)
	ongoing := ctx.ETHTrackers.WithPrefixType(ethereum.PrefixOngoing)
	if ongoing.Exists(name) || passed.Exists(name) {"""))
M("apply-skips-finalise-on-error", "C06", "C06.memory.evm-epilogue",
  ("vm/evm.go", """	executionResult, err := ApplyMessage(etx.NewEVM(), etx, etx.gaspool)
""", """	executionResult, err := ApplyMessage(etx.NewEVM(), etx, etx.gaspool)
	if err != nil {
		return nil, err
	}
"""))
M("finalise-keeps-object-cache", "C06", "C06.memory.evm-epilogue",
  ("vm/statedb.go", """		s.stateObjects = make([]stateEntry, 0)
		s.addressToObjectIndex = make(map[ethcmn.Address]int)
		s.stateObjectsDirty = make(map[ethcmn.Address]struct{})
		// invalidate journal because reverting across transactions is not allowed""", """		s.stateObjectsDirty = make(map[ethcmn.Address]struct{})
		// invalidate journal because reverting across transactions is not allowed"""))
M("govupdate-live-fee-pointer", ["C06", "C07"], ["C06.memory", "C07.shared"],
  ("action/govUpdate.go", """func feeOptionminFeeDecimal(value interface{}, ctx *Context, validationOnly FunctionBehaviour) (bool, error) {
	feeOptions, err := ctx.GovernanceStore.GetFeeOption()
	if err != nil {
		return false, err
	}""", """func feeOptionminFeeDecimal(value interface{}, ctx *Context, validationOnly FunctionBehaviour) (bool, error) {
	feeOptions := ctx.FeePool.GetOpt()
	if feeOptions == nil {
		return false, errors.New("fee options are not set")
	}"""))
R("rewards-aim-hoisted", ["C07"],
  (CTRL, """	delegationPoolCoin, err := appCtx.balances.WithState(appCtx.deliver).GetBalanceForCurr(poolList["DelegationPool"], &curr)""",
   """	bal := appCtx.balances.WithState(appCtx.deliver)
	delegationPoolCoin, err := bal.GetBalanceForCurr(poolList["DelegationPool"], &curr)"""))
R("endblock-validators-aimed-once", ["C07"],
  (CTRL, """		events := app.Context.validators.WithState(app.Context.deliver).GetEvents()
		app.logger.Detailf("Sending events with nodes to tendermint: %+v\\n", events)

		app.Context.validators.WithState(app.Context.deliver).ClearEvents()""", """		vals := app.Context.validators.WithState(app.Context.deliver)
		events := vals.GetEvents()
		app.logger.Detailf("Sending events with nodes to tendermint: %+v\\n", events)

		vals.ClearEvents()"""))

# ------------------------------------------------------------------ C11
M("withdraw-drop-frozen", "C11", "C11.frozen",
  ("action/staking/withdraw.go", """	if ctx.EvidenceStore.IsFrozenValidator(draw.ValidatorAddress) {
		return false, action.Response{Log: evidence.ErrFrozenValidator.Error()}
	}
""", """	_ = evidence.ErrFrozenValidator
"""))
M("stake-frozen-checks-stake-address", "C11", "C11.frozen",
  ("action/staking/stake.go", """	if ctx.EvidenceStore.IsFrozenValidator(st.ValidatorAddress) {""", """	if ctx.EvidenceStore.IsFrozenValidator(st.StakeAddress) {"""))
M("unstake-no-maturity", "C11", "C11.unstake.maturity",
  ("action/staking/unstake.go", """ust.Stake.Value, height+options.MaturityTime)""", """ust.Stake.Value, height+options.TopValidatorCount)"""))
M("withdraw-debits-effective", "C11", "C11.store.withdraw",
  ("data/delegation/store.go", """	delegatorBoundCoin, err := st.GetDelegatorBoundedAmount(delegatorAddress)
	if err != nil {
		return err
	}

	// withdraw amount for unstake from bound amount""", """	delegatorBoundCoin, err := st.GetDelegatorEffectiveAmount(delegatorAddress)
	if err != nil {
		return err
	}

	// withdraw amount for unstake from bound amount"""))
M("withdraw-credit-before-debit", "C11", "C11.withdraw.paid",
  ("action/staking/withdraw.go", """	err = ctx.Delegators.Withdraw(draw.ValidatorAddress, draw.StakeAddress, draw.Stake.Value)
	if err != nil {
		return false, action.Response{Log: errors.Wrap(err, draw.StakeAddress.String()).Error()}
	}

	err = ctx.Balances.AddToAddress(draw.StakeAddress, coin)
	if err != nil {
		return false, action.Response{Log: errors.Wrap(err, "add to balance").Error()}
	}
""", """	err = ctx.Balances.AddToAddress(draw.StakeAddress, coin)
	if err != nil {
		return false, action.Response{Log: errors.Wrap(err, "add to balance").Error()}
	}

	err = ctx.Delegators.Withdraw(draw.ValidatorAddress, draw.StakeAddress, draw.Stake.Value)
	if err != nil {
		ctx.Logger.Error(errors.Wrap(err, draw.StakeAddress.String()).Error())
	}
"""))
M("mature-no-reset", "C11", "C11.store.mature",
  ("data/delegation/store.go", """		st.SetMatureAmounts(height, mature)
	}
}""", """		st.SetMatureAmounts(height+1, mature)
	}
}"""))
M("minus-skips-delegator-total", "C11", "C11.store.threeway",
  ("data/delegation/store.go", """	// update a new vd effective amount
	err = st.SetDelegatorEffectiveAmount(delegatorAddress, *newDelegatedEffectiveCoin)""", """	// update a new vd effective amount
	err = st.SetDelegatorEffectiveAmount(validatorAddress, *newDelegatedEffectiveCoin)"""))
M("unstake-entry-before-debit-check", "C11", "C11.store.unstake",
  ("data/delegation/store.go", """	err := st.MinusFromAddress(validatorAddress, delegatorAddress, coin)
	if err != nil {
		return err
	}
	// st_m_ operation""", """	err := st.MinusFromAddress(validatorAddress, delegatorAddress, coin)
	if err != nil && coin.BigInt().Sign() == 0 {
		return err
	}
	// st_m_ operation"""))
R("withdraw-frozen-helper", ["C11"],
  ("action/staking/withdraw.go", """	if ctx.EvidenceStore.IsFrozenValidator(draw.ValidatorAddress) {
		return false, action.Response{Log: evidence.ErrFrozenValidator.Error()}
	}
""", """	if err := ensureNotFrozen(ctx, draw); err != nil {
		return false, action.Response{Log: err.Error()}
	}
"""),
  ("action/staking/withdraw.go", """func runWithdraw(ctx *action.Context, tx action.RawTx) (bool, action.Response) {""", """func ensureNotFrozen(ctx *action.Context, draw *Withdraw) error {
	if frozen := ctx.EvidenceStore.IsFrozenValidator(draw.ValidatorAddress); frozen {
		return evidence.ErrFrozenValidator
	}
	return nil
}

func runWithdraw(ctx *action.Context, tx action.RawTx) (bool, action.Response) {"""))
R("unstake-maturity-local", ["C11"],
  ("action/staking/unstake.go", """	err = ctx.Delegators.Unstake(ust.ValidatorAddress, ust.StakeAddress, ust.Stake.Value, height+options.MaturityTime)""",
   """	matureAt := options.MaturityTime + height
	err = ctx.Delegators.Unstake(ust.ValidatorAddress, ust.StakeAddress, ust.Stake.Value, matureAt)"""))

# ------------------------------------------------------------------ C19
M("vote-drop-active-check", "C19", "C19.handler.vote",
  ("action/evidence/vote.go", """	if !ctx.EvidenceStore.IsActiveValidator(al.Address) {
		return helpers.LogAndReturnFalse(ctx.Logger, evidence.ErrNonActiveValidator, al.Tags(), err)
	}
""", ""))
M("allegation-active-checks-accused", "C19", "C19.handler.allegation",
  ("action/evidence/allegation.go", """	if !ctx.EvidenceStore.IsActiveValidator(al.ValidatorAddress) {""", """	if !ctx.EvidenceStore.IsActiveValidator(al.MaliciousAddress) {"""))
M("vote-dedupe-removed", "C19", "C19.vote",
  ("data/evidence/store.go", """		if vote.Address.Equal(voteAddress) {
			return fmt.Errorf("You have been already voted on this request")
		}""", """		if vote.Address.Equal(voteAddress) {
			break
		}"""))
M("vote-on-closed-request", "C19", "C19.vote",
  ("data/evidence/store.go", """	if ar.Status == GUILTY || ar.Status == INNOCENT {""", """	if ar.Status == GUILTY {"""))
M("release-without-ready", "C19", "C19.release",
  ("data/evidence/store.go", """	if !isReady {
		return fmt.Errorf("Validator \\"%s\\" not ready for release", validatorAddress)
	}
""", """	_ = isReady
"""))
M("guilty-on-no-share", "C19", "C19.tally",
  ("identity/validator_set_allegation.go", """		if yesP > percentage {""", """		if yesP > percentage || noP < percentage {"""))
M("bounty-without-slash", "C19", "C19.tally",
  ("identity/validator_set_allegation.go", """			if err == nil {
				bountyCoin := balance.Coin{""", """			if err == nil || pAmt.Sign() > 0 {
				bountyCoin := balance.Coin{"""))
M("release-field-written-elsewhere", "C19", "C19.release.who",
  ("data/evidence/store.go", """func (es *EvidenceStore) UpdateSuspiciousValidator(lvh *LastValidatorHistory) error {""", """func (es *EvidenceStore) UpdateSuspiciousValidator(lvh *LastValidatorHistory) error {
	if lvh.ReleaseAt == nil && lvh.Status == MISSED_REQUIRED_VOTES {
		lvh.ReleaseAt = lvh.FrozenAt
	}"""))
R("vote-guards-switch", ["C19"],
  ("data/evidence/store.go", """	if choice != YES && choice != NO {
		return fmt.Errorf("Invalid choice, only YES or NO available")
	}
	if ar.Status == GUILTY || ar.Status == INNOCENT {
		return fmt.Errorf("Could not vote on closed requet")
	}""", """	switch choice {
	case YES, NO:
	default:
		return fmt.Errorf("Invalid choice, only YES or NO available")
	}
	switch ar.Status {
	case GUILTY, INNOCENT:
		return fmt.Errorf("Could not vote on closed requet")
	}"""))

# ------------------------------------------------------------------ C20
M("update-drop-owner-check", "C20", "C20.owner",
  ("action/ons/update.go", """	if !bytes.Equal(d.Owner, update.Owner) {
		return false, action.Response{Log: fmt.Sprintf("domain is not owned by: %s", hex.EncodeToString(update.Owner))}
	}
""", """	_ = hex.EncodeToString
	_ = bytes.Equal
"""))
M("sale-owner-check-inverted", "C20", "C20.owner",
  ("action/ons/sale.go", """	if bytes.Compare(domain.Owner, sale.OwnerAddress) != 0 {""", """	if bytes.Compare(domain.Owner, sale.OwnerAddress) == 0 {"""))
M("renew-owner-check-after-payment", "C20", "C20.owner",
  ("action/ons/renew.go", """	// the sender must be the owner of the domain
	if !bytes.Equal(renewDomain.Owner, domain.Owner) {
		return false, action.Response{Log: "only domain owner can renew a domain"}
	}

	//Transfer funds to the fee pool
	price := renewDomain.BuyingPrice.ToCoin(ctx.Currencies)
	err = ctx.Balances.MinusFromAddress(renewDomain.Owner, price)
	if err != nil {
		return false, action.Response{Log: err.Error()}
	}
""", """	//Transfer funds to the fee pool
	price := renewDomain.BuyingPrice.ToCoin(ctx.Currencies)
	err = ctx.Balances.MinusFromAddress(renewDomain.Owner, price)
	if err != nil {
		return false, action.Response{Log: err.Error()}
	}

	// the sender must be the owner of the domain
	if !bytes.Equal(renewDomain.Owner, domain.Owner) {
		return false, action.Response{Log: "only domain owner can renew a domain"}
	}
"""))
M("deletesub-owner-compares-name", "C20", "C20.owner",
  ("action/ons/deleteSub.go", """	if !bytes.Equal(parent.Owner, del.Owner) {""", """	if !bytes.Equal(parent.Owner, parent.Owner) {"""))
M("create-exists-check-dropped", "C20", "C20.create",
  ("action/ons/create.go", """	if ctx.Domains.Exists(create.Name) {
		return false, action.Response{
			Log: codes.ErrDomainExists.Marshal(),
		}
	}
""", ""))
M("create-sub-parent-owner-dropped", "C20", "C20.create",
  ("action/ons/create.go", """		if !bytes.Equal(parent.Owner, create.Owner) {
			return false, action.Response{
				Log: codes.ErrParentNotOwned.Marshal(),
			}
		}
""", """		_ = bytes.Equal
		_ = codes.ErrParentNotOwned
"""))
M("purchase-credits-buyer", "C20", "C20.purchase",
  ("action/ons/purchase.go", """		err = ctx.Balances.AddToAddress(domain.Owner, sale)""", """		err = ctx.Balances.AddToAddress(buy.Buyer, sale)"""))
M("purchase-price-check-dropped", "C20", "C20.purchase",
  ("action/ons/purchase.go", """		if !sale.LessThanEqualCoin(olt.NewCoinFromAmount(buy.Offering.Value)) {
			return false, action.Response{Log: "offering is not enough"}
		}
""", ""))
M("purchase-not-on-sale-allowed", "C20", "C20.purchase",
  ("action/ons/purchase.go", """	if !domain.OnSaleFlag && (ctx.State.Version() <= domain.ExpireHeight) {
		return false, action.Response{Log: "domain is not on sale or expired"}
	}
""", """	if !domain.OnSaleFlag && !domain.ActiveFlag && (ctx.State.Version() <= domain.ExpireHeight) {
		return false, action.Response{Log: "domain is not on sale or expired"}
	}
"""))
M("send-credits-owner", "C20", "C20.send",
  ("action/ons/send.go", """	to := domain.Beneficiary
""", """	to := domain.Owner
"""))
M("renew-extension-from-options", "C20", "C20.expiry",
  ("action/ons/renew.go", """	extend, err := calculateRenewal(&renewDomain.BuyingPrice.Value, &opt.PerBlockFees)""", """	extend, err := calculateRenewal(&opt.BaseDomainPrice, &opt.PerBlockFees)"""))
R("update-owner-check-helper", ["C20"],
  ("action/ons/update.go", """	if !bytes.Equal(d.Owner, update.Owner) {
		return false, action.Response{Log: fmt.Sprintf("domain is not owned by: %s", hex.EncodeToString(update.Owner))}
	}
""", """	if owned := d.Owner.Equal(update.Owner); !owned {
		return false, action.Response{Log: fmt.Sprintf("domain is not owned by: %s", hex.EncodeToString(update.Owner))}
	}
	_ = bytes.Equal
"""))

# ------------------------------------------------------------------ C15
M("mint-fix-reverted", "C15", "C15.mint",
  ("action/eth/check_finalty.go", """	err = ctx.Balances.AddToAddress(tracker.ProcessOwner, oEthCoin)""", """	err = ctx.Balances.AddToAddress(oltTx.Locker, oEthCoin)"""))
M("erc20-dedupe-fix-reverted", "C15", "C15.dedupe",
  ("action/eth/ext_ERC20Lock.go", """	if ctx.ETHTrackers.WithPrefixType(ethereum.PrefixOngoing).Exists(name) || ctx.ETHTrackers.WithPrefixType(ethereum.PrefixPassed).Exists(name) {
		return false, action.Response{
			Log: "Tracker already exists / Lock for this ETHTX in progress or has completed successfully",
		}
	}
""", ""))
M("lock-dedupe-only-ongoing", "C15", "C15.dedupe",
  ("action/eth/ext_lock.go", """	if ctx.ETHTrackers.WithPrefixType(ethereum.PrefixOngoing).Exists(name) || ctx.ETHTrackers.WithPrefixType(ethereum.PrefixPassed).Exists(name) {""",
   """	if ctx.ETHTrackers.WithPrefixType(ethereum.PrefixOngoing).Exists(name) {"""))
M("finalized-half-plus-one", "C15", "C15.threshold",
  ("data/ethereum/tracker.go", """func (t *Tracker) Finalized() bool {
	l := len(t.Witnesses)
	num := (l * 2 / 3) + 1""", """func (t *Tracker) Finalized() bool {
	l := len(t.Witnesses)
	num := (l / 2) + 1"""))
M("redeem-tracker-before-supply-debit", "C15", "C15.redeem",
  ("action/eth/ext_redeem.go", """	err = ctx.Balances.MinusFromAddress(ethSupply, coin)
	if err != nil {""", """	err = ctx.Balances.MinusFromAddress(ethSupply, coin)
	if err != nil && coin.Amount == nil {"""))
M("mint-on-vote-before-threshold-recheck", "C15", "C15.finality",
  ("action/eth/check_finalty.go", """	//Handle when tracker has 67% Yes votes
	if tracker.Finalized() {
""", """	//Handle when tracker has 67% Yes votes
	if yes, _ := tracker.GetVotes(); yes*3 >= len(tracker.Witnesses)*2 {
"""))
M("mint-amount-from-report", "C15", "C15.mint",
  ("action/eth/check_finalty.go", """	err = ctx.Balances.AddToAddress(ethSupply, oEthCoin)
	if err != nil {
		return errors.Wrap(err, "Unable to update total Eth supply")
	}""", """	err = ctx.Balances.AddToAddress(ethSupply, curr.NewCoinFromInt(oltTx.VoteIndex))
	if err != nil {
		return errors.Wrap(err, "Unable to update total Eth supply")
	}"""))
R("lock-dedupe-sequential-ifs", ["C15", "C07"],
  ("action/eth/ext_lock.go", """	if ctx.ETHTrackers.WithPrefixType(ethereum.PrefixOngoing).Exists(name) || ctx.ETHTrackers.WithPrefixType(ethereum.PrefixPassed).Exists(name) {
		return false, action.Response{
			Log: "Tracker already exists / Lock for this ETHTX in progress or has completed successfully",
		}
	}""", """	if inProgress := ctx.ETHTrackers.WithPrefixType(ethereum.PrefixOngoing).Exists(name); inProgress {
		return false, action.Response{Log: "Tracker already exists / Lock for this ETHTX in progress"}
	}
	if done := ctx.ETHTrackers.WithPrefixType(ethereum.PrefixPassed).Exists(name); done {
		return false, action.Response{Log: "Lock for this ETHTX has completed successfully"}
	}"""))

# ------------------------------------------------------------------ C14
M("expire-fix-reverted", "C14", "C14.expire",
  ("action/governance/expireVotes.go", """	if proposal.Status != governance.ProposalStatusVoting || proposal.VotingDeadline >= ctx.Header.Height {""",
   """	if proposal.Status != governance.ProposalStatusVoting && proposal.Status != governance.ProposalStatusFunding {"""))
M("vote-after-deadline", "C14", "C14.vote",
  ("action/governance/voteProposal.go", """	if ctx.Header.Height > proposal.VotingDeadline {""", """	if ctx.Header.Height > proposal.VotingDeadline && proposal.VotingDeadline == 0 {"""))
M("vote-status-check-dropped", "C14", "C14.vote",
  ("action/governance/voteProposal.go", """	if proposal.Status != gov.ProposalStatusVoting {
		return false, action.Response{
			Log: gov.ErrStatusNotVoting.Marshal(),
		}
	}
""", ""))
M("config-update-on-failed", "C14", "C14.finalize",
  ("action/governance/finalizeProposal.go", """	if voteStatus.Result == governance.VOTE_RESULT_PASSED {
		if proposal.Type == governance.ProposalTypeConfigUpdate {""", """	if voteStatus.Result != governance.VOTE_RESULT_TBD {
		if proposal.Type == governance.ProposalTypeConfigUpdate {"""))
M("distribute-keeps-funds", "C14", "C14.finalize",
  ("action/governance/finalizeProposal.go", """	err = fundStore.DeleteAllFunds(proposal.ProposalID)
	if err != nil {
		return err
	}
	return nil""", """	if totalFunds.BigInt().Sign() == 0 {
		return nil
	}
	err = fundStore.DeleteAllFunds(proposal.ProposalID)
	if err != nil {
		return err
	}
	return nil"""))
M("finalize-again", "C14", "C14.finalize",
  ("action/governance/finalizeProposal.go", """	_, err = ctx.ProposalMasterStore.Proposal.WithPrefixType(governance.ProposalStateFinalized).Get(finalizedProposal.ProposalID)
	if err == nil {""", """	_, err = ctx.ProposalMasterStore.Proposal.WithPrefixType(governance.ProposalStateFinalized).Get(finalizedProposal.ProposalID)
	if err == nil && len(finalizedProposal.ValidatorAddress) == 0 {"""))
M("withdraw-goal-met", "C14", "C14.withdraw",
  ("action/governance/withdrawFunds.go", """		if currentFundsForProposal.BigInt().Cmp(proposal.FundingGoal.BigInt()) >= 0 || ctx.Header.Height <= proposal.FundingDeadline {""",
   """		if currentFundsForProposal == nil || ctx.Header.Height <= proposal.FundingDeadline {"""))
M("withdraw-credit-before-deduct", "C14", "C14.withdraw",
  ("action/governance/withdrawFunds.go", """	err = ctx.ProposalMasterStore.ProposalFund.DeductFunds(proposal.ProposalID, withdrawProposal.Funder, withdrawAmount)
	if err != nil {""", """	err = ctx.ProposalMasterStore.ProposalFund.DeductFunds(proposal.ProposalID, withdrawProposal.Funder, withdrawAmount)
	if err != nil && withdrawAmount.BigInt().Sign() == 0 {"""))
M("vote-update-overwrites-power", "C14", "C14.vote",
  ("data/governance/proposal_vote_store.go", """	pv.Opinion = vote.Opinion
	value := pv.Bytes()""", """	pv.Opinion = vote.Opinion
	pv.Power = vote.Power
	value := pv.Bytes()"""))
M("fund-after-deadline", "C14", "C14.fund",
  ("action/governance/fundProposal.go", """	if ctx.Header.Height > proposal.FundingDeadline {""", """	if ctx.Header.Height > proposal.FundingDeadline+proposal.VotingDeadline {"""))
R("cancel-guards-reordered", ["C14"],
  ("action/governance/cancelProposal.go", """	if proposal.Status != gov.ProposalStatusFunding {
		return false, action.Response{
			Log: gov.ErrStatusNotFunding.Marshal(),
		}
	}

	// Check if proposal funding height is passed
	if ctx.Header.Height > proposal.FundingDeadline {
		return false, action.Response{
			Log: gov.ErrFundingDeadlineCrossed.Marshal(),
		}
	}
""", """	if late := ctx.Header.Height > proposal.FundingDeadline; late {
		return false, action.Response{
			Log: gov.ErrFundingDeadlineCrossed.Marshal(),
		}
	}

	switch proposal.Status {
	case gov.ProposalStatusFunding:
	default:
		return false, action.Response{
			Log: gov.ErrStatusNotFunding.Marshal(),
		}
	}
"""))

# ------------------------------------------------------------------ C10
VSET = "identity/validator_set.go"
M("elect-malicious-allowed", "C10", "C10.elect",
  (VSET, """				if !isMalicious {
					updateTendermint = true""", """				if !isMalicious || validator.Power > minSelfDelegationAmount*2 {
					updateTendermint = true"""))
M("elect-no-top-limit", "C10", "C10.elect",
  (VSET, """			if validator.Power >= minSelfDelegationAmount && cnt < stakingOptions.TopValidatorCount {""", """			if validator.Power >= minSelfDelegationAmount && cnt <= stakingOptions.TopValidatorCount {"""))
M("endblock-unsorted-when-empty-purge", "C10", "C10.sorted",
  (VSET, """	sort.Slice(validatorUpdates, func(i, j int) bool {
		return bytes.Compare(validatorUpdates[i].PubKey.GetData(), validatorUpdates[j].PubKey.GetData()) < 0
	})
""", """	if len(validatorUpdates) > 2 {
		sort.Slice(validatorUpdates, func(i, j int) bool {
			return bytes.Compare(validatorUpdates[i].PubKey.GetData(), validatorUpdates[j].PubKey.GetData()) < 0
		})
	} else {
		return validatorUpdates
	}
"""))
M("queue-min-heap", "C10", "C10.queue",
  ("utils/priority_queue.go", """	return vq[i].priority > vq[j].priority""", """	return vq[i].priority < vq[j].priority"""))
M("purge-height-not-recorded", "C10", "C10.purge",
  (VSET, """			err = vs.SetLastPurgeHeight(keys.Address(addr), height)
			if err != nil {""", """			if vs.lastActive[addr] > 0 {
				continue
			}
			err = vs.SetLastPurgeHeight(keys.Address(addr), height)
			if err != nil {"""))
M("stake-window-off-by-one", "C10", "C10.window",
  (VSET, """	if purgeHeight > 0 && purgeHeight+2 > height {
		return errors.New("not allowed to stake within 2 blocks after unstake")""", """	if purgeHeight > 0 && purgeHeight+1 > height {
		return errors.New("not allowed to stake within 2 blocks after unstake")"""))
M("elect-current-height-record", "C10", "C10.elect",
  (VSET, """			data := vs.store.GetVersioned(height-1, key)
			if len(data) == 0 {
				logger.Errorf("Previous state data not found for address: %s", addrHuman)
				continue
			}
			validator := &Validator{}""", """			data := vs.store.GetVersioned(height, key)
			if len(data) == 0 {
				logger.Errorf("Previous state data not found for address: %s", addrHuman)
				continue
			}
			validator := &Validator{}"""))
R("purge-window-helper", ["C10"],
  (VSET, """			if purgeHeight > 0 && height <= purgeHeight+2 {
				continue
			}""", """			if recentlyPurged(purgeHeight, height) {
				continue
			}"""),
  (VSET, """func (vs *ValidatorStore) GetBitcoinKeys(""", """func recentlyPurged(purgeHeight, height int64) bool {
	if purgeHeight <= 0 {
		return false
	}
	return height-purgeHeight <= 2
}

func (vs *ValidatorStore) GetBitcoinKeys("""))

# ------------------------------------------------------------------ C12
NDEL = "action/network_delegation/add_network_delegation.go"
NUND = "action/network_delegation/network_undelegate.go"
NREI = "action/network_delegation/reinvest_rewards.go"
NDST = "data/network_delegation/store.go"
NDRW = "data/network_delegation/rewards_store.go"
M("delegate-active-overwritten", "C12", "C12.delegate",
  (NDEL, """	newCoin := currentDelegation.Plus(coin)""", """	newCoin := coin
	_ = currentDelegation"""))
M("delegate-pool-credit-before-debit", "C12", "C12.delegate",
  (NDEL, """	//Deduct Delegation Amount
	err = ctx.Balances.MinusFromAddress(delegate.DelegationAddress, coin)
	if err != nil {
		return helpers.LogAndReturnFalse(ctx.Logger, balance.ErrBalanceErrorMinusFailed, delegate.Tags(), err)
	}
""", ""),
  (NDEL, """	//Add balance to delegation
	currentDelegation, _ :=""", """	//Deduct Delegation Amount
	err = ctx.Balances.MinusFromAddress(delegate.DelegationAddress, coin)
	if err != nil {
		return helpers.LogAndReturnFalse(ctx.Logger, balance.ErrBalanceErrorMinusFailed, delegate.Tags(), err)
	}
	//Add balance to delegation
	currentDelegation, _ :="""))
M("undelegate-no-pool-debit", "C12", "C12.undelegate",
  (NUND, """	err = ctx.Balances.MinusFromAddress(delagationPool, undelegateCoin)
	if err != nil {
		return helpers.LogAndReturnFalse(ctx.Logger, balance.ErrBalanceErrorAddFailed, ud.Tags(), err)
	}
""", """	_, _ = delagationPool, balance.ErrBalanceErrorAddFailed
"""))
M("undelegate-matures-immediately", "C12", "C12.undelegate",
  (NUND, """	matureHeight := ctx.Header.GetHeight() + delegationOptions.RewardsMaturityTime""",
   """	matureHeight := ctx.Header.GetHeight() + 1
	_ = delegationOptions"""))
M("undelegate-minus-error-dropped", "C12", "C12.undelegate",
  (NUND, """	remainCoin, err := delegationCoin.Minus(undelegateCoin)
	if err != nil {
		return helpers.LogAndReturnFalse(ctx.Logger, net_delg.ErrDeductingActiveDelgAmount, ud.Tags(), err)
	}""", """	remainCoin, _ := delegationCoin.Minus(undelegateCoin)"""))
M("undelegate-pending-overwritten", "C12", "C12.undelegate",
  (NUND, """		err = ds.SetPendingAmount(ud.Delegator, matureHeight, &newPendingCoin)""",
   """		_ = newPendingCoin
		err = ds.SetPendingAmount(ud.Delegator, matureHeight, &undelegateCoin)"""))
M("undelegate-skips-pending-when-exists", "C12", "C12.undelegate",
  (NUND, """	} else {
		// if so, change the amount
		existingPendingCoin, err := ds.GetPendingAmount(ud.Delegator, matureHeight)
		if err != nil {
			return helpers.LogAndReturnFalse(ctx.Logger, net_delg.ErrGettingPendingDelgAmount, ud.Tags(), err)
		}
		newPendingCoin := existingPendingCoin.Plus(undelegateCoin)
		err = ds.SetPendingAmount(ud.Delegator, matureHeight, &newPendingCoin)
		if err != nil {
			return helpers.LogAndReturnFalse(ctx.Logger, net_delg.ErrSettingPendingDelgAmount, ud.Tags(), err)
		}
	}""", """	} else if existingPendingCoin, err := ds.GetPendingAmount(ud.Delegator, matureHeight); err == nil {
		newPendingCoin := existingPendingCoin.Plus(undelegateCoin)
		err = ds.SetPendingAmount(ud.Delegator, matureHeight, &newPendingCoin)
		if err != nil {
			return helpers.LogAndReturnFalse(ctx.Logger, net_delg.ErrSettingPendingDelgAmount, ud.Tags(), err)
		}
	}"""))
M("reinvest-minus-error-dropped", "C12", "C12.reinvest",
  (NREI, """	err = ctx.NetwkDelegators.Rewards.MinusRewardsBalance(invest.Delegator, coinAmt.Amount)
	if err != nil {
		return helpers.LogAndReturnFalse(ctx.Logger, netwkDeleg.ErrReinvestRewards, invest.Tags(), err)
	}""", """	_ = ctx.NetwkDelegators.Rewards.MinusRewardsBalance(invest.Delegator, coinAmt.Amount)
	_ = netwkDeleg.ErrReinvestRewards"""))
M("rewardstore-withdraw-ignores-minus", "C12", "C12.withdraw",
  (NDRW, """	err := drs.MinusRewardsBalance(delegator, amount)
	if err != nil {
		return errors.Wrap(err, "Minus from rewards balance")
	}
	err = drs.addPendingRewards(delegator, amount, matureHeight)""", """	_ = drs.MinusRewardsBalance(delegator, amount)
	err := drs.addPendingRewards(delegator, amount, matureHeight)"""))
M("payer-scans-next-height", "C12", "C12.maturity",
  (CTRL, """	delegStore.IteratePendingAmounts(height, func(addr *keys.Address, coin *balance.Coin) bool {""",
   """	delegStore.IteratePendingAmounts(height+1, func(addr *keys.Address, coin *balance.Coin) bool {"""))
M("payer-stops-on-credit-error", "C12", "C12.maturity",
  (CTRL, """			logger.Errorf("failed to add pending rewards amount at height: %d to address: %s", height, delegator.String())
			panic(err)""", """			logger.Errorf("failed to add pending rewards amount at height: %d to address: %s", height, delegator.String())
			return true"""))
M("payer-does-not-clear", "C12", "C12.maturity",
  (CTRL, """		err = rewardsStore.SetPendingRewards(delegator, zero, height)""", """		_ = zero
		err = rewardsStore.SetPendingRewards(delegator, amt, height)"""))
M("begin-maturity-only-without-evidence", "C12", "C12.maturity",
  (CTRL, """		delegEvent, anyMatured := addMaturedAmountsToBalance(&app.Context, app.logger, &req)
		if anyMatured {
			result.Events = append(result.Events, delegEvent)
		}""", """		if len(req.ByzantineValidators) == 0 {
			delegEvent, anyMatured := addMaturedAmountsToBalance(&app.Context, app.logger, &req)
			if anyMatured {
				result.Events = append(result.Events, delegEvent)
			}
		}"""))
M("revert-fix-pending-height-prefix", "C12", "C12.keys",
  (NDST, """	prefix := append(st.buildPendingKey(), (strconv.FormatInt(height, 10) + storage.DB_PREFIX)...)""",
   """	prefix := append(st.buildPendingKey(), strconv.FormatInt(height, 10)...)"""))
M("pending-key-address-first", "C12", "C12.keys",
  (NDST, """func (st *Store) SetPendingAmount(addr keys.Address, height int64, coin *balance.Coin) error {
	prefix := st.buildPendingKey()
	pendingKey := strconv.FormatInt(height, 10) + storage.DB_PREFIX + addr.String()""",
   """func (st *Store) SetPendingAmount(addr keys.Address, height int64, coin *balance.Coin) error {
	prefix := st.buildPendingKey()
	pendingKey := addr.String() + storage.DB_PREFIX + strconv.FormatInt(height, 10)"""))
M("pending-reward-key-format-diverges", "C12", "C12.keys",
  (NDRW, """	key := fmt.Sprintf("%spending_%d_%s", string(drs.prefix), height, delegator)""",
   """	key := fmt.Sprintf("%spending%d_%s", string(drs.prefix), height, delegator)"""))
R("undelegate-single-read-merge", ["C12"],
  (NUND, """	if !ds.PendingExists(ud.Delegator, matureHeight) {
		// if not, add an entry to pending store
		err := ds.SetPendingAmount(ud.Delegator, matureHeight, &undelegateCoin)
		if err != nil {
			return helpers.LogAndReturnFalse(ctx.Logger, net_delg.ErrSettingPendingDelgAmount, ud.Tags(), err)
		}
	} else {
		// if so, change the amount
		existingPendingCoin, err := ds.GetPendingAmount(ud.Delegator, matureHeight)
		if err != nil {
			return helpers.LogAndReturnFalse(ctx.Logger, net_delg.ErrGettingPendingDelgAmount, ud.Tags(), err)
		}
		newPendingCoin := existingPendingCoin.Plus(undelegateCoin)
		err = ds.SetPendingAmount(ud.Delegator, matureHeight, &newPendingCoin)
		if err != nil {
			return helpers.LogAndReturnFalse(ctx.Logger, net_delg.ErrSettingPendingDelgAmount, ud.Tags(), err)
		}
	}""", """	existingPendingCoin, err := ds.GetPendingAmount(ud.Delegator, matureHeight)
	if err != nil {
		return helpers.LogAndReturnFalse(ctx.Logger, net_delg.ErrGettingPendingDelgAmount, ud.Tags(), err)
	}
	newPendingCoin := existingPendingCoin.Plus(undelegateCoin)
	err = ds.SetPendingAmount(ud.Delegator, matureHeight, &newPendingCoin)
	if err != nil {
		return helpers.LogAndReturnFalse(ctx.Logger, net_delg.ErrSettingPendingDelgAmount, ud.Tags(), err)
	}"""))
R("payer-height-inline-and-pool-helper", ["C12"],
  (CTRL, """	delegStore.IteratePendingAmounts(height, func(addr *keys.Address, coin *balance.Coin) bool {""",
   """	delegStore.IteratePendingAmounts(req.Header.Height, func(addr *keys.Address, coin *balance.Coin) bool {"""),
  (NUND, """	delagationPool, err := ctx.GovernanceStore.GetPoolByName(gov.POOL_DELEGATION)
	if err != nil {""", """	delagationPool, err := delegationPoolOf(ctx)
	if err != nil {"""),
  (NUND, """func runUndelegate(ctx *action.Context, tx action.RawTx) (bool, action.Response) {""",
   """func delegationPoolOf(ctx *action.Context) (keys.Address, error) {
	return ctx.GovernanceStore.GetPoolByName(gov.POOL_DELEGATION)
}

func runUndelegate(ctx *action.Context, tx action.RawTx) (bool, action.Response) {"""))
R("undelegate-success-flag", ["C12"],
  (NUND, """	err = ctx.Balances.MinusFromAddress(delagationPool, undelegateCoin)
	if err != nil {
		return helpers.LogAndReturnFalse(ctx.Logger, balance.ErrBalanceErrorAddFailed, ud.Tags(), err)
	}

	return true, action.Response{Events: action.GetEvent(ud.Tags(), "undelegate_success")}""",
   """	if err = ctx.Balances.MinusFromAddress(delagationPool, undelegateCoin); err == nil {
		return true, action.Response{Events: action.GetEvent(ud.Tags(), "undelegate_success")}
	}
	return helpers.LogAndReturnFalse(ctx.Logger, balance.ErrBalanceErrorAddFailed, ud.Tags(), err)"""))

# ------------------------------------------------------------------ C02
SEND = "action/transfer/send.go"
M("revert-fix-undelegate-sign", "C02", "C02.signguard",
  (NUND, """	if !ud.Amount.IsValid(ctx.Currencies) || ud.Amount.Currency != "OLT" {
		return helpers.LogAndReturnFalse(ctx.Logger, action.ErrInvalidAmount, ud.Tags(), errors.New("invalid undelegate amount"))
	}
""", ""))
M("revert-fix-reinvest-sign", "C02", "C02.signguard",
  (NREI, """	if !invest.Amount.IsValid(ctx.Currencies) || invest.Amount.Currency != "OLT" {
		return helpers.LogAndReturnFalse(ctx.Logger, action.ErrInvalidAmount, invest.Tags(), errors.New("invalid reinvest amount"))
	}
""", ""))
M("revert-fix-deleg-withdraw-sign", "C02", "C02.signguard",
  ("action/network_delegation/withdraw_rewards.go", """	if !withdraw.Amount.IsValid(ctx.Currencies) || withdraw.Amount.Currency != "OLT" {
		return helpers.LogAndReturnFalse(ctx.Logger, action.ErrInvalidAmount, withdraw.Tags(), errors.New("invalid withdraw amount"))
	}
""", ""))
M("revert-fix-fund-sign", "C02", "C02.signguard",
  ("action/governance/fundProposal.go", """	if !fundProposal.FundValue.IsValid(ctx.Currencies) {
		return helpers.LogAndReturnFalse(ctx.Logger, action.ErrInvalidAmount, fundProposal.Tags(), errors.New("invalid fund value"))
	}
""", ""))
M("revert-fix-withdrawfunds-sign", "C02", "C02.signguard",
  ("action/governance/withdrawFunds.go", """	if !withdrawProposal.WithdrawValue.IsValid(ctx.Currencies) {""", """	if false {"""))
M("revert-fix-reward-withdraw-sign", "C02", "C02.signguard",
  ("action/rewards/withdraw.go", """	if !withdraw.WithdrawAmount.IsValid(ctx.Currencies) {
		return helpers.LogAndReturnFalse(ctx.Logger, action.ErrInvalidAmount, withdraw.Tags(), errors.New("invalid withdraw amount"))
	}
""", ""))
M("revert-fix-bid-sign", "C02", "C02.signguard",
  ("external_apps/bid/bid_action/create_bid.go", """	if !createBid.Amount.IsValid(ctx.Currencies) {
		return helpers.LogAndReturnFalse(ctx.Logger, action.ErrInvalidAmount, createBid.Tags(), errors.New("invalid bid amount"))
	}
""", ""))
M("send-amount-unchecked", "C02", "C02.signguard",
  (SEND, """	if !send.Amount.IsValid(ctx.Currencies) {
		log := fmt.Sprint("amount is invalid", send.Amount, ctx.Currencies)
		return false, action.Response{Log: log}
	}
""", ""),
  (SEND, """	if !send.Amount.IsValid(ctx.Currencies) {
		return false, errors.Wrap(action.ErrInvalidAmount, send.Amount.String())
	}
""", ""))
M("send-validity-of-other-value", "C02", "C02.signguard",
  (SEND, """	if !send.Amount.IsValid(ctx.Currencies) {
		log := fmt.Sprint("amount is invalid", send.Amount, ctx.Currencies)""", """	if !(action.Amount{Currency: send.Amount.Currency, Value: *balance.NewAmount(0)}).IsValid(ctx.Currencies) {
		log := fmt.Sprint("amount is invalid", send.Amount, ctx.Currencies)"""),
  (SEND, """	if !send.Amount.IsValid(ctx.Currencies) {
		return false, errors.Wrap(action.ErrInvalidAmount, send.Amount.String())
	}
""", ""),
  (SEND, """import (""", """import (
	"github.com/Oneledger/protocol/data/balance"
"""))
M("unstake-zero-check-inverted", "C02", "C02.signguard",
  ("action/staking/unstake.go", """	if coin.LessThanEqualCoin(coin.Currency.NewCoinFromInt(0)) {
		return false, action.ErrInvalidAmount
	}""", """	if coin.Currency.NewCoinFromInt(0).LessThanEqualCoin(coin) && coin.Amount == nil {
		return false, action.ErrInvalidAmount
	}"""))
M("create-proposal-lower-bound-from-message", "C02", "C02.signguard",
  ("action/governance/createProposal.go", """	coinInit := coin.Currency.NewCoinFromAmount(*options.InitialFunding)""",
   """	coinInit := coin.Currency.NewCoinFromAmount(createProposal.InitialFunding.Value)"""))
M("coin-minus-always-succeeds", "C02", "C02.minus",
  ("data/balance/coin.go", """	if result.Amount.BigInt().Cmp(big.NewInt(0)) == -1 {
		return result, ErrInsufficientBalance
	}
	return result, nil""", """	if result.Amount.BigInt().Cmp(big.NewInt(0)) == -1 {
		logger.Debug("negative balance", result)
	}
	return result, nil"""))
M("amount-minus-sign-test-flipped", "C02", "C02.minus",
  ("data/balance/amount.go", """	if base.Cmp(big.NewInt(0)) == -1 {
		return NewAmountFromBigInt(base), ErrInsufficientBalance
	}""", """	if base.Cmp(big.NewInt(0)) == 1 {
		return NewAmountFromBigInt(base), ErrInsufficientBalance
	}"""))
M("balance-minus-ignores-error", "C02", "C02.minus",
  ("data/balance/balance_store.go", """	newCoin, err := base.Minus(coin)
	if err != nil {
		return errors.Wrapf(err, "minus from address: %s, balance: %s, coin: %s", addr.String(), base.String(), coin.String())
	}

	return st.set(key, *newCoin.Amount)""", """	newCoin, err := base.Minus(coin)
	if err != nil {
		logger.Error("minus from address", addr.String(), err)
	}

	return st.set(key, *newCoin.Amount)"""))
M("fundstore-deduct-writes-before-check", "C02", "C02.minus",
  ("data/governance/proposal_fund_store.go", """	result, err := amt.Minus(*amount)
	if err != nil {
		return errors.Wrap(err, errorGettingRecord)
	}

	err = pf.set(key, *result)
	if err != nil {
		return err
	}
""", """	result, minusErr := amt.Minus(*amount)
	err = pf.set(key, *result)
	if err != nil {
		return err
	}
	if minusErr != nil {
		return errors.Wrap(minusErr, errorGettingRecord)
	}
"""))
M("send-credit-before-debit", "C02", "C02.pairing",
  (SEND, """	err = balances.MinusFromAddress(send.From.Bytes(), coin)
	if err != nil {
		log := fmt.Sprint("error debiting balance in send transaction ", send.From, "err", err)
		return false, action.Response{Log: log}
	}

	err = balances.AddToAddress(send.To.Bytes(), coin)
	if err != nil {
		log := fmt.Sprint("error crediting balance in send transaction ", send.From, "err", err)
		return false, action.Response{Log: log}
	}
""", """	err = balances.AddToAddress(send.To.Bytes(), coin)
	if err != nil {
		log := fmt.Sprint("error crediting balance in send transaction ", send.From, "err", err)
		return false, action.Response{Log: log}
	}

	err = balances.MinusFromAddress(send.From.Bytes(), coin)
	if err != nil {
		log := fmt.Sprint("error debiting balance in send transaction ", send.From, "err", err)
		return true, action.Response{Log: log}
	}
"""))
M("withdrawfunds-credit-despite-deduct-error", "C02", "C02.pairing",
  ("action/governance/withdrawFunds.go", """		ctx.Logger.Error("Failed to deduct funds from proposal:", withdrawProposal.ProposalID)
		result := action.Response{
			Events: action.GetEvent(withdrawProposal.Tags(), "withdraw_proposal_deduct_fund_failed"),
			Log:    governance.ErrDeductFunding.Wrap(err).Marshal(),
		}
		return false, result""", """		ctx.Logger.Error("Failed to deduct funds from proposal:", withdrawProposal.ProposalID)"""))
M("validator-reward-rounded-up", "C02", "C02.floor",
  (CTRL, """	reward := balance.NewAmountFromBigInt(big.NewInt(0).Div(numerator, totalPower))
	return reward""", """	q := big.NewInt(0).Div(numerator, totalPower)
	reward := balance.NewAmountFromBigInt(q.Add(q, big.NewInt(1)))
	return reward"""))
M("fee-share-float-rounding", "C02", "C02.floor",
  (VSET, """				feeShare := total.MultiplyInt64(queued.Priority()).DivideInt64(vs.totalPower)
""", """				feeShare := total.MultiplyInt64(queued.Priority()).DivideInt64(vs.totalPower)
				if f, _ := new(big.Float).Quo(new(big.Float).SetInt(total.MultiplyInt64(queued.Priority()).Amount.BigInt()), big.NewFloat(float64(vs.totalPower))).Int(nil); f != nil {
					feeShare.Amount = balance.NewAmountFromBigInt(f.Add(f, big.NewInt(0)))
				}
"""))
R("send-validation-in-helper", ["C02"],
  (SEND, """	if !send.Amount.IsValid(ctx.Currencies) {
		log := fmt.Sprint("amount is invalid", send.Amount, ctx.Currencies)
		return false, action.Response{Log: log}
	}
""", """	if err := checkSendAmount(ctx, send.Amount); err != nil {
		return false, action.Response{Log: err.Error()}
	}
"""),
  (SEND, """func runTx(ctx *action.Context, tx action.RawTx) (bool, action.Response) {""", """func checkSendAmount(ctx *action.Context, amt action.Amount) error {
	if amt.IsValid(ctx.Currencies) {
		return nil
	}
	return errors.New("amount is invalid " + amt.String())
}

func runTx(ctx *action.Context, tx action.RawTx) (bool, action.Response) {"""))
R("undelegate-sign-via-coin", ["C02", "C12"],
  (NUND, """	if !ud.Amount.IsValid(ctx.Currencies) || ud.Amount.Currency != "OLT" {
		return helpers.LogAndReturnFalse(ctx.Logger, action.ErrInvalidAmount, ud.Tags(), errors.New("invalid undelegate amount"))
	}
""", """	if c := ud.Amount.ToCoin(ctx.Currencies); !c.IsValid() || c.Currency.Name != "OLT" {
		return helpers.LogAndReturnFalse(ctx.Logger, action.ErrInvalidAmount, ud.Tags(), errors.New("invalid undelegate amount"))
	}
"""))
R("fund-sign-via-bigint", ["C02"],
  ("action/governance/fundProposal.go", """	if !fundProposal.FundValue.IsValid(ctx.Currencies) {""", """	if fundProposal.FundValue.Value.BigInt().Sign() < 0 {"""))
R("coin-minus-cmp-form", ["C02"],
  ("data/balance/coin.go", """	if result.Amount.BigInt().Cmp(big.NewInt(0)) == -1 {
		return result, ErrInsufficientBalance
	}
	return result, nil""", """	if result.Amount.BigInt().Cmp(big.NewInt(0)) >= 0 {
		return result, nil
	}
	return result, ErrInsufficientBalance"""))

# ------------------------------------------------------------------ C03
BASE = "action/base.go"
M("send-debits-recipient", "C03", "C03.subject",
  (SEND, """	err = balances.MinusFromAddress(send.From.Bytes(), coin)""", """	err = balances.MinusFromAddress(send.To.Bytes(), coin)"""))
M("withdrawfunds-deducts-beneficiarys-record", "C03", "C03.subject",
  ("action/governance/withdrawFunds.go", """DeductFunds(proposal.ProposalID, withdrawProposal.Funder, withdrawAmount)""",
   """DeductFunds(proposal.ProposalID, withdrawProposal.Beneficiary, withdrawAmount)"""))
M("reward-withdraw-no-owner-check", "C03", "C03.subject",
  ("action/rewards/withdraw.go", """		if !bytes.Equal(validator.StakeAddress, withdraw.SignerAddress) {
			return helpers.LogAndReturnFalse(ctx.Logger, action.ErrStakeAddressMismatch, withdraw.Tags(), err)
		}""", """		if len(validator.StakeAddress) == 0 && bytes.Equal(nil, nil) {
			return helpers.LogAndReturnFalse(ctx.Logger, action.ErrStakeAddressMismatch, withdraw.Tags(), err)
		}"""))
M("unstake-for-other-delegator", "C03", "C03.subject",
  ("action/staking/unstake.go", """func (ust Unstake) Signers() []action.Address {
	return []action.Address{ust.StakeAddress.Bytes(), ust.ValidatorAddress.Bytes()}""", """func (ust Unstake) Signers() []action.Address {
	return []action.Address{ust.ValidatorAddress.Bytes()}"""))
M("fee-charged-to-memo-address", "C03", "C03.feepayer",
  (BASE, """	addr := h.Address()

	charge := signedTx.Fee.Price.ToCoin(ctx.Currencies).MultiplyInt64(int64(used))
	err = ctx.Balances.MinusFromAddress(addr, charge)""", """	addr := h.Address()
	if len(signedTx.Memo) == 20 {
		addr = keys.Address(signedTx.Memo)
	}

	charge := signedTx.Fee.Price.ToCoin(ctx.Currencies).MultiplyInt64(int64(used))
	err = ctx.Balances.MinusFromAddress(addr, charge)"""))
M("staking-fee-charged-to-named-payer", "C03", "C03.feepayer",
  (BASE, """	err = ctx.Balances.MinusFromAddress(val.StakeAddress, charge)""", """	err = ctx.Balances.MinusFromAddress(feePayer, charge)"""))
M("fee-share-taken-from-validator", "C03", "C03.hooks",
  (VSET, """				err = ctx.FeePool.MinusFromPool(feeShare)
				if err != nil {
					logger.Fatal("failed to minus from fee pool")
				}""", """				err = ctx.FeePool.MinusFromAddress(validator.StakeAddress, feeShare)
				if err != nil {
					logger.Fatal("failed to minus from fee pool")
				}"""))
R("send-subject-local-and-helper", ["C03", "C02"],
  (SEND, """	err = balances.MinusFromAddress(send.From.Bytes(), coin)""", """	from := send.From.Bytes()
	err = balances.MinusFromAddress(from, coin)"""))
R("reward-withdraw-check-before-debit", ["C03"],
  ("action/rewards/withdraw.go", """	withDrawCoin := withdraw.WithdrawAmount.ToCoinWithBase(ctx.Currencies)
	err = ctx.RewardMasterStore.RewardCm.WithdrawRewards(withdraw.ValidatorAddress, withDrawCoin.Amount)
	if err != nil {
		return helpers.LogAndReturnFalse(ctx.Logger, rewards.UnableToWithdraw, withdraw.Tags(), err)
	}
	if ctx.Validators.Exists(withdraw.ValidatorAddress) {
		validator, err := ctx.Validators.Get(withdraw.ValidatorAddress)
		if err != nil {
			return helpers.LogAndReturnFalse(ctx.Logger, action.ErrInvalidValidatorAddr, withdraw.Tags(), err)
		}
		if !bytes.Equal(validator.StakeAddress, withdraw.SignerAddress) {
			return helpers.LogAndReturnFalse(ctx.Logger, action.ErrStakeAddressMismatch, withdraw.Tags(), err)
		}
	}""", """	if ctx.Validators.Exists(withdraw.ValidatorAddress) {
		validator, err := ctx.Validators.Get(withdraw.ValidatorAddress)
		if err != nil {
			return helpers.LogAndReturnFalse(ctx.Logger, action.ErrInvalidValidatorAddr, withdraw.Tags(), err)
		}
		if !bytes.Equal(validator.StakeAddress, withdraw.SignerAddress) {
			return helpers.LogAndReturnFalse(ctx.Logger, action.ErrStakeAddressMismatch, withdraw.Tags(), err)
		}
	}
	withDrawCoin := withdraw.WithdrawAmount.ToCoinWithBase(ctx.Currencies)
	err = ctx.RewardMasterStore.RewardCm.WithdrawRewards(withdraw.ValidatorAddress, withDrawCoin.Amount)
	if err != nil {
		return helpers.LogAndReturnFalse(ctx.Logger, rewards.UnableToWithdraw, withdraw.Tags(), err)
	}"""))

# ------------------------------------------------------------------ C18
M("delete-allegation-takes-held-lock", "C18", "C18.relock",
  ("data/evidence/allegation.go", """func (es *EvidenceStore) DeleteAllegationRequest(ID string) (bool, error) {
""", """func (es *EvidenceStore) DeleteAllegationRequest(ID string) (bool, error) {
	es.mux.Lock()
	defer es.mux.Unlock()
"""))
M("delegation-add-locks-under-stake", "C18", "C18.relock",
  ("data/delegation/store.go", """func (st *DelegationStore) AddToAddress(validatorAddress keys.Address, delegatorAddress keys.Address, amount balance.Amount) error {
""", """func (st *DelegationStore) AddToAddress(validatorAddress keys.Address, delegatorAddress keys.Address, amount balance.Amount) error {
	st.mux.Lock()
	defer st.mux.Unlock()
"""))
M("chainstate-get-under-write-lock", "C18", "C18.relock",
  ("storage/chainstate.go", """func (state *ChainState) Set(key StoreKey, val []byte) error {
	state.Lock()
	defer state.Unlock()
""", """func (state *ChainState) Set(key StoreKey, val []byte) error {
	state.Lock()
	defer state.Unlock()
	if old, _ := state.Get(key); len(old) == len(val) && len(val) == 0 {
		return nil
	}
"""))
M("undelegate-currency-unpinned", "C18", "C18.coin",
  (NUND, """	if !ud.Amount.IsValid(ctx.Currencies) || ud.Amount.Currency != "OLT" {""", """	if !ud.Amount.IsValid(ctx.Currencies) {"""))
M("sendpool-validate-currency-case-insensitive", "C18", "C18.coin",
  ("action/transfer/sendPool.go", """	if currency.Name != sendPool.Amount.Currency {""", """	if !strings.EqualFold(currency.Name, sendPool.Amount.Currency) {"""),
  ("action/transfer/sendPool.go", """import (""", """import (
	"strings"
"""))
M("fee-currency-case-insensitive", "C18", "C18.coin",
  (BASE, """	if fee.Price.Currency != feeOpt.FeeCurrency.Name {""", """	if !strings.EqualFold(fee.Price.Currency, feeOpt.FeeCurrency.Name) {"""),
  (BASE, """import (""", """import (
	"strings"
"""))
M("domain-send-amount-validity-dropped", "C18", "C18.coin",
  ("action/ons/send.go", """	if !send.Amount.IsValid(ctx.Currencies) {""", """	if false {""", 2))
M("revert-fix-parse-redeem-length", "C18", "C18.split",
  ("chains/ethereum/offline_chain_driver.go", """	if len(ss) < 2 {
		return nil, errors.New("Transaction does not have the required input data")""", """	if len(ss) == 0 {
		return nil, errors.New("Transaction does not have the required input data")"""))
M("revert-fix-erc20-lock-length", "C18", "C18.split",
  ("chains/ethereum/helpers.go", """	if len(ss) < 2 || len(ss[1]) < 128 {
		return nil, errors.New("Transaction data is invalid")
	}

	tokenAmount""", """
	tokenAmount"""))
M("erc20-redeem-length-too-short", "C18", "C18.split",
  ("chains/ethereum/helpers.go", """	if len(ss) < 2 || len(ss[1]) < 128 {
		return nil, errors.New("Transaction data is invalid")
	}
	tokenAddress""", """	if len(ss) < 2 || len(ss[1]) < 64 {
		return nil, errors.New("Transaction data is invalid")
	}
	tokenAddress"""))
M("router-returns-missing-route", "C18", "C18.fallback",
  ("action/router.go", """	h, ok := r.routes[t]
	if !ok {
		r.logger.Error("handler not found", t)
		return unknownTx{}
	}

	return h""", """	h, ok := r.routes[t]
	if !ok {
		r.logger.Error("handler not found", t)
	}

	return h"""))
R("parse-redeem-length-in-one-test", ["C18"],
  ("chains/ethereum/offline_chain_driver.go", """	if len(ss) < 2 {
		return nil, errors.New("Transaction does not have the required input data")
	}
	if len(ss[1]) < 64 {
		return nil, errors.New("Transaction data is invalid")
	}""", """	if len(ss) != 2 || len(ss[1]) < 64 {
		return nil, errors.New("Transaction data is invalid")
	}"""))
R("undelegate-pin-via-coin-currency", ["C18", "C02"],
  (NUND, """	if !ud.Amount.IsValid(ctx.Currencies) || ud.Amount.Currency != "OLT" {
		return helpers.LogAndReturnFalse(ctx.Logger, action.ErrInvalidAmount, ud.Tags(), errors.New("invalid undelegate amount"))
	}
""", """	if c := ud.Amount.ToCoin(ctx.Currencies); !c.IsValid() || c.Currency.Name != "OLT" {
		return helpers.LogAndReturnFalse(ctx.Logger, action.ErrInvalidAmount, ud.Tags(), errors.New("invalid undelegate amount"))
	}
"""))
R("evidence-delete-unlocked-helper", ["C18"],
  ("data/evidence/allegation.go", """func (es *EvidenceStore) DeleteAllegationRequest(ID string) (bool, error) {
	ok, err := es.delete(es.getAllegationRequestKey(ID))""", """func (es *EvidenceStore) DeleteAllegationRequest(ID string) (bool, error) {
	return es.deleteAllegationRequestUnlocked(ID)
}

func (es *EvidenceStore) deleteAllegationRequestUnlocked(ID string) (bool, error) {
	ok, err := es.delete(es.getAllegationRequestKey(ID))"""))

# ------------------------------------------------------------------ C16
JRN = "vm/journal.go"
SOBJ = "vm/state_objects.go"
SDB = "vm/statedb.go"
M("revert-fix-balance-revert-journals", "C16", "C16.revert-pure",
  (JRN, """	s.getStateObject(*ch.account).setBalance(ch.prev)""", """	s.getStateObject(*ch.account).SetBalance(ch.prev)"""))
M("suicide-revert-clears-flag", "C16", "C16.record-use",
  (JRN, """		so.suicided = ch.prev""", """		so.suicided = false"""))
M("storage-revert-restores-zero", "C16", "C16.record-use",
  (JRN, """	s.getStateObject(*ch.account).setState(ch.key, ch.prevValue)""", """	s.getStateObject(*ch.account).setState(ch.key, ethcmn.Hash{})"""))
M("revert-fix-deletedirty-reindex", "C16", "C16.indexmap",
  (JRN, """	// the entries behind the removed one moved one position to the left
	for i := idx; i < len(j.dirties); i++ {
		j.addressToJournalIndex[j.dirties[i].address] = i
	}""", ""))
M("createobject-revert-append-idiom", "C16", "C16.indexmap",
  (JRN, """	// move the elements one position left on the array
	for i := idx + 1; i < len(s.stateObjects); i++ {
		s.stateObjects[i-1] = s.stateObjects[i]
		// the new index is i - 1
		s.addressToObjectIndex[s.stateObjects[i].address] = i - 1
	}

	//  finally, delete the last element of the slice to account for the removed object
	s.stateObjects = s.stateObjects[:len(s.stateObjects)-1]""", """	s.stateObjects = append(s.stateObjects[:idx], s.stateObjects[idx+1:]...)"""))
M("addbalance-not-journalled", "C16", "C16.journalled-write",
  (SOBJ, """		return
	}
	so.stateDB.journal.append(balanceChange{
		account: &so.address,
		prev:    new(big.Int).Set(so.account.Balance()),
	})
	so.account.AddBalance(amount)""", """		return
	}
	so.account.AddBalance(amount)"""))
M("setnonce-journals-wrong-entry", "C16", "C16.journalled-write",
  (SOBJ, """	so.stateDB.journal.append(nonceChange{
		account: &so.address,
		prev:    so.account.Sequence,
	})
	so.setNonce(nonce)""", """	so.stateDB.journal.append(touchChange{
		account: &so.address,
	})
	so.setNonce(nonce)"""))
M("addlog-journalled-only-for-later-logs", "C16", "C16.journalled-write",
  ("vm/statedb_logs.go", """	s.journal.append(addLogChange{txhash: s.thash})
""", """	if len(s.logs[s.thash]) > 0 {
		s.journal.append(addLogChange{txhash: s.thash})
	}
"""))
M("suicide-not-journalled-when-already-dead", "C16", "C16.journalled-write",
  (SDB, """	s.journal.append(suicideChange{
		account:     &addr,
		prev:        so.suicided,
		prevBalance: new(big.Int).Set(so.Balance()),
	})
""", """	if !so.suicided {
		s.journal.append(suicideChange{
			account:     &addr,
			prev:        so.suicided,
			prevBalance: new(big.Int).Set(so.Balance()),
		})
	}
"""))
M("create-account-adds-previous-balance", "C16", "C16.create",
  (SDB, """		newObj.SetBalance(prev.account.Balance())""", """		newObj.AddBalance(prev.account.Balance())"""))
M("create-account-drops-previous-balance", "C16", "C16.create",
  (SDB, """	newObj, prev := s.createObject(addr)
	if prev != nil {
		newObj.SetBalance(prev.account.Balance())
	}""", """	s.createObject(addr)"""))
M("deleteslot-drops-address", "C16", "C16.accesslist",
  ("vm/access_list.go", """		al.slots = al.slots[:idx]
		al.addresses[address] = -1""", """		al.slots = al.slots[:idx]
		delete(al.addresses, address)"""))
M("empty-ignores-nonce", "C16", "C16.empty",
  (SOBJ, """			so.account.Sequence == 0 &&
""", ""))
M("empty-ignores-code", "C16", "C16.empty",
  (SOBJ, """			(balance == nil || IsZeroAmount(balance)) &&
			bytes.Equal(so.account.CodeHash, emptyCodeHash))""", """			(balance == nil || IsZeroAmount(balance)))"""))
M("revert-keeps-invalidated-revision", "C16", "C16.snapshot",
  (SDB, """	s.validRevisions = s.validRevisions[:idx]""", """	s.validRevisions = s.validRevisions[:idx+1]"""))
M("snapshot-records-stale-length", "C16", "C16.snapshot",
  (SDB, """			journalIndex: s.journal.length(),""", """			journalIndex: len(s.validRevisions),"""))
R("addbalance-journal-after-write", ["C16"],
  (SOBJ, """	so.stateDB.journal.append(balanceChange{
		account: &so.address,
		prev:    new(big.Int).Set(so.account.Balance()),
	})
	so.account.AddBalance(amount)""", """	prev := new(big.Int).Set(so.account.Balance())
	so.account.AddBalance(amount)
	so.stateDB.journal.append(balanceChange{
		account: &so.address,
		prev:    prev,
	})"""))
R("empty-as-if-chain", ["C16"],
  (SOBJ, """	balance := so.account.Balance()
	return so.account == nil ||
		(so.account != nil &&
			so.account.Sequence == 0 &&
			(balance == nil || IsZeroAmount(balance)) &&
			bytes.Equal(so.account.CodeHash, emptyCodeHash))""", """	if so.account == nil {
		return true
	}
	if so.account.Sequence != 0 {
		return false
	}
	if balance := so.account.Balance(); balance != nil && !IsZeroAmount(balance) {
		return false
	}
	return bytes.Equal(so.account.CodeHash, emptyCodeHash)"""))
R("deletedirty-copy-idiom", ["C16"],
  (JRN, """	j.dirties = append(j.dirties[:idx], j.dirties[idx+1:]...)
	delete(j.addressToJournalIndex, addr)""", """	copy(j.dirties[idx:], j.dirties[idx+1:])
	j.dirties = j.dirties[:len(j.dirties)-1]
	delete(j.addressToJournalIndex, addr)"""))

# ------------------------------------------------------------------ C17
STR = "vm/state_transition.go"
KEEP = "data/balance/keeper.go"
M("usedgas-before-refund", "C17", "C17.gas",
  (STR, """	st.refundGas(RefundQuotientFrankenstein)

	result := &ExecutionResult{
		UsedGas:    st.gasUsed(),
		Err:        vmerr,
		ReturnData: ret,
	}""", """	result := &ExecutionResult{
		UsedGas:    st.gasUsed(),
		Err:        vmerr,
		ReturnData: ret,
	}
	st.refundGas(RefundQuotientFrankenstein)"""))
M("refund-at-evm-price", "C17", "C17.gas",
  (STR, """	remaining := new(big.Int).Mul(new(big.Int).SetUint64(st.gas), st.gasPrice)""", """	remaining := new(big.Int).Mul(new(big.Int).SetUint64(st.gas), st.evm.TxContext.GasPrice)"""))
M("refund-to-coinbase", "C17", "C17.gas",
  (STR, """	st.state.AddBalance(st.msg.From(), remaining)""", """	st.state.AddBalance(st.evm.Context.Coinbase, remaining)"""))
M("olvm-failed-exec-reports-gas-limit", "C17", "C17.gas",
  ("action/olvm/handler.go", """		return ResponseSuccess(action.GetEvent(tags, HandlerName), int64(execResult.UsedGas))
	} else {""", """		return ResponseSuccess(action.GetEvent(tags, HandlerName), rawTx.Fee.Gas)
	} else {"""))
M("contract-fee-charged-on-wrong-fee", "C17", "C17.gas",
  (BASE, """	case WrongFee:
		return false, Response{Log: ErrInvalidVmExecution.Marshal(), GasWanted: signedTx.Fee.Gas}
	}""", """	}"""))
M("nonce-set-from-message", "C17", "C17.nonce",
  (STR, """		nextNonce := st.state.GetNonce(msg.From()) + 1""", """		nextNonce := msg.Nonce() + 1"""))
M("setaccount-keeps-coins-in-record", "C17", "C17.ledger",
  (KEEP, """	coins := account.Coins
	account.Coins = Coin{}
""", """	coins := account.Coins
"""))
M("getaccount-trusts-record-balance", "C17", "C17.ledger",
  (KEEP, """	ea.Coins = coin
	return ea, nil
}

func (nak *NesterAccountKeeper) GetVersionedAccount""", """	if ea.Coins.Amount == nil {
		ea.Coins = coin
	}
	return ea, nil
}

func (nak *NesterAccountKeeper) GetVersionedAccount"""))
M("revert-fix-removeaccount-balance", "C17", "C17.ledger",
  (KEEP, """	if account.Coins.Amount != nil {
		_ = nak.balances.SetBalance(account.Address, account.Coins.Currency.NewCoinFromInt(0))
	}
""", ""))
M("apply-returns-early-on-consensus-error", "C17", "C17.cache",
  ("vm/evm.go", """	executionResult, err := ApplyMessage(etx.NewEVM(), etx, etx.gaspool)
""", """	executionResult, err := ApplyMessage(etx.NewEVM(), etx, etx.gaspool)
	if err != nil {
		return nil, err
	}
"""))
M("finalise-keeps-clean-objects", "C17", "C17.cache",
  (SDB, """		s.stateObjects = make([]stateEntry, 0)
		s.addressToObjectIndex = make(map[ethcmn.Address]int)
		s.stateObjectsDirty = make(map[ethcmn.Address]struct{})
		// invalidate journal""", """		kept := make([]stateEntry, 0)
		index := make(map[ethcmn.Address]int)
		for _, e := range s.stateObjects {
			if _, dirty := s.journal.addressToJournalIndex[e.address]; !dirty && !e.stateObject.deleted {
				index[e.address] = len(kept)
				kept = append(kept, e)
			}
		}
		s.stateObjects = kept
		s.addressToObjectIndex = index
		s.stateObjectsDirty = make(map[ethcmn.Address]struct{})
		// invalidate journal"""))
R("transition-used-gas-local", ["C17"],
  (STR, """	result := &ExecutionResult{
		UsedGas:    st.gasUsed(),""", """	result := &ExecutionResult{}
	result.UsedGas = st.gasUsed()
	result = &ExecutionResult{
		UsedGas:    result.UsedGas,"""))
R("removeaccount-zero-via-local", ["C17"],
  (KEEP, """		_ = nak.balances.SetBalance(account.Address, account.Coins.Currency.NewCoinFromInt(0))""", """		zero := account.Coins.Currency.NewCoinFromInt(0)
		if err := nak.balances.SetBalance(account.Address, zero); err != nil {
			nak.logger.Error("failed to clear balance", err)
		}"""))

# ------------------------------------------------------------------ C13
CALC = "data/rewards/calculator.go"
RCUM = "data/rewards/store_cumulative.go"
M("calculate-from-live-counter", "C13", "C13.schedule",
  (CALC, """	yearDistributed := calc.rewardYears.Years[year].TillLastCycle""", """	yearDistributed := calc.rewardYears.Years[year].Distributed"""))
M("snapshot-taken-every-block", "C13", "C13.schedule",
  (RCUM, """	if lastInCycle {
		rewardYears.Years[year].TillLastCycle = rewardYears.Years[year].Distributed""", """	if lastInCycle || year >= 0 {
		rewardYears.Years[year].TillLastCycle = rewardYears.Years[year].Distributed"""))
M("validator-share-from-store-power", "C13", "C13.powers",
  (CTRL, """			rewardAmount := getRewardForValidator(totalPower, validatorPowerMap[valAddress.String()], totalRewards)""",
   """			rewardAmount := getRewardForValidator(totalPower, big.NewInt(val.Power), totalRewards)"""))
M("credited-amount-not-consumed", "C13", "C13.consume",
  (CTRL, """			//Add to Consumed amount
			totalConsumed = totalConsumed.Plus(*amount)
""", """			//Add to Consumed amount
			totalConsumed = totalConsumed.Plus(*rewardAmount)
"""))
M("consume-skipped-without-delegators", "C13", "C13.consume",
  (CTRL, """	//pass total consumed amount to cumulative db
	_ = rewardMaster.RewardCm.ConsumeRewards(totalConsumed)""", """	//pass total consumed amount to cumulative db
	if delegationPower.Sign() == 0 {
		return result
	}
	_ = rewardMaster.RewardCm.ConsumeRewards(totalConsumed)"""))
M("burnout-cap-dropped", "C13", "C13.cap",
  (RCUM, """	if burnedout && poolAmt.LessThan(*amount) {
		*amount = *poolAmt
	}""", """	if burnedout && poolAmt.LessThan(*amount) {
		logger.Detailf("rewards pool is running dry: %s", poolAmt)
	}"""))
M("withdraw-books-before-debit", "C13", "C13.withdraw",
  (RCUM, """	err := rws.minusRewardsBalance(validator, amount)
	if err != nil {
		return errors.Wrap(err, "Minus from Matured Balance")
	}
	err = rws.addWithdrawnRewards(validator, amount)""", """	err := rws.minusRewardsBalance(validator, amount)
	if err != nil {
		logger.Error("Minus from Matured Balance", err)
	}
	err = rws.addWithdrawnRewards(validator, amount)"""))
M("dump-total-matured", "C13", "C13.dump",
  (RCUM, """		matured := RewardAmount{
			Address: addr,
			Amount:  amt,
		}""", """		total, _ := rws.GetMaturedRewards(addr)
		matured := RewardAmount{
			Address: addr,
			Amount:  total,
		}"""))
M("load-withdrawn-as-balance", "C13", "C13.dump",
  (RCUM, """		err = rws.addWithdrawnRewards(draw.Address, draw.Amount)""", """		err = rws.AddMaturedBalance(draw.Address, draw.Amount)"""))
M("delegator-share-rounded-up", "C13", "C13.floor",
  (CTRL, """		delegatorReward := balance.NewAmountFromBigInt(big.NewInt(0).Div(numerator, delegCtx.DelegationPower))""",
   """		q := big.NewInt(0).Div(numerator, delegCtx.DelegationPower)
		delegatorReward := balance.NewAmountFromBigInt(q.Add(q, big.NewInt(1)))"""))
R("calculate-snapshot-local", ["C13"],
  (CALC, """	yearDistributed := calc.rewardYears.Years[year].TillLastCycle
	yearLeft, err := yearSupply.Minus(*yearDistributed)""", """	ry := calc.rewardYears.Years[year]
	snapshot := ry.TillLastCycle
	yearLeft, err := yearSupply.Minus(*snapshot)"""))
R("consume-error-logged", ["C13", "C12"],
  (CTRL, """	_ = rewardMaster.RewardCm.ConsumeRewards(totalConsumed)""", """	if err := rewardMaster.RewardCm.ConsumeRewards(totalConsumed); err != nil {
		logger.Error("failed to book consumed rewards", err)
	}"""))

# ------------------------------------------------------------------ C08
APPL = "app/application.go"
M("endblock-commits-deliver-state", "C08", "C08.durable",
  (CTRL, """			// Reset all cache after account data has been committed, that make sure node state consistent
			app.Context.stateDB.Reset()""", """			// Reset all cache after account data has been committed, that make sure node state consistent
			app.Context.stateDB.Reset()
			app.Context.deliver.Commit()"""))
M("state-write-saves-version", "C08", "C08.durable",
  ("storage/state.go", """func (s State) Write() bool {""", """func (s State) Write() bool {
	defer s.cs.Delivered.SaveVersion()"""))
M("info-reports-previous-version", "C08", "C08.info",
  (CTRL, """	hash, version = app.Context.chainstate.Hash, app.Context.chainstate.Version""",
   """	hash, version = app.Context.chainstate.LastHash, app.Context.chainstate.LastVersion"""))
M("version-bumped-outside-commit", "C08", "C08.info",
  ("storage/state.go", """func (s State) Write() bool {""", """func (s State) Write() bool {
	s.cs.Version++"""))
M("prepare-skips-reward-options", "C08", "C08.reload",
  (APPL, """		app.Context.rewardMaster.SetOptions(rewardsOpt)
""", """		_ = rewardsOpt
"""))
M("prepare-fee-options-only-when-missing", "C08", "C08.reload",
  (APPL, """		app.Context.feePool.SetupOpt(feeOpt)
""", """		if app.Context.feePool.GetOpt() == nil {
			app.Context.feePool.SetupOpt(feeOpt)
		} else if app.header.Height > 1 {
			return nil
		}
"""))
M("prepare-proposal-options-from-config", "C08", "C08.reload",
  (APPL, """		app.Context.proposalMaster.Proposal.SetOptions(propOpt)
""", """		_ = propOpt
		app.Context.proposalMaster.Proposal.SetOptions(app.Context.proposalMaster.Proposal.GetOptions())
"""))
M("finalize-requeues-failed", "C08", "C08.volatile",
  ("app/internalTX.go", """		ok, err := ctx.transaction.DeleteFinalized(key)""", """		_ = ctx.transaction.AddFinalized(key+"_retry", tx)
		ok, err := ctx.transaction.DeleteFinalized(key)"""))
R("info-direct-fields", ["C08"],
  (CTRL, """		ver, hash := app.getAppHash()
""", """		ver, hash := app.Context.chainstate.Version, app.Context.chainstate.Hash
"""))
R("prepare-options-helper", ["C08"],
  (APPL, """		feeOpt, err := app.Context.govern.WithHeight(app.header.Height).GetFeeOption()
		if err != nil {
			return err
		}

		app.Context.feePool.SetupOpt(feeOpt)
""", """		gov := app.Context.govern.WithHeight(app.header.Height)
		feeOpt, err := gov.GetFeeOption()
		if err != nil {
			return err
		}
		pool := app.Context.feePool
		pool.SetupOpt(feeOpt)
"""))
M("redeem-amount-read-before-error", "C18", "C18.errfirst",
  ("action/eth/ext_redeem.go", """	req, err := ethereum.ParseRedeem(redeem.ETHTxn, ethOptions.ContractABI)
	if err != nil {
		return helpers.LogAndReturnFalse(ctx.Logger, action.ErrInvalidExtTx, redeem.Tags(), err)
	}
""", """	req, err := ethereum.ParseRedeem(redeem.ETHTxn, ethOptions.ContractABI)
	ctx.Logger.Detail("redeem request amount", req.Amount)
	if err != nil {
		return helpers.LogAndReturnFalse(ctx.Logger, action.ErrInvalidExtTx, redeem.Tags(), err)
	}
"""))
M("domain-sale-error-logged-not-returned", "C18", "C18.errfirst",
  ("action/ons/sale.go", """	domain, err := ctx.Domains.Get(sale.Name)
	if err != nil {
		if err == ons.ErrDomainNotFound {
			return false, action.Response{Log: "domain not found"}
		}
		return false, action.Response{Log: "error getting domain"}
	}""", """	domain, err := ctx.Domains.Get(sale.Name)
	if err != nil {
		if err == ons.ErrDomainNotFound {
			return false, action.Response{Log: "domain not found"}
		}
		ctx.Logger.Error("error getting domain", err)
	}"""))
R("redeem-error-switch", ["C18"],
  ("action/eth/ext_redeem.go", """	req, err := ethereum.ParseRedeem(redeem.ETHTxn, ethOptions.ContractABI)
	if err != nil {
		return helpers.LogAndReturnFalse(ctx.Logger, action.ErrInvalidExtTx, redeem.Tags(), err)
	}
""", """	req, err := ethereum.ParseRedeem(redeem.ETHTxn, ethOptions.ContractABI)
	switch {
	case err != nil:
		return helpers.LogAndReturnFalse(ctx.Logger, action.ErrInvalidExtTx, redeem.Tags(), err)
	case req == nil:
		return helpers.LogAndReturnFalse(ctx.Logger, action.ErrInvalidExtTx, redeem.Tags(), errors.New("no request"))
	}
"""))

# ------------------------------------------------------------------ more refactors (behaviour preserving)
R("createobject-entry-chosen-first", ["C16"],
  ("vm/statedb_aux.go", """	if prevObj == nil {
		s.journal.append(createObjectChange{account: &addr})
	} else {
		s.journal.append(resetObjectChange{prev: prevObj})
	}
""", """	var entry journalEntry
	if prevObj == nil {
		entry = createObjectChange{account: &addr}
	} else {
		entry = resetObjectChange{prev: prevObj}
	}
	s.journal.append(entry)
"""))
R("setstate-journal-helper", ["C16"],
  (SOBJ, """	so.stateDB.journal.append(storageChange{
		account:   &so.address,
		key:       prefixKey,
		prevValue: prev,
	})
	so.setState(prefixKey, value)""", """	so.journalStorage(prefixKey, prev)
	so.setState(prefixKey, value)"""),
  (SOBJ, """// GetCommittedState retrieves a value from the committed account storage trie.""", """func (so *stateObject) journalStorage(key, prev ethcmn.Hash) {
	so.stateDB.journal.append(storageChange{
		account:   &so.address,
		key:       key,
		prevValue: prev,
	})
}

// GetCommittedState retrieves a value from the committed account storage trie."""))
R("delegate-guards-reordered", ["C02", "C12", "C18"],
  (NDEL, """	coin := delegate.Amount.ToCoin(ctx.Currencies)
	if !coin.IsValid() {
		return helpers.LogAndReturnFalse(ctx.Logger, action.ErrInvalidAmount, delegate.Tags(), errors.New("Coin is not valid"))
	}
	if coin.Currency.Name != "OLT" {
		return helpers.LogAndReturnFalse(ctx.Logger, action.ErrInvalidCurrency, delegate.Tags(), errors.New("currency is not OLT"))
	}""", """	coin := delegate.Amount.ToCoin(ctx.Currencies)
	switch {
	case coin.Currency.Name != "OLT":
		return helpers.LogAndReturnFalse(ctx.Logger, action.ErrInvalidCurrency, delegate.Tags(), errors.New("currency is not OLT"))
	case !coin.IsValid():
		return helpers.LogAndReturnFalse(ctx.Logger, action.ErrInvalidAmount, delegate.Tags(), errors.New("Coin is not valid"))
	}"""))
R("send-locals-renamed-and-hoisted", ["C02", "C03", "C18", "C04"],
  (SEND, """	coin := send.Amount.ToCoin(ctx.Currencies)

	err = balances.MinusFromAddress(send.From.Bytes(), coin)""", """	amount := send.Amount.ToCoin(ctx.Currencies)
	coin := amount
	payer, store := send.From.Bytes(), balances

	err = store.MinusFromAddress(payer, coin)"""))
R("transitiondb-refund-then-result-helper", ["C17"],
  (STR, """	result := &ExecutionResult{
		UsedGas:    st.gasUsed(),
		Err:        vmerr,
		ReturnData: ret,
	}""", """	used := st.gasUsed()
	result := &ExecutionResult{
		UsedGas:    used,
		Err:        vmerr,
		ReturnData: ret,
	}"""))
R("pullrewards-cap-nested-if", ["C13"],
  (RCUM, """	if burnedout && poolAmt.LessThan(*amount) {
		*amount = *poolAmt
	}""", """	if burnedout {
		if poolAmt.LessThan(*amount) {
			*amount = *poolAmt
		}
	}"""))
R("withdraw-rewards-store-early-return-style", ["C13", "C02"],
  (RCUM, """	err := rws.minusRewardsBalance(validator, amount)
	if err != nil {
		return errors.Wrap(err, "Minus from Matured Balance")
	}
	err = rws.addWithdrawnRewards(validator, amount)
	if err != nil {
		return errors.Wrap(err, "Add to Withdraw Balance")
	}

	return nil""", """	if err := rws.minusRewardsBalance(validator, amount); err != nil {
		return errors.Wrap(err, "Minus from Matured Balance")
	}
	if err := rws.addWithdrawnRewards(validator, amount); err != nil {
		return errors.Wrap(err, "Add to Withdraw Balance")
	}
	return nil"""))
R("basicfee-signer-helper", ["C03", "C02"],
  (BASE, """	// only charge the first signer for now
	signer := signedTx.Signatures[0].Signer
	h, err := signer.GetHandler()
	if err != nil {
		return false, Response{Log: err.Error()}
	}
	addr := h.Address()
""", """	// only charge the first signer for now
	first := signedTx.Signatures[0]
	h, err := first.Signer.GetHandler()
	if err != nil {
		return false, Response{Log: err.Error()}
	}
	var addr keys.Address = h.Address()
"""))
R("prepare-restart-branch-inverted", ["C08"],
  (APPL, """	//get currencies from governance db
	if !app.Context.govern.InitialChain() {""", """	//get currencies from governance db
	if initial := app.Context.govern.InitialChain(); initial == false {"""))
R("undelegate-mature-height-helper", ["C12"],
  (NUND, """	matureHeight := ctx.Header.GetHeight() + delegationOptions.RewardsMaturityTime
""", """	now := ctx.Header.GetHeight()
	matureHeight := now + delegationOptions.RewardsMaturityTime
"""))
M("stake-record-error-only-logged", "C02", "C02.errcheck",
  ("action/staking/stake.go", """	err = ctx.Delegators.Stake(st.ValidatorAddress, st.StakeAddress, st.Stake.Value)
	if err != nil {
		return false, action.Response{Log: errors.Wrap(err, st.StakeAddress.String()).Error()}
	}
""", """	err = ctx.Delegators.Stake(st.ValidatorAddress, st.StakeAddress, st.Stake.Value)
	if err != nil {
		ctx.Logger.Error(errors.Wrap(err, st.StakeAddress.String()).Error())
	}
"""))
M("domain-create-pool-credit-error-dropped", "C02", "C02.errcheck",
  ("action/ons/create.go", """	err = ctx.FeePool.AddToPool(price)
	if err != nil {
		return false, action.Response{
			Log: codes.ErrAddingToFeePool.Wrap(err).Marshal(),
		}
	}""", """	_ = ctx.FeePool.AddToPool(price)
	_ = codes.ErrAddingToFeePool"""))
M("revert-fix-opinion-err-never-fails", "C18", "C18.index",
  ("data/governance/types.go", """	switch opinion {
	case OPIN_UNKNOWN, OPIN_POSITIVE, OPIN_NEGATIVE, OPIN_GIVEUP:
		return nil
	}
	return errors.New("vote opinion must be one of [UNKNOWN, POSITIVE, NEGATIVE, GIVEUP]")""", """	opName := opinion.String()
	if opName == "" {
		return errors.New("vote opinion must be one of [UNKNOWN, POSITIVE, NEGATIVE, GIVEUP]")
	}
	return nil"""))
M("vote-opinion-not-validated", "C18", "C18.index",
  ("action/governance/voteProposal.go", """	if err = vote.Opinion.Err(); err != nil {
		return false, action.Response{
			Log: gov.ErrInvalidVoteOpinion.Marshal(),
		}
	}

	// Add this vote""", """	// Add this vote"""),
  ("action/governance/voteProposal.go", """	if err = vote.Opinion.Err(); err != nil {
		return false, gov.ErrInvalidVoteOpinion
	}""", """	_ = gov.ErrInvalidVoteOpinion"""))
M("opinion-err-accepts-new-value", "C18", "C18.index",
  ("data/governance/types.go", """	case OPIN_UNKNOWN, OPIN_POSITIVE, OPIN_NEGATIVE, OPIN_GIVEUP:
		return nil
	}""", """	case OPIN_UNKNOWN, OPIN_POSITIVE, OPIN_NEGATIVE, OPIN_GIVEUP, OPIN_GIVEUP + 1:
		return nil
	}"""))
R("opinion-err-range-compare", ["C18"],
  ("data/governance/types.go", """	switch opinion {
	case OPIN_UNKNOWN, OPIN_POSITIVE, OPIN_NEGATIVE, OPIN_GIVEUP:
		return nil
	}
	return errors.New("vote opinion must be one of [UNKNOWN, POSITIVE, NEGATIVE, GIVEUP]")""", """	if opinion == OPIN_UNKNOWN || opinion == OPIN_POSITIVE || opinion == OPIN_NEGATIVE || opinion == OPIN_GIVEUP {
		return nil
	}
	return errors.New("vote opinion must be one of [UNKNOWN, POSITIVE, NEGATIVE, GIVEUP]")"""))
R("opinion-err-bounds-compare", ["C18"],
  ("data/governance/types.go", """	switch opinion {
	case OPIN_UNKNOWN, OPIN_POSITIVE, OPIN_NEGATIVE, OPIN_GIVEUP:
		return nil
	}
	return errors.New("vote opinion must be one of [UNKNOWN, POSITIVE, NEGATIVE, GIVEUP]")""", """	if opinion < OPIN_UNKNOWN || opinion > OPIN_GIVEUP {
		return errors.New("vote opinion must be one of [UNKNOWN, POSITIVE, NEGATIVE, GIVEUP]")
	}
	return nil"""))
M("log-and-return-false-wraps-before-nil-test", "C18", "C18.nilerr",
  ("action/helpers/helpers.go", """	if err == nil {
		err = errors.New("No Err String")
	}
	logger.Error(sterr)
	result := action.Response{
		Events: action.GetEvent(tags, sterr.Msg),
		Log:    sterr.Wrap(err).Marshal(),
	}""", """	detail := sterr.Wrap(err)
	if err == nil {
		detail = sterr.Wrap(errors.New("No Err String"))
	}
	logger.Error(sterr)
	result := action.Response{
		Events: action.GetEvent(tags, sterr.Msg),
		Log:    detail.Marshal(),
	}"""))
M("olvm-response-failed-without-error", "C18", "C18.nilerr",
  ("action/olvm/handler.go", """		tags = responseLogs(tags, ethtypes.ReceiptStatusFailed, execResult.Err)
		return ResponseSuccess(action.GetEvent(tags, HandlerName), int64(execResult.UsedGas))""", """		tags = responseLogs(tags, ethtypes.ReceiptStatusFailed, execResult.Err)
		if execResult.UsedGas == 0 {
			return ResponseFailed(tags, nil, action.WrongFee)
		}
		return ResponseSuccess(action.GetEvent(tags, HandlerName), int64(execResult.UsedGas))"""))
R("log-and-return-false-switch", ["C18"],
  ("action/helpers/helpers.go", """	if err == nil {
		err = errors.New("No Err String")
	}
	logger.Error(sterr)""", """	switch {
	case err == nil:
		err = errors.New("No Err String")
	}
	logger.Error(sterr)"""))
M("revert-fix-tocoinwithbase-truncates", "C02", "C02.narrow",
  ("action/types.go", """	scaled := new(big.Int).Mul(a.Value.BigInt(), currency.Base())
	return currency.NewCoinFromAmount(*balance.NewAmountFromBigInt(scaled))""", """	_ = big.NewInt
	return currency.NewCoinFromInt(a.Value.BigInt().Int64())"""))
M("send-amount-via-int64", "C02", "C02.narrow",
  (SEND, """	coin := send.Amount.ToCoin(ctx.Currencies)
""", """	coin := send.Amount.ToCoin(ctx.Currencies)
	coin = coin.Currency.NewCoinFromUnit(coin.Amount.BigInt().Int64())
"""))
R("iszeroamount-sign", ["C16"],
  (SOBJ, """	if amount.Cmp(big.NewInt(0)) == 0 {
		return true
	}
	return false""", """	return amount.Sign() == 0"""))
M("iszeroamount-low-bits", "C16", "C16.empty",
  (SOBJ, """	if amount.Cmp(big.NewInt(0)) == 0 {
		return true
	}
	return false""", """	return amount.Int64() == 0"""))
M("addlog-revert-forgets-counter", "C16", "C16.revert-complete",
  (JRN, """	if len(logs) == 1 {
		delete(s.logs, ch.txhash)
	} else {
		s.logs[ch.txhash] = logs[:len(logs)-1]
	}
	s.logSize--""", """	if len(logs) == 1 {
		delete(s.logs, ch.txhash)
		return
	}
	s.logs[ch.txhash] = logs[:len(logs)-1]
	s.logSize--"""))
M("malicious-map-reset-after-early-returns", "C08", "C08.rebuild",
  ("identity/validator_set_allegation.go", """	vs.maliciousValidators = make(map[string]*evidence.LastValidatorHistory)
	evidenceOptions, err := govern.GetEvidenceOptions()""", """	evidenceOptions, err := govern.GetEvidenceOptions()"""),
  ("identity/validator_set_allegation.go", """	// fetch previous suspicious validators
""", """	// fetch previous suspicious validators
	vs.maliciousValidators = make(map[string]*evidence.LastValidatorHistory)
"""))
M("proposal-exists-skips-failed-store", "C14", "C14.allstores",
  ("data/governance/proposal_store.go", """	return ps.state.Exists(active) || ps.state.Exists(passed) || ps.state.Exists(failed) || ps.state.Exists(finalized) || ps.state.Exists(finalizeFailed)""",
   """	_ = failed
	return ps.state.Exists(active) || ps.state.Exists(passed) || ps.state.Exists(finalized) || ps.state.Exists(finalizeFailed)"""),
  ("data/governance/proposal_store.go", """	failed := append(ps.prefixFailed, key...)""", """	failed := append(ps.prefixFinalized, key...)"""))
M("tracker-queryall-skips-failed", "C15", "C15.allstores",
  ("data/ethereum/store.go", """	tracker, err = ts.WithPrefixType(PrefixFailed).Get(key)
	if err == nil {
		return tracker, nil
	}
	return nil, err""", """	return nil, err"""))
M("txhash-of-trimmed-bytes", "C05", "C05.hashfn",
  ("utils/generic_hash.go", """func GetTransactionHash(tx []byte) []byte {
	return SHA2(tx)""", """func GetTransactionHash(tx []byte) []byte {
	return SHA2(bytes.TrimSpace(tx))"""),
  ("utils/generic_hash.go", """import (""", """import (
	"bytes"
"""))
M("calculator-window-at-current-height", "C13", "C13.schedule",
  (CALC, """		cycleEndHeight := (calc.height-1)/cycle*cycle + 1""", """		cycleEndHeight := calc.height"""))
M("reward-dump-index-ceil", "C13", "C13.dump",
  ("data/rewards/store.go", """	lastIndex := lastInterval.LastIndex + (rs.State.Version()-lastInterval.LastHeight)/rs.rewardOptions.RewardInterval + 1""",
   """	lastIndex := lastInterval.LastIndex + (rs.State.Version()-lastInterval.LastHeight+rs.rewardOptions.RewardInterval-1)/rs.rewardOptions.RewardInterval"""))
M("proposal-share-divided-by-other-list", "C02", "C02.floor",
  ("action/governance/finalizeProposal.go", """	validatorEarningOLT := getPercentageCoin(&totalFundsCoin, &fundTracker, proposalDistribution.Validators).Divide(len(validatorList))""",
   """	activeList, _ := ctx.Validators.GetActiveValidatorList(ctx.EvidenceStore)
	if len(activeList) == 0 {
		return action.ErrGettingValidatorList
	}
	validatorEarningOLT := getPercentageCoin(&totalFundsCoin, &fundTracker, proposalDistribution.Validators).Divide(len(activeList))"""))
R("reward-dump-index-locals", ["C13"],
  ("data/rewards/store.go", """	lastIndex := lastInterval.LastIndex + (rs.State.Version()-lastInterval.LastHeight)/rs.rewardOptions.RewardInterval + 1""",
   """	version, interval := rs.State.Version(), rs.rewardOptions.RewardInterval
	passed := (version - lastInterval.LastHeight) / interval
	lastIndex := 1 + lastInterval.LastIndex + passed"""))
R("remove-account-zero-coin-local", ["C17"],
  (KEEP, """	if account.Coins.Amount != nil {
		_ = nak.balances.SetBalance(account.Address, account.Coins.Currency.NewCoinFromInt(0))
	}""", """	if own := account.Coins; own.Amount != nil {
		zero := own.Currency.NewCoinFromInt(0)
		_ = nak.balances.SetBalance(account.Address, zero)
	}"""))

# ------------------------------------------------------------------ rules from the second round of seeds
M("begin-session-keeps-open-session", "C09", "C09.begin",
  ("storage/state.go", """func (s *State) BeginTxSession() {
	s.txSession = s.cache.BeginSession()""", """func (s *State) BeginTxSession() {
	if s.txSession != nil {
		return
	}
	s.txSession = s.cache.BeginSession()"""))
R("begin-session-local", ["C09", "C06"],
  ("storage/state.go", """func (s *State) BeginTxSession() {
	s.txSession = s.cache.BeginSession()""", """func (s *State) BeginTxSession() {
	fresh := s.cache.BeginSession()
	s.txSession = fresh"""))
M("pending-rewards-scan-stops-at-zero-entry", "C12", "C12.iter",
  (NDRW, """			addr := keys.Address{}
			bytesText := key[len(prefix):]
			err = addr.UnmarshalText(bytesText)
			if err != nil {
				logger.Error("failed to deserialize delegator address")
				return true
			}
			return fn(addr, amt)""", """			if amt.IsZero() {
				return true
			}
			addr := keys.Address{}
			bytesText := key[len(prefix):]
			err = addr.UnmarshalText(bytesText)
			if err != nil {
				logger.Error("failed to deserialize delegator address")
				return true
			}
			return fn(addr, amt)"""))
R("pending-rewards-scan-skips-zero-entry", ["C12"],
  (NDRW, """			addr := keys.Address{}
			bytesText := key[len(prefix):]
			err = addr.UnmarshalText(bytesText)
			if err != nil {
				logger.Error("failed to deserialize delegator address")
				return true
			}
			return fn(addr, amt)""", """			addr := keys.Address{}
			bytesText := key[len(prefix):]
			err = addr.UnmarshalText(bytesText)
			if err != nil {
				logger.Error("failed to deserialize delegator address")
				return true
			}
			stop := fn(addr, amt)
			return stop"""))
M("last-active-only-signers", "C10", "C10.lastactive",
  (VSET, """	for _, vote := range lastCommit.Votes {
		addr := keys.Address(vote.Validator.Address)
		vs.lastActive[string(addr)] = vote.Validator.Power""", """	for _, vote := range lastCommit.Votes {
		if !vote.SignedLastBlock {
			continue
		}
		addr := keys.Address(vote.Validator.Address)
		vs.lastActive[string(addr)] = vote.Validator.Power"""))
R("last-active-locals", ["C10"],
  (VSET, """		addr := keys.Address(vote.Validator.Address)
		vs.lastActive[string(addr)] = vote.Validator.Power""", """		member := vote.Validator
		addr, power := keys.Address(member.Address), member.Power
		vs.lastActive[string(addr)] = power"""))
M("suspicious-record-kept-when-present", "C19", "C19.suspicious",
  ("data/evidence/store.go", """	lvh := NewLastValidatorHistory(validatorAddress, status, height, createdAt)
	err := es.UpdateSuspiciousValidator(lvh)
	return lvh, err""", """	if old, err := es.GetSuspiciousValidator(validatorAddress, height, 0); err == nil && old != nil && old.IsFrozen() {
		return old, nil
	}
	lvh := NewLastValidatorHistory(validatorAddress, status, height, createdAt)
	err := es.UpdateSuspiciousValidator(lvh)
	return lvh, err"""))
R("suspicious-record-explicit-error-return", ["C19"],
  ("data/evidence/store.go", """	lvh := NewLastValidatorHistory(validatorAddress, status, height, createdAt)
	err := es.UpdateSuspiciousValidator(lvh)
	return lvh, err""", """	lvh := NewLastValidatorHistory(validatorAddress, status, height, createdAt)
	if err := es.UpdateSuspiciousValidator(lvh); err != nil {
		return lvh, err
	}
	return lvh, nil"""))
M("refund-amount-from-decoded-data", "C15", "C15.refund",
  ("action/eth/check_finalty.go", """	req, err := ethereum.ParseRedeem(tracker.SignedETHTx, ethOpt.ContractABI)
	oEthRefundCoin := c.NewCoinFromAmount(*balance.NewAmountFromBigInt(req.Amount))
	if err != nil {
		return errors.Wrap(action.ErrInvalidExtTx, err.Error())
	}""", """	ethTx, err := ethereum.DecodeTransaction(tracker.SignedETHTx)
	if err != nil {
		return errors.Wrap(action.ErrInvalidExtTx, err.Error())
	}
	req, err := ethereum.ParseRedeem(ethTx.Data(), ethOpt.ContractABI)
	if err != nil {
		return errors.Wrap(action.ErrInvalidExtTx, err.Error())
	}
	oEthRefundCoin := c.NewCoinFromAmount(*balance.NewAmountFromBigInt(req.Amount))"""))
R("refund-error-checked-first", ["C15", "C18"],
  ("action/eth/check_finalty.go", """	req, err := ethereum.ParseRedeem(tracker.SignedETHTx, ethOpt.ContractABI)
	oEthRefundCoin := c.NewCoinFromAmount(*balance.NewAmountFromBigInt(req.Amount))
	if err != nil {
		return errors.Wrap(action.ErrInvalidExtTx, err.Error())
	}""", """	req, err := ethereum.ParseRedeem(tracker.SignedETHTx, ethOpt.ContractABI)
	if err != nil {
		return errors.Wrap(action.ErrInvalidExtTx, err.Error())
	}
	oEthRefundCoin := c.NewCoinFromAmount(*balance.NewAmountFromBigInt(req.Amount))"""))
M("purchase-sale-branch-ignores-expiry", "C20", "C20.purchase",
  ("action/ons/purchase.go", """	if (ctx.State.Version() <= domain.ExpireHeight) && domain.OnSaleFlag {""", """	if domain.OnSaleFlag {"""))
R("purchase-sale-branch-expired-local", ["C20"],
  ("action/ons/purchase.go", """	if (ctx.State.Version() <= domain.ExpireHeight) && domain.OnSaleFlag {""", """	live := ctx.State.Version() <= domain.ExpireHeight
	if live && domain.OnSaleFlag {"""))
M("clean-tracker-scans-committed-tree", "C19", "C19.clean",
  ("data/evidence/allegation.go", """	sort.Strings(requestIdList)
	countMap := make(map[string]bool)""", """	sort.Strings(requestIdList)
	requestIdList = requestIdList[:0]
	es.IterateRequests(func(ar *AllegationRequest) bool {
		requestIdList = append(requestIdList, ar.ID)
		return false
	})
	countMap := make(map[string]bool)"""))
M("revert-fix-guilty-record-downgraded", "C19", "C19.nodowngrade",
  ("identity/validator_set_allegation.go", """				if frozen, ok := vs.maliciousValidators[baddr.String()]; ok && frozen.IsFrozen() {
					continue
				}
""", ""))
R("nodowngrade-via-store-predicate", ["C19"],
  ("identity/validator_set_allegation.go", """				if frozen, ok := vs.maliciousValidators[baddr.String()]; ok && frozen.IsFrozen() {
					continue
				}
""", """				if es.IsFrozenValidator(baddr) {
					continue
				}
"""))

# ------------------------------------------------------------------ round 3 rules
BIDC = "external_apps/bid/bid_action/common.go"
M("closebid-leaves-target-prefix", "C07", "C07.sticky",
  (BIDC, """	err := bidMasterStore.BidConv.WithPrefixType(targetState).Set(bidConv)
	if err != nil {
		return bid_data.ErrAddingBidConvToTargetStore.Wrap(err)
	}

	//delete it from ACTIVE store
	ok, err := bidMasterStore.BidConv.WithPrefixType(bid_data.BidStateActive).Delete(bidConv.BidConvId)
	if err != nil || !ok {
		return bid_data.ErrDeletingBidConvFromActiveStore.Wrap(err)
	}
	return nil""", """	ok, err := bidMasterStore.BidConv.WithPrefixType(bid_data.BidStateActive).Delete(bidConv.BidConvId)
	if err != nil || !ok {
		return bid_data.ErrDeletingBidConvFromActiveStore.Wrap(err)
	}
	err = bidMasterStore.BidConv.WithPrefixType(targetState).Set(bidConv)
	if err != nil {
		return bid_data.ErrAddingBidConvToTargetStore.Wrap(err)
	}
	return nil"""))
R("closebid-swapped-but-hook-selects", ["C07"],
  (BIDC, """	err := bidMasterStore.BidConv.WithPrefixType(targetState).Set(bidConv)
	if err != nil {
		return bid_data.ErrAddingBidConvToTargetStore.Wrap(err)
	}

	//delete it from ACTIVE store
	ok, err := bidMasterStore.BidConv.WithPrefixType(bid_data.BidStateActive).Delete(bidConv.BidConvId)
	if err != nil || !ok {
		return bid_data.ErrDeletingBidConvFromActiveStore.Wrap(err)
	}
	return nil""", """	ok, err := bidMasterStore.BidConv.WithPrefixType(bid_data.BidStateActive).Delete(bidConv.BidConvId)
	if err != nil || !ok {
		return bid_data.ErrDeletingBidConvFromActiveStore.Wrap(err)
	}
	err = bidMasterStore.BidConv.WithPrefixType(targetState).Set(bidConv)
	if err != nil {
		return bid_data.ErrAddingBidConvToTargetStore.Wrap(err)
	}
	return nil"""),
  ("external_apps/bid/bid_block_func/bid_block_func.go", """	bidConvStore := bidMasterStore.BidConv
""", """	bidConvStore := bidMasterStore.BidConv.WithPrefixType(bid_data.BidStateActive)
"""))
R("closebid-restores-default-explicitly", ["C07"],
  (BIDC, """	ok, err := bidMasterStore.BidConv.WithPrefixType(bid_data.BidStateActive).Delete(bidConv.BidConvId)
	if err != nil || !ok {
		return bid_data.ErrDeletingBidConvFromActiveStore.Wrap(err)
	}
	return nil""", """	active := bidMasterStore.BidConv.WithPrefixType(bid_data.BidStateActive)
	ok, err := active.Delete(bidConv.BidConvId)
	if err != nil || !ok {
		return bid_data.ErrDeletingBidConvFromActiveStore.Wrap(err)
	}
	return nil"""))
M("validatefee-mutates-shared-minfee", "C07", "C07.bigalias",
  ("action/base.go", """	if minFee.Amount.BigInt().Cmp(fee.Price.Value.BigInt()) > 0 {
		return ErrInvalidFeePrice
	}""", """	if price := fee.Price.Value.BigInt(); minFee.Amount.BigInt().Cmp(price) > 0 {
		short := minFee.Amount.BigInt()
		return ErrInvalidFeePrice.Wrap(errors.Errorf("short by %s", short.Sub(short, price)))
	}"""))
R("validatefee-shortfall-on-fresh-number", ["C07"],
  ("action/base.go", """	if minFee.Amount.BigInt().Cmp(fee.Price.Value.BigInt()) > 0 {
		return ErrInvalidFeePrice
	}""", """	if price := fee.Price.Value.BigInt(); minFee.Amount.BigInt().Cmp(price) > 0 {
		short := new(big.Int).Sub(minFee.Amount.BigInt(), price)
		return ErrInvalidFeePrice.Wrap(errors.Errorf("short by %s", short))
	}"""),
  ("action/base.go", """import (
""", """import (
	"math/big"
"""))
M("loaddb-lazy-load", "C09", "C09.versions.reopen",
  ("storage/chainstate.go", "	version, err := tree.Load()", "	version, err := tree.LazyLoadVersion(0)"))
R("loaddb-loadversion-zero", ["C09", "C08"],
  ("storage/chainstate.go", "	version, err := tree.Load()", "	version, err := tree.LoadVersion(0)"))
M("stakeclean-swapped-roles", "C11", "C11.roles",
  ("action/staking/stake.go", "ctx.Delegators.GetValidatorDelegationAmount(v.Address, v.StakeAddress)", "ctx.Delegators.GetValidatorDelegationAmount(v.StakeAddress, v.Address)"))
R("stakeclean-roles-via-locals", ["C11"],
  ("action/staking/stake.go", "	lockedAmt, err := ctx.Delegators.GetValidatorDelegationAmount(v.Address, v.StakeAddress)", """	validatorAddress, delegatorAddress := v.Address, v.StakeAddress
	lockedAmt, err := ctx.Delegators.GetValidatorDelegationAmount(validatorAddress, delegatorAddress)"""))
M("delegation-load-accumulates", "C11", "C11.dumpload",
  ("data/delegation/store.go", """		err := st.SetValidatorDelegationAmount(vdm.Validator, vdm.Delegator, *vdm.Amount)""", """		err := st.AddToAddress(vdm.Validator, vdm.Delegator, *vdm.Amount)"""))
M("delegation-load-drops-table", "C11", "C11.dumpload",
  ("data/delegation/store.go", """	// load each delegator bounded amount
	for _, dm := range state.DelegatorBoundedAmounts {
		err := st.SetDelegatorBoundedAmount(dm.Address, *dm.Amount)
		if err != nil {
			return
		}
	}
""", ""))
R("delegation-load-reordered", ["C11"],
  ("data/delegation/store.go", """	// load each validator's total amount
	for _, dm := range state.ValidatorAmounts {
		err := st.SetValidatorAmount(dm.Address, *dm.Amount)
		if err != nil {
			return
		}
	}
	// load each validator_delegator amount
	for _, vdm := range state.ValidatorDelegationAmounts {
		err := st.SetValidatorDelegationAmount(vdm.Validator, vdm.Delegator, *vdm.Amount)
		if err != nil {
			return
		}
	}""", """	// load each validator_delegator amount
	for _, vdm := range state.ValidatorDelegationAmounts {
		if err := st.SetValidatorDelegationAmount(vdm.Validator, vdm.Delegator, *vdm.Amount); err != nil {
			return
		}
	}
	// load each validator's total amount
	for i := range state.ValidatorAmounts {
		dm := state.ValidatorAmounts[i]
		if err := st.SetValidatorAmount(dm.Address, *dm.Amount); err != nil {
			return
		}
	}"""))
GOVU = "action/govUpdate.go"
M("topcount-assigned-after-validation", "C10", "C10.options",
  (GOVU, """	Options.TopValidatorCount = newValue

	ok, err := ctx.GovernanceStore.ValidateStaking(Options)
	if err != nil {
		return false, err
	}
	if !ok {
		return false, errors.New("Validation Failed")
	}
	if validationOnly == ValidateOnly {
		return true, nil
	}
""", """	ok, err := ctx.GovernanceStore.ValidateStaking(Options)
	if err != nil {
		return false, err
	}
	if !ok {
		return false, errors.New("Validation Failed")
	}
	if validationOnly == ValidateOnly {
		return true, nil
	}
	Options.TopValidatorCount = newValue
"""))
R("topcount-validate-in-one-expression", ["C10"],
  (GOVU, """	Options.TopValidatorCount = newValue

	ok, err := ctx.GovernanceStore.ValidateStaking(Options)
	if err != nil {
		return false, err
	}
	if !ok {
		return false, errors.New("Validation Failed")
	}
	if validationOnly == ValidateOnly {""", """	Options.TopValidatorCount = newValue

	if ok, err := ctx.GovernanceStore.ValidateStaking(Options); err != nil {
		return false, err
	} else if !ok {
		return false, errors.New("Validation Failed")
	}
	if validationOnly == ValidateOnly {"""))
M("lastactive-reset-removed", "C08", "C08.rebuild",
  ("identity/validator_set.go", "	vs.lastActive = make(map[string]int64)\n", "", 1))
M("setup-skips-cache-by-memory", "C08", "C08.rebuild",
  ("identity/validator_set.go", """	vs.cacheActiveValidators(req.LastCommitInfo)

	return def""", """	if len(req.LastCommitInfo.Votes) != len(vs.lastActive) {
		vs.cacheActiveValidators(req.LastCommitInfo)
	}

	return def"""))
M("setup-skips-cache-by-memory-c10", "C10", "C10.rebuild",
  ("identity/validator_set.go", """	vs.cacheActiveValidators(req.LastCommitInfo)

	return def""", """	if len(req.LastCommitInfo.Votes) != len(vs.lastActive) {
		vs.cacheActiveValidators(req.LastCommitInfo)
	}

	return def"""))
R("setup-skips-cache-by-block-data", ["C08", "C10"],
  ("identity/validator_set.go", """	vs.cacheActiveValidators(req.LastCommitInfo)

	return def""", """	if req.Header.GetHeight() >= 0 {
		vs.cacheActiveValidators(req.LastCommitInfo)
	}

	return def"""))
M("olvm-derived-state", "C06", "C06.onestate",
  ("action/olvm/handler.go", """	evmTx := vm.NewEVMTransaction(
		ctx.StateDB,""", """	evmTx := vm.NewEVMTransaction(
		ctx.StateDB.WithState(ctx.State.WithGas(ctx.State.GetCalculator())),"""))
SESS = "storage/session_cache.go"
M("session-pooled", "C06", "C06.fresh-session",
  (SESS, """type sessionCache struct {
	name  string""", """type sessionCache struct {
	session *cacheSession
	name  string"""),
  (SESS, """func (c *sessionCache) BeginSession() Session {
	return &cacheSession{
		parent: c,
		store:  map[string][]byte{},
		keys:   make([]string, 0, 10),
		done:   map[string]bool{},
	}
}""", """func (c *sessionCache) BeginSession() Session {
	if c.session == nil {
		c.session = &cacheSession{
			parent: c,
			store:  map[string][]byte{},
			keys:   make([]string, 0, 10),
			done:   map[string]bool{},
		}
		return c.session
	}
	c.session.keys = c.session.keys[:0]
	c.session.done = map[string]bool{}
	return c.session
}"""))
R("session-built-in-steps", ["C06", "C09"],
  (SESS, """func (c *sessionCache) BeginSession() Session {
	return &cacheSession{
		parent: c,
		store:  map[string][]byte{},
		keys:   make([]string, 0, 10),
		done:   map[string]bool{},
	}
}""", """func (c *sessionCache) BeginSession() Session {
	s := &cacheSession{parent: c}
	s.store = make(map[string][]byte)
	s.keys = make([]string, 0, 16)
	s.done = make(map[string]bool)
	return s
}"""))
KEYS = "data/keys/keys.go"
M("pubkey-size-by-copy-result", "C04", "C04.keysize",
  (KEYS, """		size := ed25519.PubKeyEd25519Size
		if len(pubKey.Data) != size {
			return new(PublicKeyED25519),
				fmt.Errorf("given key doesn't match the size of the key algorithm %s length %d", pubKey.KeyType.String(), len(pubKey.Data))
		}
		var key [ED25519_PUB_SIZE]byte
		copy(key[:], pubKey.Data)
		return PublicKeyED25519{key}, nil""", """		var key [ED25519_PUB_SIZE]byte
		if copy(key[:], pubKey.Data) != ed25519.PubKeyEd25519Size {
			return new(PublicKeyED25519),
				fmt.Errorf("given key doesn't match the size of the key algorithm %s length %d", pubKey.KeyType.String(), len(pubKey.Data))
		}
		return PublicKeyED25519{key}, nil"""))
R("pubkey-size-positive-form", ["C04"],
  (KEYS, """		size := ed25519.PubKeyEd25519Size
		if len(pubKey.Data) != size {
			return new(PublicKeyED25519),
				fmt.Errorf("given key doesn't match the size of the key algorithm %s length %d", pubKey.KeyType.String(), len(pubKey.Data))
		}
		var key [ED25519_PUB_SIZE]byte
		copy(key[:], pubKey.Data)
		return PublicKeyED25519{key}, nil""", """		if len(pubKey.Data) == ED25519_PUB_SIZE {
			var key [ED25519_PUB_SIZE]byte
			copy(key[:], pubKey.Data)
			return PublicKeyED25519{key}, nil
		}
		return new(PublicKeyED25519),
			fmt.Errorf("given key doesn't match the size of the key algorithm %s length %d", pubKey.KeyType.String(), len(pubKey.Data))"""))
M("btc-reset-refund-swapped", "C03", "C03.btcdelta",
  ("action/btc/failed_broadcast_reset.go", "		amount := tracker.CurrentBalance - tracker.ProcessBalance", "		amount := tracker.ProcessBalance - tracker.CurrentBalance"))
M("btc-mint-for-any-process", "C02", "C02.btcdelta",
  ("action/btc/check_finality.go", "	if tracker.ProcessType == bitcoin.ProcessTypeLock {", "	if tracker.ProcessType != bitcoin.ProcessTypeNone {"))
R("btc-mint-guard-negated-form", ["C02", "C03"],
  ("action/btc/failed_broadcast_reset.go", """	if tracker.ProcessType == bitcoin.ProcessTypeRedeem {
		amount := tracker.CurrentBalance - tracker.ProcessBalance
""", """	if !(tracker.ProcessType != bitcoin.ProcessTypeRedeem) {
		cur, proc := tracker.CurrentBalance, tracker.ProcessBalance
		amount := cur - proc
"""))
M("btc-finality-keeps-reset-votes", "C02", "C02.btcend",
  ("action/btc/check_finality.go", "	tracker.ResetVotes = nil\n", "", 1))
R("btc-finality-empty-slice-votes", ["C02"],
  ("action/btc/check_finality.go", "	tracker.ResetVotes = nil\n", "	tracker.ResetVotes = []keys.Address{}\n", 1))
M("sendpool-read-under-loglevel", "C01", "C01.nodelocal.region",
  ("log/logger.go", """// WithPrefix returns a new logger with the prefix appended to the current logger's prefix""", """// IsLevelEnabled tells whether messages of the given level are written by this logger
func (l *Logger) IsLevelEnabled(level Level) bool {
	return level <= l.level
}

// WithPrefix returns a new logger with the prefix appended to the current logger's prefix"""),
  ("action/transfer/sendPool.go", """	oldBalance, err := ctx.Balances.GetBalance(toPool, ctx.Currencies)
	if err != nil {
		return helpers.LogAndReturnFalse(ctx.Logger, action.ErrInvalidCurrency, sendPool.Tags(), errors.Wrap(err, "Pool is not Funded by OLT"))
	}
	updatedBalance := oldBalance.GetCoin(currencyOlt).Plus(coin)
""", """	updatedBalance := coin
	if ctx.Logger.IsLevelEnabled(4) {
		oldBalance, err := ctx.Balances.GetBalance(toPool, ctx.Currencies)
		if err != nil {
			return helpers.LogAndReturnFalse(ctx.Logger, action.ErrInvalidCurrency, sendPool.Tags(), errors.Wrap(err, "Pool is not Funded by OLT"))
		}
		updatedBalance = oldBalance.GetCoin(currencyOlt).Plus(coin)
	}
"""))
R("logger-level-helper-used-by-logger-only", ["C01"],
  ("log/logger.go", """// WithPrefix returns a new logger with the prefix appended to the current logger's prefix""", """// IsLevelEnabled tells whether messages of the given level are written by this logger
func (l *Logger) IsLevelEnabled(level Level) bool {
	return level <= l.level
}

// WithPrefix returns a new logger with the prefix appended to the current logger's prefix"""),
  ("log/logger.go", """	if level > l.level {
		return
	}""", """	if !l.IsLevelEnabled(level) {
		return
	}"""))
M("suicide-keeps-balance", "C16", "C16.suicide",
  ("vm/statedb.go", "	so.markSuicided()\n	so.SetBalance(new(big.Int))\n", "	so.markSuicided()\n"))
R("suicide-zero-via-newint", ["C16", "C02"],
  ("vm/statedb.go", "	so.SetBalance(new(big.Int))\n\n	return true", "	so.SetBalance(big.NewInt(0))\n\n	return true"))
M("adddirty-set-semantics", "C16", "C16.dirtycount",
  ("vm/journal.go", """	idx, found := j.addressToJournalIndex[addr]
	if !found {
		j.dirties = append(j.dirties, dirty{address: addr, changes: 0})
		idx = len(j.dirties) - 1
		j.addressToJournalIndex[addr] = idx
	}

	j.dirties[idx].changes++
}""", """	if _, found := j.addressToJournalIndex[addr]; found {
		return
	}

	j.dirties = append(j.dirties, dirty{address: addr, changes: 1})
	j.addressToJournalIndex[addr] = len(j.dirties) - 1
}"""))
R("adddirty-count-one-at-creation", ["C16"],
  ("vm/journal.go", """	idx, found := j.addressToJournalIndex[addr]
	if !found {
		j.dirties = append(j.dirties, dirty{address: addr, changes: 0})
		idx = len(j.dirties) - 1
		j.addressToJournalIndex[addr] = idx
	}

	j.dirties[idx].changes++
}""", """	if idx, found := j.addressToJournalIndex[addr]; found {
		j.dirties[idx].changes++
		return
	}

	j.dirties = append(j.dirties, dirty{address: addr, changes: 1})
	j.addressToJournalIndex[addr] = len(j.dirties) - 1
}"""))

# ------------------------------------------------------------------ round 3, wave 2 rules
M("netdelegate-reads-without-selecting", "C07", "C07.sticky",
  ("action/network_delegation/add_network_delegation.go", "ctx.NetwkDelegators.Deleg.WithPrefix(network_delegation.ActiveType).Get(", "ctx.NetwkDelegators.Deleg.Get(", 1))
M("consume-skips-zero", "C13", "C13.schedule",
  ("data/rewards/store_cumulative.go", """	// accumulates total distributed rewards
	err := rws.addTotalDistributedRewards(consumed)""", """	if consumed.IsZero() {
		return nil
	}
	// accumulates total distributed rewards
	err := rws.addTotalDistributedRewards(consumed)"""))
R("consume-year-call-hoisted", ["C13"],
  ("data/rewards/store_cumulative.go", """	if !calc.cached.burnedout {
		_, _, lastInCycle := rws.calculator.getCycleNo()
		err = rws.addYearDistributedRewards(calc.cached.year, consumed, lastInCycle)
	}
""", """	if calc.cached.burnedout {
		return nil
	}
	_, _, lastInCycle := rws.calculator.getCycleNo()
	err = rws.addYearDistributedRewards(calc.cached.year, consumed, lastInCycle)
"""))
M("reward-load-rebuilds-interval", "C13", "C13.dump",
  ("data/rewards/store.go", """		key := append(rs.prefixIntervals, storage.StoreKey(strconv.FormatInt(interval.LastHeight, 10))...)
		data, err := rs.szlr.Serialize(interval)
		if err != nil {
			return err
		}
		err = rs.State.Set(key, data)
		if err != nil {
			return err
		}""", """		err := rs.SetInterval(interval.LastHeight)
		if err != nil {
			return err
		}"""))
R("reward-load-interval-by-fields", ["C13"],
  ("data/rewards/store.go", """		data, err := rs.szlr.Serialize(interval)
		if err != nil {
			return err
		}
		err = rs.State.Set(key, data)""", """		data, err := rs.szlr.Serialize(&Interval{LastIndex: interval.LastIndex, LastHeight: interval.LastHeight})
		if err != nil {
			return err
		}
		err = rs.State.Set(key, data)"""))
FIN = "action/eth/check_finalty.go"
M("burn-helper-stores-a-reread-copy", "C15", "C15.persist",
  (FIN, """	tracker.State = trackerlib.Released
	err := ctx.ETHTrackers.WithPrefixType(trackerlib.PrefixOngoing).Set(tracker)
	if err != nil {
		return err
	}

	return nil
}

func burnERC20Tokens(""", """	stored, err := ctx.ETHTrackers.WithPrefixType(trackerlib.PrefixOngoing).Get(tracker.TrackerName)
	if err != nil {
		return err
	}
	stored.State = trackerlib.Released
	return ctx.ETHTrackers.WithPrefixType(trackerlib.PrefixOngoing).Set(stored)
}

func burnERC20Tokens("""))
R("burn-helper-shared-release", ["C15"],
  (FIN, """	tracker.State = trackerlib.Released
	err := ctx.ETHTrackers.WithPrefixType(trackerlib.PrefixOngoing).Set(tracker)
	if err != nil {
		return err
	}

	return nil
}

func burnERC20Tokens(""", """	return releaseVoted(ctx, tracker)
}

func releaseVoted(ctx *action.Context, tracker *trackerlib.Tracker) error {
	tracker.State = trackerlib.Released
	return ctx.ETHTrackers.WithPrefixType(trackerlib.PrefixOngoing).Set(tracker)
}

func burnERC20Tokens("""))
M("clean-drops-name", "C15", "C15.identity",
  ("data/ethereum/tracker.go", """		Type:        t.Type,
		State:       t.State,
		TrackerName: t.TrackerName,""", """		Type:  t.Type,
		State: t.State,"""))
M("decode-tx-lenient", "C15", "C15.identity",
  ("chains/ethereum/offline_chain_driver.go", "	err := rlp.DecodeBytes(data, tx)", "	err := rlp.Decode(bytes.NewReader(data), tx)"))
M("create-accepts-goal-met", "C14", "C14.goal",
  ("action/governance/createProposal.go", "	if coinGoal.LessThanEqualCoin(coin) {", "	if coinGoal.LessThanCoin(coin) {"))
R("create-goal-check-other-way-round", ["C14"],
  ("action/governance/createProposal.go", """	if coinGoal.LessThanEqualCoin(coin) {
		return helpers.LogAndReturnFalse(ctx.Logger, action.ErrInvalidAmount, createProposal.Tags(), errors.New("Funding More than Funding goal"))
	}""", """	if !coin.LessThanCoin(coinGoal) {
		return helpers.LogAndReturnFalse(ctx.Logger, action.ErrInvalidAmount, createProposal.Tags(), errors.New("Funding More than Funding goal"))
	}"""))
M("current-funds-by-iteration", "C14", "C14.total",
  ("data/governance/proposal_fund_store.go", """	keyTotal := assembleTotalFundsKey(proposalID)
	funds, err := pf.get(keyTotal)
	if err != nil {
		funds = balance.NewAmount(0)
	}
	return funds""", """	funds := balance.NewAmount(0)
	pf.GetFundsForProposalID(proposalID, func(id ProposalID, fundingAddr keys.Address, amt *balance.Amount) ProposalFund {
		funds = funds.Plus(*amt)
		return ProposalFund{}
	})
	return funds"""))

# ------------------------------------------------------------------ round 3, wave 2 (second batch)
M("lastactive-skips-nonsigners-getter", "C10", "C10.lastactive",
  ("identity/validator_set.go", """	for _, vote := range lastCommit.Votes {
		addr := keys.Address(vote.Validator.Address)""", """	for _, vote := range lastCommit.Votes {
		if !vote.GetSignedLastBlock() {
			continue
		}
		addr := keys.Address(vote.Validator.Address)"""))
M("addslot-drops-address-flag", "C16", "C16.accesslist",
  ("vm/statedb.go", """	addrMod, slotMod := s.accessList.AddSlot(addr, slot)
	if addrMod {
		// In practice, this should not happen, since there is no way to enter the
		// scope of 'address' without having the 'address' become already added
		// to the access list (via call-variant, create, etc).
		// Better safe than sorry, though
		s.journal.append(accessListAddAccountChange{&addr})
	}""", """	_, slotMod := s.accessList.AddSlot(addr, slot)"""))
R("addslot-flags-switch-form", ["C16"],
  ("vm/statedb.go", """	if slotMod {
		s.journal.append(accessListAddSlotChange{
			address: &addr,
			slot:    &slot,
		})
	}""", """	if !slotMod {
		return
	}
	s.journal.append(accessListAddSlotChange{
		address: &addr,
		slot:    &slot,
	})"""))
M("newdomain-lowercases", "C20", "C20.name",
  ("data/ons/domain.go", "	n := GetNameFromString(name)", "	n := GetNameFromString(strings.ToLower(name))"),
  ("data/ons/domain.go", "import (\n", "import (\n\t\"strings\"\n"))
R("newdomain-and-exists-lowercase-both", ["C20"],
  ("data/ons/domain.go", "	n := GetNameFromString(name)", "	n := GetNameFromString(strings.ToLower(name))"),
  ("data/ons/domain.go", "import (\n", "import (\n\t\"strings\"\n"),
  ("action/ons/create.go", "	if ctx.Domains.Exists(create.Name) {", "	if ctx.Domains.Exists(ons.GetNameFromString(strings.ToLower(create.Name.String()))) {"),
  ("action/ons/create.go", "import (\n", "import (\n\t\"strings\"\n"))
M("expiry-guard-wrong-operand", "C20", "C20.price",
  ("action/ons/create.go", "	if buyingPrice.BigInt().Cmp(basePrice.BigInt()) < 0 {", "	if buyingPrice.BigInt().Cmp(pricePerBlock.BigInt()) < 0 {"))
R("expiry-guard-reversed-compare", ["C20"],
  ("action/ons/create.go", "	if buyingPrice.BigInt().Cmp(basePrice.BigInt()) < 0 {", "	if basePrice.BigInt().Cmp(buyingPrice.BigInt()) > 0 {"))
M("refund-paid-before-refund-added", "C17", "C17.gas",
  ("vm/state_transition.go", """	st.gas += refund

	// Return ETH for remaining gas, exchanged at the original rate.
	remaining := new(big.Int).Mul(new(big.Int).SetUint64(st.gas), st.gasPrice)
	st.state.AddBalance(st.msg.From(), remaining)
""", """	remaining := new(big.Int).Mul(new(big.Int).SetUint64(st.gas), st.gasPrice)
	st.state.AddBalance(st.msg.From(), remaining)
	st.gas += refund
"""))
R("refund-amount-in-local", ["C17"],
  ("vm/state_transition.go", """	remaining := new(big.Int).Mul(new(big.Int).SetUint64(st.gas), st.gasPrice)
	st.state.AddBalance(st.msg.From(), remaining)
""", """	left := st.gas
	remaining := new(big.Int).Mul(new(big.Int).SetUint64(left), st.gasPrice)
	st.state.AddBalance(st.msg.From(), remaining)
"""))
M("legacyfix-low-64-bits", "C17", "C17.ledger",
  ("data/balance/keeper.go", "	if len(ea.Balance().Bits()) != 0 {", "	if ea.Balance().Uint64() != 0 {"))
R("legacyfix-sign-test", ["C17"],
  ("data/balance/keeper.go", "	if len(ea.Balance().Bits()) != 0 {", "	if ea.Balance().Sign() != 0 {"))

# ------------------------------------------------------------------ C18.rangepair / C18.slice
M("perblockfee-min-from-other-option", "C18", "C18.rangepair",
  ("data/governance/validations.go", "opt.PerBlockFees.CheckInRange(*minPerBlockFee, *maxPerBlockFee)", "opt.PerBlockFees.CheckInRange(*minBaseDomainPrice, *maxPerBlockFee)"))
M("maturity-bounds-swapped", "C18", "C18.rangepair",
  ("data/governance/validations.go", "verifyRangeInt64(opt.MaturityTime, minMaturityTime, maxMaturityTime)", "verifyRangeInt64(opt.MaturityTime, maxMaturityTime, minMaturityTime)"))
HLP = "chains/ethereum/helpers.go"
M("erc20lock-index-parser-lenient", "C18", "C18.slice",
  (HLP, """	ss := strings.Split(hex.EncodeToString(data), functionSig)
	if len(ss) < 2 || len(ss[1]) < 128 {
		return nil, errors.New("Transaction data is invalid")
	}

	tokenAmount, err := hex.DecodeString(ss[1][64:128])
	if err != nil {
		return nil, err
	}
	receiver := ss[1][24:64]""", """	txHex := hex.EncodeToString(data)
	idx := strings.Index(txHex, functionSig)
	if idx < 0 || len(txHex)-idx < 128 {
		return nil, errors.New("Transaction data is invalid")
	}
	args := txHex[idx+len(functionSig):]

	tokenAmount, err := hex.DecodeString(args[64:128])
	if err != nil {
		return nil, err
	}
	receiver := args[24:64]"""))
R("erc20lock-index-parser-exact", ["C18"],
  (HLP, """	ss := strings.Split(hex.EncodeToString(data), functionSig)
	if len(ss) < 2 || len(ss[1]) < 128 {
		return nil, errors.New("Transaction data is invalid")
	}

	tokenAmount, err := hex.DecodeString(ss[1][64:128])
	if err != nil {
		return nil, err
	}
	receiver := ss[1][24:64]""", """	txHex := hex.EncodeToString(data)
	idx := strings.Index(txHex, functionSig)
	if idx < 0 || len(txHex)-idx-len(functionSig) < 128 {
		return nil, errors.New("Transaction data is invalid")
	}
	args := txHex[idx+len(functionSig):]

	tokenAmount, err := hex.DecodeString(args[64:128])
	if err != nil {
		return nil, err
	}
	receiver := args[24:64]"""))
R("erc20lock-args-local-with-own-test", ["C18"],
  (HLP, """	tokenAmount, err := hex.DecodeString(ss[1][64:128])
	if err != nil {
		return nil, err
	}
	receiver := ss[1][24:64]""", """	args := ss[1]
	if len(args) <= 127 {
		return nil, errors.New("Transaction data is invalid")
	}
	tokenAmount, err := hex.DecodeString(args[64:128])
	if err != nil {
		return nil, err
	}
	receiver := args[24:64]"""))

# ------------------------------------------------------------------ more refactors for round-3 rules
R("clean-built-in-steps", ["C15"],
  ("data/ethereum/tracker.go", """	return &Tracker{
		Type:        t.Type,
		State:       t.State,
		TrackerName: t.TrackerName,
	}""", """	c := &Tracker{Type: t.Type}
	c.State = t.State
	c.TrackerName = t.TrackerName
	return c"""))
R("current-funds-named-key", ["C14"],
  ("data/governance/proposal_fund_store.go", """	keyTotal := assembleTotalFundsKey(proposalID)
	funds, err := pf.get(keyTotal)
	if err != nil {
		funds = balance.NewAmount(0)
	}
	return funds""", """	if total, err := pf.get(assembleTotalFundsKey(proposalID)); err == nil {
		return total
	}
	return balance.NewAmount(0)"""))
R("rangepair-bounds-in-locals", ["C18"],
  ("data/governance/validations.go", "	ok, err := opt.PerBlockFees.CheckInRange(*minPerBlockFee, *maxPerBlockFee)", """	lo, hi := *minPerBlockFee, *maxPerBlockFee
	ok, err := opt.PerBlockFees.CheckInRange(lo, hi)"""))
R("olvm-state-in-local", ["C06", "C17"],
  ("action/olvm/handler.go", """	evmTx := vm.NewEVMTransaction(
		ctx.StateDB,""", """	stateDB := ctx.StateDB
	evmTx := vm.NewEVMTransaction(
		stateDB,"""))
R("loadstate-range-by-index", ["C11"],
  ("data/delegation/store.go", """	for _, dm := range state.DelegatorBoundedAmounts {
		err := st.SetDelegatorBoundedAmount(dm.Address, *dm.Amount)
		if err != nil {
			return
		}
	}""", """	for i := 0; i < len(state.DelegatorBoundedAmounts); i++ {
		dm := state.DelegatorBoundedAmounts[i]
		if err := st.SetDelegatorBoundedAmount(dm.Address, *dm.Amount); err != nil {
			return
		}
	}"""))
R("validate-fee-local-min", ["C07", "C02"],
  ("action/base.go", """	minFee := feeOpt.MinFee()
	if minFee.Amount.BigInt().Cmp(fee.Price.Value.BigInt()) > 0 {""", """	minFee := feeOpt.MinFee()
	lowest := minFee.Amount.BigInt()
	if lowest.Cmp(fee.Price.Value.BigInt()) > 0 {"""))

ALLP = ["C%02d" % i for i in range(1, 21)]
R("debug-logs-added-in-handlers", ALLP,
  ("action/transfer/send.go", "	balances := ctx.Balances\n\n	send := &Send{}\n", "	balances := ctx.Balances\n\n	ctx.Logger.Debug(\"decoding send\", len(tx.Data))\n	send := &Send{}\n", 1),
  ("action/staking/stake.go", "	zero := balance.NewAmountFromInt(0)\n", "	zero := balance.NewAmountFromInt(0)\n	ctx.Logger.Debug(\"checking stake address\", v.Address)\n", 1))
R("new-readonly-store-getters", ALLP,
  ("data/delegation/store.go", "// Validator data\n", """// HasValidatorAmount tells whether a total is recorded for the validator
func (st *DelegationStore) HasValidatorAmount(validatorAddress keys.Address) bool {
	amt, err := st.GetValidatorAmount(validatorAddress)
	return err == nil && amt != nil && !amt.IsZero()
}

// Validator data
""", 1),
  ("data/governance/proposal_fund_store.go", "func assembleTotalFundsKey(", """// HasFunds tells whether anything was contributed to the proposal
func (pf *ProposalFundStore) HasFunds(proposalID ProposalID) bool {
	return !pf.GetCurrentFundsForProposal(proposalID).IsZero()
}

func assembleTotalFundsKey(""", 1))

R("send-move-extracted-into-helper", ALLP,
  ("action/transfer/send.go", """	err = balances.MinusFromAddress(send.From.Bytes(), coin)
	if err != nil {
		log := fmt.Sprint("error debiting balance in send transaction ", send.From, "err", err)
		return false, action.Response{Log: log}
	}

	err = balances.AddToAddress(send.To.Bytes(), coin)
	if err != nil {
		log := fmt.Sprint("error crediting balance in send transaction ", send.From, "err", err)
		return false, action.Response{Log: log}
	}

	return true, action.Response{Events: action.GetEvent(send.Tags(), "send_tx")}
}""", """	if err = moveCoin(balances, send, coin); err != nil {
		return false, action.Response{Log: err.Error()}
	}

	return true, action.Response{Events: action.GetEvent(send.Tags(), "send_tx")}
}

// moveCoin debits the sender and credits the receiver
func moveCoin(balances *balance.Store, send *Send, coin balance.Coin) error {
	if err := balances.MinusFromAddress(send.From.Bytes(), coin); err != nil {
		return errors.Wrap(err, "error debiting balance in send transaction")
	}
	if err := balances.AddToAddress(send.To.Bytes(), coin); err != nil {
		return errors.Wrap(err, "error crediting balance in send transaction")
	}
	return nil
}"""),
  ("action/transfer/send.go", "import (\n", "import (\n\t\"github.com/Oneledger/protocol/data/balance\"\n", 1))

# ------------------------------------------------------------------ behaviour-preserving changes written by independent
# sub-agents (given only a property's text, asked for realistic maintenance commits in the anchored code that keep the
# property true); every registered check must stay silent on each of them.
import os as _os
_bd = _os.path.join(_os.path.dirname(_os.path.abspath(__file__)), "benign")
for _f in sorted(_os.listdir(_bd)) if _os.path.isdir(_bd) else []:
    if _f.endswith(".diff"):
        RP("benign-" + _f[:-5], ALL, "benign/" + _f)
