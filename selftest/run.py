#!/usr/bin/env python3
"""Both-ways self-test of the olint rules (not a registered check).

Each mutant is a small semantic edit of a scratch copy of /repo that still compiles; the named
check must exit 1 and report the expected rule. Each refactor is a behaviour-preserving edit; every
listed check must stay silent (exit 0). Scratch copies live under /var/tmp and are removed at once.

usage: selftest/run.py [-k substring] [-j N] [--keep]
"""
import json, os, shutil, subprocess, sys, tempfile, importlib.util, concurrent.futures as cf

HERE = os.path.dirname(os.path.abspath(__file__))
VERIF = os.path.dirname(HERE)
OLINT = os.environ.get("OLINT_BIN", os.path.join(VERIF, "bin", "olint"))
ENV = dict(os.environ, GOFLAGS="-mod=mod", GOPROXY="off", GOSUMDB="off", GOTOOLCHAIN="local")
ENV.pop("GOWORK", None)


def load_cases():
    spec = importlib.util.spec_from_file_location("cases", os.path.join(HERE, "cases.py"))
    m = importlib.util.module_from_spec(spec)
    spec.loader.exec_module(m)
    return m.MUTANTS, m.REFACTORS


def apply_edits(root, edits):
    for e in edits:
        path = os.path.join(root, e[0])
        s = open(path).read()
        old, new = e[1], e[2]
        cnt = s.count(old)
        want = e[3] if len(e) > 3 else 1
        if cnt != want:
            raise RuntimeError(f"{e[0]}: pattern occurs {cnt}x (want {want}): {old[:60]!r}")
        s = s.replace(old, new)
        open(path, "w").write(s)


def run_case(case, kind, keep=False):
    name = case["name"]
    tmp = tempfile.mkdtemp(prefix="olmut-", dir="/var/tmp")
    repo = os.path.join(tmp, "repo")
    vdir = os.path.join(tmp, "verif")
    try:
        shutil.copytree("/repo", repo, ignore=shutil.ignore_patterns(".git", "test_dbpath"))
        os.makedirs(vdir)
        shutil.copy(os.path.join(VERIF, "known_findings.json"), vdir)
        try:
            if case.get("patch"):
                pf = os.path.join(HERE, case["patch"])
                ap = subprocess.run(["git", "apply", "--whitespace=nowarn", pf], cwd=repo, capture_output=True, text=True)
                if ap.returncode != 0:
                    raise RuntimeError("patch does not apply: " + ap.stderr[-300:])
                import re as _re
                files = _re.findall(r"^\+\+\+ b/(\S+\.go)", open(pf).read(), _re.M)
                pkgs = sorted({"./" + os.path.dirname(f) for f in files})
            else:
                apply_edits(repo, case["edits"])
                pkgs = sorted({"./" + os.path.dirname(e[0]) for e in case["edits"]})
        except Exception as ex:
            return name, "ERROR", f"edit failed: {ex}"
        b = subprocess.run(["go", "build"] + pkgs, cwd=repo, env=ENV, capture_output=True, text=True)
        if b.returncode != 0:
            return name, "ERROR", "does not compile: " + b.stderr[-400:]
        props = case["property"] if isinstance(case["property"], list) else [case["property"]]
        out_all = ""
        codes = []
        p = subprocess.run([OLINT, "check", "-property", ",".join(props), "-repo", repo, "-verif", vdir],
                           capture_output=True, text=True, env=ENV)
        out_all = "\n".join(l for l in (p.stdout + p.stderr).splitlines() if not l.startswith("KNOWN-FINDING"))
        code = p.returncode
        if kind == "mutant":
            exp = case["expect"]
            exps = exp if isinstance(exp, list) else [exp]
            hit = code == 1 and all(("rule=" + x) in out_all for x in exps)
            if hit:
                return name, "CAUGHT", ""
            return name, "MISSED", f"exit={code}; expected rule(s) {exps}; output tail:\n" + out_all[-1500:]
        else:
            if code == 0:
                return name, "SILENT", ""
            return name, "FALSE-ALARM", f"exit={code}:\n" + out_all[-1500:]
    finally:
        if not keep:
            shutil.rmtree(tmp, ignore_errors=True)


def main():
    args = sys.argv[1:]
    sub = None
    jobs = 4
    keep = False
    while args:
        a = args.pop(0)
        if a == "-k":
            sub = args.pop(0)
        elif a == "-j":
            jobs = int(args.pop(0))
        elif a == "--keep":
            keep = True
    muts, refs = load_cases()
    work = [(c, "mutant") for c in muts] + [(c, "refactor") for c in refs]
    if sub:
        work = [(c, k) for c, k in work if sub in c["name"] or sub in str(c["property"])]
    bad = 0
    results = []
    with cf.ThreadPoolExecutor(max_workers=jobs) as ex:
        futs = {ex.submit(run_case, c, k, keep): (c, k) for c, k in work}
        for f in cf.as_completed(futs):
            c, k = futs[f]
            name, status, detail = f.result()
            results.append((k, str(c["property"]), name, status))
            ok = status in ("CAUGHT", "SILENT")
            print(f"{'ok  ' if ok else 'FAIL'} {k:8s} {str(c['property']):6s} {name}: {status}")
            if not ok:
                bad += 1
                print("     " + detail.replace("\n", "\n     "))
            sys.stdout.flush()
    results.sort()
    json.dump([{"kind": k, "property": p, "name": n, "status": s} for k, p, n, s in results],
              open(os.path.join(HERE, "last_results.json"), "w"), indent=1)
    print(f"{len(work)} cases, {bad} failed")
    sys.exit(1 if bad else 0)


if __name__ == "__main__":
    main()
